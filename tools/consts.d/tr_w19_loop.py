"""W19: section `w19_loop` - `RedirectionLoop::compute` (src/api/redirection_loop.rs, the redirect-chain walker of C19) TRANSLATED
from the source on every run, statement by statement, by the small fail-closed Rust -> Lean compiler in this file (own lexer,
recursive-descent parser for the subset below, continuation-passing translation).  Nothing of w4_translate.py is used or touched.

Generated (namespace Rio.Consts):
  genLoopFor                 `for x in xs { body }` with `break` / labelled `break`: structural recursion on the list; the body returns
                             the new loop state and a control code (0 = fell through, go on; 1 = `break` of this loop; k+1 = `break` of
                             the k-th enclosing loop); the result carries the code still to be propagated (0 after a normal end / own break)
  GenRedirectionError        the variants of `enum RedirectionError` (in declaration order)
  genRedirectionCodes        `const REDIRECTION_CODES`
  genLoopCompute             the body of `RedirectionLoop::compute`; result = the fields of `RedirectionLoop` in declaration order
                             (`hops` as the tuples of the fields of `RedirectionHop` in declaration order, `error`)

Representation: every Rust `String` / `&str` is a value of ONE abstract type `S` with decidable equality; string literals go through
the parameter `lit : String → S`; `.clone()`, `.as_str()`, `.to_string()` (on a string), `&`, `.iter()` are the identity; `u8` / `u16`
are `Nat` (the function does no arithmetic on them: only `==`, `!=`, `>`, `>=`, `contains`; `1..=max_hops` is `List.range' 1 (max_hops + 1 - 1)`,
also right for `max_hops = 255` where the Rust inclusive range does not overflow); `Result` is `Option` (`Ok` = `some`; the `Err` payload may only
be mentioned inside `log::warn!`, whose arguments must be plain identifiers / string literals, and which is skipped); `Vec` is `List`;
a `Header` is the pair (name, value).  Mutable locals become shadowing `let`s; a loop is `genLoopFor` over the iterated list with the tuple of
the variables its body assigns as state; an `if` / `if let` / two-arm `match` none of whose branches leaves a loop yields the tuple of
(its value, the variables it assigns); otherwise the statements after it are placed into every branch that falls through.

ABSTRACT PARAMETERS of `genLoopCompute` (callees that are NOT translated; each is a function argument; `Ex` = Example, `Rt` = Router<Rule>,
`Cf` = RouterConfig, `Rq` = Request, `Rs` = Vec<Arc<Route<Rule>>>, `Ac` = Action, `Pu` = url::Url):
  lit                : String → S            string literals / `String::from("..")`
  exampleUrl         : Ex → S                field `example.url`
  exampleMethod      : Ex → Option S         field `example.method`
  responseStatusCode : Ex → Option Nat       field `example.response_status_code`
  withUrl            : Ex → S → Ex           `Example::with_url(&self, url)`
  withMethod         : Ex → Option S → Ex    `Example::with_method(&self, method)`
  routerConfig       : Rt → Cf               field `router.config`
  fromExample        : Cf → Ex → Option Rq   `Request::from_example(&config, &example)` (`Err(_)` = none)
  matchRequest       : Rt → Rq → Rs          `Router::match_request(&self, &request)`
  fromRoutesRule     : Rs → Rq → Ac          `Action::from_routes_rule(routes, &request, None)` (third argument must be the literal `None`)
  getStatusCode      : Ac → Nat → Nat × Ac   `Action::get_status_code(&mut self, code, None)`: result and the MUTATED action (last argument must be `None`)
  filterHeaders      : Ac → Nat → List (S × S) × Ac   `Action::filter_headers(&mut self, Vec::new(), code, false, None)`: the (name, value) pairs and the
                                             mutated action (first / third / fourth argument must be exactly `Vec::new()` / `false` / `None`)
  lower              : S → S                 `str::to_lowercase`
  joinUrl            : S → S → S             the free function `join_url(base, path)` of the same file (url crate: parse + join)
  urlParse           : S → Option Pu         `Url::parse(&s)` (`Err(_)` = none)
  hostStr            : Pu → Option S         `Url::host_str`
then the arguments of `compute` in signature order: router, max_hops, example, project_domains.
The signatures of these callees are checked by shape (fail closed) but their bodies are not read here.

Also in the subset (met in refactorings of this function): `xs.iter().any(|x| C)` -> `List.any xs (fun x => C)`, `xs.iter().find(|x| C)` -> `List.find? (fun x => C) xs`
(a closure anywhere else fails closed), match arms of the forms `=> break,` and `=> x = E,`.

FAILS CLOSED (naming the source line) on every statement / expression form not listed: `while`, `loop`, `continue`, `return`, `?`, arithmetic,
indexing, closures other than the argument of `.any` / `.find`, casts, `else if` used as a value, a `let` that shadows a variable in scope, a `&mut self` callee anywhere but as the whole
initialiser of a `let`, a `for` over a vector its body mutates unless the mutating block ends in `break`, statements after a `break`, an `if`
without effect, unknown methods / paths / fields / macros, kind (type) mismatches of the light kind inference.
"""
import re


class _Fail(Exception):
    pass


_TOKEN = re.compile(r"""
    (?P<ws>\s+) |
    (?P<comment>//[^\n]*) |
    (?P<label>'[a-z_][a-z0-9_]*(?!['a-z0-9_])) |
    (?P<str>"(?:\\.|[^"\\])*") |
    (?P<num>\d+) |
    (?P<macro>[A-Za-z_][A-Za-z0-9_]*!(?!=)) |
    (?P<id>[A-Za-z_][A-Za-z0-9_]*) |
    (?P<op>\.\.=|::|=>|==|!=|<=|>=|&&|\|\||[!.,;:(){}\[\]&=<>|])
""", re.X)


class _Tok:
    def __init__(self, kind, text, line):
        self.kind, self.text, self.line = kind, text, line


def _lex(src, first_line, where, lines):
    toks, pos, line = [], 0, first_line
    while pos < len(src):
        m = _TOKEN.match(src, pos)
        if not m:
            raise _Fail(f"{where}:{line}: character not in the subset at {src[pos:pos + 12]!r}: `{lines.get(line, '').strip()}`")
        kind, text = m.lastgroup, m.group(0)
        if kind not in ("ws", "comment"):
            toks.append(_Tok(kind, text, line))
        line += text.count("\n")
        pos = m.end()
    return toks


_KEYWORDS = {"while", "loop", "continue", "return", "as", "move", "unsafe", "fn", "impl", "struct", "enum", "mut", "ref", "in", "else", "where"}


# ------------------------------------------------------------------------------------------------ parser
class _Parser:
    def __init__(self, toks, where, lines):
        self.t, self.i, self.where, self.lines = toks, 0, where, lines

    def fail(self, msg, line=None):
        if line is None:
            line = self.peek().line
        raise _Fail(f"{self.where}:{line}: {msg}: `{self.lines.get(line, '').strip()}`")

    def peek(self, k=0):
        return self.t[self.i + k] if self.i + k < len(self.t) else _Tok("eof", "", self.t[-1].line if self.t else 0)

    def at(self, text, k=0):
        return self.peek(k).text == text and self.peek(k).kind != "str"

    def eat(self, text):
        if not self.at(text):
            self.fail(f"expected `{text}`, found `{self.peek().text}`")
        self.i += 1
        return self.t[self.i - 1]

    def ident(self):
        tok = self.peek()
        if tok.kind != "id" or tok.text in _KEYWORDS:
            self.fail(f"expected an identifier, found `{tok.text}`")
        self.i += 1
        return tok.text

    def block(self):
        self.eat("{")
        stmts, tail = [], None
        while not self.at("}"):
            st = self.statement()
            if st[0] == "tail":
                if not self.at("}"):
                    self.fail("expression without `;` in the middle of a block")
                tail = st[1]
            else:
                stmts.append(st)
        self.eat("}")
        return stmts, tail

    def pattern(self):
        if self.at("("):
            self.eat("(")
            names = [self.ident()]
            while self.at(","):
                self.eat(",")
                names.append(self.ident())
            self.eat(")")
            if len(names) < 2:
                self.fail("tuple pattern with one component")
            return ("ptuple", names)
        return ("pvar", self.ident())

    def statement(self):
        tok = self.peek()
        line = tok.line
        if tok.kind == "label":
            self.i += 1
            self.eat(":")
            if not self.at("for"):
                self.fail("a label is only supported on a `for` loop")
            return self.for_stmt(tok.text)
        if self.at("for"):
            return self.for_stmt(None)
        if self.at("let"):
            self.eat("let")
            mut = False
            if self.at("mut"):
                self.eat("mut")
                mut = True
            pat = self.pattern()
            if self.at(":"):
                self.fail("type annotation on `let` is not in the subset")
            self.eat("=")
            if self.at("if") or self.at("match"):
                node = self.if_chain() if self.at("if") else self.match_node()
                self.eat(";")
                return ("letbranch", pat, mut, node, line)
            e = self.expr()
            self.eat(";")
            return ("let", pat, mut, e, line)
        if self.at("if"):
            return ("branch", self.if_chain(), line)
        if self.at("match"):
            node = self.match_node()
            if self.at(";"):
                self.eat(";")
            return ("branch", node, line)
        if self.at("break"):
            self.eat("break")
            label = None
            if self.peek().kind == "label":
                label = self.peek().text
                self.i += 1
            self.eat(";")
            return ("break", label, line)
        if tok.kind == "id" and tok.text in _KEYWORDS:
            self.fail(f"statement form `{tok.text}` is not in the subset")
        if tok.kind == "id" and tok.text == "log" and self.at("::", 1) and self.peek(2).kind == "macro":
            self.i += 2
            name = self.peek().text
            if name not in ("warn!", "info!", "debug!", "error!", "trace!"):
                self.fail(f"macro `log::{name}` is not in the subset")
            self.i += 1
            self.eat("(")
            while not self.at(")"):
                a = self.peek()
                if not (a.kind in ("str", "id") and a.text not in _KEYWORDS or a.text == ","):
                    self.fail("argument of a log macro that is not a plain identifier / string literal")
                self.i += 1
            self.eat(")")
            self.eat(";")
            return ("log", line)
        e = self.expr()
        if self.at("="):
            self.eat("=")
            rhs = self.expr()
            self.eat(";")
            if e[0] != "var":
                self.fail("assignment to something that is not a local variable", line)
            return ("assign", e[1], rhs, line)
        if self.at(";"):
            self.eat(";")
            if e[0] == "mcall" and e[2] == "push" and e[1][0] == "var" and len(e[3]) == 1:
                return ("push", e[1][1], e[3][0], line)
            self.fail("expression statement not in the subset", line)
        if self.at("}"):
            return ("tail", e)
        self.fail(f"unexpected `{self.peek().text}`")

    def for_stmt(self, label):
        line = self.eat("for").line
        var = self.ident()
        self.eat("in")
        first = self.expr(no_struct=True)
        if self.at("..="):
            self.eat("..=")
            last = self.expr(no_struct=True)
            it = ("range", first, last, line)
        else:
            it = first
        body = self.block()
        if body[1] is not None:
            self.fail("a `for` body ending in an expression is not in the subset", line)
        return ("for", label, var, it, body, line)

    def if_chain(self):
        line = self.eat("if").line
        if self.at("let"):
            self.eat("let")
            ctor = self.ident()
            if ctor not in ("Ok", "Some"):
                self.fail(f"`if let {ctor}(..)` is not in the subset")
            self.eat("(")
            binder = self.ident()
            self.eat(")")
            self.eat("=")
            cond = ("iflet", ctor, binder, self.expr(no_struct=True))
        else:
            cond = ("cond", self.expr(no_struct=True))
        then = self.block()
        other = None
        if self.at("else"):
            self.eat("else")
            if self.at("if"):
                l2 = self.peek().line
                other = ([("branch", self.if_chain(), l2)], None)
            else:
                other = self.block()
        return ("if", cond, then, other, line)

    def match_node(self):
        """`match E { Ok(x) => A, Err(y) => B }` / `match E { Some(x) => A, None => B }` (either order) = `if let Ok(x) = E { A } else { B }`"""
        line = self.eat("match").line
        scrut = self.expr(no_struct=True)
        self.eat("{")
        arms = {}
        while not self.at("}"):
            ctor = self.ident()
            binder = None
            if ctor in ("Ok", "Err", "Some"):
                self.eat("(")
                binder = self.ident()
                self.eat(")")
            elif ctor != "None":
                self.fail(f"match arm `{ctor}` is not in the subset")
            self.eat("=>")
            if self.at("{"):
                body = self.block()
                if self.at(","):
                    self.eat(",")
            elif self.at("break"):
                bl = self.eat("break").line
                label = None
                if self.peek().kind == "label":
                    label = self.peek().text
                    self.i += 1
                body = ([("break", label, bl)], None)
                if not self.at("}"):
                    self.eat(",")
            else:
                e = self.expr()
                if self.at("="):
                    al = self.eat("=").line
                    rhs = self.expr()
                    if e[0] != "var":
                        self.fail("assignment to something that is not a local variable", al)
                    body = ([("assign", e[1], rhs, al)], None)
                else:
                    body = ([], None) if e == ("tuple", [], e[-1]) else ([], e)
                if not self.at("}"):
                    self.eat(",")
            if ctor in arms:
                self.fail(f"two arms for `{ctor}`", line)
            arms[ctor] = (binder, body)
        self.eat("}")
        if set(arms) == {"Ok", "Err"}:
            pos, neg = "Ok", "Err"
        elif set(arms) == {"Some", "None"}:
            pos, neg = "Some", "None"
        else:
            self.fail("`match` must have exactly the arms Ok / Err or Some / None", line)
        return ("if", ("iflet", pos, arms[pos][0], scrut), arms[pos][1], arms[neg][1], line, arms[neg][0])

    # ---- expressions
    def expr(self, no_struct=False):
        return self.or_expr(no_struct)

    def or_expr(self, ns):
        e = self.and_expr(ns)
        while self.at("||"):
            line = self.eat("||").line
            e = ("bin", "||", e, self.and_expr(ns), line)
        return e

    def and_expr(self, ns):
        e = self.cmp_expr(ns)
        while self.at("&&"):
            line = self.eat("&&").line
            e = ("bin", "&&", e, self.cmp_expr(ns), line)
        return e

    def cmp_expr(self, ns):
        e = self.unary(ns)
        for op in ("==", "!=", "<=", ">=", "<", ">"):
            if self.at(op):
                line = self.eat(op).line
                r = self.unary(ns)
                for op2 in ("==", "!=", "<=", ">=", "<", ">"):
                    if self.at(op2):
                        self.fail("chained comparison")
                return ("bin", op, e, r, line)
        return e

    def unary(self, ns):
        if self.at("!"):
            line = self.eat("!").line
            return ("not", self.unary(ns), line)
        if self.at("&"):
            self.eat("&")
            if self.at("mut"):
                self.fail("`&mut` expression is not in the subset")
            return self.unary(ns)
        return self.postfix(ns)

    def args(self):
        self.eat("(")
        out = []
        while not self.at(")"):
            out.append(self.expr())
            if not self.at(")"):
                self.eat(",")
        self.eat(")")
        return out

    def postfix(self, ns):
        e = self.primary(ns)
        while self.at("."):
            line = self.eat(".").line
            name = self.ident()
            if self.at("("):
                e = ("mcall", e, name, self.args(), line)
            elif self.at("::"):
                self.fail("turbofish is not in the subset")
            else:
                e = ("field", e, name, line)
        return e

    def primary(self, ns):
        tok = self.peek()
        line = tok.line
        if tok.kind == "num":
            self.i += 1
            return ("num", int(tok.text), line)
        if tok.kind == "str":
            self.i += 1
            return ("str", tok.text, line)
        if tok.kind == "macro":
            if tok.text != "vec!":
                self.fail(f"macro `{tok.text}` is not in the subset")
            self.i += 1
            self.eat("[")
            items = []
            while not self.at("]"):
                items.append(self.expr())
                if not self.at("]"):
                    self.eat(",")
            self.eat("]")
            return ("vec", items, line)
        if self.at("|"):
            self.eat("|")
            var = self.ident()
            self.eat("|")
            return ("closure", var, self.expr(ns), line)
        if self.at("("):
            self.eat("(")
            if self.at(")"):
                self.eat(")")
                return ("tuple", [], line)
            e = self.expr()
            if self.at(","):
                items = [e]
                while self.at(","):
                    self.eat(",")
                    if self.at(")"):
                        break
                    items.append(self.expr())
                self.eat(")")
                return ("tuple", items, line)
            self.eat(")")
            return e
        if self.at("["):
            self.eat("[")
            items = []
            while not self.at("]"):
                items.append(self.expr())
                if not self.at("]"):
                    self.eat(",")
            self.eat("]")
            return ("vec", items, line)
        if tok.kind == "id" and tok.text not in _KEYWORDS and tok.text not in ("if", "match", "for", "let", "break"):
            path = [self.ident()]
            while self.at("::"):
                self.eat("::")
                path.append(self.ident())
            if self.at("("):
                return ("pcall", path, self.args(), line)
            if self.at("{") and not ns and len(path) == 1 and path[0][0].isupper() and not path[0].isupper():
                self.eat("{")
                fields = []
                while not self.at("}"):
                    f = self.ident()
                    if self.at(":"):
                        self.eat(":")
                        v = self.expr()
                    else:
                        v = ("var", f, line)
                    fields.append((f, v))
                    if not self.at("}"):
                        self.eat(",")
                self.eat("}")
                return ("struct", path[0], fields, line)
            if len(path) == 1 and path[0] != "None":
                return ("var", path[0], line)
            return ("path", path, line)
        self.fail(f"expression form `{tok.text}` is not in the subset")


# ------------------------------------------------------------------------------------------------ translation
def _camel(name, first_upper=True):
    parts = [p for p in name.split("_") if p]
    s = "".join(p[0].upper() + p[1:] for p in parts)
    return s if first_upper else s[0].lower() + s[1:]


def _v(name):
    return "v" + _camel(name)


def _tuple(names):
    if not names:
        return "()"
    if len(names) == 1:
        return names[0]
    return "(" + ", ".join(names) + ")"


def _same(a, b):
    if a == b:
        return True
    if isinstance(a, tuple) and isinstance(b, tuple) and len(a) == len(b) and a[0] == b[0]:
        if a[0] in ("Option", "Vec", "Result"):
            return a[1] is None or b[1] is None or _same(a[1], b[1])
        if a[0] == "Tuple":
            return len(a[1]) == len(b[1]) and all(_same(x, y) for x, y in zip(a[1], b[1]))
    return False


def _proj(i, n):
    """projection i of an n-tuple (right-nested pairs)"""
    return "".join([".2"] * i) + (".1" if i < n - 1 else "")


class _K:
    """continuations of the statement in translation: `next(env, ind)` (fall through), the loop stack for `break`"""

    def __init__(self, next_, loops, vt, no_escape=None):
        self.next, self.loops, self.vt, self.no_escape = next_, loops, vt, no_escape


class _Tr:
    def __init__(self, parser, info, lean_str):
        self.p, self.info, self.lean_str = parser, info, lean_str

    def fail(self, msg, line):
        self.p.fail(msg, line)

    # ---- environment: list of (rust name, kind, mutable)
    @staticmethod
    def lookup(env, name):
        for n, k, m in reversed(env):
            if n == name:
                return k, m
        return None

    # ---- expressions -> (lean text, kind)
    def ex(self, e, env):
        tag, line = e[0], e[-1]
        if tag == "num":
            return str(e[1]), "Nat"
        if tag == "str":
            try:
                val = bytes(e[1][1:-1], "utf-8").decode("unicode_escape") if "\\" in e[1] else e[1][1:-1]
            except Exception:
                self.fail("string literal with an escape that is not in the subset", line)
            return f"(lit {self.lean_str(val)})", "S"
        if tag == "var":
            if e[1] == self.info["codes_name"]:
                return "genRedirectionCodes", ("Vec", "Nat")
            if e[1] in ("true", "false"):
                return e[1], "Bool"
            r = self.lookup(env, e[1])
            if r is None:
                self.fail(f"unknown variable `{e[1]}`", line)
            if r[0] == "ErrPayload":
                self.fail(f"the `Err` payload `{e[1]}` is used outside a log macro", line)
            return _v(e[1]), r[0]
        if tag == "not":
            t, k = self.ex(e[1], env)
            if k != "Bool":
                self.fail("`!` on a non-boolean", line)
            return f"(!{t})", "Bool"
        if tag == "bin":
            op = e[1]
            (a, ka), (b, kb) = self.ex(e[2], env), self.ex(e[3], env)
            if op in ("&&", "||"):
                if ka != "Bool" or kb != "Bool":
                    self.fail(f"`{op}` on non-booleans", line)
                return f"({a} {op} {b})", "Bool"
            if op in ("==", "!="):
                if not _same(ka, kb) or ka not in ("S", "Nat", "Bool"):
                    self.fail(f"`{op}` between kinds {ka} / {kb} is not in the subset", line)
                return f"({a} {op} {b})", "Bool"
            if ka != "Nat" or kb != "Nat":
                self.fail(f"`{op}` between kinds {ka} / {kb} is not in the subset", line)
            return f"(decide ({a} {op} {b}))", "Bool"
        if tag == "tuple":
            if not e[1]:
                self.fail("unit value is not in the subset here", line)
            parts = [self.ex(x, env) for x in e[1]]
            return "(" + ", ".join(p[0] for p in parts) + ")", ("Tuple", [p[1] for p in parts])
        if tag == "vec":
            parts = [self.ex(x, env) for x in e[1]]
            if not parts:
                self.fail("empty vector literal is not in the subset", line)
            if not all(_same(p[1], parts[0][1]) for p in parts):
                self.fail("vector literal with elements of different kinds", line)
            return "[" + ", ".join(p[0] for p in parts) + "]", ("Vec", parts[0][1])
        if tag == "path":
            if e[1] == ["None"]:
                return "none", ("Option", None)
            if len(e[1]) == 2 and e[1][0] == self.info["enum_name"] and e[1][1] in self.info["enum_variants"]:
                return "GenRedirectionError." + _camel(e[1][1], False), "Err"
            self.fail(f"path `{'::'.join(e[1])}` is not in the subset", line)
        if tag == "struct":
            return self.struct(e, env)
        if tag == "field":
            return self.field(e, env)
        if tag == "pcall":
            return self.pcall(e, env)
        if tag == "mcall":
            return self.mcall(e, env)
        if tag == "range":
            self.fail("a range is only supported as the iterator of a `for`", line)
        self.fail(f"expression form {tag} is not in the subset", line)

    def struct(self, e, env):
        name, fields, line = e[1], e[2], e[3]
        if name == self.info["hop_name"]:
            decl, kinds, res = self.info["hop_fields"], self.info["hop_kinds"], "Hop"
        elif name == self.info["loop_name"]:
            decl, kinds, res = self.info["loop_fields"], [("Vec", "Hop"), ("Option", "Err")], "Loop"
        else:
            self.fail(f"struct literal `{name}` is not in the subset", line)
        given = dict(fields)
        if len(given) != len(fields) or sorted(given) != sorted(decl):
            self.fail(f"`{name} {{ .. }}` does not initialise exactly the declared fields", line)
        out = []
        for f, k in zip(decl, kinds):
            t, kt = self.ex(given[f], env)
            if not _same(k, kt):
                self.fail(f"field `{f}` of `{name}` receives kind {kt}", line)
            out.append(t)
        return "(" + ", ".join(out) + ")", res

    def field(self, e, env):
        t, k = self.ex(e[1], env)
        f, line = e[2], e[3]
        table = {
            ("Example", "url"): ("exampleUrl", "S"), ("Example", "method"): ("exampleMethod", ("Option", "S")),
            ("Example", "response_status_code"): ("responseStatusCode", ("Option", "Nat")),
            ("Router", "config"): ("routerConfig", "Config"),
        }
        if (k, f) in table:
            fn, kind = table[(k, f)]
            return f"({fn} {t})", kind
        if k == "Hop" and f in self.info["hop_fields"]:
            i = self.info["hop_fields"].index(f)
            return t + _proj(i, len(self.info["hop_fields"])), self.info["hop_kinds"][i]
        if k == "Header" and f in ("name", "value"):
            return t + _proj(("name", "value").index(f), 2), "S"
        self.fail(f"field `.{f}` of a value of kind {k} is not in the subset", line)

    def pcall(self, e, env):
        path, args, line = "::".join(e[1]), e[2], e[3]
        if path == "Some" and len(args) == 1:
            t, k = self.ex(args[0], env)
            return f"(some {t})", ("Option", k)
        if path == "String::from" and len(args) == 1 and args[0][0] == "str":
            return self.ex(args[0], env)
        sigs = {
            "Request::from_example": ("fromExample", ["Config", "Example"], ("Result", "Request")),
            "Url::parse": ("urlParse", ["S"], ("Result", "Url")),
            "join_url": ("joinUrl", ["S", "S"], "S"),
        }
        if path == "Action::from_routes_rule":
            if len(args) != 3 or args[2][0] != "path" or args[2][1] != ["None"]:
                self.fail("`Action::from_routes_rule(routes, &request, None)`: the third argument must be the literal `None`", line)
            args = args[:2]
            sigs[path] = ("fromRoutesRule", ["Routes", "Request"], "Action")
        if path in sigs:
            fn, kinds, res = sigs[path]
            if len(args) != len(kinds):
                self.fail(f"`{path}` no longer has {len(kinds)} arguments", line)
            ts = []
            for a, k in zip(args, kinds):
                t, ka = self.ex(a, env)
                if not _same(k, ka):
                    self.fail(f"argument of `{path}` has kind {ka}, expected {k}", line)
                ts.append(t)
            return "(" + " ".join([fn] + ts) + ")", res
        self.fail(f"call of `{path}` is not in the subset", line)

    _MUT = {"get_status_code", "filter_headers"}

    def mut_call(self, e, env):
        """`recv.get_status_code(c, None)` / `recv.filter_headers(Vec::new(), c, false, None)` -> (lean text of the pair, result kind, receiver name)"""
        recv, name, args, line = e[1], e[2], e[3], e[4]
        if recv[0] != "var":
            self.fail(f"`.{name}(..)` on something that is not a local variable", line)
        r = self.lookup(env, recv[1])
        if r is None or r[0] != "Action":
            self.fail(f"`.{name}(..)` on a value that is not the Action", line)
        if not r[1]:
            self.fail(f"`.{name}(..)` (a `&mut self` method) on an immutable local", line)

        def is_none(a):
            return a[0] == "path" and a[1] == ["None"]
        if name == "get_status_code":
            if len(args) != 2 or not is_none(args[1]):
                self.fail("`get_status_code(code, None)`: the last argument must be the literal `None`", line)
            code, fn, res = args[0], "getStatusCode", "Nat"
        else:
            ok = (len(args) == 4 and args[0][0] == "pcall" and args[0][1] == ["Vec", "new"] and not args[0][2]
                  and args[2][0] == "var" and args[2][1] == "false" and is_none(args[3]))
            if not ok:
                self.fail("`filter_headers(Vec::new(), code, false, None)`: first / third / fourth argument changed", line)
            code, fn, res = args[1], "filterHeaders", ("Vec", "Header")
        t, k = self.ex(code, env)
        if k != "Nat":
            self.fail(f"status code argument of `{name}` has kind {k}", line)
        return f"({fn} {_v(recv[1])} {t})", res, recv[1]

    def mcall(self, e, env):
        name, args, line = e[2], e[3], e[4]
        if name in self._MUT:
            self.fail(f"`.{name}(..)` mutates its receiver: only supported as the whole initialiser of a `let`", line)
        t, k = self.ex(e[1], env)
        n = len(args)
        if name in ("any", "find") and n == 1 and args[0][0] == "closure" and isinstance(k, tuple) and k[0] == "Vec" and k[1] is not None:
            _, var, body, cl = args[0]
            env2 = self.bind(env, var, k[1], False, cl)
            c, kc = self.ex(body, env2)
            if kc != "Bool":
                self.fail(f"the closure of `.{name}` is not a boolean", cl)
            if name == "any":
                return f"(List.any {t} (fun {_v(var)} => {c}))", "Bool"
            return f"(List.find? (fun {_v(var)} => {c}) {t})", ("Option", k[1])
        if name == "clone" and n == 0:
            return t, k
        if name in ("as_str", "to_string", "to_owned") and n == 0 and k == "S":
            return t, k
        if name == "iter" and n == 0 and isinstance(k, tuple) and k[0] == "Vec":
            return t, k
        if name == "unwrap_or" and n == 1 and isinstance(k, tuple) and k[0] == "Option":
            d, kd = self.ex(args[0], env)
            if k[1] is None or not _same(k[1], kd):
                self.fail(f"`unwrap_or` default of kind {kd} on {k}", line)
            return f"(Option.getD {t} {d})", k[1]
        if name == "unwrap_or_default" and n == 0 and k == ("Option", "S"):
            return f"(Option.getD {t} (lit \"\"))", "S"
        if name == "to_lowercase" and n == 0 and k == "S":
            return f"(lower {t})", "S"
        if name == "is_empty" and n == 0 and isinstance(k, tuple) and k[0] == "Vec":
            return f"(List.isEmpty {t})", "Bool"
        if name == "contains" and n == 1 and isinstance(k, tuple) and k[0] == "Vec" and k[1] in ("S", "Nat"):
            a, ka = self.ex(args[0], env)
            if not _same(ka, k[1]):
                self.fail(f"`contains` of kind {ka} in a list of {k[1]}", line)
            return f"(List.contains {t} {a})", "Bool"
        sigs = {
            ("Example", "with_url"): ("withUrl", ["S"], "Example"),
            ("Example", "with_method"): ("withMethod", [("Option", "S")], "Example"),
            ("Router", "match_request"): ("matchRequest", ["Request"], "Routes"),
            ("Url", "host_str"): ("hostStr", [], ("Option", "S")),
        }
        if (k, name) in sigs:
            fn, kinds, res = sigs[(k, name)]
            if n != len(kinds):
                self.fail(f"`.{name}` no longer has {len(kinds)} arguments", line)
            ts = [t]
            for a, ke in zip(args, kinds):
                ta, ka = self.ex(a, env)
                if not _same(ke, ka) or (isinstance(ka, tuple) and ka[1] is None):
                    self.fail(f"argument of `.{name}` has kind {ka}, expected {ke}", line)
                ts.append(ta)
            return "(" + " ".join([fn] + ts) + ")", res
        self.fail(f"method `.{name}` with {n} argument(s) on a value of kind {k} is not in the subset", line)

    # ---- static analyses on blocks
    def declared(self, block):
        out = []
        for st in block[0]:
            if st[0] in ("let", "letbranch"):
                out += [st[1][1]] if st[1][0] == "pvar" else list(st[1][1])
            if st[0] in ("branch", "letbranch"):
                node = st[1] if st[0] == "branch" else st[3]
                out += self.declared(node[2]) + (self.declared(node[3]) if node[3] else [])
                if node[1][0] == "iflet" and node[1][2] != "_":
                    out.append(node[1][2])
            if st[0] == "for":
                out += [st[2]] + self.declared(st[4])
        return out

    def assigned_raw(self, block):
        out = []
        for st in block[0]:
            if st[0] == "assign" or st[0] == "push":
                out.append(st[1])
            if st[0] in ("let", "assign"):
                e = st[3] if st[0] == "let" else st[2]
                if e[0] == "mcall" and e[2] in self._MUT and e[1][0] == "var":
                    out.append(e[1][1])
            if st[0] in ("branch", "letbranch"):
                node = st[1] if st[0] == "branch" else st[3]
                out += self.assigned_raw(node[2]) + (self.assigned_raw(node[3]) if node[3] else [])
            if st[0] == "for":
                out += self.assigned_raw(st[4])
        return out

    def assigned(self, blocks, env):
        raw, decl = [], []
        for b in blocks:
            if b:
                raw += self.assigned_raw(b)
                decl += self.declared(b)
        return [n for n, _, _ in env if n in raw and n not in decl]

    def escapes(self, block, inner=()):
        """does the block contain a `break` that leaves the block (i.e. targets a loop outside it)?"""
        for st in block[0]:
            if st[0] == "break":
                if st[1] is None:
                    if not inner:
                        return True
                elif st[1] not in [l for l in inner if l]:
                    return True
            if st[0] in ("branch", "letbranch"):
                node = st[1] if st[0] == "branch" else st[3]
                if self.escapes(node[2], inner) or (node[3] and self.escapes(node[3], inner)):
                    return True
            if st[0] == "for" and self.escapes(st[4], inner + (st[1] or "",)):
                return True
        return False

    @staticmethod
    def falls_through(block):
        return not (block[0] and block[0][-1][0] == "break")

    def mentions(self, e, name):
        if isinstance(e, tuple):
            if len(e) >= 2 and e[0] == "var" and e[1] == name:
                return True
            return any(self.mentions(x, name) for x in e)
        if isinstance(e, list):
            return any(self.mentions(x, name) for x in e)
        return False

    def check_mutation_ends_loop(self, block, name, line):
        direct = [st for st in block[0] if st[0] in ("assign", "push") and st[1] == name]
        if direct and self.falls_through(block):
            self.fail(f"the `for` iterates over `{name}` and its body mutates `{name}` in a block that does not end in `break`", line)
        for st in block[0]:
            if st[0] in ("branch", "letbranch"):
                node = st[1] if st[0] == "branch" else st[3]
                self.check_mutation_ends_loop(node[2], name, line)
                if node[3]:
                    self.check_mutation_ends_loop(node[3], name, line)
            if st[0] == "for":
                self.check_mutation_ends_loop(st[4], name, line)

    # ---- statements (continuation-passing)
    def bind(self, env, name, kind, mut, line):
        if self.lookup(env, name) is not None or name in self.info["params"]:
            self.fail(f"`let {name}` shadows a variable in scope (not in the subset)", line)
        if _v(name) in self.info["reserved"]:
            self.fail(f"local `{name}` collides with a name of the generated text", line)
        return env + [(name, kind, mut)]

    def bind_pat(self, env, pat, kind, mut, line):
        if pat[0] == "pvar":
            return self.bind(env, pat[1], kind, mut, line), _v(pat[1])
        if not (isinstance(kind, tuple) and kind[0] == "Tuple" and len(kind[1]) == len(pat[1])):
            self.fail(f"tuple pattern against a value of kind {kind}", line)
        for n, k in zip(pat[1], kind[1]):
            env = self.bind(env, n, k, mut, line)
        return env, "(" + ", ".join(_v(n) for n in pat[1]) + ")"

    def seq(self, stmts, tail, env, K, ind, valk=None):
        pad = "  " * ind
        if not stmts:
            if valk is not None:
                if tail is None:
                    self.fail("a block that must produce a value ends without one", self.p.t[-1].line)
                return valk(tail, env, ind)
            if tail is not None:
                self.fail("a block ends in a value that is not used", tail[-1])
            return K.next(env, ind)
        st = stmts[0]

        def rest(env2, ind2):
            return self.seq(stmts[1:], tail, env2, K, ind2, valk)
        kind = st[0]
        if kind == "log":
            return rest(env, ind)
        if kind == "break":
            if stmts[1:] or tail is not None:
                self.fail("statements after `break`", st[2])
            return self.brk(st[1], K, ind, st[2])
        if kind == "let":
            _, pat, mut, e, line = st
            if e[0] == "mcall" and e[2] in self._MUT:
                t, k, recv = self.mut_call(e, env)
                env2, pt = self.bind_pat(env, pat, k, mut, line)
                return [f"{pad}let ({pt}, {_v(recv)}) := {t}"] + rest(env2, ind)
            t, k = self.ex(e, env)
            env2, pt = self.bind_pat(env, pat, k, mut, line)
            return [f"{pad}let {pt} := {t}"] + rest(env2, ind)
        if kind == "assign":
            _, name, e, line = st
            r = self.lookup(env, name)
            if r is None or not r[1]:
                self.fail(f"assignment to `{name}`, which is not a mutable local", line)
            if e[0] == "mcall" and e[2] in self._MUT:
                t, k, recv = self.mut_call(e, env)
                if not _same(k, r[0]):
                    self.fail(f"`{name}` of kind {r[0]} receives kind {k}", line)
                return [f"{pad}let ({_v(name)}, {_v(recv)}) := {t}"] + rest(env, ind)
            t, k = self.ex(e, env)
            if not _same(k, r[0]):
                self.fail(f"`{name}` of kind {r[0]} receives kind {k}", line)
            return [f"{pad}let {_v(name)} := {t}"] + rest(env, ind)
        if kind == "push":
            _, name, e, line = st
            r = self.lookup(env, name)
            t, k = self.ex(e, env)
            if r is None or not r[1] or not _same(r[0], ("Vec", k)):
                self.fail(f"`{name}.push(..)`: not a mutable vector of kind {k}", line)
            return [f"{pad}let {_v(name)} := {_v(name)} ++ [{t}]"] + rest(env, ind)
        if kind == "for":
            return self.for_(st, rest, env, K, ind)
        if kind == "branch":
            return self.branch(st[1], None, False, rest, env, K, ind, st[2])
        if kind == "letbranch":
            return self.branch(st[3], st[1], st[2], rest, env, K, ind, st[4])
        self.fail(f"statement form {kind} is not in the subset", st[-1])

    def brk(self, label, K, ind, line):
        pad = "  " * ind
        if K.no_escape:
            self.fail("internal: `break` in a branch classified as not escaping", line)
        if not K.loops:
            self.fail("`break` outside a loop", line)
        if label is None:
            d = 0
        else:
            if label not in K.loops:
                self.fail(f"`break {label}`: no enclosing loop with this label", line)
            d = K.loops.index(label)
        return [f"{pad}({K.vt}, {d + 1})"]

    def for_(self, st, rest, env, K, ind):
        _, label, var, it, body, line = st
        pad = "  " * ind
        if it[0] == "range":
            (a, ka), (b, kb) = self.ex(it[1], env), self.ex(it[2], env)
            if ka != "Nat" or kb != "Nat" or it[1][0] != "num":
                self.fail("range `a..=b`: a must be an integer literal and b a number", line)
            it_text, elem = f"(List.range' {a} ({b} + 1 - {a}))", "Nat"
        else:
            it_text, k = self.ex(it, env)
            if not (isinstance(k, tuple) and k[0] == "Vec" and k[1] is not None):
                self.fail(f"`for` over a value of kind {k}", line)
            elem = k[1]
        state = self.assigned([body], env)
        for n in state:
            if self.mentions(it, n):
                self.check_mutation_ends_loop(body, n, line)
        vt = _tuple([_v(n) for n in state])
        env_body = self.bind(env, var, elem, False, line)
        own = label if label is not None else ""
        if label is not None and label in K.loops:
            self.fail(f"label `{label}` is used twice", line)
        loops = [own] + list(K.loops)
        kb_ = _K(lambda env2, ind2: ["  " * ind2 + f"({vt}, 0)"], loops, vt)
        body_lines = self.seq(body[0], None, env_body, kb_, ind + 2)
        outer = self.escapes(body, (own,))
        head = f"genLoopFor {it_text} {vt} (fun {_v(var)} {vt} =>"
        if not outer:
            return [f"{pad}let {vt} := ({head}"] + body_lines + [f"{pad}  )).1"] + rest(env, ind)
        if not K.loops:
            self.fail("labelled `break` to a loop that does not enclose this one", line)
        out = [f"{pad}match {head}"] + body_lines + [f"{pad}  ) with"]
        out += [f"{pad}| ({vt}, 0) => ("] + rest(env, ind + 1) + [f"{pad}  )"]
        out += [f"{pad}| ({vt}, c + 1) => ({K.vt}, c + 1)"]
        return out

    def branch(self, node, pat, mut, rest, env, K, ind, line):
        pad = "  " * ind
        cond, then, other = node[1], node[2], node[3]
        errb = node[5] if len(node) > 5 else None
        other = other if other is not None else ([], None)
        env_then, env_else = env, env
        if cond[0] == "cond":
            c, k = self.ex(cond[1], env)
            if k != "Bool":
                self.fail("condition that is not a boolean", line)
            open_then, open_else, close = [f"{pad}if {c} then ("], [f"{pad}) else ("], [f"{pad})"]
        else:
            _, ctor, binder, e = cond
            t, k = self.ex(e, env)
            want = "Result" if ctor == "Ok" else "Option"
            if not (isinstance(k, tuple) and k[0] == want and k[1] is not None):
                self.fail(f"`{ctor}(..)` pattern against a value of kind {k}", line)
            if binder == "_":
                bt = "_"
            else:
                env_then = self.bind(env, binder, k[1], False, line)
                bt = _v(binder)
            if errb is not None and errb != "_":
                env_else = self.bind(env, errb, "ErrPayload", False, line)
            open_then, open_else, close = [f"{pad}match {t} with", f"{pad}| some {bt} => ("], [f"{pad}  )", f"{pad}| none => ("], [f"{pad}  )"]
        esc = self.escapes(then) or self.escapes(other)
        kinds = []
        if not esc:
            asg = self.assigned([then, other], env)
            if pat is None and not asg:
                self.fail("`if` / `match` without effect on the modelled state", line)
            names = [_v(n) for n in asg]

            def valk(v, env2, ind2):
                t, k = self.ex(v, env2)
                kinds.append(k)
                return ["  " * ind2 + (f"({t}, " + ", ".join(names) + ")" if names else t)]
            k2 = _K(lambda env2, ind2: ["  " * ind2 + _tuple(names)], K.loops, K.vt, no_escape=True)
            tl = self.seq(then[0], then[1], env_then, k2, ind + 1, valk if pat else None)
            el = self.seq(other[0], other[1], env_else, k2, ind + 1, valk if pat else None)
            env2 = env
            if pat:
                if not all(_same(k, kinds[0]) for k in kinds):
                    self.fail("the branches produce values of different kinds", line)
                env2, pt = self.bind_pat(env, pat, kinds[0], mut, line)
                lhs = f"({pt}, " + ", ".join(names) + ")" if names else pt
            else:
                lhs = _tuple(names)
            inner = open_then + tl + open_else + el + close
            return [f"{pad}let {lhs} :="] + ["  " + x for x in inner] + rest(env2, ind)
        # some branch leaves a loop: the continuation goes into every branch that falls through

        def valk2(v, env2, ind2):
            t, k = self.ex(v, env2)
            if pat[0] == "pvar" and v[0] == "var" and v[1] == pat[1] and self.lookup(env, pat[1]) is None and pat[1] not in self.info["params"]:
                # `Ok(request) => request` bound to `let request`: the same value under the same name
                r = self.lookup(env2, pat[1])
                return rest(env + [(pat[1], r[0], mut)], ind2)
            env3, pt = self.bind_pat(env, pat, k, mut, line)
            return ["  " * ind2 + f"let {pt} := {t}"] + rest(env3, ind2)
        k3 = _K(lambda env2, ind2: rest(env, ind2), K.loops, K.vt)
        tl = self.seq(then[0], then[1], env_then, k3, ind + 1, valk2 if pat else None)
        el = self.seq(other[0], other[1], env_else, k3, ind + 1, valk2 if pat else None)
        return open_then + tl + open_else + el + close


# ------------------------------------------------------------------------------------------------ source shapes
def _need(src, pattern, what, fail, flags=re.S):
    m = re.search(pattern, src, flags)
    if not m:
        fail(f"{what} not found / no longer has the modelled shape")
    return m


def _body_of(src, start, path, fail):
    if src[start - 1] != "{":
        fail(f"{path}: internal: body must start at a brace")
    depth, j = 1, start
    while j < len(src) and depth:
        depth += {"{": 1, "}": -1}.get(src[j], 0)
        j += 1
    if depth:
        fail(f"{path}: unbalanced braces")
    return "{" + src[start:j], src.count("\n", 0, start - 1) + 1


_KIND_OF_TYPE = {"String": "S", "u16": "Nat"}


def extract(read, fail, lean_str, lean_list):
    path = "src/api/redirection_loop.rs"
    src = read(path)
    lines = {n + 1: t for n, t in enumerate(src.split("\n"))}
    info = {}
    m = _need(src, r"\bconst ([A-Z_]+): \[u16; (\d+)\] = \[([0-9, ]+)\];", f"{path}: `const REDIRECTION_CODES: [u16; N] = [..]`", fail)
    codes = [int(x) for x in m.group(3).split(",") if x.strip()]
    if len(codes) != int(m.group(2)) or len(re.findall(r"\bconst ", src)) != 1:
        fail(f"{path}: the constant table changed shape")
    info["codes_name"] = m.group(1)
    m = _need(src, r"enum (\w+) \{([^}]*)\}", f"{path}: the error enum", fail)
    if len(re.findall(r"\benum ", src)) != 1:
        fail(f"{path}: more than one enum")
    info["enum_name"] = m.group(1)
    info["enum_variants"] = [v.strip() for v in m.group(2).split(",") if v.strip()]
    if not info["enum_variants"] or not all(re.fullmatch(r"[A-Z][A-Za-z]*", v) for v in info["enum_variants"]):
        fail(f"{path}: `enum {m.group(1)}` has variants with payload")
    structs = re.findall(r"pub struct (\w+) \{([^}]*)\}", src)
    if len(structs) != 2 or len(re.findall(r"\bstruct ", src)) != 2:
        fail(f"{path}: expected exactly the two structs RedirectionLoop / RedirectionHop")

    def fields(text):
        out = []
        for part in text.split(","):
            part = part.strip()
            if not part:
                continue
            fm = re.fullmatch(r"(?:pub )?(\w+): ([\w<>]+)", part)
            if not fm:
                fail(f"{path}: struct field `{part}` not understood")
            out.append((fm.group(1), fm.group(2)))
        return out
    (loop_name, loop_text), (hop_name, hop_text) = structs
    loop_fields, hop_fields = fields(loop_text), fields(hop_text)
    if [t for _, t in loop_fields] != [f"Vec<{hop_name}>", f"Option<{info['enum_name']}>"]:
        fail(f"{path}: `struct {loop_name}` no longer is {{ Vec<{hop_name}>, Option<{info['enum_name']}> }}")
    if sorted(t for _, t in hop_fields) != ["String", "String", "u16"]:
        fail(f"{path}: `struct {hop_name}` no longer has two String fields and one u16 field")
    info.update(loop_name=loop_name, hop_name=hop_name, loop_fields=[f for f, _ in loop_fields],
                hop_fields=[f for f, _ in hop_fields], hop_kinds=[_KIND_OF_TYPE[t] for _, t in hop_fields])
    sig = (r"fn compute\(router: &Router<Rule>, max_hops: u8, example: &Example, project_domains: Vec<String>\) -> " + loop_name + r" \{")
    m = _need(src, sig, f"{path}: `fn compute(router: &Router<Rule>, max_hops: u8, example: &Example, project_domains: Vec<String>) -> {loop_name}`", fail)
    _need(src, r"fn join_url\(base: &str, path: &str\) -> String \{", f"{path}: `fn join_url(base: &str, path: &str) -> String`", fail)
    # shapes of the abstract callees (bodies are not read)
    _need(read("src/api/examples.rs"), r"pub fn with_url\(&self, url: String\) -> Example \{", "src/api/examples.rs: `with_url(&self, url: String) -> Example`", fail)
    _need(read("src/api/examples.rs"), r"pub fn with_method\(&self, method: Option<String>\) -> Example \{", "src/api/examples.rs: `with_method(&self, method: Option<String>) -> Example`", fail)
    _need(read("src/http/request.rs"), r"pub fn from_example\(router_config: &RouterConfig, example: &Example\) -> Result<Self, \w+> \{",
          "src/http/request.rs: `from_example(router_config: &RouterConfig, example: &Example) -> Result<Self, _>`", fail)
    act = read("src/action/mod.rs")
    _need(act, r"pub fn from_routes_rule\(mut routes: Vec<Arc<Route<Rule>>>, request: &Request, mut unit_trace: Option<&mut UnitTrace>\) -> Action \{",
          "src/action/mod.rs: signature of `from_routes_rule`", fail)
    _need(act, r"pub fn get_status_code\(&mut self, response_status_code: u16, unit_trace: Option<&mut UnitTrace>\) -> u16 \{",
          "src/action/mod.rs: signature of `get_status_code`", fail)
    _need(act, r"pub fn filter_headers\(\s*&mut self,\s*headers: Vec<Header>,\s*response_status_code: u16,\s*add_rule_ids_header: bool,\s*(?:mut )?unit_trace: Option<&mut UnitTrace>,?\s*\) -> Vec<Header> \{",
          "src/action/mod.rs: signature of `filter_headers`", fail)
    _need(read("src/http/header.rs"), r"pub struct Header \{\s*pub name: String,\s*pub value: String,\s*\}", "src/http/header.rs: `struct Header { name, value }`", fail)

    body, first_line = _body_of(src, m.end(), path, fail)
    info["params"] = ["router", "max_hops", "example", "project_domains"]
    info["reserved"] = set()
    try:
        toks = _lex(body, first_line, path, lines)
        parser = _Parser(toks, path, lines)
        stmts, tail = parser.block()
        if parser.i != len(toks):
            parser.fail("trailing tokens after the function body")
        tr = _Tr(parser, info, lean_str)
        env0 = []
        for n, k in zip(info["params"], ["Router", "Nat", "Example", ("Vec", "S")]):
            env0.append((n, k, False))
        info["params"] = []   # they are in scope as ordinary immutable variables from here on

        def final(v, env, ind):
            t, k = tr.ex(v, env)
            if k != "Loop":
                parser.fail(f"the function does not end in a `{loop_name} {{ .. }}` value", v[-1])
            return ["  " * ind + t]

        def no_next(env, ind):
            parser.fail("the function body ends without a value", toks[-1].line)
        body_lines = tr.seq(stmts, tail, env0, _K(no_next, [], None), 1, final)
    except _Fail as e:
        fail(str(e))

    hop_ty = " × ".join({"S": "S", "Nat": "Nat"}[k] for k in info["hop_kinds"])
    variants = " ".join("| " + _camel(v, False) for v in info["enum_variants"])
    out = [
        "-- src/api/redirection_loop.rs: RedirectionLoop::compute translated statement by statement (tools: w19_loop.py)",
        "/-- `for x in xs { body }` with `break` / labelled `break`.  `body x s = (s', code)`: 0 = fell through (next element),",
        "1 = `break` of this loop, k + 1 = `break` of the k-th enclosing loop; the result carries the code still to propagate. -/",
        "def genLoopFor {α σ : Type} : List α → σ → (α → σ → σ × Nat) → σ × Nat",
        "  | [], s, _ => (s, 0)",
        "  | x :: rest, s, body =>",
        "    match body x s with",
        "    | (s', 0) => genLoopFor rest s' body",
        "    | (s', c + 1) => (s', c)",
        "",
        f"/-- `enum {info['enum_name']}` -/",
        f"inductive GenRedirectionError where {variants}",
        "deriving DecidableEq, Repr",
        "",
        f"/-- `const {info['codes_name']}` -/",
        "def genRedirectionCodes : List Nat := [" + ", ".join(str(c) for c in codes) + "]",
        "",
        "set_option linter.unusedVariables false in",
        f"/-- `{loop_name}::compute`; a hop is ({', '.join(info['hop_fields'])}), the result ({', '.join(info['loop_fields'])}).",
        "Abstract callees are the function parameters (see the docstring of tools w19_loop.py). -/",
        "def genLoopCompute {S Ex Rt Cf Rq Rs Ac Pu : Type} [DecidableEq S] (lit : String → S)",
        "    (exampleUrl : Ex → S) (exampleMethod : Ex → Option S) (responseStatusCode : Ex → Option Nat)",
        "    (withUrl : Ex → S → Ex) (withMethod : Ex → Option S → Ex) (routerConfig : Rt → Cf)",
        "    (fromExample : Cf → Ex → Option Rq) (matchRequest : Rt → Rq → Rs) (fromRoutesRule : Rs → Rq → Ac)",
        "    (getStatusCode : Ac → Nat → Nat × Ac) (filterHeaders : Ac → Nat → List (S × S) × Ac)",
        "    (lower : S → S) (joinUrl : S → S → S) (urlParse : S → Option Pu) (hostStr : Pu → Option S)",
        "    (vRouter : Rt) (vMaxHops : Nat) (vExample : Ex) (vProjectDomains : List S) :",
        f"    List ({hop_ty}) × Option GenRedirectionError :=",
    ]
    return out + body_lines
