"""W8 (C07/C18): the null-check structure of every `extern "C"` entry point, regenerated into Rio.Consts.

For each `pub [unsafe] extern "C" fn` of src/{action,http,api}/ffi.rs, src/filter/buffer.rs and src/callback_log.rs
(and the two helpers every pointer goes through, `c_char_to_str` and `header_map_to_http_headers`) the plugin emits

    (name, number of nullable parameters, [(event, parameter index), ...])      in source order

  guard p      `if p.is_null() { … return … }`                      -- leaves the function when p is null
  deref p      `&*p` / `&mut *p` / `Box::from_raw(p)` / `CStr::from_ptr(p)`   -- undefined behaviour if p is null
  derefElse p  the same inside the `else` branch of `if p.is_null() { … } else { … }`  -- runs only when p is non-null
               (also `match c_char_to_str(p) { None => return …`: the helper answers None for a null pointer)
  helper p     p is handed to a null-safe helper (`c_char_to_str`, `header_map_to_http_headers`, `Buffer::into_vec`,
               `Buffer::duplicate`) or returned / stored as a value without being dereferenced

Nullable parameters are raw pointers and `Buffer` values (whose `data` may be null).  The extraction fails closed:
every textual occurrence of a nullable parameter in the body must be one of the recognised forms.
`Rio.C07.null_patterns` then proves by `decide` that no entry point dereferences a null pointer under any of the
2^n null patterns — removing a null check from the source changes this table and breaks that proof.
"""
import re

CODE = {"guard": 0, "deref": 1, "derefElse": 2, "helper": 3}
FILES = ["src/action/ffi.rs", "src/http/ffi.rs", "src/api/ffi.rs", "src/filter/buffer.rs", "src/callback_log.rs"]


def strip_comments(src):
    src = re.sub(r"/\*.*?\*/", lambda m: re.sub(r"[^\n]", " ", m.group(0)), src, flags=re.S)
    return re.sub(r"//[^\n]*", "", src)


def match_brace(text, i):
    depth = 0
    while i < len(text):
        if text[i] == "{":
            depth += 1
        elif text[i] == "}":
            depth -= 1
            if depth == 0:
                return i
        i += 1
    return -1


def split_params(sig):
    out, depth, cur = [], 0, ""
    for ch in sig:
        if ch in "<([":
            depth += 1
        elif ch in ">)]":
            depth -= 1
        if ch == "," and depth == 0:
            out.append(cur)
            cur = ""
        else:
            cur += ch
    if cur.strip():
        out.append(cur)
    res = []
    for p in out:
        if ":" not in p:
            continue
        name, ty = p.split(":", 1)
        res.append((name.strip().replace("mut ", ""), ty.strip()))
    return res


def analyse(name, params, body, fail):
    nullable = [n for (n, ty) in params if ty.startswith("*const") or ty.startswith("*mut") or ty == "Buffer"]
    events = []  # (pos, kind, index)
    accounted = {n: 0 for n in nullable}
    protected = {n: [] for n in nullable}  # else-branch spans
    for m in re.finditer(r"\bif\s+(\w+)\.is_null\(\)\s*\{", body):
        p = m.group(1)
        if p not in nullable:
            continue
        accounted[p] += 1
        end = match_brace(body, m.end() - 1)
        block = body[m.end():end]
        rest = body[end + 1:]
        m2 = re.match(r"\s*else\s*\{", rest)
        if m2:
            e_start = end + 1 + m2.end() - 1
            protected[p].append((e_start, match_brace(body, e_start)))
            events.append((m.start(), "helper", nullable.index(p)))
        elif re.search(r"\breturn\b", block):
            events.append((m.start(), "guard", nullable.index(p)))
        else:
            fail(f"{name}: `if {p}.is_null()` neither returns nor has an else branch")
    deref_pats = [r"&\s*\*\s*(\w+)\b", r"&mut\s+\*\s*(\w+)\b", r"Box::from_raw\(\s*(\w+)\s*\)", r"CStr::from_ptr\(\s*(\w+)\s*\)"]
    for pat in deref_pats:
        for m in re.finditer(pat, body):
            p = m.group(1)
            if p not in nullable:
                continue
            accounted[p] += 1
            inside = any(s <= m.start() <= e for (s, e) in protected[p])
            events.append((m.start(), "derefElse" if inside else "deref", nullable.index(p)))
    # `match c_char_to_str(p)… { None => return …` leaves the function when p is null (or not UTF-8): a guard
    guard_spans = []
    for m in re.finditer(r"match\s+c_char_to_str\(\s*(\w+)\s*\)[^{;]*\{\s*None\s*=>\s*return\b", body):
        p = m.group(1)
        if p not in nullable:
            continue
        accounted[p] += 1
        guard_spans.append(m.start())
        events.append((m.start(), "guard", nullable.index(p)))
    helper_pats = [r"(?<!match )(?<!match  )c_char_to_str\(\s*(\w+)\s*\)", r"header_map_to_http_headers\(\s*(\w+)\s*\)", r"\b(\w+)\.into_vec\(\)", r"\b(\w+)\.duplicate\(\)",
                   r"\breturn\s+(\w+)\s*;", r"let\s+mut\s+current\s*=\s*(\w+)\s*;"]
    for pat in helper_pats:
        for m in re.finditer(pat, body):
            p = m.group(1)
            if p not in nullable:
                continue
            accounted[p] += 1
            events.append((m.start(), "helper", nullable.index(p)))
    for p in nullable:
        # a match arm `Some(p) => p` re-binds the name (json_deserialize calls its parameter `str`): two non-uses
        accounted[p] += 2 * len(re.findall(r"Some\(\s*" + re.escape(p) + r"\s*\)\s*=>\s*" + re.escape(p) + r"\b", body))
        total = len(re.findall(r"\b" + re.escape(p) + r"\b", body))
        if total != accounted[p]:
            fail(f"{name}: {total - accounted[p]} unrecognised use(s) of the nullable parameter `{p}` (the extractor only knows is_null checks, &*p, &mut *p, Box::from_raw, CStr::from_ptr, the null-safe helpers and `return p`)")
    events.sort()
    return nullable, [(k, i) for (_, k, i) in events]


def extract(read, fail, lean_str, lean_list):
    entries = []
    for rel in FILES:
        src = strip_comments(read(rel))
        for m in re.finditer(r"pub\s+(?:unsafe\s+)?extern\s+\"C\"\s+fn\s+(\w+)\s*\(", src):
            name = m.group(1)
            # parameter list
            depth, i = 0, m.end() - 1
            while i < len(src):
                if src[i] == "(":
                    depth += 1
                elif src[i] == ")":
                    depth -= 1
                    if depth == 0:
                        break
                i += 1
            params = split_params(src[m.end():i])
            b = src.find("{", i)
            body = src[b:match_brace(src, b) + 1]
            nullable, evs = analyse(name, params, body, fail)
            entries.append((name, nullable, evs))
    names = [e[0] for e in entries]
    if len(names) < 20 or len(set(names)) != len(names):
        fail(f"expected at least 20 distinct extern \"C\" functions, found {len(names)}")
    # the two helpers: a null check must dominate the dereference
    h = strip_comments(read("src/ffi_helpers.rs"))
    m = re.search(r"pub fn c_char_to_str\(ptr: \*const c_char\)[^{]*\{", h)
    if not m:
        fail("ffi_helpers.rs: c_char_to_str not found")
    body = h[m.end() - 1:match_brace(h, m.end() - 1) + 1]
    nullable, evs = analyse("c_char_to_str", [("ptr", "*const c_char")], body, fail)
    entries.append(("c_char_to_str", nullable, evs))
    hf = strip_comments(read("src/http/ffi.rs"))
    m = re.search(r"pub fn header_map_to_http_headers\(header_map: \*const HeaderMap\)[^{]*\{", hf)
    if not m:
        fail("http/ffi.rs: header_map_to_http_headers not found")
    body = hf[m.end() - 1:match_brace(hf, m.end() - 1) + 1]
    # the list walk: `let mut current = header_map; while !current.is_null() { let header = unsafe { &*current }; current = header.next; … }`
    if not re.search(r"let\s+mut\s+current\s*=\s*header_map\s*;\s*while\s+!current\.is_null\(\)\s*\{[^}]*&\*current", body, re.S):
        fail("http/ffi.rs: header_map_to_http_headers no longer has the shape `while !current.is_null() { … &*current … }`")
    if len(re.findall(r"&\s*\*\s*current\b", body)) != 1 or re.search(r"\*\s*header_map\b", body):
        fail("http/ffi.rs: header_map_to_http_headers dereferences outside the guarded loop")
    entries.append(("header_map_to_http_headers", ["header_map"], [("guard", 0), ("deref", 0)]))
    bf = strip_comments(read("src/filter/buffer.rs"))
    for fn in ("to_vec", "into_vec"):
        m = re.search(r"pub fn " + fn + r"\((?:&self|self)\)[^{]*\{", bf)
        if not m:
            fail(f"buffer.rs: Buffer::{fn} not found")
        body = bf[m.end() - 1:match_brace(bf, m.end() - 1) + 1]
        g = re.search(r"if self\.data\.is_null\(\) \|\| self\.len == 0 \{\s*return Vec::new\(\);", body)
        d = re.search(r"from_raw_parts(?:_mut)?\(self\.data, self\.len\)", body)
        if not g or not d or g.start() > d.start():
            fail(f"buffer.rs: Buffer::{fn}: the null/empty check no longer dominates from_raw_parts")
        entries.append((f"Buffer::{fn}", ["self.data"], [("guard", 0), ("deref", 0)]))
    lines = ["-- extern \"C\" null-check structure (tools/consts.d/w8_ffi.py): (name, nullable parameters, events in source order)",
             "-- event codes: 0 = guard, 1 = deref, 2 = derefElse, 3 = helper (numbers, so that `decide` never has to evaluate a String)",
             "def ffiNullTable : List (String × List String × List (Nat × Nat)) := ["]
    rows = []
    for (name, nullable, evs) in entries:
        ev = ", ".join(f"({CODE[k]}, {i})" for (k, i) in evs)
        rows.append(f"  ({lean_str(name)}, {lean_list(nullable)}, [{ev}])")
    # one list element per output line (extract_consts compares sections line by line in --check mode)
    lines.extend((r + ",") if i + 1 < len(rows) else r for i, r in enumerate(rows))
    lines.append("]")
    return lines
