"""W8 (C07/C18): the null-check structure of every `extern "C"` entry point, regenerated into Rio.Consts.

For each `pub [unsafe] extern "C" fn` of src/{action,http,api}/ffi.rs, src/filter/buffer.rs and src/callback_log.rs
and for the four helpers every pointer goes through (`c_char_to_str`, `header_map_to_http_headers`, `Buffer::to_vec`,
`Buffer::into_vec`) the plugin emits

    (name, nullable parameters, [(event code, parameter index), ...])      in source order

  0 guard p      a TOP-LEVEL statement of the function body (brace depth 1, not nested under any other condition)
                 `if p.is_null() [|| more] { …; return <expr>; }` whose block ENDS in an unconditional `return`
                 (no `if` / `match` / loop inside the block), or the top-level statement
                 `[let x =] match c_char_to_str(p)[…] { None => return <expr>, … }` (the helper answers None for NULL)
  1 deref p      `&*p` / `&mut *p` / `Box::from_raw(p)` / `CStr::from_ptr(p)` / `from_raw_parts[_mut](p, …)`
  2 derefElse p  a dereference inside the `else` block of `if p.is_null() { … } else { … }`  (runs only when p is non-null)
  3 helper p     p is handed to a null-safe helper (`c_char_to_str`, `header_map_to_http_headers`, `Buffer::into_vec`,
                 `Buffer::duplicate`) or returned / copied as a value without being dereferenced

Events are ordered by text position; because a guard is a top-level statement ending in an unconditional return, text
order is control-flow order for it: `Rio.C07.null_patterns` (`decide` on the table) fails when a dereference of p
precedes its guard.  The extraction FAILS CLOSED (exit 1, the tie is broken) when
  * an `if p.is_null()` is nested under another condition, or its block does not end in an unconditional return and has
    no `else` (a weakened check), or contains control flow before the return;
  * a nullable parameter occurs in a form that is none of the above;
  * a built-in self-test (negative samples: nested check, conditional return, check inside another `if`) is accepted.
`header_map_to_http_headers` walks a list: its entry is derived from the shape
`let mut current = header_map; while !current.is_null() { … &*current … }` with every dereference inside the loop body.
`ffiNullTableSize` is the number of entries (so that texts need not repeat a number).
"""
import re

CODE = {"guard": 0, "deref": 1, "derefElse": 2, "helper": 3}
FILES = ["src/action/ffi.rs", "src/http/ffi.rs", "src/api/ffi.rs", "src/filter/buffer.rs", "src/callback_log.rs"]


class Reject(Exception):
    pass


def strip_comments(src):
    src = re.sub(r"/\*.*?\*/", lambda m: re.sub(r"[^\n]", " ", m.group(0)), src, flags=re.S)
    return re.sub(r"//[^\n]*", "", src)


def match_brace(text, i):
    depth = 0
    while i < len(text):
        if text[i] == "{":
            depth += 1
        elif text[i] == "}":
            depth -= 1
            if depth == 0:
                return i
        i += 1
    return -1


def depth_at(body, pos):
    """brace depth of position pos inside `body` (body starts with the `{` of the function: depth 1 = top level)"""
    d = 0
    for ch in body[:pos]:
        if ch == "{":
            d += 1
        elif ch == "}":
            d -= 1
    return d


def split_params(sig):
    out, depth, cur = [], 0, ""
    for ch in sig:
        if ch in "<([":
            depth += 1
        elif ch in ">)]":
            depth -= 1
        if ch == "," and depth == 0:
            out.append(cur)
            cur = ""
        else:
            cur += ch
    if cur.strip():
        out.append(cur)
    res = []
    for p in out:
        if ":" not in p:
            continue
        name, ty = p.split(":", 1)
        res.append((name.strip().replace("mut ", ""), ty.strip()))
    return res


def ends_in_unconditional_return(block):
    """the block (text between the braces) is a sequence of simple statements whose last one is `return …;`"""
    if re.search(r"\b(if|match|while|for|loop)\b", block):
        return False
    stmts = [x.strip() for x in block.strip().rstrip(";").split(";") if x.strip()]
    return bool(stmts) and re.match(r"return\b", stmts[-1]) is not None


DEREFS = [r"&\s*\*\s*({P})\b", r"&mut\s+\*\s*({P})\b", r"Box::from_raw\(\s*({P})\s*\)", r"CStr::from_ptr\(\s*({P})\s*\)",
          r"from_raw_parts(?:_mut)?\(\s*({P})\s*,"]
HELPERS = [r"(?<!match )(?<!match  )c_char_to_str\(\s*({P})\s*\)", r"header_map_to_http_headers\(\s*({P})\s*\)", r"\b({P})\.into_vec\(\)",
           r"\b({P})\.duplicate\(\)", r"\breturn\s+({P})\s*;", r"let\s+mut\s+current\s*=\s*({P})\s*;"]


def analyse(name, nullable, body):
    """body: text of the function from its opening brace.  -> events [(kind, index)] in source order; raises Reject."""
    events = []
    accounted = {n: 0 for n in nullable}
    protected = {n: [] for n in nullable}
    P = "|".join(re.escape(n) for n in nullable) or "(?!x)x"
    for m in re.finditer(r"\bif\s+(" + P + r")\.is_null\(\)\s*((?:\|\|[^{]*)?)\{", body):
        p = m.group(1)
        accounted[p] += 1
        if "&&" in m.group(2):
            raise Reject(f"{name}: the null check of `{p}` is weakened by `&&`")
        end = match_brace(body, m.end() - 1)
        block = body[m.end():end]
        m2 = re.match(r"\s*else\s*\{", body[end + 1:])
        # `let x = if p.is_null() { A } else { B };` is an expression at top level too
        if depth_at(body, m.start()) != 1:
            raise Reject(f"{name}: `if {p}.is_null()` is nested under another block (depth {depth_at(body, m.start())}): not a dominating check")
        if m2:
            e_start = end + 1 + m2.end() - 1
            protected[p].append((e_start, match_brace(body, e_start)))
            events.append((m.start(), "helper", nullable.index(p)))
        elif ends_in_unconditional_return(block):
            events.append((m.start(), "guard", nullable.index(p)))
        else:
            raise Reject(f"{name}: the block of `if {p}.is_null()` does not end in an unconditional `return` (or contains control flow) and has no else branch")
    for m in re.finditer(r"match\s+c_char_to_str\(\s*(" + P + r")\s*\)[^{;]*\{\s*None\s*=>\s*return\b[^,{}]*,", body):
        p = m.group(1)
        accounted[p] += 1
        if depth_at(body, m.start()) != 1:
            raise Reject(f"{name}: `match c_char_to_str({p})` is nested under another block")
        events.append((m.start(), "guard", nullable.index(p)))
    for pat in DEREFS:
        for m in re.finditer(pat.replace("{P}", P), body):
            p = m.group(1)
            accounted[p] += 1
            inside = any(s <= m.start() <= e for (s, e) in protected[p])
            events.append((m.start(), "derefElse" if inside else "deref", nullable.index(p)))
    for pat in HELPERS:
        for m in re.finditer(pat.replace("{P}", P), body):
            p = m.group(1)
            accounted[p] += 1
            events.append((m.start(), "helper", nullable.index(p)))
    for p in nullable:
        # a match arm `Some(p) => p` re-binds the name (json_deserialize calls its parameter `str`): two non-uses
        accounted[p] += 2 * len(re.findall(r"Some\(\s*" + re.escape(p) + r"\s*\)\s*=>\s*" + re.escape(p) + r"\b", body))
        total = len(re.findall(r"(?<![\w.])" + re.escape(p) + r"\b", body))
        if total != accounted[p]:
            raise Reject(f"{name}: {total - accounted[p]} unrecognised use(s) of the nullable parameter `{p}`")
    events.sort()
    return [(k, i) for (_, k, i) in events]


def analyse_list_walk(name, body):
    """`let mut current = header_map; while !current.is_null() { … &*current … current = header.next; … }`"""
    m = re.search(r"let\s+mut\s+current\s*=\s*header_map\s*;", body)
    w = re.search(r"while\s+!current\.is_null\(\)\s*\{", body)
    if not m or not w or w.start() < m.start() or depth_at(body, w.start()) != 1:
        raise Reject(f"{name}: not of the shape `let mut current = header_map; while !current.is_null() {{ … }}`")
    ws, we = w.end() - 1, match_brace(body, w.end() - 1)
    derefs = [d.start() for d in re.finditer(r"&\s*\*\s*current\b|\(\s*\*\s*current\s*\)|\*current\b", body)]
    if not derefs or any(not (ws < d < we) for d in derefs):
        raise Reject(f"{name}: `current` is dereferenced outside the loop guarded by `!current.is_null()`")
    if re.search(r"\*\s*header_map\b|header_map\s*\.", body):
        raise Reject(f"{name}: `header_map` itself is dereferenced")
    for a in re.finditer(r"\bcurrent\s*=(?!=)", body):
        if a.start() > m.end() and not (ws < a.start() < we):
            raise Reject(f"{name}: `current` is reassigned outside the loop")
    return [("guard", 0), ("deref", 0)]


NEGATIVE = [
    ("conditional return inside the check", ["p"], "{ if p.is_null() { if verbose() { return null(); } } let x = unsafe { &*p }; }"),
    ("check nested under another condition", ["p"], "{ if cfg.strict { if p.is_null() { return null(); } } let x = unsafe { &*p }; }"),
    ("block without return", ["p"], "{ if p.is_null() { log(); } let x = unsafe { &*p }; }"),
    ("check weakened by &&", ["p"], "{ if p.is_null() && strict { return null(); } let x = unsafe { &*p }; }"),
    ("unknown use", ["p"], "{ if p.is_null() { return null(); } let x = unsafe { p.read() }; }"),
]
POSITIVE = [
    (["p"], "{ if p.is_null() { return null(); } let x = unsafe { &*p }; }", [("guard", 0), ("deref", 0)]),
    (["p"], "{ let x = unsafe { &*p }; if p.is_null() { return null(); } }", [("deref", 0), ("guard", 0)]),   # extracted; rejected by `decide`
    (["a", "b"], "{ if a.is_null() { return; } let r = unsafe { &mut *a }; let c = if b.is_null() { &d } else { unsafe { &*b } }; }",
     [("guard", 0), ("deref", 0), ("helper", 1), ("derefElse", 1)]),
    (["self.data"], "{ if self.data.is_null() || self.len == 0 { return Vec::new(); } let b = unsafe { std::slice::from_raw_parts(self.data, self.len) }; }",
     [("guard", 0), ("deref", 0)]),
]


def selftest(fail):
    for what, nullable, body in NEGATIVE:
        try:
            ev = analyse("selftest", nullable, body)
        except Reject:
            continue
        fail(f"w8_ffi self-test: the extractor accepts a weakened null check ({what}): {ev}")
    for nullable, body, want in POSITIVE:
        try:
            ev = analyse("selftest", nullable, body)
        except Reject as e:
            fail(f"w8_ffi self-test: a well-formed function is rejected: {e}")
        if ev != want:
            fail(f"w8_ffi self-test: {body!r} gives {ev}, expected {want}")


def fn_body(src, m_end):
    b = src.find("{", m_end)
    return src[b:match_brace(src, b) + 1]


def extract(read, fail, lean_str, lean_list):
    selftest(fail)
    entries = []
    try:
        for rel in FILES:
            src = strip_comments(read(rel))
            for m in re.finditer(r"pub\s+(?:unsafe\s+)?extern\s+\"C\"\s+fn\s+(\w+)\s*\(", src):
                name = m.group(1)
                depth, i = 0, m.end() - 1
                while i < len(src):
                    if src[i] == "(":
                        depth += 1
                    elif src[i] == ")":
                        depth -= 1
                        if depth == 0:
                            break
                    i += 1
                params = split_params(src[m.end():i])
                nullable = [n for (n, ty) in params if ty.startswith("*const") or ty.startswith("*mut") or ty == "Buffer"]
                entries.append((name, nullable, analyse(name, nullable, fn_body(src, i))))
        n_extern = len(entries)
        names = [e[0] for e in entries]
        if n_extern < 20 or len(set(names)) != n_extern:
            fail(f"expected at least 20 distinct extern \"C\" functions, found {n_extern}")
        # the helpers, analysed from their source like the entry points
        h = strip_comments(read("src/ffi_helpers.rs"))
        m = re.search(r"pub fn c_char_to_str\(ptr: \*const c_char\)[^{]*", h)
        if not m:
            fail("ffi_helpers.rs: c_char_to_str not found")
        entries.append(("c_char_to_str", ["ptr"], analyse("c_char_to_str", ["ptr"], fn_body(h, m.end() - 1))))
        hf = strip_comments(read("src/http/ffi.rs"))
        m = re.search(r"pub fn header_map_to_http_headers\(header_map: \*const HeaderMap\)[^{]*", hf)
        if not m:
            fail("http/ffi.rs: header_map_to_http_headers not found")
        entries.append(("header_map_to_http_headers", ["header_map"], analyse_list_walk("header_map_to_http_headers", fn_body(hf, m.end() - 1))))
        bf = strip_comments(read("src/filter/buffer.rs"))
        for fn in ("to_vec", "into_vec"):
            m = re.search(r"pub fn " + fn + r"\((?:&self|self)\)[^{]*", bf)
            if not m:
                fail(f"buffer.rs: Buffer::{fn} not found")
            entries.append((f"Buffer::{fn}", ["self.data"], analyse(f"Buffer::{fn}", ["self.data"], fn_body(bf, m.end() - 1))))
    except Reject as e:
        fail(str(e))
    lines = ["-- extern \"C\" null-check structure (tools/consts.d/w8_ffi.py): (name, nullable parameters, events in source order)",
             "-- event codes: 0 = guard, 1 = deref, 2 = derefElse, 3 = helper (numbers, so that `decide` never has to evaluate a String)",
             f"-- {n_extern} extern \"C\" functions + {len(entries) - n_extern} helpers",
             f"def ffiNullTableSize : Nat := {len(entries)}",
             "def ffiNullTable : List (String × List String × List (Nat × Nat)) := ["]
    rows = []
    for (name, nullable, evs) in entries:
        ev = ", ".join(f"({CODE[k]}, {i})" for (k, i) in evs)
        rows.append(f"  ({lean_str(name)}, {lean_list(nullable)}, [{ev}])")
    # one list element per output line (extract_consts compares sections line by line in --check mode)
    lines.extend((r + ",") if i + 1 < len(rows) else r for i, r in enumerate(rows))
    lines.append("]")
    return lines
