"""W18: section `w18_chain` - the body filter CHAIN driver of src/filter/filter_body.rs translated from the source on every run:
`FilterBodyAction::new`, `filter`, `do_filter`, `end`, `do_end` (feature `compress` ON: a line `#[cfg(feature = "compress")]` is
dropped, the block after `#[cfg(not(feature = "compress"))]` is dropped; any other attribute fails closed).

The lexer of tools/consts.d/w4_translate.py (W4c) is used through a PRIVATE module instance (token class extended by `..` and `?`
here only); the parser / translator of this dialect (`&mut self` state threaded through `for` loops over `self.chain`, `Result`
values, `?`, early `return` from a loop, `match` on `Ok` / `Err` / `Some` / `None` / tuple patterns) is in this file.

Generated definitions (namespace Rio.Consts; bytes are `List Nat`; `Result<T, E>` is `Except E T`, `Ok` = `.ok`, `Err` = `.error`):
  genChainNew        lower itemNew getEncodingFilters mkDecode mkEncode filters headers : List σ × Bool          (chain, in_error)
  genChainDoFilter   itemFilter chain data                       : List σ × Except ε (List Nat)                  (chain afterwards, result)
  genChainFilter     itemFilter heldHtml chain inError data      : (List σ × Bool) × List Nat                    ((chain, in_error), returned bytes)
  genChainDoEnd      itemFilter itemEnd heldHtml chain           : Option (List σ × Except (ε × List Nat) (List Nat))   `none` = a PANIC
  genChainEnd        itemFilter itemEnd heldHtml chain inError   : Option ((List σ × Bool) × List Nat)           `none` = a PANIC
  gen…Loop<n>        one recursive definition per `for` loop, in source order (recursion on the iterated list)

ABSTRACT PARAMETERS (every callee that is not translated):
  lower              : String → String                      `str::to_lowercase`
  itemNew            : φ → Option String → Option σ         `FilterBodyActionItem::new(filter, content_type)` (φ = `BodyFilter`)
  getEncodingFilters : String → Option (δ × κ)              `get_encoding_filters(encoding)` (δ / κ = `DecodeFilterBody` / `EncodeFilterBody`)
  mkDecode : δ → σ,  mkEncode : κ → σ                       `FilterBodyActionItem::Decode(Box::new(d))` / `::Encode(Box::new(e))`
  itemFilter         : σ → List Nat → σ × Except ε (List Nat)   `item.filter(data, unit_trace)` of a stage (`&mut self`: the new stage is returned too)
  itemEnd            : σ → σ × Except ε (List Nat)          `item.end()` of a stage
  heldHtml           : σ → Option (σ × List Nat)            `if let FilterBodyActionItem::Html(h) = item { .. h.end() .. }`: `none` = the item is
                                                            not the `Html` variant, else the item after `h.end()` and the bytes it returned
                                                            (the pattern must be exactly `FilterBodyActionItem::Html(h)` and `h` must be used exactly
                                                            once, as `h.end()`)
The unit trace (`Option<&mut UnitTrace>`) is only handed on to the stages: the argument is dropped (it must be the trace parameter
or `<it>.as_deref_mut()`, anything else fails closed).  `log::error!` / `log::warn!` statements are skipped iff their arguments are
string literals and variables.  `.clone()`, `.as_str()`, `Box::new`, `&`, `&mut` are identities.

PANICS: `self.chain[index]` is `chain[index]?` with the `none` case giving the outcome `none` (PANIC); `self.chain[index..]` is
guarded by `index ≤ chain.length` (else PANIC).  Props/C04gen3.lean proves that the outcome is never `none`.
`for index in 0..self.chain.len()` is recursion on `List.range chain.length` (the range is evaluated once, as in Rust).
`xs.iter_mut().rev()` is recursion on `xs.reverse`, the updated elements are put back in place (`.reverse`); `xs.iter_mut()` / `&mut xs`
is recursion on `xs`.
FAIL CLOSED on every statement / expression / pattern / iterator form that is not listed in this file.
"""
import importlib.util
import os
import re

B = "List Nat"
_PARAMS = [
    ("lower", "String → String"),
    ("itemNew", "φ → Option String → Option σ"),
    ("getEncodingFilters", "String → Option (δ × κ)"),
    ("mkDecode", "δ → σ"),
    ("mkEncode", "κ → σ"),
    ("itemFilter", f"σ → {B} → σ × Except ε ({B})"),
    ("itemEnd", f"σ → σ × Except ε ({B})"),
    ("heldHtml", f"σ → Option (σ × {B})"),
]
_TYVARS = ["σ", "φ", "δ", "κ", "ε"]
_LEAN_KW = {"end", "at", "from", "have", "show", "then", "else", "do", "fun", "match", "with", "in", "rest", "str"}


def _core():
    here = os.path.dirname(os.path.abspath(__file__))
    for cand in (os.path.join(here, "w4_translate.py"), os.path.join(here, "..", "consts.d", "w4_translate.py")):
        if os.path.exists(cand):
            spec = importlib.util.spec_from_file_location("consts_w4_translate_core_w18", cand)
            mod = importlib.util.module_from_spec(spec)
            spec.loader.exec_module(mod)
            return mod
    raise RuntimeError("w4_translate.py not found")


def _camel(name):
    parts = name.split("_")
    c = parts[0] + "".join(p.capitalize() for p in parts[1:] if p)
    return c + "_" if c in _LEAN_KW else c


class _P:
    """parser of the dialect -> AST (tuples; the last component of a statement is its line)"""

    def __init__(self, core, toks, where, lines):
        self.core, self.t, self.i, self.where, self.lines = core, toks, 0, where, lines

    def fail(self, msg, line=None):
        if line is None:
            line = self.t[self.i].line if self.i < len(self.t) else self.t[-1].line
        raise self.core._Fail(f"{self.where}:{line}: {msg}: `{self.lines.get(line, '').strip()}`")

    def peek(self, k=0):
        return self.t[self.i + k] if self.i + k < len(self.t) else self.core._Tok("eof", "", self.t[-1].line)

    def at(self, text, k=0):
        return self.peek(k).text == text

    def eat(self, text):
        if not self.at(text):
            self.fail(f"expected `{text}`, found `{self.peek().text}`")
        self.i += 1
        return self.t[self.i - 1]

    def ident(self):
        tok = self.peek()
        if tok.kind != "id":
            self.fail(f"expected an identifier, found `{tok.text}`")
        self.i += 1
        return tok.text

    def block(self):
        self.eat("{")
        stmts, tail = [], None
        while not self.at("}"):
            st = self.statement()
            if st[0] == "tail":
                if not self.at("}"):
                    self.fail("expression without `;` in the middle of a block")
                tail = st[1]
            else:
                stmts.append(st)
        self.eat("}")
        return stmts, tail

    def pattern(self):
        tok = self.peek()
        if self.at("("):
            self.eat("(")
            items = [self.pattern()]
            while self.at(","):
                self.eat(",")
                items.append(self.pattern())
            self.eat(")")
            return ("ptuple", items)
        if self.at("mut"):
            self.eat("mut")
            return ("pvar", self.ident())
        if tok.kind != "id":
            self.fail(f"pattern form not in the subset (token `{tok.text}`)")
        path = [self.ident()]
        while self.at("::"):
            self.eat("::")
            path.append(self.ident())
        name = "::".join(path)
        if self.at("("):
            self.eat("(")
            sub = self.pattern()
            self.eat(")")
            return ("pctor", name, sub)
        if name == "None":
            return ("pctor", "None", None)
        if len(path) > 1 or name == "_" or name[0].isupper():
            self.fail(f"pattern `{name}` is not in the subset")
        return ("pvar", name)

    def statement(self):
        line = self.peek().line
        if self.at("let"):
            self.eat("let")
            mutable = False
            if self.at("mut"):
                self.eat("mut")
                mutable = True
            name = self.ident()
            ann = None
            if self.at(":"):
                self.eat(":")
                parts = []
                while not self.at("="):
                    if self.peek().kind == "eof" or self.at(";"):
                        self.fail("type annotation without initialiser")
                    parts.append(self.peek().text)
                    self.i += 1
                ann = "".join(parts)
            self.eat("=")
            e = self.expr()
            self.eat(";")
            return ("let", name, mutable, ann, e, line)
        if self.at("for"):
            self.eat("for")
            var = self.ident()
            self.eat("in")
            it = self.expr(ns=True)
            if self.at(".."):
                self.eat("..")
                it = ("range", it, self.expr(ns=True), line)
            body = self.block()
            if body[1] is not None:
                self.fail("a `for` body with a value is not in the subset", line)
            return ("for", var, it, body[0], line)
        if self.at("break"):
            self.eat("break")
            self.eat(";")
            return ("break", line)
        if self.at("return"):
            self.eat("return")
            e = self.expr()
            self.eat(";")
            return ("return", e, line)
        if self.at("if") and self.at("let", 1):
            self.eat("if")
            self.eat("let")
            pat = self.pattern()
            self.eat("=")
            e = self.expr(ns=True)
            body = self.block()
            if self.at("else"):
                self.fail("`if let .. else` is not in the subset", line)
            if body[1] is not None:
                self.fail("`if let` with a value is not in the subset", line)
            return ("iflet", pat, e, body[0], line)
        if self.at("if"):
            node = self.if_node()
            if node[2][1] is not None:
                if not self.at("}"):
                    self.fail("`if` with a value in the middle of a block", line)
                return ("tail", node)
            return node
        if self.at("match"):
            node = self.match_node()
            if self.at("}"):
                return ("tail", node)
            self.fail("`match` as a statement in the middle of a block is not in the subset", line)
        if self.peek().kind == "id" and self.at("::", 1) and self.peek(2).kind == "macro":
            mac = self.ident() + "::" + self.eat("::").text[:0] + self.peek().text
            self.i += 1
            self.eat("(")
            args = []
            while not self.at(")"):
                args.append(self.expr())
                if self.at(","):
                    self.eat(",")
            self.eat(")")
            self.eat(";")
            return ("macro", mac, args, line)
        e = self.expr()
        if self.at("="):
            self.eat("=")
            rhs = self.expr()
            self.eat(";")
            return ("assign", e, rhs, line)
        if self.at(";"):
            self.eat(";")
            return ("expr", e, line)
        return ("tail", e)

    def if_node(self):
        line = self.eat("if").line
        cond = self.expr(ns=True)
        then = self.block()
        other = None
        if self.at("else"):
            self.eat("else")
            if self.at("if"):
                self.fail("`else if` is not in the subset")
            other = self.block()
        return ("if", cond, then, other, line)

    def match_node(self):
        line = self.eat("match").line
        scrut = self.expr(ns=True)
        self.eat("{")
        arms = []
        while not self.at("}"):
            aline = self.peek().line
            pat = self.pattern()
            if self.at("if"):
                self.fail("match guards are not in the subset")
            self.eat("=>")
            if self.at("{"):
                body = self.block()
            else:
                body = ([], self.expr())
            arms.append((pat, body, aline))
            if self.at(","):
                self.eat(",")
        self.eat("}")
        return ("match", scrut, arms, line)

    def expr(self, ns=False):
        e = self.unary(ns)
        if self.at("=="):
            line = self.eat("==").line
            e = ("eq", e, self.unary(ns), line)
        for op in ("!=", "<", ">", "<=", ">=", "&&", "||", "+", "-", "*"):
            if self.at(op):
                self.fail(f"operator `{op}` is not in the subset")
        return e

    def unary(self, ns):
        if self.at("&"):
            line = self.eat("&").line
            if self.at("mut"):
                self.eat("mut")
                return ("refmut", self.unary(ns), line)
            return ("ref", self.unary(ns), line)
        if self.at("!"):
            self.fail("operator `!` is not in the subset")
        return self.postfix(ns)

    def args(self):
        self.eat("(")
        args = []
        while not self.at(")"):
            args.append(self.expr())
            if self.at(","):
                self.eat(",")
            elif not self.at(")"):
                self.fail("expected `,` or `)`")
        self.eat(")")
        return args

    def postfix(self, ns):
        e = self.primary(ns)
        while True:
            if self.at("?"):
                e = ("try", e, self.eat("?").line)
            elif self.at("["):
                line = self.eat("[").line
                idx = self.expr()
                if self.at(".."):
                    self.eat("..")
                    self.eat("]")
                    e = ("slicefrom", e, idx, line)
                else:
                    self.eat("]")
                    e = ("index", e, idx, line)
            elif self.at("."):
                line = self.eat(".").line
                name = self.ident()
                if self.at("("):
                    e = ("mcall", e, name, self.args(), line)
                else:
                    e = ("field", e, name, line)
            else:
                return e

    def primary(self, ns):
        tok = self.peek()
        line = tok.line
        if tok.text == "match":
            return self.match_node()
        if tok.text == "if":
            node = self.if_node()
            if node[3] is None or node[2][1] is None or node[3][1] is None:
                self.fail("`if` used as a value must have two branches with values", line)
            return node
        if tok.text == "|":
            self.eat("|")
            var = self.ident()
            self.eat("|")
            body = self.block() if self.at("{") else ([], self.expr())
            return ("closure", var, body, line)
        if tok.text == "(":
            self.eat("(")
            items = [self.expr()]
            while self.at(","):
                self.eat(",")
                items.append(self.expr())
            self.eat(")")
            return ("tuple", items, line) if len(items) > 1 else items[0]
        if tok.kind == "num":
            self.i += 1
            return ("int", int(tok.text), line)
        if tok.kind == "str":
            self.i += 1
            return ("str", tok.text, line)
        if tok.kind == "id":
            if tok.text in ("true", "false"):
                self.i += 1
                return ("bool", tok.text, line)
            path = [self.ident()]
            while self.at("::"):
                self.eat("::")
                path.append(self.ident())
            name = "::".join(path)
            if self.at("("):
                return ("pcall", name, self.args(), line)
            if self.at("{") and not ns and name[0].isupper():
                self.eat("{")
                fields = []
                while not self.at("}"):
                    f = self.ident()
                    if self.at(":"):
                        self.eat(":")
                        fields.append((f, self.expr()))
                    else:
                        fields.append((f, ("var", f, line)))
                    if self.at(","):
                        self.eat(",")
                self.eat("}")
                return ("struct", name, fields, line)
            if len(path) > 1:
                return ("path", name, line)
            return ("var", name, line)
        self.fail(f"expression form not in the subset (token `{tok.text}`)")


# ---------------------------------------------------------------------------------------------------------------------
# Lean text nodes
# ---------------------------------------------------------------------------------------------------------------------

def _leaf(t):
    return ("leaf", t)


def _let(pat, rhs, body):
    return ("let", pat, rhs, body)


def _match(scrut, arms):
    return ("match", scrut, arms)


def _if(c, a, b):
    return ("if", c, a, b)


def _pp(n, ind, paren=False):
    pad = "  " * ind
    if n[0] == "leaf":
        return [pad + n[1]]
    if n[0] == "let":
        _, pat, rhs, body = n
        if isinstance(rhs, str):
            out = [f"{pad}let {pat} := {rhs}"]
        else:
            out = [f"{pad}let {pat} :="] + _pp(rhs, ind + 2, True)
        out += _pp(body, ind)
        if paren:
            out[0] = pad + "(" + out[0][len(pad):]
            out[-1] += ")"
        return out
    if n[0] == "if":
        out = [f"{pad}if {n[1]} then"] + _pp(n[2], ind + 1) + [pad + "else"] + _pp(n[3], ind + 1)
        if paren:
            out[0] = pad + "(" + out[0][len(pad):]
            out[-1] += ")"
        return out
    _, scrut, arms = n
    if isinstance(scrut, str):
        out = [f"{pad}(match {scrut} with"]
    else:
        out = [f"{pad}(match"] + _pp(scrut, ind + 2, True) + [pad + "  with"]
    for pat, body in arms:
        out.append(f"{pad}| {pat} =>")
        out += _pp(body, ind + 1)
    out[-1] += ")"
    return out


_SENT = ("leaf", "\0")


class _Fn:
    """translation of one function; `defs` collects the loop definitions (source order)"""

    def __init__(self, core, parser, cfg, known):
        self.core, self.p, self.cfg, self.known = core, parser, cfg, known
        self.n, self.nloop, self.defs = 0, 0, []
        self.stack = []          # loop contexts of the definition being emitted
        self.text = cfg["text"]

    def fail(self, msg, line):
        self.p.fail(msg, line)

    def fresh(self, base):
        self.n += 1
        return f"{base}{self.n}"

    # ---- environment: {"vars": {rust: (lean, mutable)}, "types": {lean: type}, "alias": {rust: kind}, "locked": bool, "html": {rust: leanbytes}}
    def lookup(self, env, name, line):
        if name == self.cfg.get("trace"):
            self.fail("the unit trace may only be handed on as an argument of a stage call", line)
        if name in env["html"]:
            self.fail("the html filter of a stage may only be used as `h.end()`", line)
        if name not in env["vars"]:
            self.fail(f"unknown variable `{name}`", line)
        return env["vars"][name][0]

    def self_field(self, env, f, line):
        if f not in self.cfg["self"]:
            self.fail(f"`self.{f}` is not modelled in this function", line)
        if f == "chain" and env["locked"]:
            self.fail("`self.chain` is used inside a loop over `self.chain`", line)
        return _camel(f)

    def is_trace(self, e):
        tr = self.cfg.get("trace")
        if tr is None:
            return False
        if e[0] == "var" and e[1] == tr:
            return True
        return e[0] == "mcall" and e[2] == "as_deref_mut" and not e[3] and e[1][0] == "var" and e[1][1] == tr

    def writeback(self, env, rust, body):
        al = env["alias"].get(rust)
        if al and al[0] == "idx":
            return _let("chain", f"chain.set {al[1]} {env['vars'][rust][0]}", body)
        return body

    def ret(self, v):
        if self.stack:
            lc = self.stack[-1]
            if lc["kind"] == "A":
                return _leaf(f"({lc['item']} :: rest, Except.error {v})")
            pay = f"(chain, {v})" if "chain" in lc["state"] else v
            t = f"Except.error {pay}"
            return _leaf(f"some ({t})" if lc["panic"] else t)
        return _leaf(self.cfg["wrap"](v))

    def panic(self, line):
        if self.stack:
            lc = self.stack[-1]
            if lc["kind"] == "B" and lc["panic"]:
                return _leaf("none")
            self.fail("an operation that can panic inside this kind of loop is not in the subset", line)
        if not self.cfg.get("panic"):
            self.fail("an operation that can panic is not modelled in this function", line)
        return _leaf("none")

    def pure(self, e, env):
        box = []

        def k(a):
            box.append(a)
            return _SENT
        n = self.expr(e, env, k)
        return box[0] if n is _SENT and len(box) == 1 else None

    def check_name(self, env, name, line, binder):
        """names are kept (Rust local = Lean local), so scoping must agree: fail closed on a name the translation itself uses and on
        shadowing that Rust would undo at the end of a block / arm while the emitted text (continuations are placed INSIDE) would not"""
        lean = _camel(name)
        if re.fullmatch(r"(r|err|v|l|held)\d+", lean) or lean in ("rest", "rest_") or lean in [p for p, _ in _PARAMS] or \
                (lean in ("chain", "inError") and self.cfg["self"]) or lean.startswith("genChain"):
            self.fail(f"the local name `{name}` is reserved by the translation", line)
        if any(v[0] == lean and k != name for k, v in env["vars"].items()):
            self.fail(f"the local name `{name}` collides with the name the translation gives to another variable", line)
        if name in env["vars"]:
            if binder:
                self.fail(f"the pattern / closure binder `{name}` shadows a variable", line)
            if env["vars"][name][2] < env["depth"]:
                self.fail(f"`let {name}` in an inner block shadows an outer variable", line)

    # ---- patterns
    def pat(self, p, env, line):
        """-> (lean pattern, env with the binders)"""
        if p[0] == "pvar":
            self.check_name(env, p[1], line, True)
            lean = _camel(p[1])
            env = dict(env, vars=dict(env["vars"], **{p[1]: (lean, True, env["depth"])}), alias={k: v for k, v in env["alias"].items() if k != p[1]})
            return lean, env
        if p[0] == "ptuple":
            outs = []
            for q in p[1]:
                t, env = self.pat(q, env, line)
                outs.append(t)
            return "(" + ", ".join(outs) + ")", env
        _, name, sub = p
        ctor = {"Some": "some", "Ok": "Except.ok", "Err": "Except.error"}.get(name)
        if name == "None":
            return "none", env
        if ctor is None:
            self.fail(f"pattern constructor `{name}` is not in the subset", line)
        t, env = self.pat(sub, env, line)
        return f"{ctor} {t}", env

    # ---- expressions (continuation passing: k receives an atom)
    def expr(self, e, env, k):
        tag = e[0]
        if tag == "var":
            if e[1] == "None":
                return k("none")
            return k(self.lookup(env, e[1], e[2]))
        if tag == "field":
            if e[1][0] == "var" and e[1][1] == "self":
                return k(self.self_field(env, e[2], e[3]))
            if e[1][0] == "var" and e[2] in ("name", "value") and env["types"].get(self.lookup(env, e[1][1], e[3])) == "String × String":
                return k(f"{self.lookup(env, e[1][1], e[3])}.{1 if e[2] == 'name' else 2}")
            self.fail(f"field access `.{e[2]}` is not in the subset", e[3])
        if tag == "int":
            return k(str(e[1]))
        if tag == "bool":
            return k(e[1])
        if tag == "str":
            return k(e[1])
        if tag in ("ref", "refmut"):
            return self.expr(e[1], env, k)
        if tag == "tuple":
            def go(i, acc):
                if i == len(e[1]):
                    return k("(" + ", ".join(acc) + ")")
                return self.expr(e[1][i], env, lambda a: go(i + 1, acc + [a]))
            return go(0, [])
        if tag == "eq":
            return self.expr(e[1], env, lambda a: self.expr(e[2], env, lambda b: k(f"({a} == {b})")))
        if tag == "try":
            def kt(a):
                er, v = self.fresh("err"), self.fresh("v")
                return _match(a, [(f"Except.error {er}", self.ret(f"(Except.error {er})")), (f"Except.ok {v}", k(v))])
            return self.expr(e[1], env, kt)
        if tag == "struct":
            if e[1] != "Self" or sorted(f for f, _ in e[2]) != ["chain", "in_error"]:
                self.fail("struct literal other than `Self { chain, in_error }`", e[3])
            d = dict(e[2])
            return self.expr(d["chain"], env, lambda a: self.expr(d["in_error"], env, lambda b: k(f"({a}, {b})")))
        if tag == "path":
            self.fail(f"path `{e[1]}` is not in the subset", e[2])
        if tag == "pcall":
            name, args, line = e[1], e[2], e[3]
            one = {"Some": "some", "Ok": "Except.ok", "Err": "Except.error", "FilterBodyActionItem::Decode": "mkDecode",
                   "FilterBodyActionItem::Encode": "mkEncode", "get_encoding_filters": "getEncodingFilters"}
            if name == "Vec::new" and not args:
                return k("[]")
            if name == "Box::new" and len(args) == 1:
                return self.expr(args[0], env, k)
            if name in one and len(args) == 1:
                return self.expr(args[0], env, lambda a: k(f"({one[name]} {a})"))
            if name == "FilterBodyActionItem::new" and len(args) == 2:
                return self.expr(args[0], env, lambda a: self.expr(args[1], env, lambda b: k(f"(itemNew {a} {b})")))
            self.fail(f"call of `{name}` with {len(args)} argument(s) is not in the subset", line)
        if tag == "if":
            _, cond, then, other, line = e
            if then[0] or other[0]:
                self.fail("`if` used as a value with statements in a branch", line)
            c, a, b = self.pure(cond, env), self.pure(then[1], env), self.pure(other[1], env)
            if c is None or a is None or b is None:
                self.fail("`if` used as a value: condition and branches must be free of effects", line)
            return k(f"(if {c} then {a} else {b})")
        if tag == "match":
            _, scrut, arms, line = e

            def km(a):
                out = []
                for p, body, aline in arms:
                    t, env2 = self.pat(p, env, aline)
                    out.append((t, self.block(body[0], body[1], env2, k, None, aline)))
                return _match(a, out)
            return self.expr(scrut, env, km)
        if tag == "mcall":
            return self.mcall(e, env, k)
        self.fail(f"expression form `{tag}` is not in the subset", e[-1])

    def mcall(self, e, env, k):
        _, recv, name, args, line = e
        # html held bytes
        if recv[0] == "var" and recv[1] in env["html"]:
            if name != "end" or args:
                self.fail("the html filter of a stage may only be used as `h.end()`", line)
            return k(env["html"][recv[1]])
        # self.do_filter / self.do_end
        if recv[0] == "var" and recv[1] == "self":
            if name not in self.known:
                self.fail(f"call of `self.{name}` is not in the subset", line)
            kn = self.known[name]
            real = [a for a in args if not self.is_trace(a)]
            if len(args) - len(real) != 1 or len(real) != kn["nargs"]:
                self.fail(f"`self.{name}(..)` no longer has the modelled arguments", line)
            chain = self.self_field(env, "chain", line)

            def go(i, acc):
                if i < len(real):
                    return self.expr(real[i], env, lambda a: go(i + 1, acc + [a]))
                r = self.fresh("r")
                call = " ".join([kn["lean"]] + kn["params"] + [chain] + acc)
                if kn["panic"]:
                    return _match(call, [("none", self.panic(line)), (f"some (chain, {r})", k(r))])
                return _match(call, [(f"(chain, {r})", k(r))])
            return go(0, [])
        # stage calls on an element of the chain
        if recv[0] == "var" and recv[1] in env["alias"] and name in ("filter", "end"):
            item = self.lookup(env, recv[1], line)
            real = [a for a in args if not self.is_trace(a)]
            if name == "filter":
                if len(args) != 2 or len(real) != 1:
                    self.fail("`item.filter(data, unit_trace)` no longer has the modelled arguments", line)

                def kf(a):
                    r = self.fresh("r")
                    return _match(f"itemFilter {item} {a}", [(f"({item}, {r})", self.writeback(env, recv[1], k(r)))])
                return self.expr(real[0], env, kf)
            if args:
                self.fail("`item.end()` no longer has the modelled arguments", line)
            r = self.fresh("r")
            return _match(f"itemEnd {item}", [(f"({item}, {r})", self.writeback(env, recv[1], k(r)))])
        if name in ("clone", "as_str") and not args:
            return self.expr(recv, env, k)
        if name == "to_lowercase" and not args:
            return self.expr(recv, env, lambda a: k(f"(lower {a})"))
        if name == "is_empty" and not args:
            return self.expr(recv, env, lambda a: k(f"{a}.isEmpty" if re.fullmatch(r"\w+", a) else f"({a}).isEmpty"))
        if name == "len" and not args:
            return self.expr(recv, env, lambda a: k(f"{a}.length"))
        if name == "unwrap_or_default" and not args:
            return self.expr(recv, env, lambda a: k(f"({a}.getD [])"))
        if name == "map" and len(args) == 1 and args[0][0] == "closure":
            _, var, body, cline = args[0]

            def kmap(a):
                self.check_name(env, var, cline, True)
                lean = _camel(var)
                env2 = dict(env, vars=dict(env["vars"], **{var: (lean, False, env["depth"])}))
                er = self.fresh("err")
                return _match(a, [(f"Except.ok {lean}", self.block(body[0], body[1], env2, lambda v: k(f"(Except.ok {v})"), None, cline)),
                                  (f"Except.error {er}", k(f"(Except.error {er})"))])
            if not (recv[0] == "mcall" and recv[2] in ("end", "filter") and recv[1][0] == "var" and recv[1][1] in env["alias"]):
                self.fail("`.map(closure)` only on the `Result` of a stage call", line)
            return self.expr(recv, env, kmap)
        self.fail(f"method `.{name}(..)` is not in the subset", line)

    # ---- blocks / statements
    def block(self, stmts, tail, env, ktail, kend, line):
        depth = env["depth"]
        env = dict(env, depth=depth + 1)

        def end(env2):
            env2 = dict(env2, depth=depth)
            if tail is not None:
                if ktail is None:
                    self.fail("a value is not expected at the end of this block", line)
                return self.expr(tail, env2, ktail)
            if kend is None:
                self.fail("this block must end with a value", line)
            return kend(env2)
        return self.stmts(stmts, 0, env, end)

    def declare(self, env, name, mutable, ty, line=None, loopvar=False):
        if not loopvar:
            self.check_name(env, name, line, False)
        lean = _camel(name)
        types = dict(env["types"])
        types[lean] = ty
        return lean, dict(env, vars=dict(env["vars"], **{name: (lean, mutable, env["depth"])}), types=types,
                          alias={k: v for k, v in env["alias"].items() if k != name})

    def decl_type(self, name, ann, e, env, line):
        if ann is not None:
            m = {"Option<Vec<u8>>": f"Option ({B})", "Vec<u8>": B}
            if ann not in m:
                self.fail(f"type annotation `{ann}` is not in the subset", line)
            return m[ann]
        if e[0] == "pcall" and e[1] == "Vec::new":
            if re.search(r"(?<![\w.])" + name + r"\.extend\(", self.text):
                return B
            if re.search(r"(?<![\w.])" + name + r"\.(push|insert)\(", self.text):
                return "List σ"
            return None
        if e[0] == "var" and e[1] == "None":
            if re.search(r"(?<![\w.])" + name + r" = Some\([\w.]+\.to_lowercase\(\)\);", self.text):
                return "Option String"
            return None
        if e[0] == "var" and e[1] in env["vars"]:
            return env["types"].get(env["vars"][e[1]][0])
        return None

    def stmts(self, ss, i, env, kend):
        if i == len(ss):
            return kend(env)
        st = ss[i]
        tag, line = st[0], st[-1]

        def nxt(env2):
            return self.stmts(ss, i + 1, env2, kend)
        if tag == "let":
            _, name, mutable, ann, e, _ = st
            if e[0] == "refmut" and e[1][0] == "index":
                tgt, idx = e[1][1], e[1][2]
                if not (tgt[0] == "field" and tgt[1] == ("var", "self", tgt[1][2]) and tgt[2] == "chain") or idx[0] != "var":
                    self.fail("`&mut E[i]` only as `&mut self.chain[index]`", line)
                chain, ix = self.self_field(env, "chain", line), self.lookup(env, idx[1], line)
                lean, env2 = self.declare(env, name, True, "σ", line)
                env2 = dict(env2, alias=dict(env2["alias"], **{name: ("idx", ix)}))
                return _match(f"{chain}[{ix}]?", [("none", self.panic(line)), (f"some {lean}", nxt(env2))])
            ty = self.decl_type(name, ann, e, env, line)
            if e[0] == "match" and not self.has_exit(e):
                # no `?` / `return` inside: the arms are joined (value and rebound state as a tuple); otherwise the
                # continuation is placed in the arms that fall through
                mods = self.modified(e, env)
                lean, env2 = self.declare(env, name, mutable, ty, line)
                if not mods:
                    return _let(lean, self.expr(e, env, lambda a: _leaf(a)), nxt(env2))
                tup = ", ".join(mods)
                return _match(self.expr(e, env, lambda a: _leaf(f"({tup}, {a})")), [(f"({tup}, {lean})", nxt(env2))])

            def kl(a):
                lean, env2 = self.declare(env, name, mutable, ty, line)
                return _let(lean, a, nxt(env2))
            return self.expr(e, env, kl)
        if tag == "assign":
            _, lhs, rhs, _ = st
            if lhs[0] == "var":
                if lhs[1] not in env["vars"] or not env["vars"][lhs[1]][1]:
                    self.fail("assignment to something that is not a `mut` local", line)
                tgt = env["vars"][lhs[1]][0]
            elif lhs[0] == "field" and lhs[1][0] == "var" and lhs[1][1] == "self" and lhs[2] == "in_error":
                tgt = self.self_field(env, "in_error", line)
            else:
                self.fail("assignment target is not in the subset", line)
            return self.expr(rhs, env, lambda a: _let(tgt, a, nxt(env)))
        if tag == "expr":
            e = st[1]
            if e[0] == "mcall" and e[1][0] == "var" and e[1][1] in env["vars"] and env["vars"][e[1][1]][1] and e[1][1] not in env["alias"]:
                x = env["vars"][e[1][1]][0]
                if e[2] == "extend" and len(e[3]) == 1:
                    return self.expr(e[3][0], env, lambda a: _let(x, f"{x} ++ {a}", nxt(env)))
                if e[2] == "push" and len(e[3]) == 1:
                    return self.expr(e[3][0], env, lambda a: _let(x, f"{x} ++ [{a}]", nxt(env)))
                if e[2] == "insert" and len(e[3]) == 2 and e[3][0][0] == "int" and e[3][0][1] == 0:
                    return self.expr(e[3][1], env, lambda a: _let(x, f"{a} :: {x}", nxt(env)))
            self.fail("expression statement is not in the subset", line)
        if tag == "macro":
            if st[1] not in ("log::error!", "log::warn!") or not st[2] or st[2][0][0] != "str" or any(a[0] != "var" for a in st[2][1:]):
                self.fail("macro statement is not in the subset (only `log::error!` / `log::warn!` of a literal and variables)", line)
            for a in st[2][1:]:
                self.lookup(env, a[1], line)
            return nxt(env)
        if tag == "return":
            return self.expr(st[1], env, lambda a: self.ret(a))
        if tag == "break":
            if not self.stack:
                self.fail("`break` outside a loop", line)
            return self.loop_exit(self.stack[-1], env, cons=True)
        if tag == "if":
            _, cond, then, other, _ = st
            c = self.pure(cond, env)
            if c is None:
                self.fail("the condition of an `if` must be free of effects", line)
            if other is None and len(then[0]) == 1 and then[0][0][0] == "assign" and then[0][0][1][0] == "var":
                a = then[0][0]
                v = self.pure(a[2], env)
                if v is not None and a[1][1] in env["vars"] and env["vars"][a[1][1]][1]:
                    x = env["vars"][a[1][1]][0]
                    return _let(x, f"if {c} then {v} else {x}", nxt(env))
            tn = self.block(then[0], None, env, None, nxt, line)
            en = nxt(env) if other is None else self.block(other[0], None, env, None, nxt, line)
            return _if(c, tn, en)
        if tag == "iflet":
            _, pat, e, body, _ = st
            if pat[0] == "pctor" and pat[1] == "FilterBodyActionItem::Html":
                if pat[2][0] != "pvar" or e[0] != "var" or e[1] not in env["alias"]:
                    self.fail("`if let FilterBodyActionItem::Html(h) = item` only on an element of the chain", line)
                h = pat[2][1]
                if self.count_var(body, h) != 1:
                    self.fail("the html filter of a stage must be used exactly once, as `h.end()`", line)
                item, held = self.lookup(env, e[1], line), self.fresh("held")
                env2 = dict(env, html=dict(env["html"], **{h: held}))
                some = self.writeback(env, e[1], self.block(body, None, env2, None, nxt, line))
                return _match(f"heldHtml {item}", [(f"some ({item}, {held})", some), ("none", nxt(env))])
            if pat[0] == "pctor" and pat[1] == "Some":
                def ks(a):
                    t, env2 = self.pat(pat, env, line)
                    inner = self.block(body, None, env2, None, lambda env3: nxt(dict(env3, vars={k: v for k, v in env3["vars"].items() if k in env["vars"] or True})), line)
                    return _match(a, [(t, inner), ("none", nxt(env))])
                return self.expr(e, env, ks)
            self.fail("`if let` pattern is not in the subset", line)
        if tag == "for":
            return self.loop(st, env, nxt)
        self.fail(f"statement form `{tag}` is not in the subset", line)

    # ---- analysis helpers
    def walk(self, x):
        if isinstance(x, tuple):
            yield x
            for y in x:
                yield from self.walk(y)
        elif isinstance(x, list):
            for y in x:
                yield from self.walk(y)

    def count_var(self, x, name):
        return sum(1 for n in self.walk(x) if len(n) >= 2 and n[0] == "var" and n[1] == name)

    def has_exit(self, x):
        return any(len(n) >= 1 and n[0] in ("try", "return") and isinstance(n[-1], int) for n in self.walk(x))

    def modified(self, x, env):
        """lean names of the state an expression / statement list may rebind, in a fixed order"""
        out = []

        def add(v):
            if v not in out:
                out.append(v)
        for n in self.walk(x):
            if not n or not isinstance(n[0], str):
                continue
            if n[0] == "mcall" and n[1][0] == "var":
                r = n[1][1]
                if r == "self" and n[2] in self.known:
                    add("chain")
                elif r in env["alias"] and n[2] in ("filter", "end"):
                    add(env["vars"][r][0])
                    if env["alias"][r][0] == "idx":
                        add("chain")
                elif n[2] in ("extend", "push", "insert") and r in env["vars"]:
                    add(env["vars"][r][0])
            if n[0] == "assign":
                if n[1][0] == "var" and n[1][1] in env["vars"]:
                    add(env["vars"][n[1][1]][0])
                if n[1][0] == "field" and n[1][2] == "in_error":
                    add("inError")
            if n[0] == "iflet" and n[1][0] == "pctor" and n[1][1] == "FilterBodyActionItem::Html" and n[2][0] == "var" and n[2][1] in env["alias"]:
                add(env["vars"][n[2][1]][0])
                if env["alias"][n[2][1]][0] == "idx":
                    add("chain")
            if n[0] == "for":
                it = n[2]
                if self.iter_kind(it)[0] == "A":
                    add("chain")
        return out

    def iter_kind(self, it):
        def is_chain(e):
            return e[0] == "field" and e[1][0] == "var" and e[1][1] == "self" and e[2] == "chain"

        def rev_iter_mut(e):
            if e[0] == "mcall" and e[2] == "rev" and not e[3] and e[1][0] == "mcall" and e[1][2] == "iter_mut" and not e[1][3]:
                return e[1][1]
            return None
        if it[0] == "refmut" and is_chain(it[1]):
            return ("A", "fwd", None)
        inner = rev_iter_mut(it)
        if inner is not None and is_chain(inner):
            return ("A", "rev", None)
        if inner is not None and inner[0] == "slicefrom" and is_chain(inner[1]) and inner[2][0] == "var":
            return ("A", "revfrom", inner[2][1])
        if it[0] == "mcall" and it[2] == "iter_mut" and not it[3]:
            if is_chain(it[1]):
                return ("A", "fwd", None)
            if it[1][0] == "slicefrom" and is_chain(it[1][1]) and it[1][2][0] == "var":
                return ("A", "fwdfrom", it[1][2][1])
        if it[0] == "range" and it[1][0] == "int" and it[1][1] == 0 and it[2][0] == "mcall" and it[2][2] == "len" and not it[2][3] and is_chain(it[2][1]):
            return ("B", "range", None)
        if it[0] == "var":
            return ("B", "list", it[1])
        return (None, None, None)

    def loop_exit(self, lc, env, cons):
        vs = lc["state"]
        tup = "()" if not vs else (vs[0] if len(vs) == 1 else "(" + ", ".join(vs) + ")")
        ok = f"Except.ok {tup}" if lc["ret"] else tup
        if lc["kind"] == "A":
            return _leaf(f"({lc['item']} :: rest, {ok})" if cons else f"([], {ok})")
        return _leaf(f"some ({ok})" if lc["panic"] else ok)

    def loop(self, st, env, nxt):
        _, var, it, body, line = st
        kind, sub, arg = self.iter_kind(it)
        if kind is None:
            self.fail("iterator form of this `for` loop is not in the subset", line)
        self.nloop += 1
        name = f"{self.cfg['lean']}Loop{self.nloop}"
        item = _camel(var)
        outer = {v[0] for v in env["vars"].values()}
        mods = [m for m in self.modified(body, dict(env, alias=dict(env["alias"], **({var: ("loop",)} if kind == "A" else {})),
                                                     vars=dict(env["vars"], **{var: (item, True, 0)}))) if m != item]
        if kind == "A":
            if env["locked"]:
                self.fail("nested loops over `self.chain`", line)
            mods = [m for m in mods if m != "chain"]
        selfvars = [_camel(f) for f in self.cfg["self"]]
        state = [m for m in mods if m in outer or m in selfvars]
        state = [v for v in dict.fromkeys([v[0] for v in env["vars"].values()] + selfvars) if v in state]
        # every outer variable mentioned in the body is a parameter (declaration order), the state ones are returned
        mentioned = []
        for n in self.walk(body):
            if len(n) >= 2 and n[0] == "var" and n[1] in env["vars"] and n[1] != var:
                mentioned.append(env["vars"][n[1]][0])
        order = [v[0] for v in env["vars"].values()] + selfvars
        params = [v for v in dict.fromkeys(order) if v in mentioned or v in state]
        types = dict(env["types"], chain="List σ", inError="Bool")
        for v in params:
            if not types.get(v):
                self.fail(f"the type of `{v}` (a variable used in a loop) could not be determined", line)
        has_ret = self.has_exit(body)
        can_panic = any(n and n[0] in ("index", "slicefrom") for n in self.walk(body))
        if can_panic and kind == "A":
            self.fail("indexing inside a loop over `self.chain`", line)
        lc = {"kind": kind, "item": item, "state": state, "ret": has_ret, "panic": can_panic, "name": name}
        if kind == "A":
            elem = "σ"
        elif sub == "range":
            elem = "Nat"
        else:
            lt = env["types"].get(self.lookup(env, arg, line), "")
            m = re.fullmatch(r"List \((.*)\)|List (\S+)", lt or "")
            if not m:
                self.fail(f"`{arg}` is not a list parameter", line)
            elem = m.group(1) or m.group(2)
        vt = "Unit" if not state else (types[state[0]] if len(state) == 1 else " × ".join(f"({types[v]})" if " " in types[v] else types[v] for v in state))
        rv = self.cfg["retval"]
        if kind == "B" and "chain" in state:
            rv = f"List σ × {rv}" if rv else None
        if has_ret and not rv:
            self.fail("`return` / `?` inside a loop of a function without a modelled return value", line)
        rt = f"Except ({rv}) ({vt})" if has_ret else vt
        if kind == "A":
            rt = f"List σ × {rt}"
        elif can_panic:
            rt = f"Option ({rt})"
        # the body
        saved, self.stack = self.stack, [lc]
        env2 = dict(env, vars={k: v for k, v in env["vars"].items()}, locked=env["locked"] or kind == "A")
        self.check_name({"vars": {}, "depth": 0}, var, line, False)
        lean_item, env2 = self.declare(env2, var, True, elem, line, loopvar=True)
        if kind == "A":
            env2 = dict(env2, alias=dict(env2["alias"], **{var: ("loop",)}))
        call = lambda lst: " ".join([name, "@PARAMS@", lst] + params)

        def cont(env3):
            if kind == "A":
                r = self.fresh("r")
                return _match(call("rest"), [(f"(rest, {r})", _leaf(f"({item} :: rest, {r})"))])
            return _leaf(call("rest"))
        bnode = self.block(body, None, env2, None, cont, line)
        nil = self.loop_exit(lc, env, cons=False)
        self.stack = saved
        sig = " → ".join([f"List {elem}" if " " not in elem else f"List ({elem})"] + [f"({types[v]})" if " " in types[v] else types[v] for v in params] + [rt])
        pats = ", ".join(params)
        lines = [f"def {name} @BINDERS@ : {sig}",
                 "  | [], " + pats + " =>" if params else "  | [] =>"] + _pp(nil, 2) + \
                [f"  | {item} :: rest, " + pats + " =>" if params else f"  | {item} :: rest =>"] + _pp(bnode, 2)
        doc = f"the `for {var} in ..` loop of `{self.cfg['rust']}` at line {line - self.cfg['first'] + 1} of the function " \
              f"(recursion on the iterated list; parameters: {', '.join(params) or 'none'}; result: " + \
              ("the updated elements, " if kind == "A" else "") + ("`.error` = an early `return` / `?`, `.ok` = " if has_ret else "") + \
              f"the new values of ({', '.join(state)})" + ("; `none` = a panic" if can_panic else "") + ")."
        self.defs.append((name, doc, lines))
        # the call
        chain = "chain"
        src = {"fwd": chain, "rev": f"{chain}.reverse", "revfrom": None, "fwdfrom": None, "range": f"(List.range {chain}.length)", "list": None}[sub]
        if sub in ("revfrom", "fwdfrom"):
            ix = self.lookup(env, arg, line)
            src = f"({chain}.drop {ix}).reverse" if sub == "revfrom" else f"({chain}.drop {ix})"
        if sub == "list":
            src = self.lookup(env, arg, line)
        if kind == "A" or sub == "range":
            self.self_field(env, "chain", line)
        tup = "()" if not state else (state[0] if len(state) == 1 else "(" + ", ".join(state) + ")")
        r, l = self.fresh("r"), self.fresh("l")

        def after(res):
            if has_ret:
                v = self.fresh("v")
                pay = f"(chain, {v})" if (kind == "B" and "chain" in state) else v
                return _match(res, [(f"Except.error {pay}", self.ret(v)), (f"Except.ok {tup}", nxt(env))])
            return _match(res, [(tup, nxt(env))]) if len(state) != 1 else _let(tup, res, nxt(env))
        if kind == "A":
            back = {"fwd": l, "rev": f"{l}.reverse", "revfrom": None, "fwdfrom": None}[sub]
            if sub == "revfrom":
                back = f"{chain}.take {ix} ++ {l}.reverse"
            if sub == "fwdfrom":
                back = f"{chain}.take {ix} ++ {l}"
            node = _match(call(f"({src})" if " " in src and not src.startswith("(") else src), [(f"({l}, {r})", _let("chain", back, after(r)))])
            if sub in ("revfrom", "fwdfrom"):
                node = _if(f"{ix} ≤ {chain}.length", node, self.panic(line))
            return node
        if can_panic:
            return _match(call(src), [("none", self.panic(line)), (f"some {r}", after(r))])
        return after(call(src)) if has_ret or len(state) != 1 else _let(tup, call(src), nxt(env))


def _preprocess(src, path, fail):
    """feature `compress` ON"""
    lines = src.split("\n")
    out, i = [], 0
    if lines.count("impl FilterBodyAction {") != 2:
        fail(f"{path}: expected the `impl FilterBodyAction` block and the verif-hooks one")
    lo = lines.index("impl FilterBodyAction {")
    hi = lines.index("}", lo)
    while i < len(lines):
        s = lines[i].strip()
        if s.startswith("#[") and lo < i < hi:
            if s == '#[cfg(feature = "compress")]':
                out.append("")
                i += 1
                continue
            if s == '#[cfg(not(feature = "compress"))]':
                ind = lines[i][:len(lines[i]) - len(lines[i].lstrip())]
                if i + 1 >= len(lines) or lines[i + 1] != ind + "{":
                    fail(f"{path}:{i + 1}: `#[cfg(not(feature = \"compress\"))]` must be followed by a block: `{s}`")
                j = i + 2
                while j < len(lines) and lines[j] != ind + "}":
                    j += 1
                if j >= len(lines):
                    fail(f"{path}:{i + 1}: block after the attribute is not closed: `{s}`")
                out += [""] * (j - i + 1)
                i = j + 1
                continue
            fail(f"{path}:{i + 1}: attribute not in the subset: `{s}`")
        out.append(lines[i])
        i += 1
    return "\n".join(out)


_FUNCS = [
    # rust name, lean name, signature regex (groups = free parameter names), builder of the configuration
    ("do_filter", "genChainDoFilter",
     r"fn do_filter\(&mut self, mut (\w+): Vec<u8>, mut (\w+): Option<&mut UnitTrace>\) -> Result<Vec<u8>> \{"),
    ("do_end", "genChainDoEnd",
     r"fn do_end\(&mut self, mut (\w+): Option<&mut UnitTrace>\) -> std::result::Result<Vec<u8>, \(FilterBodyError, Vec<u8>\)> \{"),
    ("filter", "genChainFilter",
     r"pub fn filter\(&mut self, (\w+): Vec<u8>, (\w+): Option<&mut UnitTrace>\) -> Vec<u8> \{"),
    ("end", "genChainEnd",
     r"pub fn end\(&mut self, (\w+): Option<&mut UnitTrace>\) -> Vec<u8> \{"),
    ("new", "genChainNew",
     r"pub fn new\((\w+): Vec<BodyFilter>, (\w+): &\[Header\]\) -> Self \{"),
]


def _impl_text(src, path, fail):
    m = re.search(r"\nimpl FilterBodyAction \{\n(.*?)\n\}\n", src, re.S)
    if not m:
        fail(f"{path}: `impl FilterBodyAction` not found")
    return m.group(1), src.count("\n", 0, m.start(1))


def extract(read, fail, lean_str, lean_list):
    core = _core()
    old = "(?P<op>::|"
    if old not in core._TOKEN.pattern or "[!.,;:(){}\\[\\]&=<>*|+-]" not in core._TOKEN.pattern:
        fail("w4_translate.py: the operator class of the lexer is not the expected one")
    core._TOKEN = re.compile(core._TOKEN.pattern.replace(old, "(?P<op>\\.\\.|::|").replace("[!.,;:(){}\\[\\]&=<>*|+-]", "[!.,;:(){}\\[\\]&=<>*|+?-]"), re.X)
    path = "src/filter/filter_body.rs"
    src = _preprocess(read(path), path, fail)
    if not re.search(r"pub struct FilterBodyAction \{\s*chain: Vec<FilterBodyActionItem>,\s*in_error: bool,\s*\}", src):
        fail(f"{path}: `struct FilterBodyAction` no longer has exactly the fields `chain`, `in_error`")
    if not re.search(r"pub struct Header \{\s*pub name: String,\s*pub value: String,\s*\}", read("src/http/header.rs")):
        fail("src/http/header.rs: `struct Header` no longer has exactly the fields `name`, `value`")
    out = ["-- Rust -> Lean translation: the body filter chain driver `FilterBodyAction::{new, filter, do_filter, end, do_end}` "
           "(tools/consts.d/tr_w18_chain.py; lexer of w4_translate.py)"]
    known = {}
    for rust, lean, sig in _FUNCS:
        m = re.search(sig, src)
        if not m:
            fail(f"{path}: function with signature /{sig}/ not found")
        if len(re.findall(sig, src)) != 1:
            fail(f"{path}: signature /{sig}/ is not unique")
        body, first, lines = core._function(src, path, sig, fail)
        names = m.groups()
        cfg = {"rust": "FilterBodyAction::" + rust, "lean": lean, "text": body, "first": first}
        env = {"vars": {}, "types": {}, "alias": {}, "locked": False, "html": {}, "depth": 0}
        if rust == "do_filter":
            cfg.update(self=["chain"], trace=names[1], retval=f"Except ε ({B})", wrap=lambda v: f"(chain, {v})", panic=False,
                       args=[("chain", "List σ"), ("data", B)], rtype=f"List σ × Except ε ({B})")
            env["vars"][names[0]], env["types"]["data"] = ("data", True, 0), B
        elif rust == "do_end":
            cfg.update(self=["chain"], trace=names[0], retval=f"Except (ε × {B}) ({B})", wrap=lambda v: f"some (chain, {v})", panic=True,
                       args=[("chain", "List σ")], rtype=f"Option (List σ × Except (ε × {B}) ({B}))")
        elif rust == "filter":
            cfg.update(self=["chain", "in_error"], trace=names[1], retval=None, wrap=lambda v: f"((chain, inError), {v})", panic=False,
                       args=[("chain", "List σ"), ("inError", "Bool"), ("data", B)], rtype=f"(List σ × Bool) × {B}")
            env["vars"][names[0]], env["types"]["data"] = ("data", False, 0), B
        elif rust == "end":
            cfg.update(self=["chain", "in_error"], trace=names[0], retval=None, wrap=lambda v: f"some ((chain, inError), {v})", panic=True,
                       args=[("chain", "List σ"), ("inError", "Bool")], rtype=f"Option ((List σ × Bool) × {B})")
        else:
            cfg.update(self=[], trace=None, retval=None, wrap=lambda v: v, panic=False,
                       args=[("filters", "List φ"), ("headers", "List (String × String)")], rtype="List σ × Bool")
            env["vars"][names[0]], env["types"]["filters"] = ("filters", False, 0), "List φ"
            env["vars"][names[1]], env["types"]["headers"] = ("headers", False, 0), "List (String × String)"
        try:
            toks = core._lex(body, first, path)
            parser = _P(core, toks, path, lines)
            stmts, tail = parser.block()
            if parser.i != len(toks):
                parser.fail("trailing tokens after the function body")
            fn = _Fn(core, parser, cfg, known)
            if rust in ("do_filter", "do_end"):
                # the result of these two is a `Result`: the tail / `return` value is the `Except` value itself
                pass
            node = fn.block(stmts, tail, env, lambda a: _leaf(cfg["wrap"](a)), None, first)
        except core._Fail as e:
            fail(str(e))
        # parameters actually used (loops first: a function uses what its loops use)
        used_by = {}
        defs = fn.defs + [(lean, None, None)]
        texts = {}
        for name, doc, lines_ in fn.defs:
            texts[name] = "\n".join(lines_)
        main_lines = _pp(node, 1)
        texts[lean] = "\n".join(main_lines) + " " + cfg["rtype"]
        changed = True
        kparams = {v["lean"]: v["params"] for v in known.values()}
        for name in texts:
            used_by[name] = [p for p, _ in _PARAMS if re.search(r"(?<![\w.])" + p + r"(?![\w])", texts[name])]
        while changed:
            changed = False
            for name in texts:
                for other in list(texts) + list(kparams):
                    if other != name and re.search(r"(?<![\w])" + other + r"(?![\w])", texts[name]):
                        for p in (used_by.get(other) or kparams.get(other, [])):
                            if p not in used_by[name]:
                                used_by[name].append(p)
                                changed = True
        for name in used_by:
            used_by[name] = [p for p, _ in _PARAMS if p in used_by[name]]

        def binders(name, sigtext):
            ps = used_by[name]
            tys = " ".join(t for p, t in _PARAMS if p in ps) + " " + sigtext
            tv = [v for v in _TYVARS if v in tys]
            return ("{" + " ".join(tv) + " : Type} " if tv else "") + " ".join(f"({p} : {t})" for p, t in _PARAMS if p in ps)

        def fill(line_):
            for other in texts:
                line_ = line_.replace(other + " @PARAMS@", " ".join([other] + used_by[other]))
            return line_
        for name, doc, lines_ in fn.defs:
            out += ["", "set_option linter.unusedVariables false in", f"/-- {doc} Translated from {path}. -/"]
            out += [fill(lines_[0].replace("@BINDERS@", binders(name, lines_[0])))] + [fill(x) for x in lines_[1:]]
        argtext = " ".join(f"({a} : {t})" for a, t in cfg["args"])
        doc = {"do_filter": "`FilterBodyAction::do_filter`: (chain afterwards, `Ok(data)` / `Err(err)`).",
               "do_end": "`FilterBodyAction::do_end`: `none` = a panic (index out of range), else (chain afterwards, `Ok(data)` / `Err((err, passthrough))`).",
               "filter": "`FilterBodyAction::filter`: ((chain, in_error) afterwards, returned bytes).",
               "end": "`FilterBodyAction::end`: `none` = a panic inside `do_end`, else ((chain, in_error) afterwards, returned bytes).",
               "new": "`FilterBodyAction::new` (feature `compress` on): (chain, in_error)."}[rust]
        out += ["", "set_option linter.unusedVariables false in", f"/-- {doc} Stage calls and constructors are parameters (see the plugin's docstring). Translated from {path}. -/",
                f"def {lean} {binders(lean, argtext + cfg['rtype'])} {argtext} : {cfg['rtype']} :="] + [fill(x) for x in main_lines]
        known[rust] = {"lean": lean, "params": used_by[lean], "nargs": len(cfg["args"]) - len(cfg["self"]), "panic": cfg["panic"]}
    return out
