"""C06: the serde schema of every type on the agent -> proxy JSON path, regenerated on every run.

For each struct: the fields in declaration order as (serialised key, Rust type, serde attributes
of the field) plus the struct-level serde attributes; for the two enums: the variants in
declaration order with their rename / payload type.  `Props/C06.lean` compares these tables
literally with the schema the hand-written model was transcribed from (any added / removed /
renamed / reordered / retyped field or changed attribute breaks that proof module) and proves that
the keys the model's `ser*` emits are exactly these keys in this order.

Fails closed when a type is not found, no longer derives both `Serialize` and `Deserialize`, or a
hand-written `impl Serialize` / `impl Deserialize` appears in one of the files.
"""
import re

TYPES = [
    # (lean name, file, kind, rust name)
    ("Action", "src/action/mod.rs", "struct", "Action"),
    ("RuleTrace", "src/action/mod.rs", "struct", "RuleTrace"),
    ("HeaderFilterAction", "src/action/mod.rs", "struct", "HeaderFilterAction"),
    ("BodyFilterAction", "src/action/mod.rs", "struct", "BodyFilterAction"),
    ("StatusCodeUpdate", "src/action/status_code_update.rs", "struct", "StatusCodeUpdate"),
    ("LogOverride", "src/action/log_override.rs", "struct", "LogOverride"),
    ("HeaderFilter", "src/api/header_filter.rs", "struct", "HeaderFilter"),
    ("HtmlBodyFilter", "src/api/body_filter.rs", "struct", "HTMLBodyFilter"),
    ("TextBodyFilter", "src/api/body_filter.rs", "struct", "TextBodyFilter"),
    ("TextAction", "src/api/body_filter.rs", "enum", "TextAction"),
    ("BodyFilter", "src/api/body_filter.rs", "enum", "BodyFilter"),
    ("Request", "src/http/request.rs", "struct", "Request"),
    ("PathAndQuery", "src/http/query.rs", "struct", "PathAndQueryWithSkipped"),
    ("Header", "src/http/header.rs", "struct", "Header"),
]


def _norm(s):
    return re.sub(r"\s+", " ", s).strip()


def _strip_comments(src):
    src = re.sub(r"/\*.*?\*/", "", src, flags=re.S)
    return re.sub(r"//[^\n]*", "", src)


def _item(src, kind, name, fail, where):
    """-> (outer attributes text, body text) of `pub? struct|enum Name { ... }`."""
    m = re.search(r"((?:\s*#\[[^\]]*\]\s*)*)\s*(?:pub(?:\([a-z]+\))?\s+)?" + kind + r"\s+" + re.escape(name) + r"\s*\{", src)
    if not m:
        fail(f"{where}: `{kind} {name}` not found")
    i = m.end()
    depth = 1
    j = i
    while j < len(src) and depth:
        if src[j] == "{":
            depth += 1
        elif src[j] == "}":
            depth -= 1
        j += 1
    if depth:
        fail(f"{where}: unbalanced braces in `{kind} {name}`")
    return m.group(1), src[i:j - 1]


def _attrs(text):
    return [_norm(a) for a in re.findall(r"#\[(.*?)\]", text, re.S)]


def _serde_attrs(attrs):
    out = []
    for a in attrs:
        m = re.fullmatch(r"serde\((.*)\)", a, re.S)
        if m:
            out.append(_norm(m.group(1)))
    return out


def _split_members(body):
    """split the body of a struct/enum at top-level commas"""
    parts, cur, depth = [], "", 0
    for ch in body:
        if ch in "<([{":
            depth += 1
        elif ch in ">)]}":
            depth -= 1
        if ch == "," and depth == 0:
            parts.append(cur)
            cur = ""
        else:
            cur += ch
    if cur.strip():
        parts.append(cur)
    return [p for p in parts if p.strip()]


def extract(read, fail, lean_str, lean_list):
    lines = ["-- serde schema of the agent -> proxy types (tools/consts.d/w4_serde.py)"]
    seen_files = set()
    for lean_name, path, kind, rust_name in TYPES:
        raw = read(path)
        src = _strip_comments(raw)
        if path not in seen_files:
            seen_files.add(path)
            if re.search(r"impl\s*(<[^>]*>)?\s*(serde::)?(Serialize|Deserialize)\b[^{;]*\bfor\b", src):
                fail(f"{path}: a hand-written Serialize/Deserialize impl appeared; the C06 model only covers derives")
        outer, body = _item(src, kind, rust_name, fail, path)
        outer_attrs = _attrs(outer)
        derives = " ".join(a for a in outer_attrs if a.startswith("derive("))
        if not re.search(r"\bSerialize\b", derives) or not re.search(r"\bDeserialize\b", derives):
            fail(f"{path}: `{rust_name}` no longer derives both Serialize and Deserialize ({derives})")
        type_attrs = _serde_attrs(outer_attrs)
        lines.append(f"def serde{lean_name}Attrs : List String := {lean_list(type_attrs)}")
        rows = []
        for member in _split_members(body):
            mattrs = _serde_attrs(_attrs(member))
            decl = _norm(re.sub(r"#\[.*?\]", "", member, flags=re.S))
            if kind == "struct":
                m = re.fullmatch(r"(?:pub(?:\([a-z]+\))?\s+)?(\w+)\s*:\s*(.+)", decl)
                if not m:
                    fail(f"{path}: cannot read field `{decl}` of `{rust_name}`")
                field, ty = m.group(1), _norm(m.group(2))
                key = field
                for a in mattrs:
                    r = re.search(r'\brename\s*=\s*"([^"]*)"', a)
                    if r:
                        key = r.group(1)
                rows.append((key, ty, "; ".join(mattrs)))
            else:
                m = re.fullmatch(r"(\w+)\s*(?:\((.*)\))?", decl)
                if not m:
                    fail(f"{path}: cannot read variant `{decl}` of `{rust_name}`")
                variant, payload = m.group(1), _norm(m.group(2) or "")
                name = variant
                for a in mattrs:
                    r = re.search(r'\brename\s*=\s*"([^"]*)"', a)
                    if r:
                        name = r.group(1)
                rows.append((name, payload, "; ".join(mattrs)))
        if not rows:
            fail(f"{path}: `{rust_name}` has no members")
        body_l = ", ".join("(" + ", ".join(lean_str(x) for x in row) + ")" for row in rows)
        lines.append(f"def serde{lean_name} : List (String × String × String) := [{body_l}]")
    return lines
