#!/bin/sh
# usage: tools/miri_c18.sh [N=12] [SEED=9]
# C18, thorough-tier support: run N generated C-API call sequences (harness c18, `gen --tier miri`: the generator
# executes every sequence through the real extern "C" functions) under Miri.  The interpreter checks what the
# auditing allocator cannot: out-of-bounds / use-after-free ACCESSES, Stacked Borrows, layout of every deallocation,
# ABI of the calls.  Exit 0 iff Miri reports no Undefined Behavior and every leak it reports at exit was allocated in
# redirectionio_trusted_proxies_create (the documented leak of the C API).
# Honours RIO_HARNESS (default /verif/harness; its Cargo.toml names the repository under test).  Needs the nightly
# toolchain with the miri component (present offline in this sandbox; `cargo +nightly miri setup` already done).
# Cost: first build of the dependencies for the miri target about 1 min, then about 5 s per sequence.
N=${1:-12}; SEED=${2:-9}
H=${RIO_HARNESS:-/verif/harness}
cd "$H" || exit 3
OUT=$(mktemp); ERR=$(mktemp)
MIRIFLAGS="-Zmiri-disable-isolation" CARGO_NET_OFFLINE=true PUBLISH_SKIP_BUILD=1 \
  timeout "${MIRI_TIMEOUT:-1500}" cargo +nightly miri run --bin c18 -- gen --seed "$SEED" --n "$N" --tier miri >"$OUT" 2>"$ERR"
RC=$?
CASES=$(wc -l <"$OUT")
UB=$(grep -c "Undefined Behavior" "$ERR")
LEAKS=$(grep -c "^error: memory leaked" "$ERR")
# a leak is documented iff its backtrace goes through redirectionio_trusted_proxies_create
FOREIGN=$(awk '/^error: memory leaked/{ if (blk && !tp) bad++; blk=1; tp=0; next } /redirectionio_trusted_proxies_create/{ tp=1 } /^error: aborting|^error: Undefined/{ if (blk && !tp) bad++; blk=0 } END{ if (blk && !tp) bad++; print bad+0 }' "$ERR")
echo "miri_c18: $CASES sequences executed, exit $RC, undefined-behaviour reports $UB, leaks $LEAKS (not from trusted_proxies_create: $FOREIGN)"
if [ "$UB" -ne 0 ] || [ "$FOREIGN" -ne 0 ] || [ "$CASES" -lt "$N" ]; then
  grep -n "^error" -A14 "$ERR" | grep -v "memory leaked" | head -60
  rm -f "$OUT" "$ERR"; exit 1
fi
rm -f "$OUT" "$ERR"; exit 0
