#!/bin/sh
# usage: tools/seedrun.sh <patch.diff> <ID> [<ID>...]
# Try a candidate change in a scratch worktree of /repo (never touches /repo, /verif/evidence or /verif/replays):
# applies the patch, points a copy of the harness at the worktree and runs ./check for each property.
# Output (evidence, replays) goes to the scratch directory, which is removed afterwards unless KEEP=1.
set -e
PATCH=$(readlink -f "$1"); shift
N=$$
WT=/tmp/seedrun_$N
for k in 1 2 3 4 5; do git -C /repo worktree add --detach "$WT" HEAD >/dev/null 2>&1 && break; sleep 2; done
[ -d "$WT" ] || { echo "seedrun: cannot create worktree"; exit 3; }
cp /repo/Cargo.lock "$WT/Cargo.lock"
git -C "$WT" apply "$PATCH"
mkdir -p "$WT/_verif"
rsync -a --exclude target /verif/harness/ "$WT/_verif/harness/"
sed -i "s|path = \"/repo\"|path = \"$WT\"|" "$WT/_verif/harness/Cargo.toml"
# share compiled dependencies: start from a copy of the main harness target if present
if [ -d /verif/harness/target ] && [ -z "$NO_TARGET_COPY" ]; then cp -a /verif/harness/target "$WT/_verif/harness/target"; fi
RC=0
for ID in "$@"; do
  RIO_REPO="$WT" RIO_HARNESS="$WT/_verif/harness" RIO_OUT="$WT/_verif" /verif/check "$ID" --tier "${TIER:-quick}" || RC=1
done
if [ -n "$KEEP" ]; then echo "kept $WT"; else git -C /repo worktree remove --force "$WT"; fi
exit $RC
