#!/bin/sh
# usage: tools/realrun.sh <patch> <ID>...   REAL-mode run: the patch is applied to /repo's working tree itself (so that the
# translated definitions are regenerated and the equivalence proofs re-checked), the checks run with their output in /tmp,
# and /repo is restored (`git checkout -- .`) whatever happens; the shared Generated/Consts.lean is regenerated afterwards.
# Only for the coordinator, when nothing else uses /repo or /verif/lean.
P=$(readlink -f "$1"); shift
[ -z "$(git -C /repo status --porcelain)" ] || { echo "/repo is not clean"; exit 2; }
git -C /repo apply "$P" || { echo "patch does not apply"; exit 2; }
trap 'git -C /repo checkout -- . ; python3 /verif/tools/extract_consts.py >/dev/null 2>&1; rm -rf /tmp/realrun' EXIT INT TERM
for id in "$@"; do
  RIO_OUT=/tmp/realrun VERIF_REGEN=1 /verif/check "$id" --tier quick 2>&1 | grep -E "^VIOL|^NOTE|tier=|do not build|FAILED|escalated|above the floor|tie failed|static tie|crash|STATEMENT|audit|broken" | cut -c1-260
done
