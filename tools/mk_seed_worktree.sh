#!/bin/sh
# usage: tools/mk_seed_worktree.sh <name>   -> /tmp/seed_<name>: detached worktree of /repo HEAD with Cargo.lock
set -e
D=/tmp/seed_$1
git -C /repo worktree add --detach "$D" HEAD >/dev/null 2>&1
cp /repo/Cargo.lock "$D/Cargo.lock"
mkdir -p "$D/SEED"
echo "$D"
