#!/usr/bin/env python3
"""Run every seeded change in seeded/ against the check(s) of the property it breaks (in scratch worktrees,
tools/seedrun.sh) and record which are caught.  usage: tools/seed_matrix.py [name-prefix ...] [--also C17,C01]
Writes seeded/RESULTS.json (merged with previous results) and prints a table."""
import json, os, subprocess, sys, glob, time
V = os.path.normpath(os.path.join(os.path.dirname(os.path.abspath(__file__)), ".."))
args = [a for a in sys.argv[1:] if not a.startswith("--")]
res_path = os.path.join(V, "seeded", "RESULTS.json")
results = json.load(open(res_path)) if os.path.exists(res_path) else {}
claimed = {json.load(open(f))["id"] for f in glob.glob(os.path.join(V, "props", "C*.json")) if json.load(open(f)).get("claimed", True)}
extra = {}
for a in sys.argv[1:]:
    if a.startswith("--also="):
        extra = set(a.split("=", 1)[1].split(","))
for d in sorted(glob.glob(os.path.join(V, "seeded", "*", ""))):
    name = os.path.basename(os.path.dirname(d))
    if args and not any(name.startswith(a) for a in args):
        continue
    meta = json.load(open(os.path.join(d, "meta.json")))
    props = [meta.get("property")] + list(meta.get("also_checked_by", [])) + list(extra or [])
    for pid in props:
        if pid not in claimed:
            print(f"{name}: {pid} not claimed yet, skipped")
            continue
        t0 = time.time()
        p = subprocess.run([os.path.join(V, "tools", "seedrun.sh"), os.path.join(d, "patch.diff"), pid], stdout=subprocess.PIPE, stderr=subprocess.STDOUT)
        out = p.stdout.decode("utf-8", "replace")
        viol = [l for l in out.split("\n") if l.startswith("VIOLATION")]
        caught = p.returncode != 0 and bool(viol)
        kind = "not caught"
        if "tier=" not in out:
            print(f"{name}: {pid}: ERROR running the check: {out[-300:]}")
            continue
        if caught:
            kind = "caught (no failing input found)" if all(v.endswith("no-failing-input-found") for v in viol) else "caught with replay input"
        results.setdefault(name, {})[pid] = {"caught": caught, "how": kind, "lines": [v.replace("/tmp/seedrun_", "<scratch>/seedrun_") for v in viol][:3], "wall_s": round(time.time() - t0, 1), "summary": meta.get("summary", "")}
        print(f"{name}: {pid}: {kind} ({round(time.time() - t0)}s)")
        json.dump(results, open(res_path, "w"), indent=1, ensure_ascii=False)
