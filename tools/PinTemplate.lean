import Lean
open Lean

/-- Constants with prefix `Rio` occurring in an expression. -/
def rioConsts (e : Expr) : List Name :=
  (e.getUsedConstants.toList).filter fun n => (`Rio).isPrefixOf n

/-- Transitive closure, through the TYPES of everything and the VALUES of definitions / structure projections /
constructors of inductives (never through proofs of theorems), of the `Rio.*` constants a statement depends on. -/
partial def closure (env : Environment) (todo : List Name) (seen : NameSet) : NameSet :=
  match todo with
  | [] => seen
  | n :: rest =>
    if seen.contains n then closure env rest seen else
    let seen := seen.insert n
    match env.find? n with
    | none => closure env rest seen
    | some ci =>
      let fromType := rioConsts ci.type
      -- `Rio.Consts.*` is REGENERATED from /repo on every run: its text may change under a harmless rewrite of the source
      -- (the equivalence proofs then decide), so a generated definition enters a pin by name and type only
      let fromVal := if (`Rio.Consts).isPrefixOf n then [] else match ci with
        | .defnInfo d => rioConsts d.value
        | .opaqueInfo d => rioConsts d.value
        | .inductInfo i => i.ctors
        | _ => []
      closure env (fromType ++ fromVal ++ rest) seen

def describe (env : Environment) (n : Name) : String :=
  match env.find? n with
  | none => s!"{n}:?"
  | some ci =>
    let v := if (`Rio.Consts).isPrefixOf n then "<generated>" else match ci with
      | .defnInfo d => toString d.value
      | .opaqueInfo d => toString d.value
      | .inductInfo i => toString i.ctors
      | _ => ""
    s!"{n}:{ci.type}:={v}"

def pinOf (env : Environment) (thm : Name) : Option UInt64 :=
  match env.find? thm with
  | none => none
  | some ci =>
    let deps := (closure env (rioConsts ci.type) {}).toList.map (·.toString) |>.mergeSort
    let txt := toString ci.type ++ "\n" ++ String.intercalate "\n" (deps.map fun s => describe env s.toName)
    some (hash txt)

elab "#pins " ids:ident* : command => do
  let env ← getEnv
  for i in ids do
    let n := i.getId
    match pinOf env n with
    | some h => logInfo m!"@@PIN {n} {h}"
    | none => logInfo m!"@@PIN {n} MISSING"
