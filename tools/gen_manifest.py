#!/usr/bin/env python3
"""Regenerate MANIFEST.json from props/*.json (one file per claimed property) and tools/not_applicable.json."""
import glob
import json
import os

V = os.path.normpath(os.path.join(os.path.dirname(os.path.abspath(__file__)), ".."))
ALL = [f"C{i:02d}" for i in range(1, 20)]
specs = {}
for f in sorted(glob.glob(os.path.join(V, "props", "C*.json"))):
    j = json.load(open(f))
    if j.get("claimed", True):
        specs[j["id"]] = j
na_reasons = json.load(open(os.path.join(V, "tools", "not_applicable.json")))
hooks = json.load(open(os.path.join(V, "tools", "hooks.json")))
m = {
    "version": 1,
    "setup_cmd": "./setup.sh",
    "hooks": hooks,
    "engines": [{
        "name": "lean-proof+correspondence", "path": "check", "serves_properties": sorted(specs),
        "kind_free_text": "Lean 4 theorems about hand-written executable models (lean/RioModel), tied to /repo on every run by a differential correspondence check (harness/ binaries running the real code vs the model drivers lean/Drivers) and by constants regenerated from the source (tools/extract_consts.py)",
    }],
    "checks": [],
    "not_applicable": [],
    "notes": "See DESIGN.md.  ./check <ID> --tier quick|thorough [--replay file]; known findings in known_findings.json; seeded changes in seeded/.",
}
for pid in ALL:
    if pid in specs:
        s = specs[pid]
        man = s["manifest"]
        m["checks"].append({
            "property_id": pid,
            "quick_cmd": f"./check {pid} --tier quick",
            "thorough_cmd": f"./check {pid} --tier thorough",
            "evidence_file": f"/verif/evidence/{pid}.json",
            "replay_cmd_template": f"./check {pid} --replay {{path}}",
            "engine": "lean-proof+correspondence",
            "level_claimed": {"category": s.get("level", "proof"), "text": man["text"], "design_ref": man.get("design_ref", f"DESIGN.md section 5 {pid}")},
            "level_note": man["note"],
            "technique": man["technique"],
        })
    else:
        m["not_applicable"].append({"property_id": pid, "reason": na_reasons.get(pid, "not claimed yet (work in progress, DESIGN.md section 10)")})
CATS = json.load(open("/root/.vp/MANIFEST.schema.json"))["properties"]["checks"]["items"]["properties"]["level_claimed"]["properties"]["category"]["enum"] if os.path.exists("/root/.vp/MANIFEST.schema.json") else ["proof"]
for c in m["checks"]:
    assert c["level_claimed"]["category"] in CATS, (c["property_id"], c["level_claimed"]["category"], "not a schema category: put qualifiers in the text")
json.dump(m, open(os.path.join(V, "MANIFEST.json"), "w"), indent=1)
print("claimed:", sorted(specs), "not claimed:", [p for p in ALL if p not in specs])
