#!/bin/sh
# usage: tools/confirm_seed.sh <breaker worktree> <seed index> <dest name>
# Confirms a seeded change independently in the breaker's scratch worktree:
#   (1) patch applies, library builds, full suite green;  (2) demo fails with the patch;  (3) demo passes without it.
# On success copies it to /verif/seeded/<dest name>/ (patch.diff, demo.rs, meta.json + confirm.json).
WT=$1; I=$2; DEST=$3
S=$WT/SEED/$I
export CARGO_NET_OFFLINE=true CARGO_TARGET_DIR=$WT/target
cd "$WT" || exit 2
git checkout -q -- . ; rm -f tests/zz_seed_demo.rs
DEMO=$(ls "$S"/demo*.rs 2>/dev/null | head -1)
[ -f "$S/patch.diff" ] && [ -n "$DEMO" ] || { echo "$DEST: missing patch or demo"; exit 2; }
git apply "$S/patch.diff" || { echo "$DEST: patch does not apply"; exit 2; }
SUITE=$(cargo nextest run --workspace --no-fail-fast --offline 2>&1 | grep -E "Summary|tests run" | tail -1)
cp "$DEMO" tests/zz_seed_demo.rs
cargo test --offline --test zz_seed_demo >/tmp/confirm_$$.log 2>&1; RC_WITH=$?
WITH=$(grep -E "^test result" /tmp/confirm_$$.log | tail -1)
git checkout -q -- .
cargo test --offline --test zz_seed_demo >/tmp/confirm_$$.log 2>&1; RC_WITHOUT=$?
WITHOUT=$(grep -E "^test result" /tmp/confirm_$$.log | tail -1)
rm -f tests/zz_seed_demo.rs /tmp/confirm_$$.log
echo "$DEST: suite[$SUITE] demo-with-patch rc=$RC_WITH [$WITH] demo-without rc=$RC_WITHOUT [$WITHOUT]"
case "$SUITE" in *"549 passed"*) ;; *) echo "$DEST: REJECTED (suite)"; exit 1;; esac
[ "$RC_WITH" != 0 ] && [ "$RC_WITHOUT" = 0 ] || { echo "$DEST: REJECTED (demo)"; exit 1; }
mkdir -p /verif/seeded/$DEST
cp "$S/patch.diff" /verif/seeded/$DEST/patch.diff; cp "$DEMO" /verif/seeded/$DEST/demo.rs
python3 - "$S/meta.json" "/verif/seeded/$DEST/meta.json" "$SUITE" "$WITH" "$WITHOUT" <<'PY'
import json, sys
try:
    m = json.load(open(sys.argv[1]))
except Exception as e:
    m = {"note": "breaker meta.json unreadable: %s" % e}
m["confirmed_by_coordinator"] = {"how": "tools/confirm_seed.sh in a scratch worktree: git apply; cargo nextest run --workspace --offline; cargo test --test <demo> with and without the patch",
                                 "suite_with_patch": sys.argv[3], "demo_with_patch": sys.argv[4] or "failed (non-zero exit)", "demo_without_patch": sys.argv[5]}
m["demo_cmd"] = "cp demo.rs <repo>/tests/zz_seed_demo.rs && cargo test --offline --test zz_seed_demo"
json.dump(m, open(sys.argv[2], "w"), indent=1, ensure_ascii=False)
PY
echo "$DEST: CONFIRMED"
