#!/usr/bin/env python3
"""Fingerprints of the source files each property is anchored in (properties.jsonl `anchors.files`).

  tools/source_baseline.py --update     rewrite tools/source_baseline.json from /repo (coordinator, after a /repo commit)
  tools/source_baseline.py <ID>         print "changed <files…>" or "unchanged" for the property (used by ./check)
  tools/source_baseline.py --hints      print JSON {"nums": [...], "strs": [...]}: the literals (numbers, strings, chars, integer
                                        type widths) occurring in the lines that differ between the baseline copy of src/
                                        (tools/source_baseline/src) and the current src/ — passed to the generators as
                                        VERIF_HINTS so that the search is directed at what the change mentions

./check never alarms on a fingerprint change: it only ESCALATES the search (more generated cases in the quick
tier) when the code a property is anchored in differs from the baseline the committed evidence was produced on.
Comments and whitespace are ignored."""
import glob, hashlib, json, os, re, sys

V = os.path.normpath(os.path.join(os.path.dirname(os.path.abspath(__file__)), ".."))
REPO = os.environ.get("RIO_REPO", "/repo")
BASE = os.path.join(V, "tools", "source_baseline.json")


def norm(text):
    text = re.sub(r"/\*.*?\*/", "", text, flags=re.S)
    text = re.sub(r"//[^\n]*", "", text)
    return re.sub(r"\s+", "", text)


def files_of(pid):
    for line in open(os.path.join(V, "properties.jsonl")):
        p = json.loads(line)
        if p["id"] == pid:
            out = []
            for f in p["anchors"]["files"]:
                out += sorted(glob.glob(os.path.join(REPO, f)))
            return sorted(set(out))
    return []


def fingerprints(pid):
    return {os.path.relpath(f, REPO): hashlib.sha1(norm(open(f, errors="replace").read()).encode()).hexdigest()[:16] for f in files_of(pid)}


COPY = os.path.join(V, "tools", "source_baseline", "src")


def src_files(root):
    out = {}
    for dp, _, fns in os.walk(root):
        for fn in fns:
            if fn.endswith(".rs"):
                full = os.path.join(dp, fn)
                out[os.path.relpath(full, root)] = full
    return out


def hints(pid=None):
    import difflib
    nums, strs = set(), set()
    old, new = src_files(COPY), src_files(os.path.join(REPO, "src"))
    only = None
    if pid:   # only the files the property is anchored in (a literal in an unrelated file is noise for this property)
        only = {os.path.relpath(f, os.path.join(REPO, "src")) for f in files_of(pid) if f.startswith(os.path.join(REPO, "src"))}
    for rel in sorted(set(old) | set(new)):
        if only is not None and rel not in only:
            continue
        a = open(old[rel], errors="replace").read().split("\n") if rel in old else []
        b = open(new[rel], errors="replace").read().split("\n") if rel in new else []
        if a == b:
            continue
        for line in difflib.unified_diff(a, b, lineterm="", n=0):
            if line.startswith(("+++", "---", "@@")) or not line.startswith(("+", "-")):
                continue
            body = re.sub(r"//.*", "", line[1:])
            # literals first (so that digits inside them are not taken as numbers twice)
            lits = re.findall(r'b?"((?:[^"\\]|\\.)*)"', body) + re.findall(r"b?'((?:[^'\\]|\\.){1,6})'", body)
            for m in lits:
                if 0 < len(m) <= 40:
                    strs.add(m)
            for m in re.findall(r"\b0x[0-9a-fA-F_]+\b|\b\d[\d_]*\b", body):
                try:
                    v = int(m.replace("_", ""), 0)
                    if v < 2 ** 40:
                        nums.add(v)
                except ValueError:
                    pass
            for ty, vals in (("u8", (255, 256)), ("i8", (127, 128)), ("u16", (65535, 65536)), ("i16", (32767, 32768))):
                if re.search(r"\b" + ty + r"\b", body):
                    nums.update(vals)
    out_strs = set()
    for t in strs:
        try:
            t2 = re.sub(r"\\x([0-9a-fA-F]{2})", lambda m: chr(int(m.group(1), 16)), t)
            t2 = re.sub(r"\\u\{([0-9a-fA-F]+)\}", lambda m: chr(int(m.group(1), 16)), t2)
            for k, v in (("\\n", "\n"), ("\\t", "\t"), ("\\r", "\r"), ("\\0", "\0"), ("\\'", "'"), ('\\"', '"'), ("\\\\", "\\")):
                t2 = t2.replace(k, v)
            out_strs.add(t2)
        except Exception:
            pass
    return {"nums": sorted(nums)[:64], "strs": sorted(out_strs)[:64]}


if __name__ == "__main__":
    if "--update" in sys.argv:
        import shutil
        base = {f"C{i:02d}": fingerprints(f"C{i:02d}") for i in range(1, 20)}
        json.dump(base, open(BASE, "w"), indent=1, sort_keys=True)
        shutil.rmtree(os.path.dirname(COPY), ignore_errors=True)
        for rel, full in src_files(os.path.join(REPO, "src")).items():
            os.makedirs(os.path.dirname(os.path.join(COPY, rel)), exist_ok=True)
            shutil.copyfile(full, os.path.join(COPY, rel))
        print("baseline updated")
    elif "--hints" in sys.argv:
        rest = [a for a in sys.argv[1:] if not a.startswith("--")]
        print(json.dumps(hints(rest[0] if rest else None)))
    else:
        pid = sys.argv[1]
        base = json.load(open(BASE)).get(pid, {}) if os.path.exists(BASE) else {}
        now = fingerprints(pid)
        changed = sorted(f for f in set(base) | set(now) if base.get(f) != now.get(f))
        print("changed " + " ".join(changed) if changed else "unchanged")
