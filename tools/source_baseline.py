#!/usr/bin/env python3
"""Fingerprints of the source files each property is anchored in (properties.jsonl `anchors.files`).

  tools/source_baseline.py --update     rewrite tools/source_baseline.json from /repo (coordinator, after a /repo commit)
  tools/source_baseline.py <ID>         print "changed <files…>" or "unchanged" for the property (used by ./check)

./check never alarms on a fingerprint change: it only ESCALATES the search (more generated cases in the quick
tier) when the code a property is anchored in differs from the baseline the committed evidence was produced on.
Comments and whitespace are ignored."""
import glob, hashlib, json, os, re, sys

V = os.path.normpath(os.path.join(os.path.dirname(os.path.abspath(__file__)), ".."))
REPO = os.environ.get("RIO_REPO", "/repo")
BASE = os.path.join(V, "tools", "source_baseline.json")


def norm(text):
    text = re.sub(r"/\*.*?\*/", "", text, flags=re.S)
    text = re.sub(r"//[^\n]*", "", text)
    return re.sub(r"\s+", "", text)


def files_of(pid):
    for line in open(os.path.join(V, "properties.jsonl")):
        p = json.loads(line)
        if p["id"] == pid:
            out = []
            for f in p["anchors"]["files"]:
                out += sorted(glob.glob(os.path.join(REPO, f)))
            return sorted(set(out))
    return []


def fingerprints(pid):
    return {os.path.relpath(f, REPO): hashlib.sha1(norm(open(f, errors="replace").read()).encode()).hexdigest()[:16] for f in files_of(pid)}


if __name__ == "__main__":
    if "--update" in sys.argv:
        base = {f"C{i:02d}": fingerprints(f"C{i:02d}") for i in range(1, 20)}
        json.dump(base, open(BASE, "w"), indent=1, sort_keys=True)
        print("baseline updated")
    else:
        pid = sys.argv[1]
        base = json.load(open(BASE)).get(pid, {}) if os.path.exists(BASE) else {}
        now = fingerprints(pid)
        changed = sorted(f for f in set(base) | set(now) if base.get(f) != now.get(f))
        print("changed " + " ".join(changed) if changed else "unchanged")
