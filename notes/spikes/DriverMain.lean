import Lean.Data.Json
import Leanspike
open Lean

partial def loop (h : IO.FS.Stream) (n : Nat) : IO Nat := do
  let line ← h.getLine
  if line.isEmpty then return n
  match Json.parse line with
  | .error e => IO.println s!"bad-json {e}"; loop h n
  | .ok j =>
    let a := (j.getObjValAs? String "a").toOption.getD ""
    let b := (j.getObjValAs? String "b").toOption.getD ""
    let r := Spike.commonPrefixSize a.toList b.toList
    IO.println (Json.compress (Json.mkObj [("r", toJson r)]))
    loop h (n+1)

def main : IO Unit := do
  let n ← loop (← IO.getStdin) 0
  IO.eprintln s!"done {n}"
