import Leanspike.Basic
namespace Spike

def scan (s : St) (cs : List Char) : St := cs.foldl St.step s

@[simp] theorem scan_nil (s : St) : scan s [] = s := rfl
@[simp] theorem scan_cons (s : St) (c : Char) (cs : List Char) : scan s (c :: cs) = scan (s.step c) cs := rfl
theorem scan_append (s : St) (a b : List Char) : scan s (a ++ b) = scan (scan s a) b := by
  simp [scan, List.foldl_append]

def isMeta (c : Char) : Bool :=
  c ∈ ['\\','.','+','*','?','(',')','|','[',']','{','}','^','$','#','&','-','~']

inductive Tok where
  | lit (c : Char)
  | grp (body : List Char)
deriving Repr, DecidableEq

def Tok.render : Tok → List Char
  | .lit c => if isMeta c then ['\\', c] else [c]
  | .grp b => '(' :: '?' :: ':' :: (b ++ [')'])

def render (ts : List Tok) : List Char := ts.flatMap Tok.render

def b0 : St := ⟨0, false⟩

/-- interior-safe: scanning `cs` from `s`, no *proper nonempty* prefix reaches the boundary state, and the whole does. -/
def Closed (cs : List Char) : Prop :=
  scan b0 cs = b0 ∧ ∀ k, 0 < k → k < cs.length → (scan b0 (cs.take k)).atBoundary = false

/-- Well-formed group body: as seen by the scanner, the group closes exactly at its last char. -/
def Tok.WF : Tok → Prop
  | .lit _ => True
  | .grp b => Closed ('(' :: '?' :: ':' :: (b ++ [')']))

theorem lit_closed (c : Char) : Closed (Tok.lit c).render := by
  unfold Tok.render
  by_cases h : isMeta c
  · simp only [h, if_true]
    refine ⟨?_, ?_⟩
    · simp [scan, St.step, b0]
    · intro k hk hk2
      have : k = 1 := by simp at hk2; omega
      subst this
      simp [scan, St.step, b0, St.atBoundary]
  · simp only [h]
    refine ⟨?_, ?_⟩
    · have h1 : c ≠ '(' := by intro e; subst e; simp [isMeta] at h
      have h2 : c ≠ ')' := by intro e; subst e; simp [isMeta] at h
      have h3 : c ≠ '\\' := by intro e; subst e; simp [isMeta] at h
      simp [scan, St.step, b0, h1, h2, h3]
    · intro k hk hk2; simp at hk2; omega

theorem tok_closed (t : Tok) (h : t.WF) : Closed t.render := by
  cases t with
  | lit c => exact lit_closed c
  | grp b => exact h

/-- Main boundary lemma: a boundary position of a rendered well-formed token list is a token boundary. -/
theorem boundary_is_token_boundary (ts : List Tok) (hwf : ∀ t ∈ ts, t.WF) (n : Nat)
    (hn : n ≤ (render ts).length) (hb : (scan b0 ((render ts).take n)).atBoundary = true) :
    ∃ pre suf, ts = pre ++ suf ∧ (render ts).take n = render pre := by
  induction ts generalizing n with
  | nil => exact ⟨[], [], rfl, by simp [render]⟩
  | cons t ts ih =>
    have hc := tok_closed t (hwf t (by simp))
    have hr : render (t :: ts) = t.render ++ render ts := by simp [render]
    by_cases h0 : n = 0
    · subst h0; exact ⟨[], t :: ts, rfl, by simp [render]⟩
    by_cases hlt : n < t.render.length
    · -- interior of first token: impossible
      have := hc.2 n (by omega) hlt
      rw [hr, List.take_append_of_le_length (by omega)] at hb
      simp [this] at hb
    · have hge : t.render.length ≤ n := by omega
      rw [hr] at hb hn ⊢
      have htake : (t.render ++ render ts).take n = t.render ++ (render ts).take (n - t.render.length) := by
        rw [List.take_append]; simp [List.take_of_length_le hge]
      rw [htake, scan_append, hc.1] at hb
      obtain ⟨pre, suf, e, hp⟩ := ih (fun t' ht' => hwf t' (by simp [ht'])) (n - t.render.length)
        (by simp at hn; omega) hb
      refine ⟨t :: pre, suf, by simp [e], ?_⟩
      rw [htake, hp]; simp [render]

end Spike
