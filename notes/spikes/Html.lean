namespace HSpike

structure Tz where
  rd : ByteArray
  rawS : Nat := 0
  rawE : Nat := 0
  dataS : Nat := 0
  dataE : Nat := 0
  err : Bool := false
  panic : Bool := false   -- a usize underflow / out-of-range index would set this

def Tz.Inv (t : Tz) : Prop := t.rawS ≤ t.rawE ∧ t.rawE ≤ t.rd.size ∧ t.panic = false

/-- `read_byte` -/
def Tz.readByte (t : Tz) : Tz × UInt8 :=
  if h : t.rawE < t.rd.size then ({ t with rawE := t.rawE + 1 }, t.rd[t.rawE])
  else ({ t with err := true }, 0)

/-- `self.raw.end -= k` with the Rust underflow made explicit; additionally we flag going below raw.start -/
def Tz.unread (t : Tz) (k : Nat) : Tz :=
  if t.rawS + k ≤ t.rawE then { t with rawE := t.rawE - k } else { t with panic := true }

theorem readByte_inv (t : Tz) (h : t.Inv) : (t.readByte.1).Inv := by
  unfold Tz.readByte Tz.Inv at *
  split <;> simp_all <;> omega

theorem readByte_rd (t : Tz) : (t.readByte.1).rd = t.rd := by
  unfold Tz.readByte; split <;> rfl

theorem readByte_progress (t : Tz) (h : (t.readByte.1).err = false) (h0 : t.err = false) :
    (t.readByte.1).rawE = t.rawE + 1 := by
  unfold Tz.readByte at *; split <;> simp_all

/-- `read_until_close_angle` -/
def Tz.readUntilCloseAngle (t : Tz) : Tz :=
  go { t with dataS := t.rawE }
where
  go (t : Tz) : Tz :=
    if h : t.rawE < t.rd.size then
      let b := t.rd[t.rawE]
      let t' := { t with rawE := t.rawE + 1 }
      if b = 62 then { t' with dataE := t'.rawE - 1 } else go t'
    else { t with err := true, dataE := t.rawE }
  termination_by t.rd.size - t.rawE

theorem readUntilCloseAngle_go_inv (t : Tz) (h : t.Inv) : (Tz.readUntilCloseAngle.go t).Inv ∧ t.rawE ≤ (Tz.readUntilCloseAngle.go t).rawE
    ∧ (Tz.readUntilCloseAngle.go t).rawS = t.rawS := by
  fun_induction Tz.readUntilCloseAngle.go t with
  | case1 t hlt b t' hb => simp_all [Tz.Inv, t']; omega
  | case2 t hlt b t' hb ih =>
    have : t'.Inv := by simp_all [Tz.Inv, t']; omega
    have := ih this
    simp_all [t']; omega
  | case3 t hlt => simp_all [Tz.Inv]

/-- `skip_white_space` using readByte/unread like the Rust -/
def isWs (b : UInt8) : Bool := b = 32 || b = 10 || b = 13 || b = 9 || b = 12

def Tz.skipWs (t : Tz) : Tz :=
  if t.err then t else go t
where
  go (t : Tz) : Tz :=
    if h : t.rawE < t.rd.size then
      let b := t.rd[t.rawE]
      let t' := { t with rawE := t.rawE + 1 }
      if isWs b then go t' else t'.unread 1
    else { t with err := true }
  termination_by t.rd.size - t.rawE

theorem skipWs_go_inv (t : Tz) (h : t.Inv) : (Tz.skipWs.go t).Inv ∧ t.rawE ≤ (Tz.skipWs.go t).rawE := by
  fun_induction Tz.skipWs.go t with
  | case1 t hlt b t' hb ih =>
    have : t'.Inv := by simp_all [Tz.Inv, t']; omega
    have := ih this
    simp_all [t']; omega
  | case2 t hlt b t' hb =>
    simp_all [Tz.Inv, t', Tz.unread]
  | case3 t hlt => simp_all [Tz.Inv]

end HSpike
