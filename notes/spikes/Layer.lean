namespace LSpike

structure Matcher (R Q : Type) where
  M : Type
  empty : M
  insert : R → M → M
  matchReq : M → Q → List R
  sat : R → Q → Bool
  Repr : M → List R → Prop
  repr_empty : Repr empty []
  repr_congr : ∀ m L L', Repr m L → (∀ r, r ∈ L ↔ r ∈ L') → Repr m L'
  repr_insert : ∀ m L r, Repr m L → Repr (insert r m) (r :: L)
  mem_match : ∀ m L q r, Repr m L → (r ∈ matchReq m q ↔ r ∈ L ∧ sat r q = true)
  nodup_match : ∀ m L q, Repr m L → (matchReq m q).Nodup

section
variable {R Q K : Type} [DecidableEq K]

def lookup {Mi : Type} (k : K) : List (K × Mi) → Option Mi
  | [] => none
  | (k', m) :: rest => if k' = k then some m else lookup k rest

def upsert {Mi : Type} (ins : Mi → Mi) (emp : Mi) (k : K) : List (K × Mi) → List (K × Mi)
  | [] => [(k, ins emp)]
  | (k', m) :: rest => if k' = k then (k', ins m) :: rest else (k', m) :: upsert ins emp k rest

theorem lookup_upsert {Mi : Type} (ins : Mi → Mi) (emp : Mi) (k k' : K) (l : List (K × Mi)) :
    lookup k' (upsert ins emp k l) =
      if k' = k then some (ins ((lookup k l).getD emp)) else lookup k' l := by
  induction l with
  | nil => simp [upsert, lookup]; grind
  | cons a l ih =>
    obtain ⟨ka, ma⟩ := a
    simp only [upsert, lookup]
    split <;> split <;> simp_all [lookup] <;> grind

def keys {Mi : Type} (l : List (K × Mi)) : List K := l.map Prod.fst

theorem keys_upsert_nodup {Mi : Type} (ins : Mi → Mi) (emp : Mi) (k : K) (l : List (K × Mi))
    (h : (keys l).Nodup) : (keys (upsert ins emp k l)).Nodup ∧ ∀ k', k' ∈ keys (upsert ins emp k l) ↔ k' = k ∨ k' ∈ keys l := by
  induction l with
  | nil => simp [upsert, keys]
  | cons a l ih =>
    obtain ⟨ka, ma⟩ := a
    simp only [keys, List.map_cons, List.nodup_cons] at h
    have ih := ih h.2
    simp only [upsert]; split
    · simp_all [keys]
    · simp_all [keys]; grind

theorem mem_iff_lookup {Mi : Type} (l : List (K × Mi)) (h : (keys l).Nodup) (k : K) (m : Mi) :
    (k, m) ∈ l ↔ lookup k l = some m := by
  induction l with
  | nil => simp [lookup]
  | cons a l ih =>
    obtain ⟨ka, ma⟩ := a
    simp only [keys, List.map_cons, List.nodup_cons] at h
    have ih := ih h.2
    simp only [lookup, List.mem_cons, Prod.mk.injEq]
    split
    · next e =>
      subst e
      have : ∀ m, (ka, m) ∉ l := fun m hm => h.1 (List.mem_map.mpr ⟨(ka, m), hm, rfl⟩)
      grind
    · grind

end
end LSpike

namespace LSpike
section
variable {R Q K : Type} [DecidableEq K]

/-- generic key layer over an inner matcher -/
def KL.insert (I : Matcher R Q) (keysOf : R → List K) (r : R) (m : List (K × I.M)) : List (K × I.M) :=
  (keysOf r).foldl (fun acc k => upsert (I.insert r) I.empty k acc) m

def KL.matchReq (I : Matcher R Q) (accepts : K → Q → Bool) (m : List (K × I.M)) (q : Q) : List R :=
  m.flatMap (fun p => if accepts p.1 q then I.matchReq p.2 q else [])

def KL.Repr (I : Matcher R Q) (keysOf : R → List K) (m : List (K × I.M)) (L : List R) : Prop :=
  (keys m).Nodup ∧ ∀ k, match lookup k m with
    | some im => I.Repr im (L.filter (fun r => decide (k ∈ keysOf r)))
    | none => ∀ r ∈ L, k ∉ keysOf r

theorem KL.repr_upsert (I : Matcher R Q) (keysOf : R → List K) (r : R) (ks : List K)
    (m : List (K × I.M)) (L : List R)
    -- invariant during the fold: buckets of keys already processed contain r, others do not
    (done : List K)
    (h : (keys m).Nodup ∧ ∀ k, match lookup k m with
      | some im => I.Repr im ((if k ∈ done then [r] else []) ++ L.filter (fun r' => decide (k ∈ keysOf r')))
      | none => k ∉ done ∧ ∀ r' ∈ L, k ∉ keysOf r') :
    let m' := ks.foldl (fun acc k => upsert (I.insert r) I.empty k acc) m
    (keys m').Nodup ∧ ∀ k, match lookup k m' with
      | some im => I.Repr im ((if k ∈ done ++ ks then [r] else []) ++ L.filter (fun r' => decide (k ∈ keysOf r')))
      | none => k ∉ done ++ ks ∧ ∀ r' ∈ L, k ∉ keysOf r' := by
  induction ks generalizing m done with
  | nil => simpa using h
  | cons k0 ks ih =>
    simp only [List.foldl_cons]
    have := ih (upsert (I.insert r) I.empty k0 m) (done ++ [k0]) ?_
    · simpa [List.append_assoc] using this
    · refine ⟨(keys_upsert_nodup _ _ _ _ h.1).1, ?_⟩
      intro k
      rw [lookup_upsert]
      have hk := h.2 k
      have hk0 := h.2 k0
      by_cases e : k = k0
      · subst e
        simp only [if_true]
        cases hl : lookup k m with
        | none =>
          simp only [hl] at hk0
          simp only [Option.getD_none]
          apply I.repr_congr _ _ _ (I.repr_insert _ _ r I.repr_empty)
          intro r'; simp
          intro hr' hk'; exact absurd hk' (hk0.2 r' hr')
        | some im =>
          simp only [hl] at hk0
          simp only [Option.getD_some]
          apply I.repr_congr _ _ _ (I.repr_insert _ _ r hk0)
          intro r'; simp; grind
      · simp only [e, if_false]
        cases hl : lookup k m with
        | none => simp only [hl] at hk; simp; grind
        | some im => simp only [hl] at hk; simp; grind

theorem KL.repr_insert (I : Matcher R Q) (keysOf : R → List K) (r : R) (m : List (K × I.M)) (L : List R)
    (h : KL.Repr I keysOf m L) : KL.Repr I keysOf (KL.insert I keysOf r m) (r :: L) := by
  have := KL.repr_upsert I keysOf r (keysOf r) m L [] ?_
  · refine ⟨this.1, ?_⟩
    intro k
    have hk := this.2 k
    simp only [KL.insert]
    cases hl : lookup k (List.foldl (fun acc k => upsert (I.insert r) I.empty k acc) m (keysOf r)) with
    | none => simp only [hl] at hk; simp at hk ⊢; grind
    | some im =>
      simp only [hl] at hk
      apply I.repr_congr _ _ _ hk
      intro r'; simp [List.mem_filter]; grind
  · refine ⟨h.1, ?_⟩
    intro k; have hk := h.2 k
    cases hl : lookup k m with
    | none => simp only [hl] at hk; simpa using hk
    | some im => simp only [hl] at hk; simpa using hk

theorem KL.mem_match (I : Matcher R Q) (keysOf : R → List K) (accepts : K → Q → Bool)
    (m : List (K × I.M)) (L : List R) (q : Q) (r : R) (h : KL.Repr I keysOf m L) :
    r ∈ KL.matchReq I accepts m q ↔ r ∈ L ∧ ((keysOf r).any (accepts · q) && I.sat r q) = true := by
  simp only [KL.matchReq, List.mem_flatMap]
  constructor
  · rintro ⟨⟨k, im⟩, hmem, hr⟩
    have hl := (mem_iff_lookup m h.1 k im).1 hmem
    have hk := h.2 k; simp only [hl] at hk
    by_cases ha : accepts k q = true
    · simp only [ha, if_true] at hr
      have := (I.mem_match im _ q r hk).1 hr
      simp [List.mem_filter] at this ⊢
      exact ⟨this.1.1, ⟨k, this.1.2, ha⟩, this.2⟩
    · simp [ha] at hr
  · rintro ⟨hL, hs⟩
    simp at hs
    obtain ⟨⟨k, hk1, hk2⟩, hs2⟩ := hs
    have hk := h.2 k
    cases hl : lookup k m with
    | none => simp only [hl] at hk; exact absurd hk1 (hk r hL)
    | some im =>
      simp only [hl] at hk
      refine ⟨(k, im), (mem_iff_lookup m h.1 k im).2 hl, ?_⟩
      simp only [hk2, if_true]
      exact (I.mem_match im _ q r hk).2 ⟨by simp [List.mem_filter, hL, hk1], hs2⟩

end
end LSpike
