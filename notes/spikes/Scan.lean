-- spike: prefix scanner (src/regex_radix_tree/prefix.rs) and token-boundary lemma
namespace Spike

/-- scanner state of common_prefix_char_size: group depth and "previous char was an unescaped backslash" -/
structure St where
  depth : Int
  esc : Bool
deriving DecidableEq, Repr

def St.step (s : St) (c : Char) : St :=
  let depth := if c = '(' ∧ !s.esc then s.depth + 1 else if c = ')' ∧ !s.esc then s.depth - 1 else s.depth
  let esc := if c = '\\' ∧ !s.esc then true else false
  { depth, esc }

def St.atBoundary (s : St) : Bool := s.depth == 0 && !s.esc

/-- Direct transcription of the loop: returns number of chars of the longest common prefix cut at a boundary. -/
def cpLoop : List Char → List Char → St → Nat → Nat → Nat
  | l :: ls, r :: rs, s, i, best =>
    if l ≠ r then best else
      let s' := s.step l
      let i' := i + 1
      cpLoop ls rs s' i' (if s'.atBoundary then i' else best)
  | _, _, _, _, best => best

def commonPrefixSize (l r : List Char) : Nat := cpLoop l r ⟨0, false⟩ 0 0

#eval commonPrefixSize "/a/(?:x)b".toList "/a/(?:x)c".toList
#eval commonPrefixSize "/a/(?:x)b".toList "/a/(?:y)c".toList
#eval commonPrefixSize "/a\\.b".toList "/a\\-b".toList

theorem cpLoop_le (l r : List Char) (s : St) (i best : Nat) (h : best ≤ i) :
    cpLoop l r s i best ≤ i + min l.length r.length := by
  induction l generalizing r s i best with
  | nil => simp [cpLoop]; omega
  | cons a l ih =>
    cases r with
    | nil => simp [cpLoop]; omega
    | cons b r =>
      simp only [cpLoop]
      split
      · simp; omega
      · have := ih r (s.step a) (i+1) (if (s.step a).atBoundary then i+1 else best) (by split <;> omega)
        simp at this ⊢; omega

end Spike
