#!/bin/sh
# Build the whole framework from files on disk only (offline).  Run once in /verif after a fresh restore.
set -e
cd "$(dirname "$0")"
export CARGO_NET_OFFLINE=true PUBLISH_SKIP_BUILD=1
python3 tools/extract_consts.py
(cd lean && lake build RioModel $(python3 -c "import json,glob; print(\" \".join(sorted({x for f in glob.glob(\"../props/*.json\") for j in [json.load(open(f))] for x in [j[\"lean_module\"], j.get(\"driver\") or \"\"] if x})))"))
(cd harness && cargo build --bins)
echo setup done
