#!/bin/sh
# Build the whole framework from files on disk only (offline).  Run once in /verif after a fresh restore.
# Every ./check rebuilds what it needs anyway; this only warms the caches, so a failure of one target
# does not stop the others.
cd "$(dirname "$0")"
export CARGO_NET_OFFLINE=true PUBLISH_SKIP_BUILD=1
mkdir -p .work evidence replays
python3 tools/extract_consts.py
TARGETS=$(python3 - <<'PY'
import glob, json
t = set()
for f in glob.glob("props/C*.json"):
    j = json.load(open(f))
    if j.get("claimed", True):
        t.add(j["lean_module"])
        t.update(j.get("extra_modules", []))
        if j.get("driver"):
            t.add(j["driver"])
print(" ".join(sorted(t)))
PY
)
BINS=$(python3 - <<'PY'
import glob, json
print(" ".join(sorted({"--bin " + json.load(open(f))["harness_bin"] for f in glob.glob("props/C*.json") if json.load(open(f)).get("claimed", True)})))
PY
)
(cd lean && lake build RioModel $TARGETS) || echo "setup: lake build reported errors (each check rebuilds its own targets)"
(cd harness && cargo build $BINS) || echo "setup: cargo build reported errors (each check rebuilds its own binary)"
echo setup done
