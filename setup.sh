#!/bin/sh
# Build the whole framework from files on disk only (offline).  Run once in /verif after a fresh restore.
set -e
cd "$(dirname "$0")"
export CARGO_NET_OFFLINE=true PUBLISH_SKIP_BUILD=1
python3 tools/extract_consts.py
(cd lean && lake build RioModel Drivers $(grep -o 'name = "drv_[a-z0-9_]*"' lakefile.toml | sed 's/name = "\(.*\)"/\1/'))
(cd harness && cargo build --bins)
echo setup done
