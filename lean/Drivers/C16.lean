/-
C16 driver: runs the tokenizer model on one case.

plain case : {"bytes": "<hex>" [, "ctx": "<ASCII context tag>"] [, "cdata": bool]}   -> {"m": OBS}
             (ctx: Tokenizer::new_fragment, lower-cased here, non-ASCII characters -> byte 255; cdata: allow_cdata)
block case : {"exh": true, "pre": "<hex>", "alpha": "<hex>", "len": L, "lo": a, "n": c [, "expand": true]}
             = the strings  pre ++ w  for the a-th .. (a+c-1)-th word w of length L over alpha
             (base-|alpha| digits, most significant first)
             -> {"m": {"n": c, "tok": <total tokens>, "h": <FNV-1a-64 of the compact JSON text of every OBS>}}
             (with "expand": the list of OBS instead of the hash)
OBS = [[TOKEN...], rest, ctx0]   rest = number of unread bytes after the ErrorToken; ctx0 = hex of raw_tag() before the
                                 first next() (what new / new_fragment made of the context tag)
TOKEN = [kind, rawStart, rawEnd, X, ctx, err]
  ctx   hex of raw_tag() right after this next(): the raw-text context the following next() reads in
  err   err().is_some() right after this next(): the call ran into the end of the data
  kind  "T" text "S" start "E" end "C" self-closing "M" comment "D" doctype "X" error "N" none
  X     text/comment/doctype: hex of `text()` | "utf8"
        tags: [name, has_attr, [[key, value] ...]]  name/key: hex | "na" (raw bytes of the token are not all
              ASCII: Unicode lower-casing is not modelled) | "utf8" | null ; value: hex | "utf8"
        error: null
A set `panic`/`hang`/`utf8Err` flag yields {"panic": "..."} instead of OBS.
-/
import Drivers.Common
import RioModel.Model.Html
open Lean Rio.Html Rio.Html.Tokenizer

def kindCode : TokenType → String
  | .none => "N" | .error => "X" | .text => "T" | .startTag => "S" | .endTag => "E"
  | .selfClosing => "C" | .comment => "M" | .doctype => "D"

def hexA (bs : List Nat) : Json := Json.str (Drv.hex bs)

def asciiRaw (t : Tokenizer) : Bool :=
  match t.raw with
  | some bs => bs.all (· < 128)
  | none => false

/-- accessor calls on the current token, in the order the harness makes them -/
def tokenPayload (t : Tokenizer) : Json × Tokenizer :=
  if isTextLike t.token then
    match t.text with
    | (.ok (some bs), t') => (hexA bs, t')
    | (.ok none, t') => (Json.null, t')
    | (.utf8Err, t') => (Json.str "utf8", t')
    | (.panic, t') => (Json.str "panic", t')
  else if isTagLike t.token then
    let ascii := asciiRaw t
    let nm (bs : List Nat) : Json := if ascii then hexA bs else Json.str "na"
    match t.tagName with
    | (.ok (some bs, has), t') =>
      -- attributes
      let rec go (fuel : Nat) (t : Tokenizer) (more : Bool) (acc : Array Json) : Array Json × Tokenizer :=
        match fuel with
        | 0 => (acc, t)
        | fuel + 1 =>
          if !more then (acc, t)
          else match t.tagAttr with
            | (.ok (some k, some v, more'), t') => go fuel t' more' (acc.push (Json.arr #[nm k, hexA v]))
            | (.ok _, t') => (acc, t')
            | (.utf8Err, t') => (acc.push (Json.str "utf8"), t')
            | (.panic, t') => (acc.push (Json.str "panic"), t')
      let (attrs, t'') := go (t'.attrs.size + 1) t' has #[]
      (Json.arr #[nm bs, Json.bool has, Json.arr attrs], t'')
    | (.ok (none, has), t') => (Json.arr #[Json.null, Json.bool has, Json.arr #[]], t')
    | (.utf8Err, t') => (Json.arr #[Json.str "utf8", Json.bool false, Json.arr #[]], t')
    | (.panic, t') => (Json.str "panic", t')
  else (Json.null, t)

def flagged (t : Tokenizer) : Option String :=
  if t.panic then some "panic" else if t.hang then some "hang" else if t.utf8Err then some "utf8Err" else none

/-- OBS of one input, and its number of tokens -/
def observeFrom (t0 : Tokenizer) : Json × Nat :=
  let rec go (fuel : Nat) (t : Tokenizer) (acc : Array Json) : Json × Nat :=
    match fuel with
    | 0 => (Json.mkObj [("panic", "model: token loop did not stop")], acc.size)
    | fuel + 1 =>
      let t1 := t.next
      match flagged t1 with
      | some w => (Json.mkObj [("panic", Json.str w)], acc.size)
      | none =>
        let (pl, t2) := tokenPayload t1
        match flagged t2 with
        | some w => (Json.mkObj [("panic", Json.str w)], acc.size)
        | none =>
          let acc := acc.push (Json.arr #[Json.str (kindCode t1.token), toJson t1.rawS, toJson t1.rawE, pl,
            hexA t1.rawTag, Json.bool t1.err])
          if t1.token == .error then
            (Json.arr #[Json.arr acc, toJson (t2.buf.size - t2.rawE), hexA t0.rawTag], acc.size)
          else go fuel t2 acc
  go (t0.buf.size + 3) t0 #[]

def observe (bytes : Array Nat) : Json × Nat := observeFrom (Tokenizer.new bytes)

def fnvStr (h : UInt64) (s : String) : UInt64 :=
  s.toUTF8.foldl (fun h b => (h ^^^ b.toUInt64) * 1099511628211) h

def hex64 (h : UInt64) : String :=
  String.ofList ((List.range 16).map fun i => Drv.hexDigit ((h >>> (UInt64.ofNat (60 - 4 * i))).toNat % 16))

/-- the `i`-th word of length `len` over `alpha`, most significant digit first -/
def word (alpha : Array Nat) (len : Nat) (i : Nat) : Array Nat := Id.run do
  let k := alpha.size
  let mut out := Array.replicate len 0
  let mut x := i
  for j in [0:len] do
    out := out.set! (len - 1 - j) (alpha[x % k]!)
    x := x / k
  return out

def handle (j : Json) : Except String Json := do
  match j.getObjVal? "exh" with
  | .ok (Json.bool true) =>
    let pre ← Drv.unhex (← Drv.str? j "pre")
    let alpha ← Drv.unhex (← Drv.str? j "alpha")
    let len ← Drv.nat? j "len"
    let lo ← Drv.nat? j "lo"
    let n ← Drv.nat? j "n"
    if alpha.isEmpty then throw "empty alphabet"
    if n > 2000000 then throw "block too large"
    let expand := (Drv.optBool? j "expand").toOption.join.getD false
    let preA := pre.toArray
    let alphaA := alpha.toArray
    let mut h : UInt64 := 14695981039346656037
    let mut tok := 0
    let mut all : Array Json := #[]
    for i in [lo:lo + n] do
      let (o, k) := observe (preA ++ word alphaA len i)
      tok := tok + k
      if expand then all := all.push o
      else h := fnvStr h (Json.compress o)
    if expand then
      return Json.mkObj [("m", Json.mkObj [("n", toJson n), ("tok", toJson tok), ("all", Json.arr all)])]
    else
      return Json.mkObj [("m", Json.mkObj [("n", toJson n), ("tok", toJson tok), ("h", Json.str (hex64 h))])]
  | _ =>
    let bytes ← Drv.unhex (← Drv.str? j "bytes")
    let ctx ← Drv.optStr? j "ctx"
    let cdata := (← Drv.optBool? j "cdata").getD true
    let t0 := match ctx with
      -- `context_tag.to_lowercase()`: ASCII lower-casing; a non-ASCII character becomes the byte 255, which is in no name
      -- (no non-ASCII character lower-cases into one of the ten ASCII names; the harness checks that side directly)
      | some c => Tokenizer.newFragment bytes.toArray
          (c.toList.map fun (ch : Char) => if ch.toNat < 128 then lowerByte ch.toNat else 255)
      | none => Tokenizer.new bytes.toArray
    return Json.mkObj [("m", (observeFrom (t0.setAllowCdata cdata)).1)]

def main : IO Unit := Drv.run handle
