/-
C12 driver — regex caching is transparent.  The cases of C12 (interleavings of `cache(limit, level)`
with updates, probed before and after) use the same protocol and the same model as C08; the whole
handler, including `main`, lives in Drivers/C08.lean and is linked from there.
-/
import Drivers.C08
