import Drivers.Common
import RioModel.Model.JsonAction
open Lean

namespace C06
open Rio.Json

/-- tagged encoding of the protocol -> the model's JSON value
  null | bool | integer | "string" | [..] | {"o": [[k, v], ..]} | {"f": "<float text>"} | {"n": [d, v]} -/
partial def untag (j : Lean.Json) : Except String Rio.Json.Json :=
  match j with
  | .null => .ok .null
  | .bool b => .ok (.bool b)
  | .num n => if n.exponent == 0 then .ok (.num n.mantissa) else .error "non-integer number in tagged json"
  | .str s => .ok (.str s)
  | .arr xs => do
    let ys ← xs.toList.mapM untag
    return .arr ys
  | .obj _ =>
    match j.getObjVal? "o", j.getObjVal? "f", j.getObjVal? "n" with
    | .ok (.arr kvs), _, _ => do
      let es ← kvs.toList.mapM fun kv =>
        match kv with
        | .arr #[.str k, v] => do return (k, ← untag v)
        | _ => .error "bad object entry"
      return .obj es
    | _, .ok (.str s), _ => .ok (.flt s)
    | _, _, .ok (.arr #[.num d, v]) => do
      let inner ← untag v
      if d.exponent != 0 || d.mantissa < 0 || d.mantissa > 1000 then .error "bad nest depth"
      else return (List.range d.mantissa.toNat).foldl (fun acc _ => .arr [acc]) inner
    | _, _, _ => .error "bad tagged object"

def table (j : Lean.Json) (k : String) : Except String (List (String × Option String)) := do
  match j.getObjVal? k with
  | .ok (.arr es) =>
    es.toList.mapM fun e =>
      match e with
      | .arr #[.str s, .null] => .ok (s, none)
      | .arr #[.str s, .str c] => .ok (s, some c)
      | _ => .error "bad atom table entry"
  | _ => .error s!"atoms.{k}"

def lookupAtom (t : List (String × Option String)) (s : String) : Except String (Option String) :=
  match t.find? (fun e => e.1 == s) with
  | some e => .ok e.2
  | none => .error s!"atom table has no entry for {s.quote}"

/-- Strings occurring in a JSON value (the atom table must cover them). -/
partial def strings : Rio.Json.Json → List String
  | .str s => [s]
  | .arr xs => xs.flatMap strings
  | .obj kvs => kvs.flatMap fun kv => strings kv.2
  | _ => []

def out (r : Option Rio.Json.Json) : Lean.Json :=
  match r with
  | some j => Json.mkObj [("ok", true), ("text", Rio.Json.print j)]
  | none => Json.mkObj [("ok", false), ("text", Json.null)]

def codecOf (case : Lean.Json) (j : Rio.Json.Json) : Except String Codec := do
  let atoms ← case.getObjVal? "atoms"
  let ip ← table atoms "ip"
  let dt ← table atoms "dt"
  -- fail closed when the table does not cover a string of the value
  for s in strings j do
    let _ ← lookupAtom ip s
    let _ ← lookupAtom dt s
  return {
    parseIp := fun s => match lookupAtom ip s with | .ok r => r | .error _ => none
    parseDt := fun s => match lookupAtom dt s with | .ok r => r | .error _ => none }

/-- floats are only compared as "a float" (the implementation side prints its own normal form) -/
partial def normFloats : Rio.Json.Json → Rio.Json.Json
  | .flt _ => .flt "1.5"
  | .arr xs => .arr (xs.map normFloats)
  | .obj kvs => .obj (kvs.map fun kv => (kv.1, normFloats kv.2))
  | j => j

def handle (case : Lean.Json) : Except String Lean.Json := do
  let k ← Drv.str? case "k"
  if k == "parse" then
    let text ← Drv.str? case "text"
    return Json.mkObj [("m", out ((parseAny text.toList).map normFloats))]
  -- the value: shipped as a tagged tree, or as a document the model reads itself
  let j? : Option Rio.Json.Json ←
    match case.getObjVal? "j" with
    | .ok tj => do pure (some (← untag tj))
    | .error _ => do
      let text ← Drv.str? case "text"
      pure (parseText text.toList)
  let ty ← if k == "de" then Drv.str? case "ty" else pure k
  let r : Option Rio.Json.Json ←
    match j? with
    | none => pure none
    | some j =>
      match ty with
      | "action" => pure ((deAction j).map serAction)
      | "request" => do
        let P ← codecOf case j
        pure ((deRequest P j).map serRequest)
      | "body_filter" => pure ((deBodyFilter 0 j).map serBodyFilter)
      | "header_filter" => pure ((deHeaderFilter j).map serHeaderFilter)
      | "status_code_update" => pure ((deStatusCodeUpdate j).map serStatusCodeUpdate)
      | "rule_trace" => pure ((deRuleTrace j).map serRuleTrace)
      | "header" => pure ((deHeader j).map serHeader)
      | "paq" => pure ((dePathAndQuery j).map serPathAndQuery)
      | _ => .error "ty"
  return Json.mkObj [("m", out r)]

end C06

def main : IO Unit := Drv.run C06.handle
