/-
Driver of C17: case {"cfg":…, "rules":[…], "reqs":[…]} (format: RioModel/Model/RouterJson.lean;
the "act" member of a rule only matters to the action trace, which is compared on the harness side).
  m : per request {"t": sorted distinct ids of `routesOfList (Router.trace S q)`,
                   "m": sorted ids of `Router.matchReq S q`,
                   "fp": priority of the final route of `Router.getTrace`, "gp": of `Router.getRoute`}
      where `q` is the normalised request (`mkReq` = `Request::rebuild_with_config`)
  s : the same record computed from the flat specification only: both id lists are the `sat`-filter
      of the rule list, both priorities the maximal priority in it
-/
import Drivers.Common
import RioModel.Model.RouterJson
open Lean Rio.Router

def dedupSorted : List String → List String
  | a :: b :: rest => if a == b then dedupSorted (b :: rest) else a :: dedupSorted (b :: rest)
  | l => l

def prioJson (o : Option Route) : Json :=
  match o with
  | some r => toJson r.priority
  | none => Json.null

def maxPrio (rs : List Route) : Json :=
  match rs with
  | [] => Json.null
  | r :: rest => toJson (rest.foldl (fun m x => if x.priority > m then x.priority else m) r.priority)

def handle (j : Json) : Except String Json := do
  let cfg ← J.field j "cfg" J.cfg
  let rules ← J.field j "rules" (J.arr J.rule)
  let reqs ← J.field j "reqs" (J.arr J.req)
  let E := envOf cfg
  let R := rules.map (mkRoute cfg)
  let S := Router.build E R
  let qs := reqs.map (mkReq cfg)
  let m := qs.map (fun q =>
    let tr := S.getTrace E q
    Json.mkObj [("t", J.ids (dedupSorted (sortedIds tr.1))),
                ("m", J.ids (sortedIds (S.matchReq E q))),
                ("fp", prioJson tr.2), ("gp", prioJson (S.getRoute E q))])
  let s := qs.map (fun q =>
    let f := R.filter (fun r => sat E R r q)
    Json.mkObj [("t", J.ids (sortedIds f)), ("m", J.ids (sortedIds f)),
                ("fp", maxPrio f), ("gp", maxPrio f)])
  return Json.mkObj [("m", Json.arr m.toArray), ("s", Json.arr s.toArray)]

def main : IO Unit := Drv.run handle
