/-
Driver of C17: case {"cfg":…, "rules":[…], "reqs":[…], "ops":[…]?} (format: RioModel/Model/RouterJson.lean;
the "act" member of a rule only matters to the action trace, which is compared on the harness side).
  m : per request {"t": sorted ids of `routesOfList (Router.trace S q)` (with repetitions, if any),
                   "ts": sorted ids of `rawRoutesOfList (Router.trace S q)` (all stored routes),
                   "m": sorted ids of `Router.matchReq S q`,
                   "fp": priority of the final route of `Router.getTrace`, "gp": of `Router.getRoute`,
                   "tr": the trace forest of the tree-level tower in canonical text (`canonList`): node type,
                         matched / executed flags, count, stored ids, children sorted}
      where `q` is the normalised request (`mkReq` = `Request::rebuild_with_config`)
No "s": the property's own oracles (set(t) = set(m), fp = gp, last action-trace step = live action)
are evaluated on the implementation by the harness; the flat specification is compared in C01.
-/
import Drivers.Common
import RioModel.Model.RouterJson
import RioModel.Model.RouterOps
import RioModel.Model.RouterTreeParse
open Lean Rio.Router

/-- One operation of a history (format: harness/src/bin/c17.rs, `gen_history`); rules by pool index. -/
def parseOp (pool : Array Route) (j : Json) : Except String Op := do
  let kind ← J.field j "op" J.str
  let routeAt (x : Json) : Except String Route := do
    let i ← J.nat x
    match pool[i]? with
    | some r => pure r
    | none => throw "pool index"
  if kind == "insert" then return .insert (← J.field j "r" routeAt)
  else if kind == "remove" then return .remove (← J.field j "id" J.str)
  else if kind == "batch" then return .batchRemove (← J.field j "ids" (J.arr J.str))
  else if kind == "change" then
    return .changeSet (← J.field j "a" (J.arr routeAt)) (← J.field j "u" (J.arr routeAt)) (← J.field j "d" (J.arr J.str))
  else if kind == "cache" then return .cache (← J.opt? j "n" J.nat)
  else throw s!"op {kind}"

def prioJson (o : Option Route) : Json :=
  match o with
  | some r => toJson r.priority
  | none => Json.null

/-- The trace forest in a canonical text (same function in harness/src/bin/c17.rs): children sorted, because
several matchers of the library keep their buckets in hash maps. -/
partial def canon : Trace → String
  | .mk m e c info ch =>
    let kind := match info with
      | .storage rs => "storage[" ++ ",".intercalate (sortedIds rs) ++ "]"
      | .other k => k
    let cs := (ch.map canon).toArray.qsort (· < ·)
    s!"{kind}({if m then 1 else 0}{if e then 1 else 0} {c})" ++ "{" ++ ",".intercalate cs.toList ++ "}"

def canonList (ts : List Trace) : String :=
  ",".intercalate ((ts.map canon).toArray.qsort (· < ·)).toList

def handle (j : Json) : Except String Json := do
  let cfg ← J.field j "cfg" J.cfg
  let rules ← J.field j "rules" (J.arr J.rule)
  let reqs ← J.field j "reqs" (J.arr J.req)
  let E := envOf cfg
  let R := rules.map (mkRoute cfg)
  -- with "ops": the router is what the history leaves behind (`Op.run`, the function of the `…_run` theorems)
  let ops ← J.opt? j "ops" (J.arr (parseOp R.toArray))
  let S := match ops with
    | none => Router.build E R
    | some h => runOps E h (Router.empty E)
  let qs := reqs.map (mkReq cfg)
  let m := qs.map (fun q =>
    let tr := S.getTrace E q
    Json.mkObj [("t", J.ids (sortedIds tr.1)),
                ("ts", J.ids (sortedIds (rawRoutesOfList (S.trace E q)))),
                ("m", J.ids (sortedIds (S.matchReq E q))),
                ("fp", prioJson tr.2), ("gp", prioJson (S.getRoute E q))])
  -- the same through the tower over the REAL regex-tree model (tree traces = `Item.trace` converted by
  -- `tree_trace_to_trace`); it must agree with the specification-level model
  let T := tenvOf cfg
  let O := towerTOps T
  let ST := match ops with
    | none => RouterG.build O R
    | some h => runOpsG O h (RouterG.empty O)
  let mt := qs.map (fun q =>
    let tr := RouterG.getTrace O ST q
    Json.mkObj [("t", J.ids (sortedIds tr.1)),
                ("ts", J.ids (sortedIds (rawRoutesOfList (RouterG.trace O ST q)))),
                ("m", J.ids (sortedIds (RouterG.matchReq O ST q))),
                ("fp", prioJson tr.2), ("gp", prioJson (RouterG.getRoute O ST q))])
  -- `Router::cache` leaves the trace FOREST alone (not only the listed routes, which is `trace_cache_tree`): not a
  -- theorem — checked here on every history, by running it once more without its cache calls
  match ops with
  | some h =>
    let ST' := runOpsG O (h.filter (fun op => match op with | .cache _ => false | _ => true)) (RouterG.empty O)
    for q in qs do
      if canonList (RouterG.trace O ST q) != canonList (RouterG.trace O ST' q) then
        throw s!"model: the trace forest differs from the one of the same history without cache calls"
  | none => pure ()
  if Json.arr mt.toArray != Json.arr m.toArray then
    throw s!"tree-level model {Json.compress (Json.arr mt.toArray)} differs from the specification-level model {Json.compress (Json.arr m.toArray)}"
  -- the trace STRUCTURE (node types, matched / executed flags, counts, stored ids) is the tree-level tower's:
  -- the specification-level tower has no radix tree, hence no tree-shaped `regex` sub-traces
  let out := (m.zip qs).map (fun (o, q) => o.setObjVal! "tr" (toJson (canonList (RouterG.trace O ST q))))
  return Json.mkObj [("m", Json.arr out.toArray)]

def main : IO Unit := Drv.run handle
