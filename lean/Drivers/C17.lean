/-
Driver of C17: case {"cfg":…, "rules":[…], "reqs":[…]} (format: RioModel/Model/RouterJson.lean;
the "act" member of a rule only matters to the action trace, which is compared on the harness side).
  m : per request {"t": sorted ids of `routesOfList (Router.trace S q)` (with repetitions, if any),
                   "ts": sorted ids of `rawRoutesOfList (Router.trace S q)` (all stored routes),
                   "m": sorted ids of `Router.matchReq S q`,
                   "fp": priority of the final route of `Router.getTrace`, "gp": of `Router.getRoute`}
      where `q` is the normalised request (`mkReq` = `Request::rebuild_with_config`)
No "s": the property's own oracles (set(t) = set(m), fp = gp, last action-trace step = live action)
are evaluated on the implementation by the harness; the flat specification is compared in C01.
-/
import Drivers.Common
import RioModel.Model.RouterJson
import RioModel.Model.RouterTreeParse
open Lean Rio.Router

def prioJson (o : Option Route) : Json :=
  match o with
  | some r => toJson r.priority
  | none => Json.null

def handle (j : Json) : Except String Json := do
  let cfg ← J.field j "cfg" J.cfg
  let rules ← J.field j "rules" (J.arr J.rule)
  let reqs ← J.field j "reqs" (J.arr J.req)
  let E := envOf cfg
  let R := rules.map (mkRoute cfg)
  let S := Router.build E R
  let qs := reqs.map (mkReq cfg)
  let m := qs.map (fun q =>
    let tr := S.getTrace E q
    Json.mkObj [("t", J.ids (sortedIds tr.1)),
                ("ts", J.ids (sortedIds (rawRoutesOfList (S.trace E q)))),
                ("m", J.ids (sortedIds (S.matchReq E q))),
                ("fp", prioJson tr.2), ("gp", prioJson (S.getRoute E q))])
  -- the same through the tower over the REAL regex-tree model (tree traces = `Item.trace` converted by
  -- `tree_trace_to_trace`); it must agree with the specification-level model
  let T := tenvOf cfg
  let O := towerTOps T
  let ST := RouterG.build O R
  let mt := qs.map (fun q =>
    let tr := RouterG.getTrace O ST q
    Json.mkObj [("t", J.ids (sortedIds tr.1)),
                ("ts", J.ids (sortedIds (rawRoutesOfList (RouterG.trace O ST q)))),
                ("m", J.ids (sortedIds (RouterG.matchReq O ST q))),
                ("fp", prioJson tr.2), ("gp", prioJson (RouterG.getRoute O ST q))])
  if Json.arr mt.toArray != Json.arr m.toArray then
    throw s!"tree-level model {Json.compress (Json.arr mt.toArray)} differs from the specification-level model {Json.compress (Json.arr m.toArray)}"
  return Json.mkObj [("m", Json.arr m.toArray)]

def main : IO Unit := Drv.run handle
