/-
C11 driver.  case: {"rules":[<rule>…] (distinct ids), "ov", "skipped", "pseed", "pairs":[[i,j]…]}
"m" = {"action": the model action for the match vector in case order, "cmp": `ruleCmp rules[i] rules[j]`};
"s" = {"action": the specification action over an independently (insertion-)sorted list,
       "cmp": the closed form of the order: rank descending, then id descending (bytewise)}.
The harness checks on the implementation alone that every permutation of the match vector and of the
router insertion order serialises to the same action; the driver additionally reports (as a `bad` line)
if the MODEL action differed between the case order, its reverse and a rotation — it cannot, by
`Rio.C11.action_perm_invariant`.
-/
import Drivers.Common
import RioModel.Model.ActionJson
open Lean Rio.Action Rio.Action.Codec

/-- Closed form of `Rule::cmp`: rank descending, then id descending. -/
def specCmp (a b : Rule) : Ordering :=
  if a.rank > b.rank then .lt else if a.rank < b.rank then .gt else cmpBytes b.id a.id

def handle (j : Json) : Except String Json := do
  -- marker / variable family: substitution is not modelled here (C10); the harness oracles are on the
  -- implementation alone, the observation is just the case kind and the number of rules
  if (Drv.str? j "kind").toOption == some "markers" then
    let n := (← Drv.arr? j "rules").size
    return Json.mkObj [("m", Json.mkObj [("kind", toJson "markers"), ("rules", toJson n)])]
  let rules ← parseRules j
  let q ← parseReq j
  let pairs ← (← Drv.arr? j "pairs").toList.mapM fun p =>
    match p with
    | .arr #[a, b] => do
      let a : Nat ← fromJson? a
      let b : Nat ← fromJson? b
      pure (a, b)
    | _ => throw "pair"
  let lo : Rule → Nat := fun _ => 1
  let hi : Rule → Nat := fun _ => 100
  let a := fromRoutesRule rules q lo
  if a != fromRoutesRule rules q hi then throw "case depends on the sampling draw"
  if a != fromRoutesRule rules.reverse q lo then throw "model: order-dependent (reverse)"
  if a != fromRoutesRule (rules.drop 1 ++ rules.take 1) q lo then throw "model: order-dependent (rotation)"
  let cmps (f : Rule → Rule → Ordering) : Except String Json := do
    let l ← pairs.mapM fun (i, k) =>
      match rules[i]?, rules[k]? with
      | some x, some y => pure (Json.arr #[toJson i, toJson k, toJson (cmpInt (f x y))])
      | _, _ => throw "pair index"
    pure (Json.arr l.toArray)
  let C := Spec.contributing q lo (Spec.insertionSort rules)
  let m := Json.mkObj [("action", jAction a), ("cmp", ← cmps ruleCmp)]
  let s := Json.mkObj [("action", jAction (Spec.action q C)), ("cmp", ← cmps specCmp)]
  return Json.mkObj [("m", m), ("s", s)]

def main : IO Unit := Drv.run handle
