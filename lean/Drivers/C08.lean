/-
C08 driver — model side of the regex-radix-tree correspondence (also used by C12, see Drivers/C12.lean).

case: {"mode": "beh"|"snap"|"rx"|"cp", "ic": bool, "unique": bool, "ops": [op..], "hay": [string..]}
  op  = ["i", pat, id, v] | ["r", id] | ["k", [id..]] | ["m", [id..], delta] | ["u", pat, delta] | ["c", limit, level|null]
        ("u": `get_mut(pattern)` and `*v += delta` on every value returned)
        ("m": retain whose closure adds `delta` to the value (`&mut V`) and keeps the ids listed)
  pat = [["l", text] | ["g", body] ..]     (literal text is escaped char by char, a group is "(" body ")")
  unique=true: `UniqueRegexTreeMap` (the id of an insert is the rendered pattern; "r" takes that string).
mode beh : per op {len, empty, find[per haystack, sorted], get[per pattern, sorted], iter(sorted), rem}
           "m" from the model tree, "s" from the flat reference list (linear scan with the model matcher);
           "s" is omitted outside the property's domain (tag out-of-domain), kept with sig class-paren when
           the only reason is a group the tree's scanner mis-brackets.
mode snap: per op {snap (structure as `verif_snapshot()`), ret (returned budget of cache), clen, inv}
mode real: the case carries "snaps": `verif_snapshot()` of the REAL tree after every op (computed by `c08 gen`,
           which runs the real code).  Each snapshot is parsed into the model's `Item` (values looked up in the
           flat reference list), the SAME decidable `Item.inv` the theorems use is evaluated on it, its contents are
           compared with the live entries, and the model's find/get/len/is_empty/iter run ON THAT VERY STATE ("m");
           "s" = linear scan of the live entries; both carry the flags {inv, contents}.  A real state violating
           the invariant is an oracle failure with sig inv-broken-on-real-state (contents differing from the live
           entries: contents-mismatch-on-real-state).
mode trace: after the last op, per haystack the `trace(haystack)` tree {regex, count, matched, children, values(sorted)}
           (the harness parses the `Debug` rendering of the real `Trace`).
mode prim : the ip / date / time / week-day primitives of the router (Model/Cidr.lean, Model/TimeWindow.lean) against
           the real `RouteIp`, `RouteDateTime`, `RouteTime`, `RouteWeekday` (package W1d, see `handlePrim`).
mode twin / router (C12): no model observation (tag twin-only), see harness/src/bin/c12.rs.
mode rx  : per pattern {p, ok, m[per haystack], pre[[k, ok, m[..]] per scanner-boundary k]} – validates
           Model/Regex (+ render, + the scanner) against the real crate.
mode cp  : {"a","b","n"} -> [common_prefix_char_size(a,b), get_prefix_with_char_size(a,n)]
-/
import Drivers.Common
import RioModel.Model.Tree
import RioModel.Model.Cidr
import RioModel.Model.TimeWindow
open Lean Rio.Scan Rio.Regex Rio.Tree

namespace C08

abbrev T := Item String Nat

def E : Engine := stdEngine

def parseTok (j : Json) : Except String (List Tok) := do
  let a ← (fromJson? j : Except String (Array Json))
  if a.size != 2 then throw "tok arity"
  let k ← (fromJson? a[0]! : Except String String)
  let t ← (fromJson? a[1]! : Except String String)
  if k == "l" then return t.toList.map Tok.lit
  else if k == "g" then return [Tok.grp t.toList]
  else throw "tok kind"

def parsePat (j : Json) : Except String (List Char) := do
  let a ← (fromJson? j : Except String (Array Json))
  let ts ← a.toList.mapM parseTok
  return render ts.flatten

inductive DOp where
  | ins (p : List Char) (id : String) (v : Nat)
  | rem (id : String)
  | keep (ids : List String)
  | mut (ids : List String) (delta : Nat)
  | upd (p : List Char) (delta : Nat)
  | cache (limit : Nat) (level : Option Nat)

def parseOp (unique : Bool) (j : Json) : Except String DOp := do
  let a ← (fromJson? j : Except String (Array Json))
  if a.size == 0 then throw "op arity"
  let k ← (fromJson? a[0]! : Except String String)
  if k == "i" then
    if a.size != 4 then throw "i arity"
    let p ← parsePat a[1]!
    let id ← (fromJson? a[2]! : Except String String)
    let v ← (fromJson? a[3]! : Except String Nat)
    return .ins p (if unique then String.ofList p else id) v
  else if k == "r" then
    if a.size != 2 then throw "r arity"
    return .rem (← (fromJson? a[1]! : Except String String))
  else if k == "k" then
    if a.size != 2 then throw "k arity"
    let ids ← (fromJson? a[1]! : Except String (Array String))
    return .keep ids.toList
  else if k == "m" then
    if a.size != 3 then throw "m arity"
    let ids ← (fromJson? a[1]! : Except String (Array String))
    let delta ← (fromJson? a[2]! : Except String Nat)
    return .mut ids.toList delta
  else if k == "u" then
    if a.size != 3 then throw "u arity"
    let p ← parsePat a[1]!
    let delta ← (fromJson? a[2]! : Except String Nat)
    return .upd p delta
  else if k == "c" then
    if a.size != 3 then throw "c arity"
    let limit ← (fromJson? a[1]! : Except String Nat)
    let level ← match a[2]! with
      | .null => pure none
      | x => (fromJson? x : Except String Nat).map some
    return .cache limit level
  else throw "op kind"

def mutF (ids : List String) (delta : Nat) : String → Nat → Option Nat :=
  fun id v => if ids.contains id then some (v + delta) else none

def toOp : DOp → Op String Nat
  | .ins p id v => .insert p id v
  | .rem id => .remove id
  | .keep ids => .retain (keepIf fun id _ => ids.contains id)
  | .mut ids delta => .retain (mutF ids delta)
  | .upd p delta => .modify p (fun _ v => v + delta)
  | .cache l lv => .cache l lv

def sortNat (l : List Nat) : List Nat := l.mergeSort (· ≤ ·)
def jNats (l : List Nat) : Json := Json.arr (l.map toJson).toArray
def jStr (cs : List Char) : Json := toJson (String.ofList cs)

/-- `compiled.as_ref().map(|r| r.as_str())`: the string the cached value was built from. -/
def jCompiled (rx : LazyRegex) : Json :=
  match rx.compiled with
  | some c => jStr c.src.toStr
  | none => Json.null

/-- Same shape as `regex_radix_tree::verif::snapshot_item`. -/
partial def snap : T → Json
  | .empty ic => Json.mkObj [("kind", "empty"), ("ignore_case", toJson ic)]
  | .node rx cs => Json.mkObj [
      ("kind", "node"), ("prefix", jStr rx.original),
      ("regex", jStr rx.regex.toStr),
      ("ignore_case", toJson rx.ic), ("compiled", toJson rx.isCompiled), ("compiled_regex", jCompiled rx),
      ("children", Json.arr (cs.map snap).toArray)]
  | .leaf rx vs => Json.mkObj [
      ("kind", "leaf"), ("pattern", jStr rx.original),
      ("regex", jStr rx.regex.toStr),
      ("ignore_case", toJson rx.ic), ("compiled", toJson rx.isCompiled), ("compiled_regex", jCompiled rx),
      ("ids", Json.arr ((vs.map (·.1)).mergeSort (fun a b => decide (a ≤ b)) |>.map toJson).toArray)]

def dedup (l : List (List Char)) : List (List Char) :=
  l.foldl (fun acc p => if acc.contains p then acc else acc ++ [p]) []

def patsOf (ops : List DOp) : List (List Char) :=
  dedup (ops.filterMap fun | .ins p _ _ => some p | .upd p _ => some p | _ => none)

/-- The domain of the property for one pattern. -/
def domGood (p : List Char) : Bool := goodPatB p && !p.isEmpty
/-- Tokenises, non-empty: in the domain except possibly for mis-bracketed groups. -/
def domTok (p : List Char) : Bool := (tokTop p).isSome && !p.isEmpty

structure Step where
  tree : T
  ref : List (Entry String Nat)
  rem : Json := Json.null
  ret : Json := Json.null
  bad : Bool := false      -- cache underflow / no termination in the model

def stepOp (st : Step) (op : DOp) : Step :=
  match op with
  | .ins p id v => { tree := st.tree.insert p id v, ref := refInsert st.ref p id v }
  | .rem id =>
    let r := st.tree.remove id
    { tree := r.1, ref := refRemove st.ref id,
      rem := match r.2 with | some v => toJson v | none => Json.null }
  | .keep ids =>
    let f : String → Nat → Option Nat := keepIf fun id _ => ids.contains id
    { tree := st.tree.retain f, ref := refRetain st.ref f }
  | .mut ids delta =>
    { tree := st.tree.retain (mutF ids delta), ref := refRetain st.ref (mutF ids delta) }
  | .upd p delta =>
    { tree := st.tree.modifyAt p (fun _ v => v + delta), ref := refModify st.ref p (fun _ v => v + delta) }
  | .cache limit level =>
    match treeCache E st.tree limit level with
    | some r => { tree := r.1, ref := st.ref, ret := toJson r.2 }
    | none => { tree := st.tree, ref := st.ref, bad := true }

def obsBeh (unique : Bool) (hay pats : List (List Char)) (st : Step) : Json :=
  if st.bad then Json.mkObj [("panic", "cache")] else
  let t := st.tree
  Json.mkObj [
    ("len", toJson t.len), ("empty", toJson t.isEmpty),
    ("find", Json.arr (hay.map fun s => jNats (sortNat (t.find E s))).toArray),
    ("get", Json.arr (pats.map fun p =>
        if unique then jNats ((t.get p).getLast?.toList) else jNats (sortNat (t.get p))).toArray),
    ("iter", match t.iterCollect with          -- the stack machine of iter.rs
             | some l => jNats (sortNat l)
             | none => toJson "iterator out of fuel"),
    ("rem", st.rem)]

def refRemVal (L : List (Entry String Nat)) (op : DOp) : Json :=
  match op with
  | .rem id => match refRemoved L id with | some v => toJson v | none => Json.null
  | _ => Json.null

def specBeh (ic unique : Bool) (hay pats : List (List Char)) (L : List (Entry String Nat)) (rem : Json) : Json :=
  let vals (f : Entry String Nat → Bool) := sortNat ((L.filter f).map (·.val))
  let _ := unique
  Json.mkObj [
    ("len", toJson L.length), ("empty", toJson L.isEmpty),
    ("find", Json.arr (hay.map fun s => jNats (vals fun e => E.full ic e.pat s)).toArray),
    ("get", Json.arr (pats.map fun p => jNats (vals fun e => e.pat == p)).toArray),
    ("iter", jNats (vals fun _ => true)),
    ("rem", rem)]

def obsSnap (ic : Bool) (st : Step) : Json :=
  if st.bad then Json.mkObj [("panic", "cache")] else
  Json.mkObj [("snap", snap st.tree), ("ret", st.ret), ("clen", toJson st.tree.cachedLen),
    ("inv", toJson (st.tree.inv ic))]

/-! ### mode real: the hook snapshot of the real tree, parsed into the model's tree type -/

structure Parsed where
  tree : T
  valuesOk : Bool      -- every (pattern, id) of the snapshot is a live entry
  stringsOk : Bool     -- the `regex` strings are the ones `LazyRegex::new_leaf/new_node` build

/-- The source a NODE's regex string stands for (injective; a string that is neither `.*` nor `^…` becomes a leaf source, which no
node may carry). -/
def nodeSrcOf (rstr : List Char) : RxSrc :=
  if rstr == ".*".toList then .any else
    match rstr with
    | '^' :: rest => .node rest
    | other => .leaf other

/-- The source a LEAF's regex string stands for (injective; anything that is not `^…$` becomes a node source, which no leaf may
carry; a string without `^` is marked with U+FFFF). -/
def leafSrcOf (rstr : List Char) : RxSrc :=
  match rstr with
  | '^' :: rest => if rest.getLast? == some '$' then .leaf rest.dropLast else .node rest
  | other => .node (Char.ofNat 0xFFFF :: other)

def lookupVal (L : List (Entry String Nat)) (p : List Char) (id : String) : Option Nat :=
  (L.find? fun e => e.pat == p && e.id == id).map (·.val)

partial def parseSnap (L : List (Entry String Nat)) (j : Json) : Except String Parsed := do
  let kind ← Drv.str? j "kind"
  let ic ← Drv.bool? j "ignore_case"
  if kind == "empty" then return ⟨.empty ic, true, true⟩
  let compiled ← Drv.bool? j "compiled"
  let rstr := (← Drv.str? j "regex").toList
  if kind == "node" then
    let q := (← Drv.str? j "prefix").toList
    let cs ← (← Drv.arr? j "children").toList.mapM (parseSnap L)
    -- the `regex` STRING of the real LazyRegex decides which source the model regex gets; a string that is neither
    -- `^prefix` nor `.*` is kept as a (wrong) leaf source so that `Item.inv` fails on it
    let src := nodeSrcOf rstr
    let okStr := rstr == (if q.isEmpty then ".*".toList else '^' :: q)
    -- the cached value is rebuilt from the string the REAL cached `Regex` reports (`compiled_regex` = `Regex::as_str()`), decoded
    -- like the `regex` field, so `Item.inv`'s "stored = create_regex(fields)" is evaluated on what the real tree cached; its case
    -- flag is not visible through `as_str` (assumed = `ignore_case`; probed behaviourally by the harness)
    let cstr ← Drv.optStr? j "compiled_regex"
    if compiled != cstr.isSome then throw "snapshot: compiled flag and compiled_regex disagree"
    let rx : LazyRegex := ⟨q, src, ic, cstr.map fun c => ⟨nodeSrcOf c.toList, ic⟩⟩
    return ⟨.node rx (cs.map (·.tree)), cs.all (·.valuesOk), okStr && cs.all (·.stringsOk)⟩
  else if kind == "leaf" then
    let p := (← Drv.str? j "pattern").toList
    let ids ← (← Drv.arr? j "ids").toList.mapM (fun x => (fromJson? x : Except String String))
    let vs := ids.map fun id => (id, lookupVal L p id)
    let src := leafSrcOf rstr
    let cstr ← Drv.optStr? j "compiled_regex"
    if compiled != cstr.isSome then throw "snapshot: compiled flag and compiled_regex disagree"
    let rx : LazyRegex := ⟨p, src, ic, cstr.map fun c => ⟨leafSrcOf c.toList, ic⟩⟩
    return ⟨.leaf rx (vs.map fun (id, v) => (id, v.getD 0)), vs.all (·.2.isSome),
      rstr == '^' :: (p ++ ['$'])⟩
  else throw "snapshot kind"

def sortKeys (l : List (String × String)) : List (String × String) :=
  l.mergeSort fun a b => decide (a.1 < b.1) || (a.1 == b.1 && decide (a.2 ≤ b.2))

/-- contents(real state) ≈ live entries (as multisets of (pattern, id); values were looked up by key). -/
def contentsOk (ps : Parsed) (L : List (Entry String Nat)) : Bool :=
  ps.valuesOk &&
    sortKeys (ps.tree.contents.map fun e => (String.ofList e.pat, e.id)) ==
    sortKeys (L.map fun e => (String.ofList e.pat, e.id))

def withFlags (j : Json) (inv contents : Bool) : Json :=
  j.setObjVal! "inv" (toJson inv) |>.setObjVal! "contents" (toJson contents)

partial def traceJson : Trace Nat → Json
  | .mk r c m cs vs => Json.mkObj [("regex", jStr r), ("count", toJson c), ("matched", toJson m),
      ("children", Json.arr (cs.map traceJson).toArray), ("values", jNats (sortNat vs))]

def boundaryKs (p : List Char) : List Nat :=
  (List.range (p.length + 1)).filter fun k => k > 0 && (scan b0 (p.take k)).atBoundary

def obsRx (ic : Bool) (hay : List (List Char)) (p : List Char) : Json :=
  Json.mkObj [
    ("p", jStr p), ("ok", toJson (E.leafOk ic p)),
    ("m", Json.arr (hay.map fun s => toJson (E.full ic p s)).toArray),
    ("pre", Json.arr ((boundaryKs p).map fun k =>
      let q := p.take k
      Json.arr #[toJson k, toJson (E.nodeOk ic q), Json.arr (hay.map fun s => toJson (E.pre ic q s)).toArray]).toArray)]

/-! ### mode prim (W1d) -/

def jOptNat : Option Nat → Json
  | some n => toJson n
  | none => Json.null

def jOptBool : Option Bool → Json
  | some b => toJson b
  | none => Json.null

def ordStr : Ordering → String
  | .lt => "lt" | .eq => "eq" | .gt => "gt"

def optStr (j : Json) (k : String) : Except String (Option String) := Drv.optStr? j k

def strList (j : Json) (k : String) : Except String (List String) := do
  (← Drv.arr? j k).toList.mapM fun x => (fromJson? x : Except String String)

def handlePrim (j : Json) : Except String Json := do
  let kind ← Drv.str? j "kind"
  if kind == "ip" then
    let cidr ← Drv.str? j "cidr"
    let neg ← Drv.bool? j "neg"
    let addr ← Drv.str? j "addr"
    let c := Rio.Cidr.parseAnyCidr cidr
    let a := Rio.Cidr.parseAddr addr.toList
    let m : Option Bool := match c, a with
      | some c, some a => some ((if neg then Rio.Cidr.RouteIp.notInRange c else Rio.Cidr.RouteIp.inRange c).matchIp a)
      | _, _ => none
    -- `Rule::route_ips` on the one-element list
    let viaRule := (Rio.Cidr.routeIps (some [⟨neg, cidr⟩])).isSome
    return Json.mkObj [("m", Json.mkObj [("cidr_ok", toJson c.isSome), ("addr_ok", toJson a.isSome),
      ("match", jOptBool m), ("route_ips_some", toJson viaRule)])]
  else if kind == "dt" || kind == "time" then
    let start ← optStr j "start"
    let stop ← optStr j "end"
    let atS ← Drv.str? j "at"
    -- chrono's lenient forms are outside the model's scope (Model/TimeWindow.lean "Scope of the text parsers")
    let inScope := fun (t : Option String) => match t with
      | none => true
      | some t => if kind == "dt" then Rio.TimeWindow.dateTimeTextInScope t else Rio.TimeWindow.timeTextInScope t
    if !(inScope start && inScope stop && Rio.TimeWindow.dateTimeTextInScope atS) then
      return Json.mkObj [("tags", Json.arr #["prim:out-of-scope"])]
    let w := if kind == "dt" then Rio.TimeWindow.dateTimeFromRange start stop
             else Rio.TimeWindow.timeFromRange start stop
    let t := Rio.TimeWindow.parseDateTime atS
    let m := t.map fun t => if kind == "dt" then Rio.TimeWindow.matchDateTime w t else Rio.TimeWindow.matchTime w t
    return Json.mkObj [("m", Json.mkObj [("start", jOptNat w.start), ("end", jOptNat w.stop), ("at", jOptNat t),
      ("match", jOptBool m)])]
  else if kind == "wd" then
    let days ← strList j "days"
    let atS ← Drv.str? j "at"
    let r := Rio.TimeWindow.RouteWeekday.fromWeekdays days
    let t := Rio.TimeWindow.parseDateTime atS
    let m : Option Bool := match r, t with
      | some r, some t => some (r.matchDateTime t)
      | _, _ => none
    return Json.mkObj [("m", Json.mkObj [
      ("days", match r with
        | some r => Json.arr (r.days.map fun d => toJson d.num).toArray
        | none => Json.null),
      ("weekday", jOptNat (t.map Rio.TimeWindow.weekdayNum)), ("match", jOptBool m)])]
  else if kind == "wdcmp" then
    let a ← strList j "a"
    let b ← strList j "b"
    match Rio.TimeWindow.RouteWeekday.fromWeekdays a, Rio.TimeWindow.RouteWeekday.fromWeekdays b with
    | some ra, some rb =>
      return Json.mkObj [("m", Json.mkObj [("cmp", toJson (ordStr (ra.cmp rb))), ("eq", toJson (decide (ra = rb)))])]
    | _, _ => return Json.mkObj [("m", Json.mkObj [("cmp", Json.null), ("eq", Json.null)])]
  else throw "prim kind"

def handle (j : Json) : Except String Json := do
  let mode ← Drv.str? j "mode"
  if mode == "prim" then return ← handlePrim j
  if mode == "cp" then
    let a := (← Drv.str? j "a").toList
    let b := (← Drv.str? j "b").toList
    let n ← Drv.nat? j "n"
    return Json.mkObj [("m", Json.arr #[toJson (commonPrefixCharSize a b), jStr (getPrefixWithCharSize a n),
      jStr (commonPrefix a b)])]
  if mode == "router" then
    -- Unicode-aware constructs (`\\w`, `\\d`, Unicode classes, non-ASCII case folding), tree and router level: decided by the
    -- implementation-side oracles of c12 alone (cache-free twin, scan with the regex crate); no model observation
    return Json.mkObj [("tags", Json.arr #["twin-only"])]
  let ic ← Drv.bool? j "ic"
  let unique := (← Drv.optBool? j "unique").getD false
  let ops ← (← Drv.arr? j "ops").toList.mapM (parseOp unique)
  let hay := (← (← Drv.arr? j "hay").toList.mapM (fun x => (fromJson? x : Except String String))).map String.toList
  let pats := patsOf ops
  -- C12 twin cases (Unicode-aware constructs): modelled like `beh` when every pattern compiles in the model engine and every
  -- character of the patterns and haystacks is one the model's class tables are authoritative for; otherwise left to the
  -- implementation-side oracles
  if mode == "twin" &&
      !(pats.all (fun p => E.leafOk ic p && p.all knownChar) && hay.all (fun h => h.all knownChar)) then
    return Json.mkObj [("tags", Json.arr #["twin-only"])]
  let twinModelled := mode == "twin"
  let mode := if mode == "twin" then "beh" else mode
  if mode == "rx" then
    return Json.mkObj [("m", Json.arr (pats.map (obsRx ic hay)).toArray)]
  -- run the history
  let init : Step := { tree := .empty ic, ref := [] }
  let (_, stepsRev) := ops.foldl (fun (acc : Step × List (Step × Json)) op =>
      let st' := stepOp acc.1 op
      (st', (st', refRemVal acc.1.ref op) :: acc.2)) (init, [])
  let steps := stepsRev.reverse
  if mode == "snap" then
    return Json.mkObj [("m", Json.arr (steps.map fun (st, _) => obsSnap ic st).toArray)]
  if mode == "trace" then
    let t : T := match steps.getLast? with
      | some (st, _) => st.tree
      | none => .empty ic
    return Json.mkObj [("m", Json.arr (hay.map fun h => traceJson (t.trace E h)).toArray)]
  let idsOk := histOk (fun _ => true) ([] : List (Entry String Nat)) (ops.map toOp)
  let allGood := pats.all domGood
  let allTok := pats.all domTok
  let mis := pats.any misBracketed
  if mode == "real" then
    let snaps ← Drv.arr? j "snaps"
    if snaps.size != steps.length then throw "snaps arity"
    let parsed ← (steps.zip snaps.toList).mapM fun ((st, rem), sj) => do
      let ps ← parseSnap st.ref sj
      let inv := ps.tree.inv ic && ps.stringsOk
      let cok := contentsOk ps st.ref
      let m := withFlags (obsBeh unique hay pats { st with tree := ps.tree, rem := rem }) inv cok
      let s := withFlags (specBeh ic unique hay pats st.ref rem) inv cok
      return (m, s, inv, cok)
    let m := Json.arr (parsed.map (·.1)).toArray
    let s := Json.arr (parsed.map (·.2.1)).toArray
    let invAll := parsed.all (·.2.2.1)
    let cokAll := parsed.all (·.2.2.2)
    if !invAll then
      -- the real state violates the invariant: an oracle failure whatever the domain
      return Json.mkObj [("m", if idsOk then m else Json.null),
        ("s", if idsOk then m else toJson "the real tree violates Inv"), ("sig", "inv-broken-on-real-state"),
        ("tags", Json.arr #["inv-broken-on-real-state"])]
    else if !idsOk then
      -- an id used under two patterns: the flat list is not authoritative (which entry `remove` takes depends on
      -- tree order); only the invariant was checked
      return Json.mkObj [("tags", Json.arr #["out-of-domain", "real:inv-only"])]
    else if !cokAll then
      return Json.mkObj [("m", m), ("s", s), ("sig", "contents-mismatch-on-real-state"),
        ("tags", Json.arr #["contents-mismatch-on-real-state"])]
    else if idsOk && allGood then
      return Json.mkObj [("m", m), ("s", s)]
    else if idsOk && allTok && mis then
      return Json.mkObj [("m", m), ("s", s), ("sig", "class-paren"), ("tags", Json.arr #["class-paren"])]
    else
      return Json.mkObj [("m", m), ("tags", Json.arr #["out-of-domain"])]
  if mode != "beh" then throw "mode"
  let m := Json.arr (steps.map fun (st, _) => obsBeh unique hay pats st).toArray
  let s := Json.arr (steps.map fun (st, rem) => specBeh ic unique hay pats st.ref rem).toArray
  if idsOk && allGood then
    return Json.mkObj [("m", m), ("s", s), ("tags", Json.arr (if twinModelled then #["twin-modelled"] else #[]))]
  else if idsOk && allTok && mis then
    return Json.mkObj [("m", m), ("s", s), ("sig", "class-paren"), ("tags", Json.arr #["class-paren"])]
  else
    return Json.mkObj [("m", m), ("tags", Json.arr #["out-of-domain"])]

end C08

def main : IO Unit := Drv.run C08.handle
