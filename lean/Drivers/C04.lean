/-
C04 driver: model side.
plain case: {"body": hex, "filters", "headers", "scheds"}
  out: {"m": {"kinds": [..], "one": hex, "e1": null|k, "sch": ["=" | hex ..], "errs": [null|k ..]}}
compressed case: {"z": true, "enc", "ctype", "filters", "cuts", "flush": {"cuts": [..], "fail": null|k}, "body": hex of the plain body}
  out: {"m": {"kinds": [..], "err": null|k}}   (scripted decoder = what the real decoder did under this schedule)
-/
import Drivers.Common
import RioModel.Model.FilterJson
open Lean Rio.Filter

def handlePlain (j : Json) : Except String Json := do
  let body ← J.unhex (← J.str? j "body")
  let fs ← J.filters? j
  let hs ← J.headers? j
  let scheds ← J.scheds? j body.length
  let chain : Chain Unit Unit := Chain.new noCodec J.lower fs hs
  if chain.items.any fun st => st.kind == "decode" then throw "compressed chain"
  let run := fun (chunks : List Bytes) => runTrack htmlTokenize evalStandIn noCodec chain chunks
  let (one, e1) := run [body]
  let rs := scheds.map fun cuts => run (splitAt body cuts)
  let sch := rs.map fun (out, _) => if out == one then toJson "=" else toJson (J.hex out)
  let errs := rs.map fun (_, e) => J.optNatJson e
  return Json.mkObj [("m", Json.mkObj [("kinds", J.kindsJson chain), ("one", toJson (J.hex one)), ("e1", J.optNatJson e1),
    ("sch", Json.arr sch.toArray), ("errs", Json.arr errs.toArray)])]

def handleZ (j : Json) : Except String Json := do
  let body ← J.unhex (← J.str? j "body")
  let fs ← J.filters? j
  let enc ← J.str? j "enc"
  let ctype ← J.optStr? j "ctype"
  let cuts ← J.cuts? (← j.getObjVal? "cuts")
  let fl ← j.getObjVal? "flush"
  let fcuts ← J.cuts? (← fl.getObjVal? "cuts")
  let fail ← Drv.optNat? fl "fail"
  let nChunks := cuts.length + 1
  -- outputs of the decoder: consecutive pieces of the plain body ending at the flush cuts
  let pieces := (splitAt body fcuts).dropLast
  let script : ScriptDec :=
    match fail with
    | none => { outs := pieces.take nChunks, fin := (pieces.drop nChunks).head? }
    | some k => if k < nChunks then { outs := pieces.take k, fin := none } else { outs := pieces.take nChunks, fin := none }
  let hs := [("Content-Encoding", enc)] ++ (match ctype with | some c => [("Content-Type", c)] | none => [])
  let codec := scriptCodec script
  let chain : Chain ScriptDec Unit := Chain.new codec J.lower fs hs
  let (_, err) := runTrack htmlTokenize evalStandIn codec chain (List.replicate nChunks [0])
  return Json.mkObj [("m", Json.mkObj [("kinds", J.kindsJson chain), ("err", J.optNatJson err)])]

def handle (j : Json) : Except String Json :=
  match Drv.optBool? j "z" with
  | .ok (some true) => handleZ j
  | _ => handlePlain j

def main : IO Unit := Drv.run handle
