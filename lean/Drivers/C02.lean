/-
Driver of C02: case {"cfg":…, "pool":[rule…], "probes":[req…], "ops":[op…]}
(rule / req / cfg format: RioModel/Model/RouterJson.lean; op format: harness/src/bin/c02.rs).

  m : the op list run on the MODEL router with `Rio.Router.Op.run` (RouterOps.lean: `Router.insert /
      remove / batchRemove / applyChangeSet`; `cache` is the identity on the model state), observing
      after every op `len`, the sorted match ids of every probe and, for `remove`, the id of the route
      `Router.remove` returns.  `clone` needs no model operation — states are values: the sub-ops run
      on a copy, the original is the old value (so clone isolation is validated by the harness on
      the implementation only, the model cannot alias).
  s : the same observations computed from the *live rule list* only (`Rio.Router.Op.live`): answers
      of `Router.build E live` (a model router rebuilt from scratch), `live.length`, `remove`
      returns the id iff a live rule carries it.  "Specification = rebuild": exactly what
      `Rio.C02.run_equiv`, `remove_returns`, `remove_absent` relate the model to.
-/
import Drivers.Common
import RioModel.Model.RouterJson
import RioModel.Model.RouterOps
import RioModel.Model.RouterTreeParse
open Lean Rio.Router

/-- A history element of the harness: one of W2's operations, or clone-then-mutate. -/
inductive HOp where
  | simple (kind : String) (op : Op)
  | clone (keepClone : Bool) (sub : List HOp)

partial def parseOp (pool : Array Route) (j : Json) : Except String HOp := do
  let kind ← J.field j "op" J.str
  let routeAt (x : Json) : Except String Route := do
    let i ← J.nat x
    match pool[i]? with
    | some r => pure r
    | none => throw "pool index"
  if kind == "insert" then return .simple kind (.insert (← J.field j "r" routeAt))
  else if kind == "remove" then return .simple kind (.remove (← J.field j "id" J.str))
  else if kind == "batch" then return .simple kind (.batchRemove (← J.field j "ids" (J.arr J.str)))
  else if kind == "change" || kind == "derive" then
    -- `derive` = RuleChangeSet::update_existing_router: clone + apply_change_set; on values: apply_change_set
    return .simple kind (.changeSet (← J.field j "a" (J.arr routeAt)) (← J.field j "u" (J.arr routeAt))
      (← J.field j "d" (J.arr J.str)))
  else if kind == "cache" then
    return .simple kind (.cache (← J.opt? j "n" J.nat))
  else if kind == "clone" then
    let keep ← J.field j "keep" J.str
    if keep != "clone" && keep != "orig" then throw "keep"
    return .clone (keep == "clone") (← J.field j "ops" (J.arr (parseOp pool)))
  else throw s!"op {kind}"

/-- What the two sides have in common: a state, one step, the return value of a removal, and the
two observers. -/
structure Sys (σ : Type) where
  run : Op → σ → σ
  removeRet : String → σ → Option String
  len : σ → Nat
  answer : σ → Req → List String

def modelSys (E : Env) : Sys (Router E) where
  run op S := op.run E S
  removeRet id S := (S.remove E id).2.map (·.id)
  len S := S.len E
  answer S q := sortedIds (S.matchReq E q)

/-- The same history on the router over the REAL regex-tree model (W1's `Item` trees, `stdEngine`;
`Rio.C02.run_equiv_tree`): `remove` / `batch_remove` go through `Item.remove` / `Item.retain`. -/
def treeSys (T : TEnv) : Sys (RouterT T) where
  run op S := op.runG (towerTOps T) S
  removeRet id S := (RouterG.remove (towerTOps T) id S).2.map (·.id)
  len S := RouterG.len (towerTOps T) S
  answer S q := sortedIds (RouterG.matchReq (towerTOps T) S q)

/-- The specification: the live rule list; every answer comes from a router rebuilt from scratch. -/
def specSys (E : Env) : Sys (List Route) where
  run op L := op.live L
  removeRet id L := if L.any (fun r => r.id == id) then some id else none
  len L := L.length
  answer L q := sortedIds ((Router.build E L).matchReq E q)

def observe {σ : Type} (sys : Sys σ) (probes : List Req) (s : σ) : List (String × Json) :=
  [("len", toJson (sys.len s)), ("m", Json.arr (probes.map fun q => J.ids (sys.answer s q)).toArray)]

/-- One history element: new state and observation. -/
partial def step {σ : Type} (sys : Sys σ) (probes : List Req) (s : σ) (h : HOp) : Except String (σ × Json) :=
  match h with
  | .simple kind op =>
    let s' := sys.run op s
    let ret : List (String × Json) :=
      match op with
      | .remove id => [("ret", match sys.removeRet id s with | some i => toJson i | none => Json.null)]
      | _ => []
    pure (s', Json.mkObj ([("k", toJson kind)] ++ ret ++ observe sys probes s'))
  | .clone keepClone sub => do
    let mut c := s
    let mut subObs : Array Json := #[]
    for sop in sub do
      match sop with
      | .clone _ _ => throw "nested clone"
      | .simple "derive" _ => throw "derive inside a clone"
      | _ => pure ()
      let (c', o) ← step sys probes c sop
      c := c'
      subObs := subObs.push o
    let cur := if keepClone then c else s
    pure (cur, Json.mkObj ([("k", toJson "clone"), ("sub", Json.arr subObs),
      ("orig", Json.mkObj (observe sys probes s))] ++ observe sys probes cur))

def runAll {σ : Type} (sys : Sys σ) (probes : List Req) (init : σ) (ops : List HOp) : Except String Json := do
  let mut s := init
  let mut out : Array Json := #[]
  for op in ops do
    let (s', o) ← step sys probes s op
    s := s'
    out := out.push o
  return Json.arr out

def handle (j : Json) : Except String Json := do
  let cfg ← J.field j "cfg" J.cfg
  let pool ← J.field j "pool" (J.arr J.rule)
  let probes ← J.field j "probes" (J.arr J.req)
  let E := envOf cfg
  let routes := (pool.map (mkRoute cfg)).toArray
  let qs := probes.map (mkReq cfg)
  let ops ← J.field j "ops" (J.arr (parseOp routes))
  let m ← runAll (modelSys E) qs (Router.empty E) ops
  let s ← runAll (specSys E) qs [] ops
  -- W2: the tree-level model must answer exactly as the specification-level model
  let T := tenvOf cfg
  let mt ← runAll (treeSys T) qs (RouterG.empty (towerTOps T)) ops
  if mt != m then
    throw s!"tree-level model {Json.compress mt} differs from the specification-level model {Json.compress m}"
  return Json.mkObj [("m", m), ("s", s)]

def main : IO Unit := Drv.run handle
