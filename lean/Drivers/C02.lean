/-
Driver of C02: case {"cfg":…, "pool":[rule…], "probes":[req…], "ops":[op…]}
(rule / req / cfg format: RioModel/Model/RouterJson.lean; op format: harness/src/bin/c02.rs).

  m : the op list run on the MODEL router (`Router.insert / remove / batchRemove / applyChangeSet`;
      `cache` and `clone` are the identity on the model state — states are values), observing after
      every op `len`, the sorted match ids of every probe, the id returned by `remove`; for a clone
      op also the observations of the sub-ops on the clone and of the untouched original.
  s : the same observations computed from the *live rule list* only: answers of `Router.build live`
      (a model router rebuilt from scratch), `live.length`, `remove` returns the id iff it is live.
      So "specification = rebuild", which is what `Rio.C02.run_equiv` relates the model to.
-/
import Drivers.Common
import RioModel.Model.RouterJson
open Lean Rio.Router

inductive Op where
  | insert (r : Route)
  | remove (id : String)
  | batch (ids : List String)
  | change (derive : Bool) (a u : List Route) (d : List String)
  | cache
  | clone (keepClone : Bool) (sub : List Op)

partial def parseOp (pool : Array Route) (j : Json) : Except String Op := do
  let kind ← J.field j "op" J.str
  let routeAt (x : Json) : Except String Route := do
    let i ← J.nat x
    match pool[i]? with
    | some r => pure r
    | none => throw "pool index"
  if kind == "insert" then return .insert (← J.field j "r" routeAt)
  else if kind == "remove" then return .remove (← J.field j "id" J.str)
  else if kind == "batch" then return .batch (← J.field j "ids" (J.arr J.str))
  else if kind == "change" || kind == "derive" then
    return .change (kind == "derive") (← J.field j "a" (J.arr routeAt)) (← J.field j "u" (J.arr routeAt))
      (← J.field j "d" (J.arr J.str))
  else if kind == "cache" then return .cache
  else if kind == "clone" then
    let keep ← J.field j "keep" J.str
    if keep != "clone" && keep != "orig" then throw "keep"
    return .clone (keep == "clone") (← J.field j "ops" (J.arr (parseOp pool)))
  else throw s!"op {kind}"

/-- What the two sides have in common: a state with the five operations and the two observers. -/
structure Sys (σ : Type) where
  insert : Route → σ → σ
  remove : String → σ → σ × Option String
  batch : List String → σ → σ
  change : List Route → List Route → List String → σ → σ
  len : σ → Nat
  answer : σ → Req → List String

def modelSys (E : Env) : Sys (Router E) where
  insert r S := S.insert E r
  remove id S := let r := S.remove E id; (r.1, r.2.map (·.id))
  batch ids S := S.batchRemove E ids
  change a u d S := S.applyChangeSet E a u d
  len S := S.len E
  answer S q := sortedIds (S.matchReq E q)

/-- The specification: the live rule list; every answer comes from a router rebuilt from scratch. -/
def specSys (E : Env) : Sys (List Route) where
  insert r L := L ++ [r]
  remove id L := (L.filter (fun r => r.id != id), if L.any (fun r => r.id == id) then some id else none)
  batch ids L := L.filter (fun r => !ids.contains r.id)
  change a u d L := (L.filter (fun r => !(d ++ u.map (·.id)).contains r.id)) ++ u ++ a
  len L := L.length
  answer L q := sortedIds ((Router.build E L).matchReq E q)

def observe {σ : Type} (sys : Sys σ) (probes : List Req) (s : σ) : List (String × Json) :=
  [("len", toJson (sys.len s)), ("m", Json.arr (probes.map fun q => J.ids (sys.answer s q)).toArray)]

/-- One op: new state and observation. -/
partial def step {σ : Type} (sys : Sys σ) (probes : List Req) (s : σ) (op : Op) : Except String (σ × Json) :=
  match op with
  | .insert r =>
    let s' := sys.insert r s
    pure (s', Json.mkObj ([("k", toJson "insert")] ++ observe sys probes s'))
  | .remove id =>
    let r := sys.remove id s
    pure (r.1, Json.mkObj ([("k", toJson "remove"),
      ("ret", match r.2 with | some i => toJson i | none => Json.null)] ++ observe sys probes r.1))
  | .batch ids =>
    let s' := sys.batch ids s
    pure (s', Json.mkObj ([("k", toJson "batch")] ++ observe sys probes s'))
  | .change derive a u d =>
    let s' := sys.change a u d s
    pure (s', Json.mkObj ([("k", toJson (if derive then "derive" else "change"))] ++ observe sys probes s'))
  | .cache => pure (s, Json.mkObj ([("k", toJson "cache")] ++ observe sys probes s))
  | .clone keepClone sub => do
    -- the clone is a copy of the state; the original is the value `s` itself
    let mut c := s
    let mut subObs : Array Json := #[]
    for sop in sub do
      match sop with
      | .clone _ _ => throw "nested clone"
      | .change true _ _ _ => throw "derive inside a clone"
      | _ => pure ()
      let (c', o) ← step sys probes c sop
      c := c'
      subObs := subObs.push o
    let cur := if keepClone then c else s
    pure (cur, Json.mkObj ([("k", toJson "clone"), ("sub", Json.arr subObs),
      ("orig", Json.mkObj (observe sys probes s))] ++ observe sys probes cur))

def runAll {σ : Type} (sys : Sys σ) (probes : List Req) (init : σ) (ops : List Op) : Except String Json := do
  let mut s := init
  let mut out : Array Json := #[]
  for op in ops do
    let (s', o) ← step sys probes s op
    s := s'
    out := out.push o
  return Json.arr out

def handle (j : Json) : Except String Json := do
  let cfg ← J.field j "cfg" J.cfg
  let pool ← J.field j "pool" (J.arr J.rule)
  let probes ← J.field j "probes" (J.arr J.req)
  let E := envOf cfg
  let routes := (pool.map (mkRoute cfg)).toArray
  let qs := probes.map (mkReq cfg)
  let ops ← J.field j "ops" (J.arr (parseOp routes))
  let m ← runAll (modelSys E) qs (Router.empty E) ops
  let s ← runAll (specSys E) qs [] ops
  return Json.mkObj [("m", m), ("s", s)]

def main : IO Unit := Drv.run handle
