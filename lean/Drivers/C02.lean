/-
Driver of C02: case {"cfg":…, "pool":[rule…], "probes":[req…], "ops":[op…]}
(rule / req / cfg format: RioModel/Model/RouterJson.lean; op format: harness/src/bin/c02.rs).

  m : the op list run on the MODEL router with `Rio.Router.Op.run` (RouterOps.lean: `Router.insert /
      remove / batchRemove / applyChangeSet`; `cache` is the identity on the model state), observing
      after every op `len`, the sorted match ids of every probe and, for `remove`, the id of the route
      `Router.remove` returns.  `clone` needs no model operation — states are values: the sub-ops run
      on a copy, the original is the old value (so clone isolation is validated by the harness on
      the implementation only, the model cannot alias).
  s : the same observations computed from the *live rule list* only (`Rio.Router.Op.live`): answers
      of `Router.build E live` (a model router rebuilt from scratch), `live.length`, `remove`
      returns the id iff a live rule carries it.  "Specification = rebuild": exactly what
      `Rio.C02.run_equiv`, `remove_returns`, `remove_absent` relate the model to.
  W12: the history is ALSO run on the model WITH SHARING (Model/RouterShare.lean: one heap of capture cells, every
      clone / derived router is a further router of the same world, sub-operations run on the clone's index, the
      retained original stays in the world and its "orig" observation is READ FROM THE WORLD after the clone's
      operations — incl. `cache`, which overwrites cells the original shares).  The world run must produce exactly
      `m` (any difference is a driver error = correspondence failure): `Rio.C02.clone_isolation`,
      `core_noninterference`, `shared_refines_value_model` executed.
-/
import Drivers.Common
import RioModel.Model.RouterJson
import RioModel.Model.RouterOps
import RioModel.Model.RouterTreeParse
import RioModel.Model.RouterShare
open Lean Rio.Router

/-- A history element of the harness: one of W2's operations, or clone-then-mutate. -/
inductive HOp where
  | simple (kind : String) (op : Op)
  | clone (keepClone : Bool) (sub : List HOp)

partial def parseOp (pool : Array Route) (j : Json) : Except String HOp := do
  let kind ← J.field j "op" J.str
  let routeAt (x : Json) : Except String Route := do
    let i ← J.nat x
    match pool[i]? with
    | some r => pure r
    | none => throw "pool index"
  if kind == "insert" then return .simple kind (.insert (← J.field j "r" routeAt))
  else if kind == "remove" then return .simple kind (.remove (← J.field j "id" J.str))
  else if kind == "batch" then return .simple kind (.batchRemove (← J.field j "ids" (J.arr J.str)))
  else if kind == "change" || kind == "derive" then
    -- `derive` = RuleChangeSet::update_existing_router: clone + apply_change_set; on values: apply_change_set
    return .simple kind (.changeSet (← J.field j "a" (J.arr routeAt)) (← J.field j "u" (J.arr routeAt))
      (← J.field j "d" (J.arr J.str)))
  else if kind == "cache" then
    return .simple kind (.cache (← J.opt? j "n" J.nat))
  else if kind == "clone" then
    let keep ← J.field j "keep" J.str
    if keep != "clone" && keep != "orig" then throw "keep"
    return .clone (keep == "clone") (← J.field j "ops" (J.arr (parseOp pool)))
  else throw s!"op {kind}"

/-- What the two sides have in common: a state, one step, the return value of a removal, and the
two observers. -/
structure Sys (σ : Type) where
  run : Op → σ → σ
  removeRet : String → σ → Option String
  len : σ → Nat
  answer : σ → Req → List String

def modelSys (E : Env) : Sys (Router E) where
  run op S := op.run E S
  removeRet id S := (S.remove E id).2.map (·.id)
  len S := S.len E
  answer S q := sortedIds (S.matchReq E q)

/-- The same history on the router over the REAL regex-tree model (W1's `Item` trees, `stdEngine`;
`Rio.C02.run_equiv_tree`): `remove` / `batch_remove` go through `Item.remove` / `Item.retain`. -/
def treeSys (T : TEnv) : Sys (RouterT T) where
  run op S := op.runG (towerTOps T) S
  removeRet id S := (RouterG.remove (towerTOps T) id S).2.map (·.id)
  len S := RouterG.len (towerTOps T) S
  answer S q := sortedIds (RouterG.matchReq (towerTOps T) S q)

/-- The specification: the live rule list; every answer comes from a router rebuilt from scratch. -/
def specSys (E : Env) : Sys (List Route) where
  run op L := op.live L
  removeRet id L := if L.any (fun r => r.id == id) then some id else none
  len L := L.length
  answer L q := sortedIds ((Router.build E L).matchReq E q)

def observe {σ : Type} (sys : Sys σ) (probes : List Req) (s : σ) : List (String × Json) :=
  [("len", toJson (sys.len s)), ("m", Json.arr (probes.map fun q => J.ids (sys.answer s q)).toArray)]

/-- One history element: new state and observation. -/
partial def step {σ : Type} (sys : Sys σ) (probes : List Req) (s : σ) (h : HOp) : Except String (σ × Json) :=
  match h with
  | .simple kind op =>
    let s' := sys.run op s
    let ret : List (String × Json) :=
      match op with
      | .remove id => [("ret", match sys.removeRet id s with | some i => toJson i | none => Json.null)]
      | _ => []
    pure (s', Json.mkObj ([("k", toJson kind)] ++ ret ++ observe sys probes s'))
  | .clone keepClone sub => do
    let mut c := s
    let mut subObs : Array Json := #[]
    for sop in sub do
      match sop with
      | .clone _ _ => throw "nested clone"
      | .simple "derive" _ => throw "derive inside a clone"
      | _ => pure ()
      let (c', o) ← step sys probes c sop
      c := c'
      subObs := subObs.push o
    let cur := if keepClone then c else s
    pure (cur, Json.mkObj ([("k", toJson "clone"), ("sub", Json.arr subObs),
      ("orig", Json.mkObj (observe sys probes s))] ++ observe sys probes cur))

def runAll {σ : Type} (sys : Sys σ) (probes : List Req) (init : σ) (ops : List HOp) : Except String Json := do
  let mut s := init
  let mut out : Array Json := #[]
  for op in ops do
    let (s', o) ← step sys probes s op
    s := s'
    out := out.push o
  return Json.arr out

/-! ### W12: the same history on the world with sharing -/

namespace W12
open Rio.RouterShare (World SRouter RouteTpl SoDTpl MTpl Step)

/-- regex library of the world run: every pattern compiles, a compiled pattern "captures" nothing from the text equal
to it.  (Captures are not part of the compared observation; the implementation side has its own capture oracle.) -/
def lib : Rio.MarkerCache.RegexLib (List Char) := ⟨fun _ p => some p, fun c s => if c = s then some [] else none⟩

def sodTpl (ic : Bool) : SoD → SoDTpl
  | .static s => .static s.toList
  | .dyn p => .dynamic ⟨renderPat p, renderPat p, ic⟩

/-- the marker strings `into_route` allocates cells for -/
def tplOf (cfg : Cfg) (r : Route) : RouteTpl where
  host := r.host.map (sodTpl cfg.ignoreHostCase)
  pathAndQuery := sodTpl cfg.ignorePathCase r.path
  headers := r.headers.filterMap fun h =>
    match h.kind with
    | .matchRegex p => some (h.name.toList, ⟨renderPat p, renderPat p, cfg.ignoreHeaderCase⟩)
    | _ => none

def shareOp (cfg : Cfg) : Op → Rio.RouterShare.Op
  | .insert r => .insert r (tplOf cfg r)
  | .remove id => .remove id
  | .batchRemove ids => .batchRemove ids
  | .changeSet a u d => .changeSet (a.map fun r => (r, tplOf cfg r)) (u.map fun r => (r, tplOf cfg r)) d
  | .cache n => .cache n

structure St (O : MOps) where
  w : World (List Char) O
  cur : Nat

def router {O : MOps} (st : St O) (i : Nat) : Except String (SRouter O) :=
  match st.w.routers[i]? with
  | some S => pure S
  | none => throw s!"world: no router {i}"

def observeW {O : MOps} (probes : List Req) (st : St O) (i : Nat) : Except String (List (String × Json)) := do
  let S ← router st i
  pure [("len", toJson (RouterG.len O S.core)),
        ("m", Json.arr (probes.map fun q => J.ids (sortedIds (RouterG.matchReq O S.core q))).toArray)]

/-- every handle of every router points into the heap (`World.WF`, second half), checked on the way -/
def handlesOK {O : MOps} (st : St O) : Bool :=
  let n := st.w.store.length
  st.w.routers.all fun S => S.marks.all fun e =>
    (match e.2.pathAndQuery with | .dynamic m => m.cell < n | .static _ => true) &&
    (match e.2.host with | some (.dynamic m) => m.cell < n | _ => true) &&
    e.2.headers.all fun h => h.2.cell < n

partial def stepW {O : MOps} (cfg : Cfg) (probes : List Req) (st : St O) (h : HOp) : Except String (St O × Json) :=
  match h with
  | .simple kind op => do
    let S ← router st st.cur
    let ret : List (String × Json) :=
      match op with
      | .remove id => [("ret", match ((S.remove id).2).map (·.id) with | some i => toJson i | none => Json.null)]
      | _ => []
    let st' : St O :=
      match kind, op with
      | "derive", .changeSet a u d =>
        -- RuleChangeSet::update_existing_router: the Arc'd existing router stays in the world, the derived one
        -- (clone + apply_change_set) is appended and becomes the current router
        ⟨st.w.updateExisting lib st.cur (a.map fun r => (r, tplOf cfg r)) (u.map fun r => (r, tplOf cfg r)) d,
         st.w.routers.length⟩
      | _, _ => ⟨st.w.step lib (.op st.cur (shareOp cfg op)), st.cur⟩
    if !handlesOK st' then throw "world: dangling handle"
    pure (st', Json.mkObj ([("k", toJson kind)] ++ ret ++ (← observeW probes st' st'.cur)))
  | .clone keepClone sub => do
    let n := st.w.routers.length
    let mut c : St O := ⟨st.w.step lib (.clone st.cur), n⟩
    let mut subObs : Array Json := #[]
    for sop in sub do
      match sop with
      | .clone _ _ => throw "nested clone"
      | .simple "derive" _ => throw "derive inside a clone"
      | _ => pure ()
      let (c', o) ← stepW cfg probes c sop
      c := c'
      subObs := subObs.push o
    -- the ORIGINAL, read from the world after the clone's operations
    let orig ← observeW probes c st.cur
    let cur := if keepClone then n else st.cur
    let st' : St O := ⟨c.w, cur⟩
    pure (st', Json.mkObj ([("k", toJson "clone"), ("sub", Json.arr subObs),
      ("orig", Json.mkObj orig)] ++ (← observeW probes st' cur)))

def runAllW (O : MOps) (cfg : Cfg) (probes : List Req) (ops : List HOp) : Except String Json := do
  let mut s : St O := ⟨⟨[], [⟨RouterG.empty O, []⟩]⟩, 0⟩
  let mut out : Array Json := #[]
  for op in ops do
    let (s', o) ← stepW cfg probes s op
    s := s'
    out := out.push o
  return Json.arr out

end W12

def handle (j : Json) : Except String Json := do
  let cfg ← J.field j "cfg" J.cfg
  let pool ← J.field j "pool" (J.arr J.rule)
  let probes ← J.field j "probes" (J.arr J.req)
  let E := envOf cfg
  let routes := (pool.map (mkRoute cfg)).toArray
  let qs := probes.map (mkReq cfg)
  let ops ← J.field j "ops" (J.arr (parseOp routes))
  let m ← runAll (modelSys E) qs (Router.empty E) ops
  let s ← runAll (specSys E) qs [] ops
  -- W2: the tree-level model must answer exactly as the specification-level model
  let T := tenvOf cfg
  let mt ← runAll (treeSys T) qs (RouterG.empty (towerTOps T)) ops
  if mt != m then
    throw s!"tree-level model {Json.compress mt} differs from the specification-level model {Json.compress m}"
  -- W12: the world with sharing (clones and derived routers are further routers over ONE heap of capture cells)
  let mw ← W12.runAllW (towerOps E) cfg qs ops
  if mw != m then
    throw s!"world-with-sharing model {Json.compress mw} differs from the value model {Json.compress m}"
  -- … and over the radix-tree tower (there `cache` changes the compiled flags of the CLONE's own trees)
  let mwt ← W12.runAllW (towerTOps T) cfg qs ops
  if mwt != m then
    throw s!"world-with-sharing model over the tree tower {Json.compress mwt} differs from the value model {Json.compress m}"
  return Json.mkObj [("m", m), ("s", s)]

def main : IO Unit := Drv.run handle
