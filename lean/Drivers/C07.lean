import Drivers.Common
import RioModel.Model.PanicSlice
import RioModel.Model.FfiNull
import RioModel.Model.PanicTime
import RioModel.Model.LogParse
open Lean

/-- entry points whose early exit is not visible in the return value (void / echoing functions): the harness
reports `early = null` for them; transcribed from harness/src/bin/c07.rs `run_ffi_null`. -/
def unobservable : List String := [
  "redirectionio_action_drop", "redirectionio_action_body_filter_filter", "redirectionio_action_body_filter_drop",
  "redirectionio_action_should_log_request", "redirectionio_trusted_proxies_add_proxy",
  "redirectionio_request_set_remote_addr", "redirectionio_request_drop", "redirectionio_api_buffer_drop"]

/-- Model of the two logger initialisers (`src/callback_log.rs`, after `fix: initialising the logger twice no
longer aborts the host process`): the `log` crate accepts ONE logger per process; both functions now log and
ignore the error of installing a second one (`init_with_callback` additionally runs once, `Once`).
`true` = the sequence returns normally.  `aborted` is the behaviour before the repair, kept to document W8-F1. -/
def loggerSeqOld : List String → (installed once : Bool) → Bool
  | [], _, _ => true
  | s :: rest, installed, once =>
    if s == "stderr" then
      if installed then false else loggerSeqOld rest true once          -- stderrlog::new().init().unwrap()
    else
      if once then loggerSeqOld rest installed once                      -- INIT.call_once: already run
      else if installed then false                                      -- .expect("cannot set logger")
      else loggerSeqOld rest true true

def loggerSeq : List String → (_installed _once : Bool) → Bool
  | [], _, _ => true
  | s :: rest, installed, once =>
    if s == "stderr" then loggerSeq rest true once                      -- if let Err(err) = … { log::error!(..) }
    else loggerSeq rest true true

/-- the std parsers as the table of answers the real std gave (case field "std": text ↦ {"ip": text|null, "sock": [text, port]|null});
a text the table does not know yields a sentinel address, which shows up in the comparison -/
def stdOfTable (tbl : Json) : Rio.AddrParse.Std where
  parseIp := fun t =>
    match tbl.getObjVal? (String.ofList t) with
    | .ok e => match e.getObjVal? "ip" with
      | .ok (.str ip) => some ip
      | _ => none
    | .error _ => some ("<not in the std table: " ++ String.ofList t ++ ">")
  parseSock := fun t =>
    match tbl.getObjVal? (String.ofList t) with
    | .ok e => match e.getObjVal? "sock" with
      | .ok (.arr a) =>
        match (a[0]?.bind fun x => (fromJson? x : Except String String).toOption),
              (a[1]?.bind fun x => (fromJson? x : Except String Nat).toOption) with
        | some ip, some n => some (ip, n)
        | _, _ => none
      | _ => none
    | .error _ => none

def asciiLower (s : List Char) : List Char := s.map fun c => if 'A' ≤ c ∧ c ≤ 'Z' then Char.ofNat (c.toNat + 32) else c

def handle (j : Json) : Except String Json := do
  let fam ← Drv.str? j "family"
  if fam == "addr_parse" then
    let S := stdOfTable (← Drv.obj? j "std")
    match Rio.AddrParse.parseAddr S (← Drv.str? j "s").toList with
    | .ok ip port => return Json.mkObj [("m", Json.mkObj [("addr", Json.arr #[toJson ip, match port with | some p => toJson p | none => Json.null])])]
    | .err => return Json.mkObj [("m", Json.mkObj [("addr", Json.null)])]
  if fam == "log_ips" then
    let S := stdOfTable (← Drv.obj? j "std")
    let hs ← (← Drv.arr? j "headers").toList.mapM fun h => do
      let a ← (fromJson? h : Except String (Array String))
      if a.size != 2 then throw "header pair"
      pure (a[0]!.toList, a[1]!.toList)
    let r := Rio.LogParse.ips S asciiLower (← Drv.str? j "client_ip").toList hs
    return Json.mkObj [("m", Json.mkObj [("ips", toJson r)])]
  if fam == "slice" then
    let bs ← Drv.unhex (← Drv.str? j "s")
    let from_ ← Drv.nat? j "from"
    let to ← Drv.optNat? j "to"
    match Rio.Slice.transform bs (Rio.Slice.utf8Boundary bs) from_ to with
    | .ok out => return Json.mkObj [("m", Json.mkObj [("out", toJson (Drv.hex out))])]
    | .panic => return Json.mkObj [("m", Json.mkObj [("panic", Json.bool true)])]
  else if fam == "ffi_null" then
    let name ← Drv.str? j "fn"
    let nulls ← (← Drv.arr? j "nulls").toList.mapM fun b => (fromJson? b : Except String Bool)
    match Rio.FfiNull.find? name with
    | none => throw s!"no table entry for {name}"
    | some e =>
      if e.params.length != nulls.length then throw s!"{name}: {e.params.length} nullable parameters in the source, {nulls.length} in the case"
      match Rio.FfiNull.run nulls e.evs with
      | .nullDeref p => return Json.mkObj [("m", Json.mkObj [("null_deref", toJson p)])]
      | .returnedEarly _ =>
        return Json.mkObj [("m", Json.mkObj [("early", if unobservable.contains name then Json.null else Json.bool true)])]
      | .completed =>
        return Json.mkObj [("m", Json.mkObj [("early", if unobservable.contains name then Json.null else Json.bool false)])]
  else if fam == "ffi_logger" then
    let seq ← (← Drv.arr? j "seq").toList.mapM fun b => (fromJson? b : Except String String)
    let okk := loggerSeq seq false false
    return Json.mkObj [("m", Json.mkObj [("child", if okk then "ok" else "abort")])]
  else if fam == "request_time" then
    if (j.getObjVal? "ymdhms").isOk == false then
      -- older pinned cases carry only the year: the repaired code never panics (Rio.C07.request_time_total)
      let _ ← (j.getObjValAs? Int "year")
      return Json.mkObj [("m", Json.mkObj [("panics", Json.bool false)])]
    let f ← (j.getObjValAs? (Array Int) "ymdhms")
    if f.size != 6 then throw "ymdhms"
    let c : Rio.Time.Civil := ⟨f[0]!, f[1]!.toNat, f[2]!.toNat, f[3]!.toNat, f[4]!.toNat, f[5]!.toNat⟩
    match Rio.Time.requestTime c with
    | .ok v => return Json.mkObj [("m", Json.mkObj [("panics", Json.bool false), ("value", toJson v)])]
    | .panic => return Json.mkObj [("m", Json.mkObj [("panics", Json.bool true)])]
  else if fam == "deep_tree" then
    -- stack depth is outside the model (Lean's structural recursion cannot see it): the driver abstains; an abort is the
    -- known finding deep-tree-stack-overflow, decided by the harness oracle alone
    return Json.mkObj [("abstain", Json.bool true)]
  else
    -- search families: the model's prediction is "returns normally"
    return Json.mkObj [("m", Json.mkObj [("ok", Json.bool true)])]

def main : IO Unit := Drv.run handle
