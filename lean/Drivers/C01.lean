/-
Driver of C01: case {"cfg":…, "rules":[…], "reqs":[…]} (format: RioModel/Model/RouterJson.lean).
  m : per request, the sorted ids (duplicates kept) returned by the layered model
      `Router.matchReq (Router.build R) q`
  s : per request, the sorted ids of `R.filter (sat R · q)` – the flat specification
-/
import Drivers.Common
import RioModel.Model.RouterJson
open Lean Rio.Router

def handle (j : Json) : Except String Json := do
  let cfg ← J.field j "cfg" J.cfg
  let rules ← J.field j "rules" (J.arr J.rule)
  let reqs ← J.field j "reqs" (J.arr J.req)
  let E := envOf cfg
  let R := rules.map (mkRoute cfg)
  let S := Router.build E R
  let qs := reqs.map (mkReq cfg)
  let m := qs.map (fun q => J.ids (sortedIds (S.matchReq E q)))
  let s := qs.map (fun q => J.ids (sortedIds (R.filter (fun r => sat E R r q))))
  return Json.mkObj [("m", Json.arr m.toArray), ("s", Json.arr s.toArray)]

def main : IO Unit := Drv.run handle
