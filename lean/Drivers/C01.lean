/-
Driver of C01: case {"cfg":…, "rules":[…], "reqs":[…]} (format: RioModel/Model/RouterJson.lean).
  m : per request, the sorted ids (duplicates kept) returned by the layered model
      `Router.matchReq (Router.build R) q`
  s : per request, the sorted ids of `R.filter (sat R · q)` – the flat specification
The same rule list is also run through the tower over the REAL regex-tree model (`towerTOps`,
W1's `Item` trees and `stdEngine` on the rendered regex strings); a case on which it answers
differently from the specification-level model is reported as an error (so it shows up as a
correspondence failure): this ties the composed theorems `match_exact_tree…` to the code as well.
-/
import Drivers.Common
import RioModel.Model.RouterJson
import RioModel.Model.RouterTreeParse
open Lean Rio.Router

def handle (j : Json) : Except String Json := do
  let cfg ← J.field j "cfg" J.cfg
  let rules ← J.field j "rules" (J.arr J.rule)
  let reqs ← J.field j "reqs" (J.arr J.req)
  let E := envOf cfg
  let R := rules.map (mkRoute cfg)
  let S := Router.build E R
  let qs := reqs.map (mkReq cfg)
  let m := qs.map (fun q => J.ids (sortedIds (S.matchReq E q)))
  let T := tenvOf cfg
  let ST := RouterG.build (towerTOps T) R
  let mt := qs.map (fun q => J.ids (sortedIds (RouterG.matchReq (towerTOps T) ST q)))
  if Json.arr mt.toArray != Json.arr m.toArray then
    throw s!"tree-level model {Json.compress (Json.arr mt.toArray)} differs from the specification-level model {Json.compress (Json.arr m.toArray)}"
  let s := qs.map (fun q => J.ids (sortedIds (R.filter (fun r => sat E R r q))))
  return Json.mkObj [("m", Json.arr m.toArray), ("s", Json.arr s.toArray)]

def main : IO Unit := Drv.run handle
