import Drivers.Common
import RioModel.Model.Ffi
open Lean Rio.Ffi

def kindOfName (s : String) : Except String Kind :=
  if s == "action" then pure .action else if s == "filter" then pure .filter else if s == "request" then pure .request
  else throw s!"kind {s}"

structure Sizes where
  action : Nat
  filter : Nat
  request : Nat
  hnode : Nat
  tproxies : Nat
  tconfig : Nat

def Sizes.sz (z : Sizes) : Kind → Nat
  | .action => z.action | .filter => z.filter | .request => z.request | .hnode => z.hnode
  | .tproxies => z.tproxies | .tconfig => z.tconfig | .bytes => 0 | .cstr => 0

def optSlot (j : Json) (k : String) : Except String (Option Nat) := Drv.optNat? j k

/-- one JSON call → the model's calls (a C entry point that touches several objects is several borrows) -/
def parseCall (j : Json) : Except String (List Call) := do
  let op ← Drv.str? j "op"
  let s := Drv.nat? j "s"
  if op == "buf_new" then return [.bufNew (← Drv.unhex (← Drv.str? j "bytes")) (← Drv.nat? j "cap")]
  else if op == "buf_dup" then return [.bufDup (← s)]
  else if op == "filter_null" then return [.filterNull (← s)]
  else if op == "buf_read" then return [.bufRead (← s)]
  else if op == "buf_drop" then return [.bufDrop (← s)]
  else if op == "action_new" then return [.objNew .action (← Drv.bool? j "ok")]
  else if op == "req_new" then return [.objNew .request (← Drv.bool? j "ok")]
  else if op == "action_status" || op == "action_log" then return [.objUse .action (← s)]
  else if op == "action_ser" then return [.objSer .action (← s) (← Drv.nat? j "len")]
  else if op == "req_ser" then return [.objSer .request (← s) (← Drv.nat? j "len")]
  else if op == "action_drop" then return [.objDrop .action (← s)]
  else if op == "req_drop" then return [.objDrop .request (← s)]
  else if op == "filter_drop" then return [.objDrop .filter (← s)]
  else if op == "hmap_new" || op == "headers" then
    let hdrs ← (match j.getObjVal? "hdrs" with
      | .ok (.arr a) => a.toList.mapM fun p => do
          let q ← (fromJson? p : Except String (Array Json))
          if q.size != 2 then throw "hdrs pair"
          let one (x : Json) : Except String (Option Nat) := match x with
            | .null => pure none
            | v => (fromJson? v : Except String Nat).map some
          pure (← one q[0]!, ← one q[1]!)
      | _ => pure [])
    if op == "hmap_new" then return [.hmapNew hdrs]
    return [.headers (← Drv.nat? j "a") hdrs]
  else if op == "hlist_free" then return [.hlistFree (← s)]
  else if op == "hmap_read" then
    let _ ← s
    return []   -- `header_map_to_http_headers`: a borrow of every node (content checked by the harness oracle)
  else if op == "filter_new" then return [.filterNew (← Drv.nat? j "a") (← Drv.bool? j "ok")]
  else if op == "filter_feed" then return [.filterFeed (← Drv.nat? j "f") (← Drv.nat? j "b") (← Drv.unhex (← Drv.str? j "out"))]
  else if op == "filter_close" then return [.filterClose (← Drv.nat? j "f") (← Drv.unhex (← Drv.str? j "out"))]
  else if op == "req_addr" then
    match ← optSlot j "tp" with
    | none => return [.objUse .request (← s)]
    | some t => return [.objUse .request (← s), .tpUse t]
  else if op == "log_json" then return [.logJson (← Drv.nat? j "r") (← optSlot j "a") (← Drv.nat? j "len")]
  else if op == "version" then return [.strNew (← Drv.nat? j "len")]
  else if op == "str_free" then return [.strFree (← s)]
  else if op == "tp_new" then return [.tpNew]
  else if op == "tp_add" then return [.tpUse (← s)]
  else throw s!"op {op}"

def cellSize (h : Heap) (id : Nat) : Json :=
  match h.cells[id]? with
  | some c => if c.live then toJson c.size else Json.null
  | none => Json.null

def ownedOf (h : Heap) : Handle → List Json
  | .buffer b => match b.id with | some id => [cellSize h id] | none => []
  | .cstr id _ => match id with | some id => [cellSize h id] | none => []
  | .obj _ id => match id with | some id => [cellSize h id] | none => []
  | .hlist nodes => nodes.flatMap fun (n, a, b) =>
      [cellSize h n, (match a with | some (i, _) => cellSize h i | none => Json.null),
        (match b with | some (i, _) => cellSize h i | none => Json.null)]
  | .tproxies o i => [cellSize h o, cellSize h i]
  | .alias => []

def faultName : Fault → String
  | .doubleFree id => s!"double free of allocation {id}"
  | .unknownPtr id => s!"unknown pointer {id}"
  | .sizeMismatch id a d => s!"allocation {id}: allocated {a}, released with {d}"
  | .useAfterFree id => s!"use after free of allocation {id}"
  | .badHandle s => s!"slot {s} does not hold a handle of the expected type"

/-- the call that releases slot `i` (what the harness does at the end with what the caller still holds) -/
def releaseCall (i : Nat) : Handle → Option Call
  | .buffer _ => some (.bufDrop i)
  | .cstr _ _ => some (.strFree i)
  | .obj k _ => some (.objDrop k i)
  | .hlist _ => some (.hlistFree i)
  | .tproxies _ _ => none
  | .alias => none

def handle (j : Json) : Except String Json := do
  if (j.getObjVal? "selftest").isOk then
    return Json.mkObj [("m", Json.mkObj [("selftest", "ok")])]
  let zs ← Drv.obj? j "sizes"
  let z : Sizes := ⟨← Drv.nat? zs "action", ← Drv.nat? zs "filter", ← Drv.nat? zs "request", ← Drv.nat? zs "hnode",
    ← Drv.nat? zs "tproxies", ← Drv.nat? zs "tconfig"⟩
  let calls ← Drv.arr? j "calls"
  let mut st : State := {}
  let mut results : Array Json := #[]
  for cj in calls do
    let op ← Drv.str? cj "op"
    let before := st.slots.length
    let cs ← parseCall cj
    -- bufRead: what the borrow returns
    let mut res : Json := Json.null
    if op == "buf_read" then
      match st.get (← Drv.nat? cj "s") with
      | some (.buffer b) => res := Json.mkObj [("read", toJson (Drv.hex b.bytes))]
      | _ => pure ()
    if op == "hmap_read" then
      if !(st.holds (← Drv.nat? cj "s") isHlist) then throw "the calls do not follow the caller protocol"
    for c in cs do
      if !pre st c then throw "the calls do not follow the caller protocol"
      st := step z.sz st c
    if st.slots.length > before then
      match st.slots[before]? with
      | some sl =>
        let base : List (String × Json) := [("slot", toJson before), ("owned", Json.arr (ownedOf st.heap sl.h).toArray)]
        let extra : List (String × Json) := match sl.h with
          | .buffer b => [("bytes", toJson (Drv.hex b.bytes))]
          | .alias => [("alias", Json.bool true)]
          | _ => []
        res := Json.mkObj (base ++ extra)
        -- the NULL / non-NULL answer the library gave must be the one the model derives from the handles
        match cj.getObjVal? "ok", sl.h with
        | .ok (.bool ok), .cstr id _ => if ok != id.isSome then throw s!"{op}: the library returned NULL={!ok}, the model NULL={id.isNone}"
        | _, _ => pure ()
      | none => pure ()
    results := results.push res
  let unreleased := (st.slots.zipIdx.filter fun (sl, _) => !sl.released).map (·.2)
  -- the caller releases what it still holds
  let rel := st.slots.zipIdx.filterMap fun (sl, i) => if sl.released then none else releaseCall i sl.h
  let fin := run z.sz st rel
  let leaked := (fin.heap.liveList.filter fun c => !documentedLeak c).length
  return Json.mkObj [("m", Json.mkObj [
    ("results", Json.arr results), ("unreleased", toJson unreleased),
    ("faults", Json.arr (fin.heap.faults.map fun f => toJson (faultName f)).toArray), ("leaked", toJson leaked)])]

def main : IO Unit := Drv.run handle
