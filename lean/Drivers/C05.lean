/-
C05 driver.  case:
  {"rules":[<rule>…], "ov":bool?, "skipped":str?, "codes":[nat…], "ops":[{"op":"status"|"headers"|"body"|"log"}|{"op":"final","fb":nat}…],
   "headers":[[name,value]…], "body":str, "allow_log":bool, "via":"direct"|"router", …}
"m" = the model (`fromRoutesRule`, then the observers run in sequence on a fresh copy per response code);
"s" = the specification (`Spec.action` / `Spec.observe` over `Spec.contributing` of an independently
sorted list).  In "router" mode with pairwise distinct ranks both sides also print the action trace
(`traceActions` / `Spec.traceSteps`, C17 clause 3) against `TraceAction::from_trace_rules`.  Both are rendered by the same codec.
-/
import Drivers.Common
import RioModel.Model.ActionJson
import RioModel.Model.ActionTrace
import RioModel.Model.IntoRoute
import RioModel.Model.UnitTrace
import RioModel.Model.RouterJson
open Lean Rio.Action Rio.Action.Codec

def parseHeaderPair (j : Json) : Except String Rio.Header.Header := do
  match j with
  | .arr #[n, v] => return ⟨← fromJson? n, ← fromJson? v⟩
  | _ => throw "header pair"

/-! ### second case kind: `{"kind":"into_route","cfg":…,"src":…}` — `Rule::into_route` against
Model/IntoRoute.lean with the standard parsers; observation = the fields of the route. -/

namespace IR
open Rio.Router Rio.IntoRoute

def bytesOf (s : String) : Rio.Url.Bytes := s.toUTF8.toList.map (·.toNat)

def optStr (j : Json) (k : String) : Except String (Option String) := J.opt? j k J.str

def rangeSrc (j : Json) : Except String RangeSource := do
  match j with
  | .arr #[a, b] =>
    let get (x : Json) : Except String (Option String) :=
      match x with
      | .null => pure none
      | v => v.getStr?.map some
    return (← get a, ← get b)
  | _ => throw "range: expected [start, end]"

def ipSrc (j : Json) : Except String IpSource := do
  return ⟨← J.field j "neg" J.bool, ← J.field j "range" J.str⟩

def src (j : Json) : Except String RuleSource := do
  return {
    id := ← J.field j "id" J.str
    rank := ← J.field j "rank" J.nat
    scheme := ← optStr j "scheme"
    host := ← optStr j "host"
    path := bytesOf (← J.field j "path" J.str)
    query := (← optStr j "query").map bytesOf
    markers := ((← optStr j "markers").getD "").toList
    ips := ← J.opt? j "ips" (J.arr ipSrc)
    methods := ← J.opt? j "methods" (J.arr J.str)
    excludeMethods := ← J.opt? j "exclude" J.bool
    headers := ← J.opt? j "headers" (J.arr J.headerDesc)
    datetime := ← J.opt? j "datetime" (J.arr rangeSrc)
    time := ← J.opt? j "time" (J.arr rangeSrc)
    weekdays := ← J.opt? j "weekdays" (J.arr J.str) }

/-- `regex::escape` on one character (`regex_syntax::is_meta_character`). -/
def escapeChar (c : Char) : List Char :=
  if "\\.+*?()|[]{}^$#&-~".toList.contains c then ['\\', c] else [c]

def clsRegex : Cls → String
  | .digit => "[0-9]" | .lower => "[a-z]" | .notSlash => "[^/]" | .any => "."

/-- `MarkerString.regex`: escaped literal text, `(?:regex)` per marker. -/
def patRegex (p : Pat) : String :=
  String.ofList (p.flatMap fun t =>
    match t with
    | .lit c => escapeChar c
    | .plus c => ("(?:" ++ clsRegex c ++ "+)").toList
    | .star c => ("(?:" ++ clsRegex c ++ "*)").toList)

def jSod : SoD → Json
  | .static s => Json.mkObj [("static", toJson s)]
  | .dyn p => Json.mkObj [("dyn", toJson (patRegex p))]

def jOpt {α : Type} (f : α → Json) : Option α → Json
  | none => .null
  | some a => f a

def jHeader (h : RouteHeader) : Json :=
  let (k, v) : String × Json := match h.kind with
    | .isDefined => ("is_defined", .null)
    | .isNotDefined => ("is_not_defined", .null)
    | .isEquals v => ("is_equals", toJson v)
    | .isNotEqualTo v => ("is_not_equal_to", toJson v)
    | .contains v => ("contains", toJson v)
    | .doesNotContain v => ("does_not_contain", toJson v)
    | .endsWith v => ("ends_with", toJson v)
    | .startsWith v => ("starts_with", toJson v)
    | .matchRegex p => ("match_regex", toJson (patRegex p))
  Json.arr #[toJson h.name, toJson k, v]

def jIp (ip : RouteIp) : Json :=
  let (neg, c) := match ip with
    | .inRange c => (false, c)
    | .notInRange c => (true, c)
  -- a 128-bit base travels as a decimal string
  Json.arr #[toJson neg, toJson c.v6, if c.v6 then toJson (toString c.base) else toJson c.base, toJson c.bits]

/-- A field whose input strings leave the declared scope of the stand-in parsers is not compared. -/
def inScopeOr (inScope : Bool) (j : Json) : Json := if inScope then j else toJson "out-of-scope"

def boundsInScope (f : String → Bool) (d : Option (List RangeSource)) : Bool :=
  (d.getD []).all fun r => (r.1.map f).getD true && (r.2.map f).getD true

def jRange (r : DRange) : Json := Json.arr #[jOpt toJson r.start, jOpt toJson r.stop]

def handle (j : Json) : Except String Json := do
  let cfg ← J.field j "cfg" J.cfg
  let s ← J.field j "src" src
  let r := intoRoute Parsers.std cfg s
  let m := Json.mkObj [
    ("id", toJson r.id), ("priority", toJson r.priority), ("scheme", jOpt toJson r.scheme),
    ("methods", jOpt toJson r.methods), ("exclude", jOpt toJson r.excludeMethods),
    ("host", jOpt jSod r.host), ("path", jSod r.path),
    ("headers", Json.arr (r.headers.map jHeader).toArray),
    ("ips", inScopeOr ((s.ips.getD []).all fun ip => Std.cidrInScope ip.range)
      (jOpt (fun l => Json.arr (l.map jIp).toArray) r.ips)),
    ("datetime", inScopeOr (boundsInScope Std.dateTimeInScope s.datetime)
      (jOpt (fun l => Json.arr (l.map jRange).toArray) r.datetime)),
    ("time", inScopeOr (boundsInScope Std.timeInScope s.time)
      (jOpt (fun l => Json.arr (l.map jRange).toArray) r.time)),
    ("weekdays", jOpt toJson r.weekdays)]
  return Json.mkObj [("m", m)]

end IR

/-! ### the unit trace (package W3e): canonical content as the harness prints it -/

def sortStr (l : List String) : List String := l.mergeSort (fun a b => decide (a ≤ b))

def jTrace (t : UnitTrace) : Json :=
  let values := t.valueComputedByUnits.mergeSort (fun a b => decide (a.1 ≤ b.1))
  Json.mkObj [("rules", jIds t.ruleIdsApplied), ("applied", toJson t.unitIdsApplied),
    ("seen", toJson (sortStr t.unitIdsSeen)),
    ("values", Json.arr (values.map fun kv => Json.arr #[toJson kv.1, toJson kv.2]).toArray)]

def diffProbe : List String := ["hu00", "ru0", "lu0", "cu0", "bu00", "nope", "ru0", "hu10", "ru1"]

def jUt (ruleIds : List RuleId) (t : UnitTrace) : Json :=
  let post := t.squash
  Json.mkObj [("pre", jTrace t), ("post", jTrace post), ("diff", toJson (post.diff diffProbe)),
    ("contains", toJson (ruleIds.map fun id => post.ruleIdsContains id))]

def handle (j : Json) : Except String Json := do
  if (Drv.str? j "kind").toOption == some "into_route" then return ← IR.handle j
  let rules ← parseRules j
  let q ← parseReq j
  let codes := (← Drv.arr? j "codes").toList
  let codes ← codes.mapM (fun c => (fromJson? c : Except String Nat))
  let ops ← (← Drv.arr? j "ops").toList.mapM parseOp
  let headers ← (← Drv.arr? j "headers").toList.mapM parseHeaderPair
  let body ← Drv.str? j "body"
  let allow ← Drv.bool? j "allow_log"
  -- the case must not depend on the random draw (the implementation could not be compared otherwise)
  let lo : Rule → Nat := fun _ => 1
  let hi : Rule → Nat := fun _ => 100
  let aLo := fromRoutesRule rules q lo
  let aHi := fromRoutesRule rules q hi
  if aLo != aHi then throw "case depends on the sampling draw"
  -- the action trace is observed in router mode when the ranks are pairwise distinct (C17 clause 3)
  let via := (Drv.str? j "via").toOption.getD "direct"
  let ranks := rules.map (·.rank)
  let traced := via == "router" && ranks.eraseDups.length == ranks.length
  let jSteps (steps : List TraceAction) : Json :=
    if traced then
      Json.arr (steps.map fun t =>
        Json.mkObj [("id", toJson (stringOfId t.rule.id)), ("action", jAction t.action)]).toArray
    else Json.null
  -- the unit trace: the same fold and the same observer sequence, with `Some(trace)`
  let probeIds := rules.map (·.id) ++ [idOfString "nope"]
  let env : EnvT := ⟨String.toLower, stringOfId, headers, body, allow⟩
  let ft := fromRoutesRuleT rules q lo (some UnitTrace.empty)
  if ft.1 != aLo then throw "model: the fold computes another action with a unit trace"
  let t0 ← match ft.2 with
    | some t => pure t
    | none => throw "model: trace lost"
  let utOf (c : Nat) : Except String Json :=
    match (runOpsT env c ft.1 (some t0) ops).2.2 with
    | some t => pure (jUt probeIds t)
    | none => throw "model: trace lost"
  let uts ← codes.mapM utOf
  -- one action, a code per call: the generated mixed sequence and the proxy order
  let mixedOps : List (Op × Nat) ← match j.getObjVal? "mixed" with
    | .ok (.arr a) => a.toList.mapM fun o => do
        let op ← parseOp o
        let c ← Drv.nat? o "c"
        pure (op, c)
    | _ => pure []
  let backend : Option Nat := (Drv.nat? j "backend").toOption
  let renderC (useRef : Bool) (ops : List (Op × Nat)) (rs : List (OpResult × List RuleId)) : Json :=
    Json.arr ((ops.zip rs).map fun (oc, r) =>
      (renderOp useRef headers body r).setObjVal! "c" (toJson oc.2)).toArray
  let render (useRef : Bool) (a : Action) (steps : List TraceAction)
      (obs : Nat → List (OpResult × List RuleId)) : Json :=
    Json.mkObj [("action", jAction a), ("trace", jSteps steps), ("ut0", jTrace t0),
      ("mixed",
        if useRef then renderC true mixedOps (Spec.observeC q (Spec.contributing q lo (Spec.insertionSort rules)) allow [] mixedOps)
        else renderC false mixedOps (runOpsC allow aLo mixedOps)),
      ("proxy",
        match backend with
        | none => Json.arr #[]
        | some b =>
          if useRef then
            let C := Spec.contributing q lo (Spec.insertionSort rules)
            let ops := proxySequence (Spec.statusAt C 0).1 (Spec.statusAt C b).1 b
            renderC true ops (Spec.observeC q C allow [] ops)
          else
            let ops := proxySequence (aLo.getStatusCode 0).1 ((aLo.getStatusCode 0).2.getStatusCode b).1 b
            renderC false ops (runOpsC allow aLo ops)),
      ("codes", Json.arr ((codes.zip uts).map fun (c, ut) =>
        Json.mkObj [("c", toJson c), ("ut", ut),
          ("ops", Json.arr ((obs c).map (renderOp useRef headers body)).toArray)]).toArray)]
  let m := render false aLo (traceActions rules q lo) (fun c => runOps allow c aLo ops)
  let sorted := Spec.insertionSort rules
  let C := Spec.contributing q lo sorted
  let s := render true (Spec.action q C) (Spec.traceSteps q lo sorted) (fun c => Spec.observe q C allow c [] ops)
  let tags : List String :=
    [s!"contrib:{C.length}"] ++
    (if (Spec.primaryFallback Spec.carriesStatus C).any (·.2.isSome) then ["status-fallback"] else []) ++
    (if (Spec.primaryFallback Spec.carriesLog C).any (·.2.isSome) then ["log-fallback"] else [])
  return Json.mkObj [("m", m), ("s", s), ("tags", toJson tags)]

def main : IO Unit := Drv.run handle
