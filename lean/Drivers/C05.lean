/-
C05 driver.  case:
  {"rules":[<rule>…], "ov":bool?, "skipped":str?, "codes":[nat…], "ops":[{"op":"status"|"headers"|"body"|"log"}|{"op":"final","fb":nat}…],
   "headers":[[name,value]…], "body":str, "allow_log":bool, "via":"direct"|"router", …}
"m" = the model (`fromRoutesRule`, then the observers run in sequence on a fresh copy per response code);
"s" = the specification (`Spec.action` / `Spec.observe` over `Spec.contributing` of an independently
sorted list).  In "router" mode with pairwise distinct ranks both sides also print the action trace
(`traceActions` / `Spec.traceSteps`, C17 clause 3) against `TraceAction::from_trace_rules`.  Both are rendered by the same codec.
-/
import Drivers.Common
import RioModel.Model.ActionJson
import RioModel.Model.ActionTrace
open Lean Rio.Action Rio.Action.Codec

def parseHeaderPair (j : Json) : Except String Rio.Header.Header := do
  match j with
  | .arr #[n, v] => return ⟨← fromJson? n, ← fromJson? v⟩
  | _ => throw "header pair"

def handle (j : Json) : Except String Json := do
  let rules ← parseRules j
  let q ← parseReq j
  let codes := (← Drv.arr? j "codes").toList
  let codes ← codes.mapM (fun c => (fromJson? c : Except String Nat))
  let ops ← (← Drv.arr? j "ops").toList.mapM parseOp
  let headers ← (← Drv.arr? j "headers").toList.mapM parseHeaderPair
  let body ← Drv.str? j "body"
  let allow ← Drv.bool? j "allow_log"
  -- the case must not depend on the random draw (the implementation could not be compared otherwise)
  let lo : Rule → Nat := fun _ => 1
  let hi : Rule → Nat := fun _ => 100
  let aLo := fromRoutesRule rules q lo
  let aHi := fromRoutesRule rules q hi
  if aLo != aHi then throw "case depends on the sampling draw"
  -- the action trace is observed in router mode when the ranks are pairwise distinct (C17 clause 3)
  let via := (Drv.str? j "via").toOption.getD "direct"
  let ranks := rules.map (·.rank)
  let traced := via == "router" && ranks.eraseDups.length == ranks.length
  let jSteps (steps : List TraceAction) : Json :=
    if traced then
      Json.arr (steps.map fun t =>
        Json.mkObj [("id", toJson (stringOfId t.rule.id)), ("action", jAction t.action)]).toArray
    else Json.null
  let render (useRef : Bool) (a : Action) (steps : List TraceAction)
      (obs : Nat → List (OpResult × List RuleId)) : Json :=
    Json.mkObj [("action", jAction a), ("trace", jSteps steps),
      ("codes", Json.arr (codes.map fun c =>
        Json.mkObj [("c", toJson c), ("ops", Json.arr ((obs c).map (renderOp useRef headers body)).toArray)]).toArray)]
  let m := render false aLo (traceActions rules q lo) (fun c => runOps allow c aLo ops)
  let sorted := Spec.insertionSort rules
  let C := Spec.contributing q lo sorted
  let s := render true (Spec.action q C) (Spec.traceSteps q lo sorted) (fun c => Spec.observe q C allow c [] ops)
  let tags : List String :=
    [s!"contrib:{C.length}"] ++
    (if (Spec.primaryFallback Spec.carriesStatus C).any (·.2.isSome) then ["status-fallback"] else []) ++
    (if (Spec.primaryFallback Spec.carriesLog C).any (·.2.isSome) then ["log-fallback"] else [])
  return Json.mkObj [("m", m), ("s", s), ("tags", toJson tags)]

def main : IO Unit := Drv.run handle
