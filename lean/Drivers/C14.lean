/-
C14 driver: model side.
case: {"body": hex of the PLAIN body, "enc", "cenc", "ctype", "filters", "scheds": [[cuts of the compressed stream]..],
       "flush": [[cuts of the plain body = outputs of the decode stage per call, last = end()] | null ..]}
out:  {"m": {"kinds": [..], "plain": hex | null, "sch": ["=" | "error" | hex ..]}}
The decoder is scripted with the outputs of the real decoder (see Model/FilterHtml.lean), the encoder is the
identity: the model's output is then what the chain hands to the encoder = the decoding of the real output
(theorem Rio.C14.compressed_equiv under the codec laws).  For an empty chain every schedule is a pass-through ("=").
-/
import Drivers.Common
import RioModel.Model.FilterJson
open Lean Rio.Filter

def handle (j : Json) : Except String Json := do
  -- CodecLaws cases are about flate2 / brotli themselves (the codecs are outside the model): nothing to compute
  if (Drv.optBool? j "laws") matches .ok (some true) then
    return Json.mkObj [("m", Json.mkObj [("laws", toJson "ok")])]
  let body ← J.unhex (← J.str? j "body")
  let fs ← J.filters? j
  let cenc ← J.optStr? j "cenc"
  let enc ← J.str? j "enc"
  let cenc := cenc.getD enc
  let ctype ← J.optStr? j "ctype"
  let scheds ← (← J.arr? j "scheds").toList.mapM J.cuts?
  let flush ← J.arr? j "flush"
  if flush.size != scheds.length then throw "flush"
  -- explicit header list (gates family) or the two-field form
  let explicit ← J.headers? j
  let hasExplicit := (j.getObjVal? "headers").toOption.isSome
  let hs := if hasExplicit then explicit
    else (match ctype with | some c => [("Content-Type", c)] | none => []) ++ [("Content-Encoding", cenc)]
  let hsPlain := hs.filter fun h => J.lower h.1 != Rio.Consts.filterHeaderContentEncoding
  let probe : Chain ScriptDec Unit := Chain.new (scriptCodec { outs := [], fin := none }) J.lower fs hs
  let compressed := probe.items.head?.map (·.kind) == some "decode"
  if !compressed && !probe.items.isEmpty then
    -- no Content-Encoding header: a plain chain on the raw body; "=" = the single-chunk output
    let pc : Chain Unit Unit := Chain.new noCodec J.lower fs hs
    let one := pc.run htmlTokenize evalStandIn noCodec [body]
    let sch := scheds.map fun cuts =>
      let out := pc.run htmlTokenize evalStandIn noCodec (splitAt body cuts)
      if out == one then toJson "=" else toJson (J.hex out)
    return Json.mkObj [("m", Json.mkObj [("kinds", J.kindsJson probe), ("plain", Json.null), ("sch", Json.arr sch.toArray)])]
  if !compressed then
    -- empty chain: pass-through whatever the bytes are
    let sch := scheds.map fun _ => toJson "="
    return Json.mkObj [("m", Json.mkObj [("kinds", J.kindsJson probe), ("plain", Json.null), ("sch", Json.arr sch.toArray)])]
  let plainChain : Chain Unit Unit := Chain.new noCodec J.lower fs hsPlain
  let plain := plainChain.run htmlTokenize evalStandIn noCodec [body]
  let mut sch : Array Json := #[]
  for (cuts, fl) in scheds.zip flush.toList do
    let nChunks := cuts.length + 1
    match fl with
    | .null => sch := sch.push (toJson "error")
    | fl =>
      let fcuts ← J.cuts? fl
      let pieces := (splitAt body fcuts).dropLast
      let script : ScriptDec := { outs := pieces.take nChunks, fin := (pieces.drop nChunks).head? }
      let codec := scriptCodec script
      let chain : Chain ScriptDec Unit := Chain.new codec J.lower fs hs
      let (out, err) := runTrack htmlTokenize evalStandIn codec chain (List.replicate nChunks [0])
      if err.isSome then sch := sch.push (toJson "error")
      else if out == plain then sch := sch.push (toJson "=")
      else sch := sch.push (toJson (J.hex out))
  return Json.mkObj [("m", Json.mkObj [("kinds", J.kindsJson probe), ("plain", toJson (J.hex plain)), ("sch", Json.arr sch)])]

def main : IO Unit := Drv.run handle
