import Drivers.Common
import RioModel.Model.Loop
import RioModel.Model.LoopAnalysisTable
import RioModel.Model.LoopAnalysisTable2
open Lean Rio.Loop

/-- a row `[url, method, kind, status, location|null, ext]` of the observed step table -/
def parseRow (j : Json) : Except String Row := do
  let a ← (fromJson? j : Except String (Array Json))
  if a.size != 6 then throw "row: expected 6 fields"
  let url ← (fromJson? a[0]! : Except String String)
  let method ← (fromJson? a[1]! : Except String String)
  let kind ← (fromJson? a[2]! : Except String String)
  let status ← (fromJson? a[3]! : Except String Nat)
  let loc ← (match a[4]! with
    | .null => pure none
    | v => (fromJson? v : Except String String).map some)
  let ext ← (fromJson? a[5]! : Except String Bool)
  if kind == "req_err" then return ⟨url, method, .reqErr, ext⟩
  else if kind == "resp" then return ⟨url, method, .resp status loc, ext⟩
  else throw s!"row kind {kind}"

def errName : Option Err → Json
  | none => Json.null
  | some .loop => "Loop"
  | some .tooManyHops => "TooManyHops"
  | some .atLeastOneHop => "AtLeastOneHop"

def loopObs (rows : List Row) (maxHops : Nat) (url method : String) : Except String Json :=
  match explainLoop rows maxHops url method with
  | none => pure (Json.mkObj [("error_message", Json.bool true)])
  | some st => do
    -- never a default value: every (url, method) the walk stood on must be a row of the table
    for h in st.hops do
      if !(rows.any fun r => r.url == h.url && r.method == h.method) then
        throw s!"step table has no row for ({h.url}, {h.method})"
    pure (Json.mkObj [
      ("hops", Json.arr (st.hops.map fun h => Json.arr #[toJson h.url, toJson h.status, toJson h.method]).toArray),
      ("error", errName st.error)])

def handle (j : Json) : Except String Json := do
  let maxHops ← Drv.nat? j "max_hops"
  let probes ← Drv.arr? j "probes"
  let tables ← Drv.arr? j "tables"
  if probes.size != tables.size then throw "tables/probes size"
  let mut out : Array Json := #[]
  for i in [0:probes.size] do
    let p := probes[i]!
    let url ← Drv.str? p "url"
    let method := (← Drv.optStr? p "method").getD "GET"      -- example.method.clone().unwrap_or("GET")
    let rows ← ((← (fromJson? tables[i]! : Except String (Array Json))).toList.mapM parseRow)
    out := out.push (← loopObs rows maxHops url method)
  -- the analysis model of W4 (Model/LoopAnalysis.lean) on the per-example pipeline table the harness recorded ("an"), and,
  -- W10, the same model incl. its walker, explain and impact on the extended table ("an2", Model/LoopAnalysisTable2.lean)
  let mut fields : List (String × Json) := [("loops", Json.arr out)]
  match j.getObjVal? "an" with
  | .ok .null | .error _ => pure ()
  | .ok an =>
    let a ← (Rio.Analysis.Table.handle an).mapError fun e => s!"analysis table: {e}"
    fields := fields ++ [("an", a)]
  match j.getObjVal? "an2" with
  | .ok .null | .error _ => pure ()
  | .ok an2 =>
    let a ← (Rio.Analysis.Table2.handle an2).mapError fun e => s!"analysis table 2: {e}"
    fields := fields ++ [("an2", a)]
  return Json.mkObj [("m", Json.mkObj fields)]

def main : IO Unit := Drv.run handle
