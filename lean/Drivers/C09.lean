import Drivers.Common
import RioModel.Model.Url
open Lean Rio.Url

namespace C09Drv

def hexOf (j : Json) (k : String) : Except String Bytes := do Drv.unhex (← Drv.str? j k)

def optHex (j : Json) (k : String) : Except String (Option Bytes) := do
  match ← Drv.optStr? j k with
  | none => return none
  | some h => return some (← Drv.unhex h)

def jhex (b : Bytes) : Json := toJson (Drv.hex b)
def jopt (b : Option Bytes) : Json := match b with | none => Json.null | some x => jhex x

def pqsJson (p : PQS) : List (String × Json) :=
  [("pq", jhex p.pathAndQuery), ("m", jopt p.matching), ("sk", jopt p.skipped), ("o", jhex p.original)]

def parseCfg (c : Json) : Except String Cfg := do
  let mk ← (← Drv.arr? c "mk").toList.mapM fun h => do
    match h with
    | Json.str s => Drv.unhex s
    | _ => throw "mk entry"
  return { ignoreCase := ← Drv.bool? c "ic", ignoreMarketing := ← Drv.bool? c "im",
           passMarketing := ← Drv.bool? c "pm", marketing := mk,
           ignoreHostCase := ← Drv.bool? c "ihc", ignoreHeaderCase := ← Drv.bool? c "ihd" }

def parseHeader (j : Json) : Except String (Bytes × Bytes) := do
  match j with
  | Json.arr #[Json.str n, Json.str v] => return (← Drv.unhex n, ← Drv.unhex v)
  | _ => throw "header"

def handle (j : Json) : Except String Json := do
  let u ← hexOf j "u"
  let u2 ← hexOf j "u2"
  let cfg ← parseCfg (← Drv.obj? j "cfg")
  let target ← hexOf j "target"
  let host ← optHex j "host"
  let headers ← match j.getObjVal? "headers" with
    | .ok (Json.arr a) => a.toList.mapM parseHeader
    | _ => pure []
  -- Implementation-only cases (same rule as harness/src/bin/c09.rs): the model lower-cases ASCII only — exact for paths
  -- and queries (theorem lowercased_text_ascii), not for hosts and header values, where Rust's Unicode to_lowercase sees
  -- the raw text — and it has no host matcher: a rule with a marker-free host is judged by the Rust-side oracles only.
  let rhostStatic : Bool := match j.getObjVal? "rhost" with
    | .ok (Json.str h) => !h.contains '@'
    | _ => false
  let nonAscii (b : Bytes) : Bool := b.any (· ≥ 128)
  let implOnly := rhostStatic || (cfg.ignoreHostCase && (host.map nonAscii).getD false) ||
    (cfg.ignoreHeaderCase && headers.any (fun h => nonAscii h.2))
  if implOnly then
    return Json.mkObj [("tags", Json.arr #["impl-only"])]
  let r1 := fromConfig cfg u
  let r2 := fromConfig cfg u2
  let rk := ruleKey cfg u
  let m11 := matchesKey rk r1.key
  let m12 := matchesKey rk r2.key
  -- `if !target.is_empty()`: no Location filter for an empty target; get_target still maps it
  let tgt := location target r2.skipped
  let loc : Json := if m12 then (if target.isEmpty then Json.null else jhex tgt) else Json.null
  let tgtJ : Json := if m12 then jhex tgt else Json.null
  let req : Req := { Req.fromConfig cfg u host with headers := headers }
  let rb := Req.rebuild cfg req
  let rbJ := Json.mkObj (pqsJson rb.pqs ++
    [("v2", jopt rb.pathAndQuery), ("host", jopt rb.host),
     ("headers", Json.arr (rb.headers.map fun h => Json.arr #[jhex h.1, jhex h.2]).toArray)])
  -- rebuild of the request for u2 restored WITHOUT path_and_query_v2 (the model starts from `original`), under the same
  -- configuration and under `cfg2` (absent = the same); the rule of u under cfg2 against the rebuilt request
  let cfg2 ← match j.getObjVal? "cfg2" with
    | .ok Json.null => pure cfg
    | .ok c2 => parseCfg c2
    | .error _ => pure cfg
  let reqA : Req := { Req.fromConfig cfg u2 host with headers := headers }
  let reqN : Req := { reqA with pathAndQuery := none }
  let reqJ (r : Req) : Json := Json.mkObj (pqsJson r.pqs ++
    [("v2", jopt r.pathAndQuery), ("host", jopt r.host),
     ("headers", Json.arr (r.headers.map fun h => Json.arr #[jhex h.1, jhex h.2]).toArray)])
  let rbnOther := Req.rebuild cfg2 reqN
  let mRb := matchesKey (ruleKey cfg2 u) rbnOther.pqs.key
  let locRb : Json := if mRb then (if target.isEmpty then Json.null else jhex (location target rbnOther.pqs.skipped)) else Json.null
  let rb2 := Json.mkObj
    [("same", reqJ (Req.rebuild cfg reqN)), ("other", reqJ rbnOther), ("other_v2", reqJ (Req.rebuild cfg2 reqA)),
     ("m", toJson mRb), ("loc", locRb)]
  let ext := Json.mkObj
    [("parse", Json.arr ((parseQuery u).map fun kv => Json.arr #[jhex kv.1, jhex kv.2]).toArray),
     ("pq", match pqParse u with
            | none => Json.null
            | some (p, q) => Json.arr #[jhex (pqPath p), jopt q]),
     ("bsq", jopt (buildSortedQuery u)),
     ("simple", jhex (pctEncode Rio.Consts.encSetRuleRsSimpleEncodeSet u))]
  let m := Json.mkObj
    [("r1", Json.mkObj (pqsJson r1)), ("r2", Json.mkObj (pqsJson r2)), ("rule", jhex rk),
     ("m11", toJson m11), ("m12", toJson m12), ("loc", loc), ("tgt", tgtJ),
     ("wf", toJson (WFurl cfg u)), ("rb", rbJ), ("rb2", rb2), ("ext", ext)]
  return Json.mkObj [("m", m)]

end C09Drv

def main : IO Unit := Drv.run C09Drv.handle
