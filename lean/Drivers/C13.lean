import Drivers.Common
import RioModel.Model.Header
open Lean Rio.Header

def parseFilter (j : Json) : Except String HeaderFilter := do
  return ⟨← Drv.str? j "action", ← Drv.str? j "header", ← Drv.str? j "value"⟩

def parseHeader (j : Json) : Except String Header := do
  return ⟨← Drv.str? j "name", ← Drv.str? j "value"⟩

def obs (hs : List Header) : Json :=
  Json.arr (hs.map fun h => Json.arr #[toJson h.name, toJson h.value]).toArray

/-- `str::to_lowercase` as a table supplied with the case (computed by Rust for every name that occurs in it);
a name missing from the table is a protocol error, never defaulted. -/
def lowerTable (j : Json) (names : List String) : Except String (String → String) := do
  match j.getObjVal? "lower" with
  | .error _ => return String.toLower        -- cases without a table (old corpus): ASCII names only
  | .ok t =>
    let pairs ← names.mapM fun n => do
      match t.getObjValAs? String n with
      | .ok v => pure (n, v)
      | .error _ => throw s!"lower table has no entry for {n}"
    return fun s => match pairs.lookup s with
      | some v => v
      | none => s.toLower   -- strings the model never applies `lower` to in this case

def handle (j : Json) : Except String Json := do
  let fs ← (← Drv.arr? j "filters").toList.mapM parseFilter
  let hs ← (← Drv.arr? j "headers").toList.mapM parseHeader
  let lower ← lowerTable j (fs.map (·.header) ++ hs.map (·.name))
  let m := filterHeaders lower fs hs
  let s := refFold lower fs hs
  return Json.mkObj [("m", obs m), ("s", obs s)]

def main : IO Unit := Drv.run handle
