import Drivers.Common
import RioModel.Model.Header
open Lean Rio.Header

def parseFilter (j : Json) : Except String HeaderFilter := do
  return ⟨← Drv.str? j "action", ← Drv.str? j "header", ← Drv.str? j "value"⟩

def parseHeader (j : Json) : Except String Header := do
  return ⟨← Drv.str? j "name", ← Drv.str? j "value"⟩

def obs (hs : List Header) : Json :=
  Json.arr (hs.map fun h => Json.arr #[toJson h.name, toJson h.value]).toArray

def handle (j : Json) : Except String Json := do
  let fs ← (← Drv.arr? j "filters").toList.mapM parseFilter
  let hs ← (← Drv.arr? j "headers").toList.mapM parseHeader
  let m := filterHeaders String.toLower fs hs
  let s := refFold String.toLower fs hs
  return Json.mkObj [("m", obs m), ("s", obs s)]

def main : IO Unit := Drv.run handle
