/-
C15 driver: model side.
case: {"doc": [node..], "filters": [html filter..]}   (node format: see harness/src/bin/c15.rs)
out:  {"m": hex of the model chain run on serialize(doc) as one chunk,
       "s": hex of serialize (editAll doc filters)  — the reference edit of Model/FilterDom.lean,
       "tags": ["thm-applies"] when the executable check `stepsOKB` of the hypotheses of theorem
               Rio.C15.filters_compose_checked answers true for this case, else ["thm-not-applicable", whyNot htmlTokenize evalStandIn (vtOf htmlTokenize) ndoc fs];
               plus "thm-universal-applies" when the proved-sound recogniser `stepsSimpleB` (Proofs/FilterDomRec.lean) accepts the
               case, i.e. the UNIVERSAL theorem Rio.C15.compose_universal_checked (no tokenizer hypothesis) covers it, else
               "thm-universal-na:<first reason>";
               plus "thm-universal2-applies" when the hypothesis of Rio.C15.compose_universal2_checked (Props/C15b.lean) holds:
               `stepsSimple2B` (grammar `Simple2`, Proofs/FilterDomUniv2.lean: a verbatim piece — the value an earlier filter
               inserted — may be the serialisation of a whole `Simple` forest) or `stepsSimpleB`, else
               "thm-universal2-na:<first reason>"; "doc-simple2" / "doc-not-simple2";
               plus "thm-universal3-applies" when the hypothesis of Rio.C15.compose_universal3_checked holds (`stepsSimple3B`:
               as `stepsSimple2B`, and a filter one of whose path names stands in no tag of the document it sees — the no-op
               domain `NoOp vtP`, Proofs/FilterDomNoop.lean — is accepted as well), else "thm-universal3-na:<first reason>";
               plus "thm-universal4-applies" when the hypothesis of Rio.C15.compose_universal4_checked holds: `stepsSimple4B`
               evaluated on the document AS GIVEN in the case (no `normDocU`: the theorem itself merges adjacent verbatim
               pieces before every filter, Proofs/FilterDomMerge.lean) or one of the recognisers above on the normalised
               document, else "thm-universal4-na:<first reason>"}
-/
import Drivers.Common
import RioModel.Model.FilterJson
import RioModel.Model.FilterDom
import RioModel.Proofs.FilterDom
import RioModel.Proofs.FilterDomRec
import RioModel.Proofs.FilterDomUniv2
import RioModel.Proofs.FilterDomUniv3
import RioModel.Proofs.FilterDomMerge
open Lean Rio.Filter

partial def node? (j : Json) : Except String Node := do
  let t ← J.str? j "t"
  if t = "text" || t = "comment" || t = "decl" then
    return .verb (utf8Bytes (← J.str? j "v")) []
  else if t = "el" then
    let k ← J.str? j "k"
    let kind ← match k with
      | "n" => pure ElKind.normal
      | "v" => pure ElKind.void
      | "s" => pure ElKind.selfClosing
      | "r" => pure ElKind.raw
      | _ => throw "el kind"
    let cs ← (← J.arr? j "c").toList.mapM node?
    return .el (utf8Bytes (← J.str? j "n")) (utf8Bytes (← J.str? j "d")) (utf8Bytes (← J.str? j "a")) kind cs
  else throw s!"node type {t}"

/-- adjacent verbatim pieces (two text nodes, text next to a comment, …) merged into one: the serialisation is the
same and the tokenizer sees the merged piece as a whole, which is how it sees it inside the document -/
partial def normDoc : List Node → List Node
  | [] => []
  | .verb a ma :: .verb b mb :: rest => normDoc (.verb (a ++ b) (ma ++ mb) :: rest)
  | .verb a ma :: rest => .verb a ma :: normDoc rest
  | .el nm d at_ k cs :: rest => .el nm d at_ k (normDoc cs) :: normDoc rest

/-- position just after the first occurrence of `pat` in `bs` (searching from offset `i`) -/
partial def findAfter (pat bs : Bytes) (i : Nat) : Option Nat :=
  if i + pat.length > bs.length then none
  else if (bs.drop i).take pat.length == pat then some (i + pat.length) else findAfter pat bs (i + 1)

/-- a verbatim piece that is a comment / declaration / processing instruction FOLLOWED by text (the generator emits
`<!doctype html>` + newline as one piece): cut after the construct -/
def splitDecl (raw : Bytes) : Bytes × Bytes :=
  let cut : Option Nat :=
    if raw.take 4 == [60, 33, 45, 45] then findAfter [45, 45, 62] raw 4
    else if raw.take 2 == [60, 33] || raw.take 2 == [60, 63] then findAfter [62] raw 2
    else none
  match cut with
  | some n => (raw.take n, raw.drop n)
  | none => (raw, [])

/-- for the universal theorem: adjacent TEXT pieces merged (the grammar forbids two adjacent texts; a text next to a comment
is fine), empty pieces dropped; the serialisation is the same -/
partial def normDocU : List Node → List Node
  | [] => []
  | .verb a ma :: rest =>
    if a.isEmpty then normDocU rest
    else if !(splitDecl a).2.isEmpty then normDocU (.verb (splitDecl a).1 ma :: .verb (splitDecl a).2 [] :: rest)
    else match rest with
      | .verb b mb :: rest' =>
        if b.isEmpty then normDocU (.verb a ma :: rest')
        else if !a.contains 60 && !b.contains 60 then normDocU (.verb (a ++ b) (ma ++ mb) :: rest')
        else .verb a ma :: normDocU rest
      | _ => .verb a ma :: normDocU rest
  | .el nm d at_ k cs :: rest => .el nm d at_ k (normDocU cs) :: normDocU rest

/-- why `stepsSimpleB` fails: the first step that does not pass, and which conjunct -/
def whyNotU (ev : Bytes → Bytes → Bool) : Nat → List Node → List BodyFilter → String
  | _, _, [] => "ok"
  | i, d, f :: fs =>
    let step := if i = 0 then "" else s!"step{i}-"
    if !simpleLB d then s!"{step}not-simple"
    else if !decide (utf8Split (serializeList d) = some (serializeList d, [])) then s!"{step}utf8"
    else if !inDomainB htmlTokenize vtU d f then s!"{step}domain"
    else if !(fs.isEmpty || !(serializeList (editD (decOf ev) d f)).isEmpty) then s!"{step}empty-intermediate"
    else whyNotU ev (i + 1) (editD (decOf ev) d f) fs

/-- why `stepsSimple2B` fails: the first step that does not pass, and which conjunct -/
def whyNotU2 (ev : Bytes → Bytes → Bool) : Nat → List Node → List BodyFilter → String
  | _, _, [] => "ok"
  | i, d, f :: fs =>
    let step := if i = 0 then "" else s!"step{i}-"
    if !simple2LB d then s!"{step}not-simple2"
    else if !decide (utf8Split (serializeList d) = some (serializeList d, [])) then s!"{step}utf8"
    else if !decide (NoHeld2 d) then s!"{step}held"
    else if !inDomainB htmlTokenize vtP d f then s!"{step}domain"
    else if !(fs.isEmpty || !(serializeList (editD (decOf ev) d f)).isEmpty) then s!"{step}empty-intermediate"
    else whyNotU2 ev (i + 1) (editD (decOf ev) d f) fs

/-- why `stepsSimple3B` fails: the first step that does not pass, and which conjunct -/
def whyNotU3 (ev : Bytes → Bytes → Bool) : Nat → List Node → List BodyFilter → String
  | _, _, [] => "ok"
  | i, d, f :: fs =>
    let step := if i = 0 then "" else s!"step{i}-"
    if !simple2LB d then s!"{step}not-simple2"
    else if !decide (utf8Split (serializeList d) = some (serializeList d, [])) then s!"{step}utf8"
    else if !decide (NoHeld2 d) then s!"{step}held"
    else if !(inDomainB htmlTokenize vtP d f || noOpB vtP d f) then s!"{step}domain"
    else if !(fs.isEmpty || !(serializeList (editD (decOf ev) d f)).isEmpty) then s!"{step}empty-intermediate"
    else whyNotU3 ev (i + 1) (editD (decOf ev) d f) fs

/-- why `stepsSimple4B` fails: the first step that does not pass, and which conjunct -/
def whyNotU4 (ev : Bytes → Bytes → Bool) : Nat → List Node → List BodyFilter → String
  | _, _, [] => "ok"
  | i, d, f :: fs =>
    let step := if i = 0 then "" else s!"step{i}-"
    let m := mergeL d
    if !simple2LB m then s!"{step}not-simple2"
    else if !decide (utf8Split (serializeList d) = some (serializeList d, [])) then s!"{step}utf8"
    else if !decide (NoHeld2 m) then s!"{step}held"
    else if !(inDomainB htmlTokenize vtP m f || noOpB vtP m f) then s!"{step}domain"
    else if !(fs.isEmpty || !(serializeList (editD (decOf ev) m f)).isEmpty) then s!"{step}empty-intermediate"
    else whyNotU4 ev (i + 1) (editD (decOf ev) m f) fs

/-- why `stepsOKB` fails: the first step that does not pass, and which conjunct -/
def whyNot (tk : Tokenize) (ev : Bytes → Bytes → Bool) (vt : Bytes → List Tok) : List Node → List BodyFilter → String
  | _, [] => "ok"
  | d, f :: fs =>
    if !inDomainB tk vt d f then "na:domain"
    else if !tokAgreeB tk vt d then
      (if decide (tk (serializeList d) = (tokensOfList vt d, [])) then "na:held-or-utf8" else "na:tokens-differ")
    else if !(fs.isEmpty || !(serializeList (editD (decOf ev) d f)).isEmpty) then "na:empty-intermediate"
    else whyNot tk ev vt (editD (decOf ev) d f) fs

def handle (j : Json) : Except String Json := do
  let doc ← (← J.arr? j "doc").toList.mapM node?
  let fs ← J.filters? j
  let input := serializeList doc
  -- optional response headers (the Content-Type gate of FilterBodyAction::new; no Content-Encoding in C15)
  let hs ← J.headers? j
  let gateOpen := htmlAllowed (headerValue J.lower Rio.Consts.filterHeaderContentType hs) &&
    (headerValue J.lower Rio.Consts.filterHeaderContentEncoding hs).isNone
  let chain : Chain Unit Unit := Chain.new noCodec J.lower fs hs
  let out := chain.run htmlTokenize evalStandIn noCodec [input]
  -- theorems content_type_gate_open / content_type_gate_closed: with the gate closed the body passes unchanged
  if !gateOpen then
    let tags : List String := if out == input then ["thm-gate-closed"] else ["thm-gate-closed", "THM-RHS-DIFFERS"]
    return Json.mkObj [("m", toJson (J.hex out)), ("s", toJson (J.hex input)), ("tags", toJson tags)]
  let spec := serializeList (editAll doc fs)
  -- does theorem Rio.C15.filters_compose_checked apply to this case?  (executable, proved-sound check of its
  -- hypotheses: domain of every filter on the document it sees, tokenizer(serialize d) = tokensOf d, ...)
  let ndoc := normDoc doc
  let applies := stepsOKB htmlTokenize evalStandIn (vtOf htmlTokenize) ndoc fs
  -- ... and then the theorem's right-hand side must be what the model computed
  let thmRhs := serializeList (editAllD (decOf evalStandIn) ndoc fs)
  let tags : List String :=
    if applies then (if thmRhs == out && serializeList ndoc == input then ["thm-applies"] else ["thm-applies", "THM-RHS-DIFFERS"]) else ["thm-not-applicable", whyNot htmlTokenize evalStandIn (vtOf htmlTokenize) ndoc fs]
  -- does the UNIVERSAL theorem Rio.C15.compose_universal_checked apply (recogniser of the `Simple` grammar, domain, UTF-8)?
  let udoc := normDocU doc
  let uapplies := stepsSimpleB evalStandIn udoc fs
  let uRhs := serializeList (editAllD (decOf evalStandIn) udoc fs)
  let utags : List String :=
    if uapplies then (if uRhs == out && serializeList udoc == input then ["thm-universal-applies"] else ["thm-universal-applies", "THM-RHS-DIFFERS"])
    else ["thm-universal-na:" ++ whyNotU evalStandIn 0 udoc fs]
  let docSimple : List String := if simpleLB udoc then ["doc-simple"] else ["doc-not-simple"]
  -- does the universal theorem on the wider grammar, Rio.C15.compose_universal2_checked, apply?  (same document, same right-hand side)
  let u2applies := uapplies || stepsSimple2B evalStandIn udoc fs
  let u2tags : List String :=
    if u2applies then (if uRhs == out && serializeList udoc == input then ["thm-universal2-applies"] else ["thm-universal2-applies", "THM-RHS-DIFFERS"])
    else ["thm-universal2-na:" ++ whyNotU2 evalStandIn 0 udoc fs]
  let docSimple2 : List String := if simple2LB udoc then ["doc-simple2"] else ["doc-not-simple2"]
  -- … and Rio.C15.compose_universal3_checked (no-op filters accepted)?
  let u3applies := u2applies || stepsSimple3B evalStandIn udoc fs
  let u3tags : List String :=
    if u3applies then (if uRhs == out && serializeList udoc == input then ["thm-universal3-applies"] else ["thm-universal3-applies", "THM-RHS-DIFFERS"])
    else ["thm-universal3-na:" ++ whyNotU3 evalStandIn 0 udoc fs]
  -- … and Rio.C15.compose_universal4_checked, on the document as given (the theorem merges adjacent verbatim pieces itself)?
  let u4own := stepsSimple4B evalStandIn doc fs
  let u4Rhs := serializeList (editAllD (decOf evalStandIn) doc fs)
  let u4tags : List String :=
    if u4own then (if u4Rhs == out then ["thm-universal4-applies"] else ["thm-universal4-applies", "THM-RHS-DIFFERS"])
    else if u3applies then (if uRhs == out && serializeList udoc == input then ["thm-universal4-applies"] else ["thm-universal4-applies", "THM-RHS-DIFFERS"])
    else ["thm-universal4-na:" ++ whyNotU4 evalStandIn 0 doc fs]
  return Json.mkObj [("m", toJson (J.hex out)), ("s", toJson (J.hex spec)), ("tags", toJson (tags ++ utags ++ docSimple ++ u2tags ++ docSimple2 ++ u3tags ++ u4tags))]

def main : IO Unit := Drv.run handle
