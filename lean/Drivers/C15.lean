/-
C15 driver: model side.
case: {"doc": [node..], "filters": [html filter..]}   (node format: see harness/src/bin/c15.rs)
out:  {"m": hex of the model chain run on serialize(doc) as one chunk,
       "s": hex of serialize (editAll doc filters)  — the reference edit of Model/FilterDom.lean}
-/
import Drivers.Common
import RioModel.Model.FilterJson
import RioModel.Model.FilterDom
open Lean Rio.Filter

partial def node? (j : Json) : Except String Node := do
  let t ← J.str? j "t"
  if t = "text" || t = "comment" || t = "decl" then
    return .verb (utf8Bytes (← J.str? j "v")) []
  else if t = "el" then
    let k ← J.str? j "k"
    let kind ← match k with
      | "n" => pure ElKind.normal
      | "v" => pure ElKind.void
      | "s" => pure ElKind.selfClosing
      | "r" => pure ElKind.raw
      | _ => throw "el kind"
    let cs ← (← J.arr? j "c").toList.mapM node?
    return .el (utf8Bytes (← J.str? j "n")) (utf8Bytes (← J.str? j "d")) (utf8Bytes (← J.str? j "a")) kind cs
  else throw s!"node type {t}"

def handle (j : Json) : Except String Json := do
  let doc ← (← J.arr? j "doc").toList.mapM node?
  let fs ← J.filters? j
  let input := serializeList doc
  let chain : Chain Unit Unit := Chain.new noCodec J.lower fs []
  let out := chain.run htmlTokenize evalStandIn noCodec [input]
  let spec := serializeList (editAll doc fs)
  return Json.mkObj [("m", toJson (J.hex out)), ("s", toJson (J.hex spec))]

def main : IO Unit := Drv.run handle
