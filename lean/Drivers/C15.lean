/-
C15 driver: model side.
case: {"doc": [node..], "filters": [html filter..]}   (node format: see harness/src/bin/c15.rs)
out:  {"m": hex of the model chain run on serialize(doc) as one chunk,
       "s": hex of serialize (editAll doc filters)  — the reference edit of Model/FilterDom.lean,
       "tags": ["thm-applies"] when the executable check `stepsOKB` of the hypotheses of theorem
               Rio.C15.filters_compose_checked answers true for this case, else ["thm-not-applicable", whyNot htmlTokenize evalStandIn (vtOf htmlTokenize) ndoc fs]}
-/
import Drivers.Common
import RioModel.Model.FilterJson
import RioModel.Model.FilterDom
import RioModel.Proofs.FilterDom
open Lean Rio.Filter

partial def node? (j : Json) : Except String Node := do
  let t ← J.str? j "t"
  if t = "text" || t = "comment" || t = "decl" then
    return .verb (utf8Bytes (← J.str? j "v")) []
  else if t = "el" then
    let k ← J.str? j "k"
    let kind ← match k with
      | "n" => pure ElKind.normal
      | "v" => pure ElKind.void
      | "s" => pure ElKind.selfClosing
      | "r" => pure ElKind.raw
      | _ => throw "el kind"
    let cs ← (← J.arr? j "c").toList.mapM node?
    return .el (utf8Bytes (← J.str? j "n")) (utf8Bytes (← J.str? j "d")) (utf8Bytes (← J.str? j "a")) kind cs
  else throw s!"node type {t}"

/-- adjacent verbatim pieces (two text nodes, text next to a comment, …) merged into one: the serialisation is the
same and the tokenizer sees the merged piece as a whole, which is how it sees it inside the document -/
partial def normDoc : List Node → List Node
  | [] => []
  | .verb a ma :: .verb b mb :: rest => normDoc (.verb (a ++ b) (ma ++ mb) :: rest)
  | .verb a ma :: rest => .verb a ma :: normDoc rest
  | .el nm d at_ k cs :: rest => .el nm d at_ k (normDoc cs) :: normDoc rest

/-- why `stepsOKB` fails: the first step that does not pass, and which conjunct -/
def whyNot (tk : Tokenize) (ev : Bytes → Bytes → Bool) (vt : Bytes → List Tok) : List Node → List BodyFilter → String
  | _, [] => "ok"
  | d, f :: fs =>
    if !inDomainB tk vt d f then "na:domain"
    else if !tokAgreeB tk vt d then
      (if decide (tk (serializeList d) = (tokensOfList vt d, [])) then "na:held-or-utf8" else "na:tokens-differ")
    else if !(fs.isEmpty || !(serializeList (editD (decOf ev) d f)).isEmpty) then "na:empty-intermediate"
    else whyNot tk ev vt (editD (decOf ev) d f) fs

def handle (j : Json) : Except String Json := do
  let doc ← (← J.arr? j "doc").toList.mapM node?
  let fs ← J.filters? j
  let input := serializeList doc
  let chain : Chain Unit Unit := Chain.new noCodec J.lower fs []
  let out := chain.run htmlTokenize evalStandIn noCodec [input]
  let spec := serializeList (editAll doc fs)
  -- does theorem Rio.C15.filters_compose_checked apply to this case?  (executable, proved-sound check of its
  -- hypotheses: domain of every filter on the document it sees, tokenizer(serialize d) = tokensOf d, ...)
  let ndoc := normDoc doc
  let applies := stepsOKB htmlTokenize evalStandIn (vtOf htmlTokenize) ndoc fs
  -- ... and then the theorem's right-hand side must be what the model computed
  let thmRhs := serializeList (editAllD (decOf evalStandIn) ndoc fs)
  let tags : List String :=
    if applies then (if thmRhs == out && serializeList ndoc == input then ["thm-applies"] else ["thm-applies", "THM-RHS-DIFFERS"]) else ["thm-not-applicable", whyNot htmlTokenize evalStandIn (vtOf htmlTokenize) ndoc fs]
  return Json.mkObj [("m", toJson (J.hex out)), ("s", toJson (J.hex spec)), ("tags", toJson tags)]

def main : IO Unit := Drv.run handle
