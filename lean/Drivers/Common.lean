/-
Shared plumbing of the model drivers: one JSON case per input line, one JSON observation per
output line.  `{"m": <model observation>, "s": <value of the executable specification>}`;
a case the driver cannot parse yields `{"bad": "<reason>"}` (never a default value).
-/
import Lean.Data.Json
open Lean

namespace Drv

def str? (j : Json) (k : String) : Except String String := j.getObjValAs? String k
def nat? (j : Json) (k : String) : Except String Nat := j.getObjValAs? Nat k
def bool? (j : Json) (k : String) : Except String Bool := j.getObjValAs? Bool k
def arr? (j : Json) (k : String) : Except String (Array Json) := j.getObjValAs? (Array Json) k
def obj? (j : Json) (k : String) : Except String Json := j.getObjVal? k

def optStr? (j : Json) (k : String) : Except String (Option String) :=
  match j.getObjVal? k with
  | .error _ => .ok none
  | .ok .null => .ok none
  | .ok v => (fromJson? v : Except String String).map some

def optNat? (j : Json) (k : String) : Except String (Option Nat) :=
  match j.getObjVal? k with
  | .error _ => .ok none
  | .ok .null => .ok none
  | .ok v => (fromJson? v : Except String Nat).map some

def optBool? (j : Json) (k : String) : Except String (Option Bool) :=
  match j.getObjVal? k with
  | .error _ => .ok none
  | .ok .null => .ok none
  | .ok v => (fromJson? v : Except String Bool).map some

def hexVal (c : Char) : Option Nat :=
  if '0' ≤ c ∧ c ≤ '9' then some (c.toNat - '0'.toNat)
  else if 'a' ≤ c ∧ c ≤ 'f' then some (c.toNat - 'a'.toNat + 10)
  else if 'A' ≤ c ∧ c ≤ 'F' then some (c.toNat - 'A'.toNat + 10)
  else none

/-- Bytes travel as lower-case hex strings. -/
def unhex (s : String) : Except String (List Nat) :=
  let rec go : List Char → List Nat → Except String (List Nat)
    | [], acc => .ok acc.reverse
    | [_], _ => .error "odd hex length"
    | a :: b :: rest, acc =>
      match hexVal a, hexVal b with
      | some x, some y => go rest ((x * 16 + y) :: acc)
      | _, _ => .error "bad hex digit"
  go s.toList []

def hexDigit (n : Nat) : Char :=
  if n < 10 then Char.ofNat (n + '0'.toNat) else Char.ofNat (n - 10 + 'a'.toNat)

def hex (bs : List Nat) : String :=
  String.ofList (bs.flatMap fun b => [hexDigit (b / 16), hexDigit (b % 16)])

/-- Read cases from stdin until EOF; `f` maps a parsed case to the output object. -/
partial def loop (h : IO.FS.Stream) (out : IO.FS.Stream) (f : Json → Except String Json) : IO Unit := do
  let line ← h.getLine
  if line.isEmpty then return ()
  if line.trimAscii.toString.isEmpty then
    loop h out f
  else
    let res : Json :=
      match Json.parse line with
      | .error e => Json.mkObj [("bad", toJson s!"json: {e}")]
      | .ok j =>
        match f j with
        | .ok o => o
        | .error e => Json.mkObj [("bad", toJson e)]
    out.putStrLn (Json.compress res)
    out.flush   -- one flush per case, so that a dying driver loses nothing but the case it died on
    loop h out f

def run (f : Json → Except String Json) : IO Unit := do
  let out ← IO.getStdout
  loop (← IO.getStdin) out f
  out.flush

end Drv
