/-
C10 driver.  case (see harness/src/bin/c10.rs):
  {"cfg":{"ipc","ihc","ihdc"}, "markers":[{"name","regex","tr":[{"type","opts"}]}], "vars":[{"name","kind","arg","def","tr"}],
   "path", "host", "hdrs":[{"name","value"}], "target", "hf":[..], "bf":[..], "hbf":[[value,inner|null]..],
   "req":{"path","host","scheme","method","hdrs":[[n,v]..]},
   "inst":[[name,value]..]?, "delim":bool?}
"m" = the model: `Rule.matches`, `Rule.capture` with the executable engine, `Rule.outcomes` (sequential replace with the
      variable list in the code's total order: longest first, equal lengths by name);
"s" = the specification: match ⇔ every instantiated value is accepted (only when the request is the instantiation of a
      delimiter-separated rule, `inst` + `delim`; otherwise no claim: the model's bit), and ONE outcome, the
      simultaneous longest-match substitution `subst` with the instantiation's values (the model's captures when there is
      no usable instantiation);
"sig" = class of a disagreement between m and s: `header-unanchored` (the one known finding), else an unlisted sig
        (`match-bit`, `capture`, `substitution`) = violation.
-/
import Drivers.Common
import RioModel.Model.MarkerSpec
import RioModel.Model.MarkerStd
open Lean Rio.Marker

def L (s : String) : Str := s.toList
def S (s : Str) : String := String.ofList s

def probe : Str := L "<probe>"

def optStrL (j : Json) (k : String) : Except String (Option Str) := do
  return (← Drv.optStr? j k).map L

def parseTransformers (j : Json) (k : String) : Except String (List Transformer) := do
  match j.getObjVal? k with
  | .error _ => return []
  | .ok .null => return []
  | .ok (.arr a) =>
    a.toList.mapM fun t => do
      let kind ← optStrL t "type"
      let opts ← match t.getObjVal? "opts" with
        | .error _ => pure none
        | .ok .null => pure none
        | .ok (.arr kvs) => do
          let ps ← kvs.toList.mapM fun kv => match kv with
            | .arr #[.str a, .str b] => pure (L a, L b)
            | _ => throw "transformer option"
          -- a JSON object keeps the last value of a repeated key
          pure (some ps.reverse)
        | .ok _ => throw "transformer opts"
      return ⟨kind, opts⟩
  | .ok _ => throw "transformers"

def parseMarker (j : Json) : Except String ApiMarker := do
  return ⟨L (← Drv.str? j "name"), L (← Drv.str? j "regex"), ← parseTransformers j "tr"⟩

def parseVar (j : Json) : Except String Variable := do
  let name := L (← Drv.str? j "name")
  let arg ← optStrL j "arg"
  let kind ← match (← Drv.str? j "kind") with
    | "marker" => match arg with
      | some a => pure (VarKind.marker a)
      | none => throw "marker var needs arg"
    | "header" => match arg with
      | some a => pure (VarKind.requestHeader a (← optStrL j "def"))
      | none => throw "header var needs arg"
    | "host" => pure .requestHost
    | "method" => pure .requestMethod
    | "path" => pure .requestPath
    | "scheme" => pure .requestScheme
    | "ip" => pure .requestRemoteAddress
    | "time" => pure .requestTime
    | _ => throw "var kind"
  return ⟨name, kind, ← parseTransformers j "tr"⟩

def optArr (j : Json) (k : String) : Except String (List Json) :=
  match j.getObjVal? k with
  | .error _ => .ok []
  | .ok .null => .ok []
  | .ok (.arr a) => .ok a.toList
  | .ok _ => .error s!"{k}: array expected"

def strList (j : Json) (k : String) : Except String (List Str) := do
  (← optArr j k).mapM fun x => match x with
    | .str s => pure (L s)
    | _ => throw s!"{k}: string expected"

def pairList (j : Json) (k : String) : Except String (List (Str × Str)) := do
  (← optArr j k).mapM fun x => match x with
    | .arr #[.str a, .str b] => pure (L a, L b)
    | _ => throw s!"{k}: pair expected"

def optB (j : Json) (k : String) : Bool :=
  match j.getObjVal? k with
  | .ok (.bool b) => b
  | _ => false

def jOutcome (o : Outcome) : Json :=
  Json.mkObj [("loc", toJson (o.location.map S)), ("hf", toJson (o.headers.map S)), ("bf", toJson (S o.body)),
    ("hb", Json.arr (o.html.map fun p => Json.arr #[toJson (S p.1), toJson (S p.2)]).toArray),
    ("target", match o.target with | some t => toJson (S t) | none => Json.null)]

/-- Sort key shared with the harness. -/
def outcomeKey (o : Outcome) : String :=
  let sep1 := String.singleton (Char.ofNat 1)
  let sep2 := String.singleton (Char.ofNat 2)
  let sep4 := String.singleton (Char.ofNat 4)
  sep2.intercalate (o.location.map S) ++ sep1 ++ sep2.intercalate (o.headers.map S) ++ sep1 ++ S o.body ++ sep1 ++
    sep2.intercalate (o.html.map fun p => S p.1 ++ sep4 ++ S p.2) ++ sep1 ++
    (match o.target with | some t => S t | none => String.singleton (Char.ofNat 3))

def sortOutcomes (os : List Outcome) : List Outcome :=
  (os.toArray.qsort fun a b => outcomeKey a < outcomeKey b).toList

/-- `{"kind":"sub","vars":[[n,v]..],"ts":[..]}`: sort + one-pass replace vs the simultaneous substitution (no exclusions:
`substitution` has no hypotheses; any difference is a violation). -/
def handleSub (j : Json) : Except String Json := do
  let vs ← pairList j "vars"
  if vs.isEmpty then throw "no variables"
  let ts ← strList j "ts"
  let sorted := sortVars vs
  let jv (l : List (Str × Str)) : Json := Json.arr (l.map fun p => Json.arr #[toJson (S p.1), toJson (S p.2)]).toArray
  let m := Json.mkObj [("vars", jv sorted), ("outs", toJson (ts.map fun t => S (replaceVars t sorted)))]
  let s := Json.mkObj [("vars", jv sorted), ("outs", toJson (ts.map fun t => S (subst vs t)))]
  let tags : List String :=
    (if !(ts.all fun t => replaceSeq t sorted == subst vs t) then ["old-sequential-code-differs"] else []) ++
    (if !(ts.all fun t => noJoin vs t) then ["hyp:join-violated"] else []) ++
    (if !valuesNoAt vs then ["hyp:value-at"] else []) ++
    (if !(ts.all fun t => noStrayAt vs t) then ["stray-at"] else [])
  return Json.mkObj [("m", m), ("s", s), ("sig", "substitution"), ("tags", toJson tags)]

/-- All decompositions of `s` along `ts` (`acc re v` = `v` is accepted by the expression, `ceq` = literal comparison). -/
def decompAll (acc : Str → Str → Bool) (ceq : Char → Char → Bool) : List Tok → Str → List (List (Str × Str))
  | [], s => if s.isEmpty then [[]] else []
  | .lit c :: ts, s =>
    match s with
    | d :: rest => if ceq c d then decompAll acc ceq ts rest else []
    | [] => []
  | .grp n re :: ts, s =>
    (List.range (s.length + 1)).flatMap fun k =>
      if acc re (s.take k) then (decompAll acc ceq ts (s.drop k)).map fun vs => (n, s.take k) :: vs else []

def firstValues (vs : List (Str × Str)) : List (Str × Str) :=
  vs.foldl (fun m p => if m.any (·.1 == p.1) then m else m ++ [p]) []

def sortPairs (l : List (Str × Str)) : List (Str × Str) :=
  (l.toArray.qsort fun a b => S a.1 < S b.1 || (a.1 == b.1 && S a.2 < S b.2)).toList

/-- `{"kind":"law","ic","ts":[["l",c]|["g",name,re]..],"s"}`: "m" = the stand-in engine on the rendered patterns, "s" = the
decomposition semantics of the engine laws (captures: the engine's own if they are the first-occurrence values of some
decomposition). -/
def handleLaw (j : Json) : Except String Json := do
  let ic := optB j "ic"
  let hay := L (← Drv.str? j "s")
  let ts ← (← Drv.arr? j "ts").toList.mapM fun t => match t with
    | .arr #[.str "l", .str c] => match c.toList with
      | [ch] => pure (Tok.lit ch)
      | _ => throw "lit token"
    | .arr #[.str "g", .str n, .str re] => pure (Tok.grp (L n) (L re))
    | _ => throw "token"
  let regex := renderRegex ts
  let capture := renderCapture ts
  let anch (p : Str) : Str := ['^'] ++ p ++ ['$']
  if !(Engine.compiles (anch regex) && Engine.compiles regex && Engine.compiles (anch capture)) then
    return Json.mkObj [("m", Json.mkObj [("regex", toJson (S regex)), ("capture", toJson (S capture)), ("compile", false)])]
  let full := Engine.isMatch ic (anch regex) hay
  let search := Engine.isMatch ic regex hay
  let caps := (Engine.captures ic (anch capture) hay).map sortPairs
  let jc (c : Option (List (Str × Str))) : Json := match c with
    | none => Json.null
    | some l => Json.arr (l.map fun p => Json.arr #[toJson (S p.1), toJson (S p.2)]).toArray
  let m := Json.mkObj [("regex", toJson (S regex)), ("capture", toJson (S capture)), ("full", full), ("search", search),
    ("caps", jc caps)]
  let acc : Str → Str → Bool := fun re v => Engine.isMatch ic (anch (groupRegex re)) v
  let ceq : Char → Char → Bool := fun a b => a == b || (ic && Engine.lowerAscii a == Engine.lowerAscii b)
  let all := decompAll acc ceq ts hay
  let anySub := (List.range (hay.length + 1)).any fun a => (List.range (hay.length - a + 1)).any fun k =>
    !(decompAll acc ceq ts ((hay.drop a).take k)).isEmpty
  let sCaps : Option (List (Str × Str)) :=
    match caps with
    | none => if all.isEmpty then none else some [(L "?", L "a decomposition exists but the engine captured nothing")]
    | some c => if all.any (fun vs => sortPairs (firstValues vs) == c) then some c
                else some [(L "?", L "not the first-occurrence values of a decomposition")]
  let s := Json.mkObj [("regex", toJson (S regex)), ("capture", toJson (S capture)), ("full", !all.isEmpty), ("search", anySub),
    ("caps", jc sCaps)]
  return Json.mkObj [("m", m), ("s", s), ("sig", "engine-law"),
    ("tags", toJson (if all.length > 1 then ["law:ambiguous"] else ([] : List String)))]

/-- `{"kind":"tr","chain":[..],"vals":[..]}`: the chain on raw strings; "s" = the composition of the recognised
transformers in list order (`transformers_in_order`). -/
def handleTr (j : Json) : Except String Json := do
  let chain ← parseTransformers j "chain"
  let vals ← strList j "vals"
  let m := toJson (vals.map fun v => S (applyTransformers asciiCase chain v))
  let s := toJson (vals.map fun v =>
    S ((chain.filterMap Transformer.toTransform).foldl (fun acc tr => tr.apply asciiCase acc) v))
  return Json.mkObj [("m", m), ("s", s)]

def handle (j : Json) : Except String Json := do
  if (j.getObjValAs? String "kind").toOption == some "sub" then return ← handleSub j
  if (j.getObjValAs? String "kind").toOption == some "tr" then return ← handleTr j
  -- non-ASCII cased text: outside the ASCII character model, judged on the implementation alone (harness oracle)
  if (j.getObjValAs? String "kind").toOption == some "uni" then return Json.mkObj [("tags", toJson ["impl-only", "uni:impl-only"])]
  if (j.getObjValAs? String "kind").toOption == some "law" then return ← handleLaw j
  let cfgJ := (j.getObjVal? "cfg").toOption.getD (Json.mkObj [])
  let cfg : Config := ⟨optB cfgJ "ipc", optB cfgJ "ihc", optB cfgJ "ihdc"⟩
  let markers ← (← Drv.arr? j "markers").toList.mapM parseMarker
  let vars ← (← optArr j "vars").mapM parseVar
  let hdrs ← (← optArr j "hdrs").mapM fun h => do
    return (L (← Drv.str? h "name"), L (← Drv.str? h "value"))
  let rule : Rule :=
    { path := L (← Drv.str? j "path"), host := ← optStrL j "host", headers := hdrs, markers := markers, variables := vars,
      target := ← optStrL j "target", headerFilters := ← strList j "hf", bodyFilters := ← strList j "bf",
      htmlFilters := ← (← optArr j "hbf").mapM fun f => match f with
        | .arr #[.str a, .str b] => pure (L a, some (L b))
        | .arr #[.str a, .null] => pure (L a, none)
        | .arr #[.str a] => pure (L a, none)
        | _ => throw "hbf" }
  let rq ← Drv.obj? j "req"
  let cf := asciiCase
  let q0 := Request.fromConfig cf cfg (L (← Drv.str? rq "path")) (← optStrL rq "host") (← optStrL rq "scheme")
    (← optStrL rq "method") (← pairList rq "hdrs")
  let time : Option TimeInfo ← match rq.getObjVal? "time" with
    | .error _ => pure none
    | .ok .null => pure none
    | .ok t => do
      let year ← t.getObjValAs? Int "year"
      pure (some ⟨year, ((← optStrL t "rfc2822").getD []), L (← Drv.str? t "rfc3339")⟩)
  let q := { q0 with remoteAddr := ← optStrL rq "ip", createdAt := time }
  let E := stdEngine
  -- model
  let matched := rule.matches E cf cfg q
  let captured := rule.capture E cf cfg q
  let outs := sortOutcomes (rule.outcomes cf probe captured q)
  let m := if matched then Json.mkObj [("match", true), ("outs", Json.arr (outs.map jOutcome).toArray)]
           else Json.mkObj [("match", false)]
  -- specification
  let inst ← pairList j "inst"
  let hasInst := (j.getObjVal? "inst").toOption.isSome && optB j "delim"
  let usable := hasInst && rule.simpleFor cf cfg inst && rule.requestIsInst cf cfg inst q
  let acc : Bool → Str → Str → Bool := fun ic re v => E.full ic (groupRegex re) v
  let sMatch := if usable then rule.instAccepted acc cf cfg inst else matched
  let sCaptured := if usable then rule.instCaptured cf cfg inst else captured
  let sOut := rule.outcomeSpec cf probe sCaptured q
  let s := if sMatch then Json.mkObj [("match", true), ("outs", Json.arr #[jOutcome sOut])]
           else Json.mkObj [("match", false)]
  -- classification of a disagreement
  let vsM := rule.variablesUnsorted cf captured q
  let templates := (match rule.target with | some t => [t] | none => []) ++ rule.headerFilters ++ rule.bodyFilters ++
    rule.htmlFilters.flatMap fun f => [f.1, f.2.getD f.1]
  let sameCaps := captured.all (fun p => sCaptured.lookup p.1 == some p.2) && sCaptured.all (fun p => captured.lookup p.1 == some p.2)
  -- a rejected value only in header triggers (the other layers accept their values)
  let rejectedOnlyInHeaders := usable && !sMatch &&
    (rule.layers.all fun l => match l.1 with
      | .header _ => true
      | _ => l.2.all fun
        | .lit _ => true
        | .grp n re => acc (layerIc cfg l.1) re (normValue cf cfg l.1 ((inst.lookup n).getD [])))
  let sig : Option String :=
    if matched != sMatch then
      (if matched && rejectedOnlyInHeaders then some "header-unanchored" else some "match-bit")
    else if !matched then none
    else if outs == [sOut] then none
    else if !sameCaps then some "capture"
    else some "substitution"
  let tags : List String :=
    (if usable then ["inst:usable"] else if hasInst then ["inst:unusable"] else ["inst:none"]) ++
    (if matched then [s!"captured:{captured.length}"] else []) ++
    (if matched && !(templates.all fun t => replaceSeq t (sortVars vsM) == subst vsM t) then ["old-sequential-code-differs"] else []) ++
    (if matched && !(templates.all fun t => noJoin vsM t) then ["hyp:join-violated"] else []) ++
    (if matched && !valuesNoAt vsM then ["hyp:value-at"] else []) ++
    (if matched && !(templates.all fun t => noStrayAt vsM t) then ["stray-at"] else []) ++
    (if usable && !sMatch then ["rejected"] else [])
  return Json.mkObj ([("m", m), ("s", s), ("tags", toJson tags)] ++
    (match sig with | some g => [("sig", toJson g)] | none => []))

def main : IO Unit := Drv.run handle
