/-
C03 driver: model side of the chunking correspondence.
case: {"body": hex, "filters": [..], "headers": [[n,v]..], "scheds": [[cuts]..]}
out:  {"m": {"one": hex of run [b], "sch": ["=" | hex of run (split b cuts) ..]}, "tags": [..]}
For every uncompressed chain the hypotheses of Rio.C03.chain_chunk_invariant_partial (`safeGB` on the schedule and on the
single chunk, no failing call) are evaluated on every schedule: tags "sem-safe" / "sem-unsafe" (coverage of the
theorem), and a schedule that is safe but differs from the single-chunk run would contradict the theorem — reported as
a driver error, never silently.
-/
import Drivers.Common
import RioModel.Model.FilterJson
import RioModel.Proofs.FilterPipe
import RioModel.Props.C03tok
open Lean Rio.Filter

def handle (j : Json) : Except String Json := do
  let body ← J.unhex (← J.str? j "body")
  let fs ← J.filters? j
  let hs ← J.headers? j
  let scheds ← J.scheds? j body.length
  let chain : Chain Unit Unit := Chain.new noCodec J.lower fs hs
  if chain.items.any fun st => st.kind == "decode" then throw "compressed chain"
  let run := fun (chunks : List Bytes) => chain.run htmlTokenize evalStandIn noCodec chunks
  let one := run [body]
  let outs := scheds.map fun cuts => run (splitAt body cuts)
  let sch := outs.map fun out => if out == one then toJson "=" else toJson (J.hex out)
  let mut tags : Array Json := #[]
  -- the hypotheses of Rio.C03.chain_chunk_invariant_partial, evaluated on the tokenizer model
  let plain := chain.items.all fun st => st.kind == "html" || st.kind == "text"
  if plain && !chain.items.isEmpty && body.length > 16384 then tags := tags.push (toJson "sem-skipped-large-body")
  if plain && !chain.items.isEmpty && body.length ≤ 16384 then
    let safe1 := safeGB htmlTokenize evalStandIn noCodec chain.items [body] none
    let ok1 := (runG htmlTokenize evalStandIn noCodec chain.items [body] none).isSome
    let flags := scheds.map fun cuts =>
      let cs := splitAt body cuts
      safe1 && ok1 && safeGB htmlTokenize evalStandIn noCodec chain.items cs none &&
        (runG htmlTokenize evalStandIn noCodec chain.items cs none).isSome
    -- the syntactic hypothesis of Rio.C03.chain_chunk_invariant_syntactic (W5's synSafeEnd at every cut)
    let syn1 := Rio.C03.synSafeGB evalStandIn noCodec chain.items [body] none
    let synFlags := scheds.map fun cuts => syn1 && Rio.C03.synSafeGB evalStandIn noCodec chain.items (splitAt body cuts) none
    if synFlags.any id then tags := tags.push (toJson "syn-safe")
    if synFlags.any (!·) then tags := tags.push (toJson "syn-unsafe")
    for (fs, f) in synFlags.zip flags do
      if fs && ok1 && !f then tags := tags.push (toJson "syn-safe-but-a-call-fails")
    if flags.any id then tags := tags.push (toJson "sem-safe")
    if flags.any (!·) then tags := tags.push (toJson "sem-unsafe")
    if chain.items.length > 1 && flags.any id then tags := tags.push (toJson "sem-safe-multistage")
    for (f, out) in flags.zip outs do
      if f && out != one then throw "a schedule satisfying SafeG differs from the single-chunk run (contradicts chain_chunk_invariant_partial)"
  return Json.mkObj [("m", Json.mkObj [("one", toJson (J.hex one)), ("sch", Json.arr sch.toArray)]), ("tags", Json.arr tags)]

def main : IO Unit := Drv.run handle
