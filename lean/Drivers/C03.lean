/-
C03 driver: model side of the chunking correspondence.
case: {"body": hex, "filters": [..], "headers": [[n,v]..], "scheds": [[cuts]..]}
out:  {"m": {"one": hex of run [b], "sch": ["=" | hex of run (split b cuts) ..]}, "tags": [..]}
Since fe7eac6 `Rio.C03.chunk_invariant_final` (Props/C03tok.lean) says: uncompressed chain, valid UTF-8 body, valid UTF-8
values ⇒ every schedule gives the single-chunk output.  The driver evaluates these hypotheses (tag "theorem-applies");
a schedule of such a case whose MODEL output differs from the single-chunk model output would contradict the theorem and
is reported as a driver error, never silently.
-/
import Drivers.Common
import RioModel.Model.FilterJson
open Lean Rio.Filter

def filterValueOf : BodyFilter → Bytes
  | .html _ _ _ v => v
  | .text _ v => v

def handle (j : Json) : Except String Json := do
  let body ← J.unhex (← J.str? j "body")
  let fs ← J.filters? j
  let hs ← J.headers? j
  let scheds ← J.scheds? j body.length
  let chain : Chain Unit Unit := Chain.new noCodec J.lower fs hs
  if chain.items.any fun st => st.kind == "decode" then throw "compressed chain"
  let run := fun (chunks : List Bytes) => chain.run htmlTokenize evalStandIn noCodec chunks
  let one := run [body]
  let outs := scheds.map fun cuts => run (splitAt body cuts)
  let sch := outs.map fun out => if out == one then toJson "=" else toJson (J.hex out)
  let mut tags : Array Json := #[]
  -- the hypotheses of Rio.C03.chunk_invariant_final
  let noEnc := (headerValue J.lower Rio.Consts.filterHeaderContentEncoding hs).isNone
  let validBody := utf8Scan body == .ok
  let validValues := fs.all fun f => utf8Scan (filterValueOf f) == .ok
  if noEnc && validBody && validValues then
    tags := tags.push (toJson "theorem-applies")
    if chain.items.any fun st => st.kind == "html" then tags := tags.push (toJson "theorem-applies-html")
    if chain.items.length > 1 then tags := tags.push (toJson "theorem-applies-multistage")
    if outs.any (· != one) then
      throw "valid body, valid values, uncompressed chain, but a schedule differs from the single-chunk run in the MODEL (contradicts Rio.C03.chunk_invariant_final)"
  else
    tags := tags.push (toJson "theorem-does-not-apply")
  return Json.mkObj [("m", Json.mkObj [("one", toJson (J.hex one)), ("sch", Json.arr sch.toArray)]), ("tags", Json.arr tags)]

def main : IO Unit := Drv.run handle
