/-
C03 driver: model side of the chunking correspondence.
case: {"body": hex, "filters": [..], "headers": [[n,v]..], "scheds": [[cuts]..]}
out:  {"m": {"one": hex of run [b], "sch": ["=" | hex of run (split b cuts) ..]}}
-/
import Drivers.Common
import RioModel.Model.FilterJson
open Lean Rio.Filter

def handle (j : Json) : Except String Json := do
  let body ← J.unhex (← J.str? j "body")
  let fs ← J.filters? j
  let hs ← J.headers? j
  let scheds ← J.scheds? j body.length
  let chain : Chain Unit Unit := Chain.new noCodec J.lower fs hs
  if chain.items.any fun st => st.kind == "decode" then throw "compressed chain"
  let run := fun (chunks : List Bytes) => chain.run htmlTokenize evalStandIn noCodec chunks
  let one := run [body]
  let sch := scheds.map fun cuts =>
    let out := run (splitAt body cuts)
    if out == one then toJson "=" else toJson (J.hex out)
  return Json.mkObj [("m", Json.mkObj [("one", toJson (J.hex one)), ("sch", Json.arr sch.toArray)])]

def main : IO Unit := Drv.run handle
