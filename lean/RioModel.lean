-- Library root.  The modules that matter are built per property (see props/*.json and setup.sh);
-- this file only imports what every driver shares.
import RioModel.Generated.Consts
