import RioModel.Model.Header
import RioModel.Props.C13
