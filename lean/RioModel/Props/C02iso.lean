/-
C02, second sentence — "Deriving an updated router from a shared existing one never changes the answers of the
existing one."

Property theorems only (model: Model/RouterShare.lean, helpers: Proofs/RouterShare.lean).

In the value model of Props/C02.lean a clone is the same value and the sentence has no content.  Here sharing EXISTS:
a world is one heap of `Arc<RwLock<LazyRegex>>` cells (the `Store` of Model/MarkerCache.lean) and any number of
routers; `clone` copies a router's buckets / trees / id map and SHARES the cells of its routes' marker strings;
`insert` allocates fresh cells; the second phase of `Router::cache` WRITES the cells of the router's routes — cells
other routers hold too.  The theorems say that no sequence of operations on OTHER routers (clones of clones, and
clones of the observed router, included) changes any observation of a router: match_request, get_route, trace,
get_trace, len, get_route_by_id, the ids, and `Route::capture` of every route it holds.  The only shared writes are
invisible by `Rio.C12.capture_cache_indep_ops` (used in Proofs/RouterShare `frame_compileRoutes`); everything else
is unshared BY THE MODEL OF CLONE (`SRouter.clone`), which is justified field by field against the Rust `Clone` impls
in notes/wp/W12.md and tied to the ownership extractor's constants by `no_other_shared_mutable_state` below.
`isolation_needs_unshared_matcher*`: in a variant where clone shares the matcher cell the statement is FALSE.
-/
import RioModel.Proofs.RouterShare
import RioModel.Generated.Consts
set_option linter.unusedSimpArgs false

namespace Rio.C02
open Rio.Router Rio.RouterShare
open Rio.Marker (Str)
open Rio.MarkerCache (RegexLib LazyRegex Store MString StoreOK)

variable {R : Type} (lib : RegexLib R) {O : MOps}

/-- **clone_isolation.**  In every well-formed world (heap cells consistent, no dangling handle), for EVERY sequence
of steps none of which is an operation on router `j` — operations insert / remove / batch_remove /
apply_change_set / cache / matcher-cache on any other router, `clone` of any router incl. `j` itself, clones of
clones — EVERY observation of router `j` is what it was.  (Symmetric by construction: `j` is any router, the
original or a clone.) -/
theorem clone_isolation (w : World R O) (hw : w.WF lib) (nameEq : Str → Str → Bool) (steps : List Step) (j : Nat)
    (hj : j < w.routers.length) (hs : ∀ s ∈ steps, s.Spares j) :
    (w.run lib steps).obs lib nameEq j = w.obs lib nameEq j :=
  (run_obs lib w hw nameEq steps j hj hs).1

/-- … and the world stays well formed, existing routers keep their index (so the theorem applies again). -/
theorem clone_isolation_wf (w : World R O) (hw : w.WF lib) (steps : List Step) :
    (w.run lib steps).WF lib ∧ w.routers.length ≤ (w.run lib steps).routers.length :=
  (run_frame lib w hw steps).2

/-- **Interleaved form**: along ANY run — operations on router `j` itself included, in any interleaving with
operations on its clones — the observations of router `j` change only at router `j`'s own steps: every step that
spares `j`, wherever it occurs in the run, leaves them exactly as they were just before it. -/
theorem clone_isolation_interleaved (w : World R O) (hw : w.WF lib) (nameEq : Str → Str → Bool) (pre : List Step)
    (s : Step) (j : Nat) (hj : j < w.routers.length) (hs : s.Spares j) :
    (w.run lib (pre ++ [s])).obs lib nameEq j = (w.run lib pre).obs lib nameEq j :=
  run_step_obs lib w hw nameEq pre s j hj hs

/-- The same spelled out: router `j` is literally the same value afterwards — same buckets, same trees, same id map,
same handles, hence the same `match_request` / `get_route` / `trace` / `get_trace` / `len` / `get_route_by_id` as
functions — and every route it holds captures from every request what it captured before, although the cells
behind its handles may have been overwritten. -/
theorem clone_isolation_spelled (w : World R O) (hw : w.WF lib) (nameEq : Str → Str → Bool) (steps : List Step)
    (j : Nat) (S : SRouter O) (hS : w.routers[j]? = some S) (hs : ∀ s ∈ steps, s.Spares j) :
    (w.run lib steps).routers[j]? = some S ∧
    ∀ id rt, alookup id S.marks = some rt →
      captureRoute lib (w.run lib steps).store nameEq rt = captureRoute lib w.store nameEq rt := by
  have hj : j < w.routers.length := (List.getElem?_eq_some_iff.mp hS).1
  have h1 := run_spares lib w hw steps j hj hs
  refine ⟨h1.trans hS, ?_⟩
  intro id rt hrt
  have h2 := clone_isolation lib w hw nameEq steps j hj hs
  unfold World.obs at h2
  rw [h1, hS] at h2
  simp only [Option.map_some, Option.some.injEq] at h2
  have h3 := congrFun (congrArg Obs.capture h2) id
  simp only [SRouter.obs, hrt, Option.map_some, Option.some.injEq] at h3
  exact h3

/-- **Non-interference of everything but the cells, for ANY interleaving** (operations on every router, router `i`
included): the buckets / trees / id map of router `i` after the run are what router `i`'s OWN operations make of
them (`opsOf i steps`), whatever the other routers did in between.  No hypothesis. -/
theorem core_noninterference (w : World R O) (steps : List Step) (i : Nat) (S : SRouter O)
    (hS : w.routers[i]? = some S) :
    ∃ S', (w.run lib steps).routers[i]? = some S' ∧
      S'.core = (opsOf i steps).foldl (fun C op => op.runCore C) S.core :=
  Rio.RouterShare.core_noninterference lib w steps i S hS

/-- The model with sharing refines the value model of Props/C02.lean: on `core`, every operation IS the operation of
Model/RouterOps.lean (`Op.runG`), so `run_equiv`, `remove_returns_run`, … hold of every router of every world. -/
theorem shared_refines_value_model (st : Store R) (S : SRouter O) (op : RouterShare.Op) (p : Rio.Router.Op)
    (h : op.plain = some p) : (op.run lib st S).2.core = p.runG O S.core :=
  core_op lib st S op p h

/-- `RuleChangeSet::update_existing_router(existing_router)`: the existing router `i` answers as before, and the
derived router (the last one of the new world) is `apply_change_set` run on a copy of `i`'s buckets / trees / id map
(to which `run_equiv` of Props/C02.lean applies through `shared_refines_value_model`). -/
theorem update_existing_router_isolated (w : World R O) (hw : w.WF lib) (nameEq : Str → Str → Bool) (i : Nat)
    (S : SRouter O) (hS : w.routers[i]? = some S) (added updated : List (Route × RouteTpl)) (removed : List String) :
    (w.updateExisting lib i added updated removed).obs lib nameEq i = w.obs lib nameEq i ∧
    ∃ S', (w.updateExisting lib i added updated removed).routers[w.routers.length]? = some S' ∧
      S'.core = RouterG.applyChangeSet O (added.map (·.1)) (updated.map (·.1)) removed S.core := by
  have hi : i < w.routers.length := (List.getElem?_eq_some_iff.mp hS).1
  refine ⟨clone_isolation lib w hw nameEq _ i hi ?_, ?_⟩
  · intro s hs
    simp only [List.mem_cons, List.mem_nil_iff, or_false] at hs
    rcases hs with rfl | rfl
    · trivial
    · exact fun h => Nat.lt_irrefl _ (h ▸ hi)
  · have h1 : (w.step lib (.clone i)).routers[w.routers.length]? = some S.clone := by
      simp only [World.step, hS]
      simp
    obtain ⟨S', h2, h3⟩ := Rio.RouterShare.core_noninterference lib (w.step lib (.clone i))
      [.op w.routers.length (.changeSet added updated removed)] w.routers.length S.clone h1
    refine ⟨S', h2, ?_⟩
    rw [h3]
    simp [opsOf, RouterShare.Op.runCore, SRouter.clone]

/-- The two-router reading of the property, both directions: start from one router, clone it, then operate on the
clone only (the original's observations stay) or on the original only (the clone's observations stay). -/
theorem clone_then_ops_two (st : Store R) (A : SRouter O) (hst : StoreOK lib st) (hA : A.HandlesOK st.length)
    (nameEq : Str → Str → Bool) (ops : List RouterShare.Op) :
    let w : World R O := World.step lib ⟨st, [A]⟩ (.clone 0)
    w.routers = [A, A.clone] ∧
    (w.run lib (ops.map (Step.op 1))).obs lib nameEq 0 = w.obs lib nameEq 0 ∧
    (w.run lib (ops.map (Step.op 0))).obs lib nameEq 1 = w.obs lib nameEq 1 := by
  have hw0 : World.WF lib (⟨st, [A]⟩ : World R O) := ⟨hst, by intro S hS; simp at hS; rw [hS]; exact hA⟩
  have hw := (step_frame lib _ hw0 (.clone 0)).2.1
  have hr : (World.step lib (⟨st, [A]⟩ : World R O) (.clone 0)).routers = [A, A.clone] := by simp [World.step]
  refine ⟨hr, clone_isolation lib _ hw nameEq _ 0 (by rw [hr]; simp) ?_,
    clone_isolation lib _ hw nameEq _ 1 (by rw [hr]; simp) ?_⟩
  · intro s hs
    obtain ⟨op, _, rfl⟩ := List.mem_map.mp hs
    exact Nat.succ_ne_zero 0
  · intro s hs
    obtain ⟨op, _, rfl⟩ := List.mem_map.mp hs
    exact (Nat.succ_ne_zero 0).symm

/-- `marks` (the id map seen through marker handles — what `Router::cache` iterates and `Route::capture` reads) and
`core.routes` (the same map seen through route values) keep the same keys under every operation. -/
theorem marks_in_sync (st : Store R) (S : SRouter O) (op : RouterShare.Op) (h : S.Sync) : (op.run lib st S).2.Sync :=
  sync_op lib st S op h

/-! ### Tie to the ownership extractor (tools/consts.d/w2_ownership.py → `Rio.Consts`)

`SRouter.clone` shares exactly ONE kind of mutable state (the capture cells).  The extractor lists every line of
src/router, src/regex_radix_tree, src/regex.rs, src/marker, src/api/rule.rs that mentions interior mutability or a
way to write through a shared pointer.  Every such line is accounted for by the model:
* `sharedCellLines` — the cell `MarkerString.regex_capture` (declaration, construction = `allocM`, the one write =
  `MString.compile`, reached from `SRouter.cache`): MODELLED as the heap;
* `localCellLines` — the `RefCell` of `HostMatcher::remove`, a local of one call, never stored (value model:
  `HostT.remove`, `lastHit`);
* `importLines` — `use` lines.
A new lock / cell / atomic / `unsafe` / `Arc::get_mut` in those files changes the regenerated constant and this
theorem stops checking. -/

def sharedCellLines : List String :=
  ["src/marker/mod.rs: match self.regex_capture.write() {",
   "src/marker/mod.rs: regex_capture: Arc::new(RwLock::new(LazyRegex::new_leaf(capture.as_str(), ignore_case))),",
   "src/marker/mod.rs: regex_capture: Arc<RwLock<LazyRegex>>,"]

def localCellLines : List String :=
  ["src/router/request_matcher/host.rs: *removed_in_tree.borrow_mut() = Some(value);",
   "src/router/request_matcher/host.rs: let removed_in_tree = std::cell::RefCell::new(None);"]

def importLines : List String := ["src/marker/mod.rs: use std::sync::{Arc, RwLock};"]

theorem no_other_shared_mutable_state :
    (Rio.Consts.routerInteriorMutability.all
      (fun l => decide (l ∈ sharedCellLines ++ localCellLines ++ importLines))) = true ∧
    (sharedCellLines.all (fun l => decide (l ∈ Rio.Consts.routerInteriorMutability))) = true ∧
    Rio.Consts.routerManualClones = ["Item", "Leaf", "Node", "RegexTreeMap", "UniqueRegexTreeMap"] := by
  decide

/-! ### Necessity: the theorem is about sharing

Variant (NOT the code, Model/RouterShare `AWorld`): the matcher tower sits in a heap cell and clone copies the
handle.  Then isolation is false for every matcher in which inserting some route changes some answer. -/

theorem isolation_needs_unshared_matcher (O : MOps) (r : Route) (q : Req)
    (h : O.matchReq (O.insert r O.empty) q ≠ O.matchReq O.empty q) : ¬ AWorld.Isolated O := by
  intro hiso
  have := hiso ⟨[O.empty], [(0, [])]⟩ [.clone 0, .insert 1 r] 0 q (by simp)
    (by
      intro s hs
      simp only [List.mem_cons, List.mem_nil_iff, or_false] at hs
      rcases hs with rfl | rfl
      · trivial
      · exact Nat.succ_ne_zero 0)
  simp [AWorld.run, AWorld.step, AWorld.matchReq] at this
  exact h this

def isoEnv : Env where
  alwaysAnyHost := true
  hostFind := fun _ _ => true
  pathFind := fun _ _ => true
  headerRegex := fun _ _ => true
  lower := id

def isoR : Route :=
  { id := "r", priority := 0, scheme := none, host := none, ips := none, methods := none, excludeMethods := none,
    headers := [], datetime := none, time := none, weekdays := none, path := .static "/a" }

def isoQ : Req :=
  { scheme := some "https", host := some "a.com", method := none, headers := [], ip := none, createdAt := none,
    path := "/a" }

/-- … in particular for the seven-layer tower of the code: a clone that shared the matcher cell (buckets, regex
trees) would make an insert into the clone answer through the original. -/
theorem isolation_needs_unshared_matcher_tower : ¬ AWorld.Isolated (towerOps isoEnv) :=
  isolation_needs_unshared_matcher (towerOps isoEnv) isoR isoQ (by decide)

/-! ### Non-vacuity: a world in which a write through a shared cell really happens

`tinyOps`: a one-bucket matcher whose `cache` hands its whole budget back (as the tower does when there is nothing
to compile), so that the second phase of `Router::cache` runs.  Router 0 inserts a marker route (cell 0 allocated),
is cloned, the CLONE runs `cache(Some(1))`: cell 0 — which router 0 holds — is overwritten with a compiled regex. -/

def tinyOps : MOps where
  M := List Route
  empty := []
  insert := fun r m => r :: m
  remove := fun id m => (m.filter (fun r => r.id != id), m.find? (fun r => r.id == id))
  batchRemove := fun ids m => m.filter (fun r => !ids.contains r.id)
  matchReq := fun m _ => m
  trace := fun _ _ => []
  len := fun m => m.length
  cache := fun limit _ m => (m, limit)

def tinyLib : RegexLib Str :=
  ⟨fun _ p => if p.contains '(' then none else some p, fun c s => if c = s then some [(['m'], s)] else none⟩

def tinyTpl : RouteTpl := ⟨none, .dynamic ⟨['a'], ['a'], false⟩, []⟩

def tinySteps : List Step := [.op 0 (.insert isoR tinyTpl), .clone 0, .op 1 (.cache (some 1))]

def tinyWorld : World Str tinyOps := ⟨[], [⟨RouterG.empty tinyOps, []⟩]⟩

theorem tinyWorld_wf : tinyWorld.WF tinyLib :=
  ⟨by intro r hr; simp [tinyWorld] at hr, by intro S hS e he; simp [tinyWorld] at hS; subst hS; simp at he⟩

/-- the hypotheses of `clone_isolation` hold of `tinyWorld` / router 0 / the first two steps followed by the clone's
`cache`, the clone's `cache` DOES overwrite the cell router 0 holds (`compiled` goes from `none` to `some`), and
router 0 holds that very handle. -/
theorem shared_write_happens :
    tinyWorld.WF tinyLib ∧
    let w1 := tinyWorld.run tinyLib (tinySteps.take 2)
    let w2 := w1.run tinyLib (tinySteps.drop 2)
    (∀ s ∈ tinySteps.drop 2, s.Spares 0) ∧
    (w1.routers[0]?.map fun S => S.marks.map fun e => e.2.pathAndQuery) =
      some [.dynamic ⟨['a'], ['a'], false, 0⟩] ∧
    (w1.store.map fun c => c.compiled) = [none] ∧
    (w2.store.map fun c => c.compiled) = [some ['^', 'a', '$']] := by
  refine ⟨tinyWorld_wf, ?_, by decide, by decide, by decide⟩
  intro s hs
  simp only [tinySteps, List.drop_succ_cons, List.drop_zero, List.mem_cons, List.mem_nil_iff, or_false] at hs
  subst hs
  exact Nat.succ_ne_zero 0

end Rio.C02
