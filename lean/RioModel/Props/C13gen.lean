/-
C13 for the header actions REGENERATED FROM THE SOURCE.

`Rio.Consts.genHeaderAdd / Remove / Replace / Override / Default` are translated on every run from the
`filter` bodies of src/filter/header_action/header_*.rs (tools/consts.d/w4_translate.py; a `Header` is
the pair `(name, value)` there).  Proofs/HeaderGen.lean shows that each equals the hand-written model;
here the property theorems of Props/C13.lean are restated for the generated definitions, so a source
change that alters the behaviour of a header action breaks a proof (not only the correspondence).
`lower` is `str::to_lowercase` (any function).
-/
import RioModel.Props.C13
import RioModel.Proofs.HeaderGen
set_option linter.unusedSimpArgs false
set_option linter.unusedVariables false

namespace Rio.C13
open Rio.Header Rio.Consts
variable (lower : String → String)

/-- the name test of the code on a pair -/
def sameNameP (n : String) (p : String × String) : Bool := lower p.1 == lower n

theorem sameNameP_toPair (n : String) (h : Header) : sameNameP lower n (toPair h) = sameName lower n h := rfl

/-! ### generated = hand-written model (re-exported) -/

theorem gen_add_eq_model (n v : String) (hs : List Header) :
    genHeaderAdd lower n v (hs.map toPair) = (addAction n v hs).map toPair := genHeaderAdd_eq lower n v hs
theorem gen_remove_eq_model (n v : String) (hs : List Header) :
    genHeaderRemove lower n v (hs.map toPair) = (removeAction lower n hs).map toPair :=
  genHeaderRemove_eq lower n v hs
theorem gen_replace_eq_model (n v : String) (hs : List Header) :
    genHeaderReplace lower n v (hs.map toPair) = (replaceAction lower n v hs).map toPair :=
  genHeaderReplace_eq lower n v hs
theorem gen_override_eq_model (n v : String) (hs : List Header) :
    genHeaderOverride lower n v (hs.map toPair) = (overrideAction lower n v hs).map toPair :=
  genHeaderOverride_eq lower n v hs
theorem gen_default_eq_model (n v : String) (hs : List Header) :
    genHeaderDefault lower n v (hs.map toPair) = (defaultAction lower n v hs).map toPair :=
  genHeaderDefault_eq lower n v hs

/-! ### the five closed forms, for the generated code, directly on (name, value) pairs -/

/-- transport a statement about headers to pairs -/
private theorem via_headers {f : List (String × String) → List (String × String)}
    {g : List Header → List Header} (h : ∀ hs, f (hs.map toPair) = (g hs).map toPair)
    (ps : List (String × String)) : f ps = (g (ps.map ofPair)).map toPair := by
  have := h (ps.map ofPair)
  rwa [map_toPair_ofPair] at this

private theorem toPair_mk (x : String × String) : toPair ⟨x.1, x.2⟩ = x := rfl
private theorem comp_id' : toPair ∘ ofPair = id := funext fun _ => rfl
private theorem anyP (n : String) (ps : List (String × String)) :
    (ps.map ofPair).any (sameName lower n) = ps.any (sameNameP lower n) := by
  rw [List.any_map]; rfl
private theorem ifP (n v : String) (p : String × String) :
    toPair (if sameName lower n (ofPair p) then ⟨n, v⟩ else ofPair p) =
      if sameNameP lower n p then (n, v) else p := by
  have : sameName lower n (ofPair p) = sameNameP lower n p := rfl
  rw [this]
  cases sameNameP lower n p <;> rfl

/-- add appends. -/
theorem gen_add_closed (n v : String) (ps : List (String × String)) :
    genHeaderAdd lower n v ps = ps ++ [(n, v)] := by
  rw [via_headers (gen_add_eq_model lower n v) ps, add_closed]
  simp [List.map_map, comp_id', toPair]

/-- remove deletes all occurrences (and nothing else, order kept). -/
theorem gen_remove_closed (n v : String) (ps : List (String × String)) :
    genHeaderRemove lower n v ps = ps.filter (fun p => !sameNameP lower n p) := by
  rw [via_headers (gen_remove_eq_model lower n v) ps, remove_closed, List.filter_map, List.map_map,
    comp_id', List.map_id]
  rfl

/-- replace rewrites existing occurrences only. -/
theorem gen_replace_closed (n v : String) (ps : List (String × String)) :
    genHeaderReplace lower n v ps = ps.map (fun p => if sameNameP lower n p then (n, v) else p) := by
  rw [via_headers (gen_replace_eq_model lower n v) ps, replace_closed]
  simp only [List.map_map]
  apply List.map_congr_left
  intro p _
  exact ifP lower n v p

/-- override rewrites existing occurrences or appends one. -/
theorem gen_override_closed (n v : String) (ps : List (String × String)) :
    genHeaderOverride lower n v ps =
      if ps.any (sameNameP lower n) then ps.map (fun p => if sameNameP lower n p then (n, v) else p)
      else ps ++ [(n, v)] := by
  rw [via_headers (gen_override_eq_model lower n v) ps, override_closed, anyP]
  split
  · simp only [List.map_map]
    apply List.map_congr_left
    intro p _
    exact ifP lower n v p
  · simp [List.map_map, comp_id', toPair]

/-- default appends only if absent. -/
theorem gen_default_closed (n v : String) (ps : List (String × String)) :
    genHeaderDefault lower n v ps = if ps.any (sameNameP lower n) then ps else ps ++ [(n, v)] := by
  rw [via_headers (gen_default_eq_model lower n v) ps, default_closed, anyP]
  split <;> simp [List.map_map, comp_id', toPair]

/-! ### the pipeline built from the generated actions -/

/-- `HeaderAction::filter` dispatched to the translated bodies -/
def genRun (a : Act) (ps : List (String × String)) : List (String × String) :=
  match a with
  | .add n v => genHeaderAdd lower n v ps
  | .remove n => genHeaderRemove lower n "" ps
  | .replace n v => genHeaderReplace lower n v ps
  | .override n v => genHeaderOverride lower n v ps
  | .default n v => genHeaderDefault lower n v ps

/-- `FilterHeaderAction::new` + `filter` with the translated actions (the dispatch on the action name
uses the names regenerated from `create_header_action`) -/
def genFilterHeaders (fs : List HeaderFilter) (ps : List (String × String)) : List (String × String) :=
  if fs.isEmpty then ps
  else
    let actions := fs.filterMap createHeaderAction
    if actions.isEmpty then ps
    else actions.foldl (fun ps a => genRun lower a ps) ps

theorem genRun_eq_model (a : Act) (hs : List Header) :
    genRun lower a (hs.map toPair) = (a.run lower hs).map toPair := by
  cases a with
  | add n v => exact gen_add_eq_model lower n v hs
  | remove n => exact gen_remove_eq_model lower n "" hs
  | replace n v => exact gen_replace_eq_model lower n v hs
  | override n v => exact gen_override_eq_model lower n v hs
  | default n v => exact gen_default_eq_model lower n v hs

theorem gen_fold_eq_model (as : List Act) (hs : List Header) :
    as.foldl (fun ps a => genRun lower a ps) (hs.map toPair) =
      (as.foldl (fun hs a => a.run lower hs) hs).map toPair := by
  induction as generalizing hs with
  | nil => rfl
  | cons a t ih => simp only [List.foldl_cons, genRun_eq_model, ih]

theorem gen_filterHeaders_eq_model (fs : List HeaderFilter) (hs : List Header) :
    genFilterHeaders lower fs (hs.map toPair) = (filterHeaders lower fs hs).map toPair := by
  unfold genFilterHeaders filterHeaders
  split
  · rfl
  · simp only
    split
    · rfl
    · exact gen_fold_eq_model lower _ hs

/-- **C13 headline for the regenerated code**: for every header list and every filter sequence, the
pipeline of the translated actions is the left fold, in order, of the five reference operations;
unknown operations contribute the identity. -/
theorem gen_fold_spec (fs : List HeaderFilter) (hs : List Header) :
    genFilterHeaders lower fs (hs.map toPair) = (refFold lower fs hs).map toPair := by
  rw [gen_filterHeaders_eq_model, fold_spec]

/-- … and all other headers keep their value and relative order. -/
theorem gen_others_untouched_fold (fs : List HeaderFilter) (hs : List Header) (p : Header → Bool)
    (hp : ∀ f ∈ fs, ∀ h, p h = true → sameName lower f.header h = false)
    (hp2 : ∀ f ∈ fs, p ⟨f.header, f.value⟩ = false) :
    ((genFilterHeaders lower fs (hs.map toPair)).map ofPair).filter p = hs.filter p := by
  rw [gen_fold_spec, map_ofPair_toPair, others_untouched_fold lower fs hs p hp hp2]

/-! ### Non-vacuity: the generated pipeline on a concrete run with all five operations -/

example :
    genFilterHeaders id
      [⟨"add", "X-A", "1"⟩, ⟨"remove", "X-B", ""⟩, ⟨"replace", "X-C", "r"⟩, ⟨"frobnicate", "X-A", "z"⟩,
       ⟨"override", "X-D", "o"⟩, ⟨"default", "X-A", "d"⟩]
      [("X-B", "b1"), ("X-C", "c1"), ("Keep", "k"), ("X-B", "b2")]
    = [("X-C", "r"), ("Keep", "k"), ("X-A", "1"), ("X-D", "o")] := by
  simp [genFilterHeaders, createHeaderAction, Rio.Consts.headerActionAdd, Rio.Consts.headerActionRemove,
    Rio.Consts.headerActionReplace, Rio.Consts.headerActionOverride, Rio.Consts.headerActionDefault,
    genRun, gen_add_closed, gen_remove_closed, gen_replace_closed, gen_override_closed,
    gen_default_closed, sameNameP]

end Rio.C13
