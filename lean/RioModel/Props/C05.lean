/-
C05 — the computed action reflects exactly the matched rules, in priority order.

Property theorems only (helper lemmas: Proofs/Action.lean, Proofs/ActionObs.lean, Proofs/ActionSort.lean).

Vocabulary.  `R` = the matched rules (any order), `q` = the request-side inputs (sampling override,
skipped query parameters), `draw : Rule → Nat` = the random draw of the sampling test for each rule,
`fromRoutesRule R q draw` = the model of `Action::from_routes_rule`, `runOps` = a sequence of use-time
observer calls (`get_status_code`, `filter_headers`, `create_filter_body`, `should_log_request`,
`get_final_status_code_with_fallback`) on it, each followed by `get_applied_rule_ids`.
`sortRules R` lists the rules by (rank desc, id desc): LOWEST priority first — later rules override
earlier ones, so "highest priority" = last.  `C = Spec.contributing q draw (sortRules R)` = among the
rules kept by the sampling decision, the prefix through the first `stop` rule, and of that the suffix
from the last `reset` rule on.  `Spec.*` is the executable specification printed by the driver as `"s"`.
-/
import RioModel.Proofs.ActionObs
import RioModel.Proofs.ActionSort
import RioModel.Props.C13
set_option linter.unusedSimpArgs false

namespace Rio.C05
open Rio.Action Rio.Action.Spec

/-! ### The action is the closed form over the contributing rules -/

/-- Master statement: the fold of `from_routes_rule` yields exactly the specification's action
(status update with fallback, header filters, body filters, rule ids, traces, log override) over the
contributing rules. -/
theorem action_eq_spec (R : List Rule) (q : Req) (draw : Rule → Nat) :
    fromRoutesRule R q draw = Spec.action q (contributing q draw (sortRules R)) :=
  foldRoutes_eq_spec q draw (sortRules R)

/-- … and the sorted list can be ANY sorted permutation of the matched rules (distinct ids), e.g. the
one the specification computes with its own insertion sort: the driver's `"s"` is this right-hand side. -/
theorem action_eq_spec_of_sorted (R S : List Rule) (q : Req) (draw : Rule → Nat)
    (hp : S.Perm R) (hs : S.Pairwise (fun a b => ruleLe a b = true)) (hn : NodupIds R) :
    fromRoutesRule R q draw = Spec.action q (contributing q draw S) := by
  rw [action_eq_spec]
  have : sortRules R = S :=
    sorted_perm_unique (sortRules_sorted R) hs ((sortRules_perm R).trans hp.symm)
      (hn.perm (sortRules_perm R).symm)
  rw [this]

theorem spec_sort_agrees (R : List Rule) (hn : NodupIds R) : Spec.insertionSort R = sortRules R :=
  sorted_perm_unique (insertionSort_sorted R) (sortRules_sorted R)
    ((insertionSort_perm R).trans (sortRules_perm R).symm) (hn.perm (insertionSort_perm R).symm)

/-- `filters_eq`: header filters, body filters and rule traces of the action are those of the
contributing rules, in order (each rule: `Location` override for a non-empty target first, then its
own filters, each carrying the rule's response-status condition and id). -/
theorem filters_eq (R : List Rule) (q : Req) (draw : Rule → Nat) :
    let a := fromRoutesRule R q draw
    let C := contributing q draw (sortRules R)
    a.headerFilters = C.flatMap (ruleHeaderFilters q) ∧
    a.bodyFilters = C.flatMap ruleBodyFilters ∧
    a.ruleTraces = C.map ruleTrace ∧
    a.ruleIds = dedupLast (C.map (·.id)) ∧
    a.rulesApplied = [] := by
  intro a C
  have : a = Spec.action q C := action_eq_spec R q draw
  rw [this]
  exact ⟨rfl, rfl, rfl, rfl, rfl⟩

/-- The contributing rules are matched rules, in sorted order. -/
theorem contributing_sublist (q : Req) (draw : Rule → Nat) (S : List Rule) :
    (contributing q draw S).Sublist S := by
  unfold contributing
  have h1 : ∀ l : List Rule, (throughFirstStop l).Sublist l := by
    intro l
    induction l with
    | nil => exact List.Sublist.refl _
    | cons r rs ih =>
      unfold throughFirstStop
      split
      · exact List.Sublist.cons_cons r (List.nil_sublist rs)
      · exact List.Sublist.cons_cons r ih
  have h2 : ∀ l : List Rule, (fromLastReset l).Sublist l := by
    intro l
    induction l with
    | nil => exact List.Sublist.refl _
    | cons r rs ih =>
      unfold fromLastReset
      split
      · exact List.Sublist.cons r ih
      · exact List.Sublist.refl _
  exact (h2 _).trans ((h1 _).trans List.filter_sublist)

theorem contributing_mem (R : List Rule) (q : Req) (draw : Rule → Nat) (r : Rule)
    (h : r ∈ contributing q draw (sortRules R)) : r ∈ R ∧ effective q draw r = true := by
  unfold contributing at h
  have h1 : ∀ l : List Rule, ∀ x, x ∈ throughFirstStop l → x ∈ l := by
    intro l
    induction l with
    | nil => intro x hx; exact hx
    | cons a rs ih =>
      intro x hx
      unfold throughFirstStop at hx
      split at hx
      · simp only [List.mem_singleton] at hx; simp [hx]
      · rcases List.mem_cons.mp hx with rfl | hx
        · simp
        · exact List.mem_cons_of_mem _ (ih x hx)
  have h2 : ∀ l : List Rule, ∀ x, x ∈ fromLastReset l → x ∈ l := by
    intro l
    induction l with
    | nil => intro x hx; exact hx
    | cons a rs ih =>
      intro x hx
      unfold fromLastReset at hx
      split at hx
      · exact List.mem_cons_of_mem _ (ih x hx)
      · exact hx
  have := List.mem_filter.mp (h1 _ r (h2 _ r h))
  exact ⟨(sortRules_perm R).subset this.1, this.2⟩

/-- With distinct ids the `rule_ids` set is just the ids of the contributing rules, in order. -/
theorem rule_ids_eq (R : List Rule) (q : Req) (draw : Rule → Nat) (hn : NodupIds R) :
    (fromRoutesRule R q draw).ruleIds = (contributing q draw (sortRules R)).map (·.id) := by
  rw [(filters_eq R q draw).2.2.2.1]
  apply dedupLast_of_nodup
  have : NodupIds (contributing q draw (sortRules R)) :=
    (hn.perm (sortRules_perm R).symm).sublist (contributing_sublist q draw _)
  exact this

/-! ### Every observation is the specification's -/

/-- All observers, in any sequence, on the computed action: results and applied-rule ids after every
call are those of the specification (`Spec.observe`), i.e. `statusAt`, `headerFiltersAt`,
`bodyFiltersAt`, `logAt`, and "keep the last occurrence" of the ids inserted so far. -/
theorem observations_eq_spec (R : List Rule) (q : Req) (draw : Rule → Nat) (allowLog : Bool) (c : Nat)
    (ops : List Op) :
    runOps allowLog c (fromRoutesRule R q draw) ops =
      Spec.observe q (contributing q draw (sortRules R)) allowLog c [] ops := by
  rw [action_eq_spec]
  exact runOps_spec q _ allowLog c [] ops

/-- **One action, a response code per call** — what a proxy does: the observers are `&mut self`, the
applied-rule ids accumulate across calls made with DIFFERENT codes (request time 0, then the backend's code).
For every sequence of (observer, code) pairs the results and the applied ids after each call are the
specification's, with `rules_applied` = keep-the-last-occurrence of everything inserted so far by calls of any code. -/
theorem observations_mixed_codes (R : List Rule) (q : Req) (draw : Rule → Nat) (allowLog : Bool)
    (ops : List (Op × Nat)) :
    runOpsC allowLog (fromRoutesRule R q draw) ops =
      Spec.observeC q (contributing q draw (sortRules R)) allowLog [] ops := by
  rw [action_eq_spec]
  exact runOpsC_spec q _ allowLog [] ops

/-- Closed form of `get_applied_rule_ids()` after any such sequence (e.g. the content of
`X-RedirectionIo-RuleIds` emitted by a later `filter_headers`): the `LinkedHashSet` of the ids inserted by every
call so far, each call with its own code. -/
theorem applied_ids_after_mixed_codes (R : List Rule) (q : Req) (draw : Rule → Nat) (allowLog : Bool)
    (ops : List (Op × Nat)) (hne : ops ≠ []) :
    ((runOpsC allowLog (fromRoutesRule R q draw) ops).getLast?).map (·.2) =
      some (dedupLast (ops.flatMap fun oc => insertedBy q (contributing q draw (sortRules R)) oc.2 oc.1)) := by
  rw [observations_mixed_codes]
  generalize contributing q draw (sortRules R) = C
  have key : ∀ (ops : List (Op × Nat)) (done : List RuleId), ops ≠ [] →
      ((Spec.observeC q C allowLog done ops).getLast?).map (·.2) =
        some (dedupLast (done ++ ops.flatMap fun oc => insertedBy q C oc.2 oc.1)) := by
    intro ops
    induction ops with
    | nil => intro _ h; exact absurd rfl h
    | cons oc rest ih =>
      intro done _
      obtain ⟨op, c⟩ := oc
      cases rest with
      | nil => simp [Spec.observeC]
      | cons oc2 rest2 =>
        have := ih (done ++ insertedBy q C c op) (by simp)
        simp only [Spec.observeC, List.flatMap_cons, List.append_assoc] at this ⊢
        rw [List.getLast?_cons_cons]
        exact this
  simpa using key ops [] hne

/-- **The proxy order on ONE action**: `get_status_code(0)`; if that is 0, `get_status_code(backend)`; then
`filter_headers`, `create_filter_body` with the code the client will see and `should_log_request` with the final
status — every returned value and the applied ids after each call are the specification's, the codes of the later
calls being computed from the results of the earlier ones. -/
theorem proxy_order_observations (R : List Rule) (q : Req) (draw : Rule → Nat) (allowLog : Bool) (backend : Nat) :
    let a := fromRoutesRule R q draw
    let C := contributing q draw (sortRules R)
    runOpsC allowLog a
        (proxySequence (a.getStatusCode 0).1 ((a.getStatusCode 0).2.getStatusCode backend).1 backend) =
      Spec.observeC q C allowLog []
        (proxySequence (statusAt C 0).1 (statusAt C backend).1 backend) := by
  intro a C
  have e : a = withApplied (Spec.action q C) [] := action_eq_spec R q draw
  have h0 : (a.getStatusCode 0).1 = (statusAt C 0).1 := by rw [e, getStatusCode_spec]
  have h1 : ((a.getStatusCode 0).2.getStatusCode backend).1 = (statusAt C backend).1 := by
    rw [e, getStatusCode_spec, getStatusCode_spec]
  rw [h0, h1]
  exact observations_mixed_codes R q draw allowLog _

/-- `status_closed_form`: `get_status_code(c)` on the computed action is `statusAt C c`, and the rule
id it inserts into `rules_applied` is the rule that value is attributed to. -/
theorem status_closed_form (R : List Rule) (q : Req) (draw : Rule → Nat) (c : Nat) :
    let C := contributing q draw (sortRules R)
    ((fromRoutesRule R q draw).getStatusCode c).1 = (statusAt C c).1 ∧
    ((fromRoutesRule R q draw).getStatusCode c).2.rulesApplied = (statusAt C c).2.toList := by
  intro C
  have h := getStatusCode_spec q C [] c
  have e : fromRoutesRule R q draw = withApplied (Spec.action q C) [] := action_eq_spec R q draw
  rw [e, h]
  refine ⟨rfl, ?_⟩
  cases (statusAt C c).2 <;> rfl

/-- The table behind `statusAt`: it depends only on the last two status-carrying contributing rules —
primary `p` = the last one (highest priority), candidate fallback `q` = the one before it.
* `p`'s status applies when `admitsStatus p c`;
* otherwise nothing applies at request time (`c = 0`);
* otherwise (`c ≠ 0`) `q`'s status applies iff `q` is unconditional and `p` is conditional;
* otherwise 0. -/
theorem status_table (C : List Rule) (c : Nat) :
    statusAt C c =
      match (C.filter carriesStatus).reverse with
      | [] => (0, none)
      | [p] => if admitsStatus p c then (p.statusCode.getD 0, some p.id) else (0, none)
      | p :: q :: _ =>
        if admitsStatus p c then (p.statusCode.getD 0, some p.id)
        else if c = 0 then (0, none)
        else if unconditional q && !unconditional p then (q.statusCode.getD 0, some q.id)
        else (0, none) := by
  unfold statusAt primaryFallback
  cases (C.filter carriesStatus).reverse with
  | nil => rfl
  | cons p t =>
    cases t with
    | nil => by_cases h : c = 0 <;> cases admitsStatus p c <;> simp [h]
    | cons q t' =>
      by_cases h : c = 0 <;> cases admitsStatus p c <;>
        cases hq : unconditional q <;> cases hp : unconditional p <;> simp [h, hq, hp]

/-- When a rule's status applies to response code `c` (the code's own table): an unconditional rule
(no code list) at request time only, or for every code when it carries the exclude flag (sic); a
conditional rule when `c` is listed, resp. not listed with the exclude flag (which includes `c = 0`
unless 0 is listed — sic). -/
theorem admitsStatus_table (p : Rule) (c : Nat) :
    admitsStatus p c = true ↔
      (codesOf p = [] ∧ (c = 0 ∨ exclOf p = true)) ∨
      (codesOf p ≠ [] ∧ ((exclOf p = true ∧ c ∉ codesOf p) ∨ (exclOf p = false ∧ c ∈ codesOf p))) := by
  unfold admitsStatus
  cases hc : codesOf p with
  | nil => cases exclOf p <;> simp
  | cons x xs =>
    cases exclOf p <;> simp

/-- … and when its filters, its trace and its log override apply. -/
theorem admits_table (p : Rule) (c : Nat) :
    admits p c = true ↔
      codesOf p = [] ∨ (exclOf p = true ∧ c ∉ codesOf p) ∨ (exclOf p = false ∧ c ∈ codesOf p) := by
  unfold admits
  cases hc : codesOf p with
  | nil => simp
  | cons x xs => cases exclOf p <;> simp

/-- `log_closed_form`: `should_log_request(allow, c)` is the log override of the last log-carrying
contributing rule when its condition admits `c`, else that of the one before it iff that one is
unconditional (and the last one conditional), else the configured default. -/
theorem log_closed_form (R : List Rule) (q : Req) (draw : Rule → Nat) (allowLog : Bool) (c : Nat) :
    let C := contributing q draw (sortRules R)
    ((fromRoutesRule R q draw).shouldLogRequest allowLog c).1 = (logAt C c).1.getD allowLog ∧
    ((fromRoutesRule R q draw).shouldLogRequest allowLog c).2.rulesApplied = (logAt C c).2.toList := by
  intro C
  have h := shouldLogRequest_spec q C [] allowLog c
  have e : fromRoutesRule R q draw = withApplied (Spec.action q C) [] := action_eq_spec R q draw
  rw [e, h]
  refine ⟨rfl, ?_⟩
  cases (logAt C c).2 <;> rfl

theorem log_table (C : List Rule) (c : Nat) :
    logAt C c =
      match (C.filter carriesLog).reverse with
      | [] => (none, none)
      | [p] => if admits p c then (p.logOverride, some p.id) else (none, none)
      | p :: q :: _ =>
        if admits p c then (p.logOverride, some p.id)
        else if unconditional q && !unconditional p then (q.logOverride, some q.id)
        else (none, none) := by
  unfold logAt primaryFallback
  cases (C.filter carriesLog).reverse with
  | nil => rfl
  | cons p t =>
    cases t with
    | nil => cases admits p c <;> simp
    | cons q t' =>
      cases admits p c <;> cases hq : unconditional q <;> cases hp : unconditional p <;> simp [hq, hp]

/-- End to end for `filter_headers` (with C13's `fold_spec`): the response headers returned for code
`c` are the left fold of the five reference header operations over the header filters of the
contributing rules admitting `c`, in priority order, followed by the `X-RedirectionIo-RuleIds` header
listing the admitted rules (those without header filter first: a re-inserted id moves to the back). -/
theorem filter_headers_end_to_end (lower : String → String) (showId : RuleId → String)
    (R : List Rule) (q : Req) (draw : Rule → Nat) (hs : List Rio.Header.Header) (c : Nat) :
    let C := contributing q draw (sortRules R)
    ((fromRoutesRule R q draw).filterHeadersFull lower showId hs c true).1 =
      Rio.Header.refFold lower ((headerFiltersAt q C c).map toHeaderOp) hs ++
        [⟨"X-RedirectionIo-RuleIds",
          String.intercalate ";" ((dedupLast (insertedBy q C c .headers)).map showId)⟩] := by
  intro C
  have e : fromRoutesRule R q draw = withApplied (Spec.action q C) (dedupLast []) := action_eq_spec R q draw
  unfold Action.filterHeadersFull
  rw [e, filterHeaders_spec, foldl_lhsInsert_dedupLast]
  simp only [if_true, List.nil_append, Rio.C13.fold_spec]

/-! ### Attribution -/

/-- Every header filter applied for response code `c` comes from a matched, contributing rule whose
response-status condition admits `c` (and it is one of that rule's header filters). -/
theorem attribution_header (R : List Rule) (q : Req) (draw : Rule → Nat) (c : Nat) (add : Bool)
    (f : HeaderFilter) (hf : f ∈ ((fromRoutesRule R q draw).filterHeaders c add).filters) :
    ∃ r, r ∈ R ∧ r ∈ contributing q draw (sortRules R) ∧ admits r c = true ∧
      f ∈ (ruleHeaderFilters q r).map (·.filter) := by
  have e : fromRoutesRule R q draw = withApplied (Spec.action q (contributing q draw (sortRules R))) [] :=
    action_eq_spec R q draw
  rw [e, filterHeaders_spec] at hf
  simp only [headerFiltersAt, List.mem_flatMap, List.mem_filter] at hf
  obtain ⟨r, ⟨hr, ha⟩, hfr⟩ := hf
  exact ⟨r, (contributing_mem R q draw r hr).1, hr, ha, hfr⟩

/-- Same for body filters. -/
theorem attribution_body (R : List Rule) (q : Req) (draw : Rule → Nat) (c : Nat)
    (f : BodyFilter) (hf : f ∈ ((fromRoutesRule R q draw).createFilterBody c).1) :
    ∃ r, r ∈ R ∧ r ∈ contributing q draw (sortRules R) ∧ admits r c = true ∧
      f ∈ (ruleBodyFilters r).map (·.filter) := by
  have e : fromRoutesRule R q draw = withApplied (Spec.action q (contributing q draw (sortRules R))) [] :=
    action_eq_spec R q draw
  rw [e, createFilterBody_spec] at hf
  simp only [bodyFiltersAt, List.mem_flatMap, List.mem_filter] at hf
  obtain ⟨r, ⟨hr, ha⟩, hfr⟩ := hf
  exact ⟨r, (contributing_mem R q draw r hr).1, hr, ha, hfr⟩

/-- A non-zero status code returned for `c` is the status code of a matched, contributing rule, named
by the id inserted into `rules_applied`, whose condition admits `c` — or which is the unconditional
fallback of a conditional rule that does not admit the (real) response code `c ≠ 0`. -/
theorem attribution_status (R : List Rule) (q : Req) (draw : Rule → Nat) (c : Nat) (id : RuleId)
    (h : (statusAt (contributing q draw (sortRules R)) c).2 = some id) :
    ∃ r, r ∈ R ∧ r ∈ contributing q draw (sortRules R) ∧ r.id = id ∧ carriesStatus r = true ∧
      (statusAt (contributing q draw (sortRules R)) c).1 = r.statusCode.getD 0 ∧
      (admitsStatus r c = true ∨ (c ≠ 0 ∧ unconditional r = true)) := by
  generalize hC : contributing q draw (sortRules R) = C at h
  have hmem : ∀ r, r ∈ C → r ∈ R := fun r hr => (contributing_mem R q draw r (hC ▸ hr)).1
  unfold statusAt at h ⊢
  cases hpf : primaryFallback carriesStatus C with
  | none => simp [hpf] at h
  | some pf =>
    obtain ⟨p, fb⟩ := pf
    have hm := primaryFallback_mem carriesStatus C p fb hpf
    simp only [hpf] at h ⊢
    by_cases ha : admitsStatus p c = true
    · simp only [ha, if_true, Option.some.injEq] at h ⊢
      exact ⟨p, hmem p hm.1.1, hm.1.1, h, hm.1.2, rfl, .inl ha⟩
    · simp only [ha, Bool.false_eq_true, if_false] at h ⊢
      by_cases hz : (c == 0) = true
      · simp [hz] at h
      · simp only [hz, Bool.false_eq_true, if_false] at h ⊢
        cases fb with
        | none => simp at h
        | some f =>
          simp only [Option.some.injEq] at h ⊢
          have hf := hm.2 f rfl
          exact ⟨f, hmem f hf.1, hf.1, h, hf.2.1, rfl, .inr ⟨by simpa using hz, hf.2.2.1⟩⟩

/-- The log decision is attributed like the status: when `should_log_request` names a rule, it is a matched,
contributing rule carrying a log override whose condition admits `c` — or the UNCONDITIONAL rule just below a
conditional primary rule that does not admit `c` (the fallback). -/
theorem attribution_log (R : List Rule) (q : Req) (draw : Rule → Nat) (c : Nat) (id : RuleId)
    (h : (logAt (contributing q draw (sortRules R)) c).2 = some id) :
    ∃ r, r ∈ R ∧ r ∈ contributing q draw (sortRules R) ∧ r.id = id ∧ carriesLog r = true ∧
      (logAt (contributing q draw (sortRules R)) c).1 = r.logOverride ∧
      (admits r c = true ∨
        (unconditional r = true ∧ ∃ p ∈ contributing q draw (sortRules R), carriesLog p = true ∧
          unconditional p = false ∧ admits p c = false)) := by
  generalize hC : contributing q draw (sortRules R) = C at h
  have hmem : ∀ r, r ∈ C → r ∈ R := fun r hr => (contributing_mem R q draw r (hC ▸ hr)).1
  unfold logAt at h ⊢
  cases hpf : primaryFallback carriesLog C with
  | none => simp [hpf] at h
  | some pf =>
    obtain ⟨p, fb⟩ := pf
    have hm := primaryFallback_mem carriesLog C p fb hpf
    simp only [hpf] at h ⊢
    by_cases ha : admits p c = true
    · simp only [ha, if_true, Option.some.injEq] at h ⊢
      exact ⟨p, hmem p hm.1.1, hm.1.1, h, hm.1.2, rfl, .inl ha⟩
    · simp only [ha, Bool.false_eq_true, if_false] at h ⊢
      cases fb with
      | none => simp at h
      | some f =>
        simp only [Option.some.injEq] at h ⊢
        have hf := hm.2 f rfl
        exact ⟨f, hmem f hf.1, hf.1, h, hf.2.1, rfl,
          .inr ⟨hf.2.2.1, p, hm.1.1, hm.1.2, hf.2.2.2, by simpa using ha⟩⟩

/-- `attribution_status` with the fallback clause spelled out: the fallback rule is named only for a real
response code, when it is unconditional and the primary (a contributing, status-carrying, CONDITIONAL rule) does
not admit the code. -/
theorem attribution_status_fallback (R : List Rule) (q : Req) (draw : Rule → Nat) (c : Nat) (id : RuleId)
    (h : (statusAt (contributing q draw (sortRules R)) c).2 = some id) :
    ∃ r, r ∈ R ∧ r ∈ contributing q draw (sortRules R) ∧ r.id = id ∧ carriesStatus r = true ∧
      (admitsStatus r c = true ∨
        (c ≠ 0 ∧ unconditional r = true ∧ ∃ p ∈ contributing q draw (sortRules R), carriesStatus p = true ∧
          unconditional p = false ∧ admitsStatus p c = false)) := by
  generalize hC : contributing q draw (sortRules R) = C at h
  have hmem : ∀ r, r ∈ C → r ∈ R := fun r hr => (contributing_mem R q draw r (hC ▸ hr)).1
  unfold statusAt at h
  cases hpf : primaryFallback carriesStatus C with
  | none => simp [hpf] at h
  | some pf =>
    obtain ⟨p, fb⟩ := pf
    have hm := primaryFallback_mem carriesStatus C p fb hpf
    simp only [hpf] at h
    by_cases ha : admitsStatus p c = true
    · simp only [ha, if_true, Option.some.injEq] at h
      exact ⟨p, hmem p hm.1.1, hm.1.1, h, hm.1.2, .inl ha⟩
    · simp only [ha, Bool.false_eq_true, if_false] at h
      by_cases hz : (c == 0) = true
      · simp [hz] at h
      · simp only [hz, Bool.false_eq_true, if_false] at h
        cases fb with
        | none => simp at h
        | some f =>
          simp only [Option.some.injEq] at h
          have hf := hm.2 f rfl
          exact ⟨f, hmem f hf.1, hf.1, h, hf.2.1,
            .inr ⟨by simpa using hz, hf.2.2.1, p, hm.1.1, hm.1.2, hf.2.2.2, by simpa using ha⟩⟩

/-- An id inserted by `filter_headers` / `create_filter_body` for code `c` is the id of a contributing rule whose
response-status condition ADMITS `c` (the clause `applied_ids_attributed` leaves out; for ids inserted by
`get_status_code` / `should_log_request` see `attribution_status_fallback` / `attribution_log`). -/
theorem filter_ids_admitted (q : Req) (C : List Rule) (c : Nat) (op : Op) (hop : op = .headers ∨ op = .body)
    (id : RuleId) (h : id ∈ insertedBy q C c op) : ∃ r ∈ C, r.id = id ∧ admits r c = true := by
  rcases hop with rfl | rfl
  · simp only [insertedBy, List.mem_append, List.mem_map, List.mem_flatMap, List.mem_filter] at h
    rcases h with ⟨r, ⟨hr, ha⟩, rfl⟩ | ⟨r, ⟨hr, ha⟩, _, _, rfl⟩
    · exact ⟨r, hr, rfl, ha⟩
    · exact ⟨r, hr, rfl, ha⟩
  · simp only [insertedBy, List.mem_map, List.mem_flatMap, List.mem_filter] at h
    obtain ⟨r, ⟨hr, ha⟩, _, _, rfl⟩ := h
    exact ⟨r, hr, rfl, ha⟩

/-- Every id reported by `get_applied_rule_ids` after any sequence of observers is the id of a
matched, contributing rule. -/
theorem applied_ids_attributed (R : List Rule) (q : Req) (draw : Rule → Nat) (allowLog : Bool) (c : Nat)
    (ops : List Op) (res : OpResult × List RuleId) (id : RuleId)
    (hres : res ∈ runOps allowLog c (fromRoutesRule R q draw) ops) (hid : id ∈ res.2) :
    ∃ r, r ∈ R ∧ r ∈ contributing q draw (sortRules R) ∧ r.id = id := by
  rw [observations_eq_spec] at hres
  generalize hC : contributing q draw (sortRules R) = C at hres
  have hmem : ∀ r, r ∈ C → r ∈ R := fun r hr => (contributing_mem R q draw r (hC ▸ hr)).1
  -- every inserted id belongs to a contributing rule
  have hstat : ∀ c' i, (statusAt C c').2 = some i → ∃ r, r ∈ C ∧ r.id = i := by
    intro c' i hi
    unfold statusAt at hi
    cases hpf : primaryFallback carriesStatus C with
    | none => simp [hpf] at hi
    | some pf =>
      obtain ⟨p, fb⟩ := pf
      have hm := primaryFallback_mem carriesStatus C p fb hpf
      simp only [hpf] at hi
      split at hi
      · exact ⟨p, hm.1.1, by simpa using hi⟩
      · split at hi
        · simp at hi
        · cases fb with
          | none => simp at hi
          | some f => exact ⟨f, (hm.2 f rfl).1, by simpa using hi⟩
  have hlog : ∀ i, (logAt C c).2 = some i → ∃ r, r ∈ C ∧ r.id = i := by
    intro i hi
    unfold logAt at hi
    cases hpf : primaryFallback carriesLog C with
    | none => simp [hpf] at hi
    | some pf =>
      obtain ⟨p, fb⟩ := pf
      have hm := primaryFallback_mem carriesLog C p fb hpf
      simp only [hpf] at hi
      split at hi
      · exact ⟨p, hm.1.1, by simpa using hi⟩
      · cases fb with
        | none => simp at hi
        | some f => exact ⟨f, (hm.2 f rfl).1, by simpa using hi⟩
  have hins : ∀ op i, i ∈ insertedBy q C c op → ∃ r, r ∈ C ∧ r.id = i := by
    intro op i hi
    cases op with
    | status =>
      simp only [insertedBy, Option.mem_toList] at hi
      exact hstat c i hi
    | headers =>
      simp only [insertedBy, List.mem_append, List.mem_map, List.mem_flatMap, List.mem_filter] at hi
      rcases hi with ⟨r, ⟨hr, _⟩, rfl⟩ | ⟨r, ⟨hr, _⟩, _, _, rfl⟩
      · exact ⟨r, hr, rfl⟩
      · exact ⟨r, hr, rfl⟩
    | body =>
      simp only [insertedBy, List.mem_map, List.mem_flatMap, List.mem_filter] at hi
      obtain ⟨r, ⟨hr, _⟩, _, _, rfl⟩ := hi
      exact ⟨r, hr, rfl⟩
    | log =>
      simp only [insertedBy, Option.mem_toList] at hi
      exact hlog i hi
    | final fb =>
      simp only [insertedBy, List.mem_append, Option.mem_toList] at hi
      rcases hi with hi | hi
      · exact hstat c i hi
      · split at hi
        · exact hstat fb i (by simpa using hi)
        · simp at hi
  -- the applied ids after each call are a deduplication of what was inserted so far
  have hobs : ∀ (ops : List Op) (done : List RuleId),
      (∀ i, i ∈ done → ∃ r, r ∈ C ∧ r.id = i) →
      ∀ res, res ∈ Spec.observe q C allowLog c done ops → ∀ i, i ∈ res.2 → ∃ r, r ∈ C ∧ r.id = i := by
    intro ops
    induction ops with
    | nil => intro _ _ res hres; simp [Spec.observe] at hres
    | cons op ops ih =>
      intro done hdone res hres i hi
      have hdone' : ∀ i, i ∈ done ++ insertedBy q C c op → ∃ r, r ∈ C ∧ r.id = i := by
        intro i hi
        rcases List.mem_append.mp hi with h | h
        · exact hdone i h
        · exact hins op i h
      simp only [Spec.observe, List.mem_cons] at hres
      rcases hres with rfl | hres
      · exact hdone' i ((mem_dedupLast _ i).mp hi)
      · exact ih _ hdone' res hres i hi
  obtain ⟨r, hr, hri⟩ := hobs ops [] (by simp) res hres id hid
  exact ⟨r, hmem r hr, hC ▸ hr, hri⟩

/-! ### reset, stop, sampling -/

/-- `reset_discards`: an effective `reset` rule that is reached (no effective `stop` before it) makes
the result independent of everything before it — of all lower-priority rules and of whatever had
been accumulated. -/
theorem reset_discards (q : Req) (draw : Rule → Nat) (a : Action) (pre post : List Rule) (r : Rule)
    (hr : effective q draw r = true) (hreset : isReset r = true)
    (hpre : ∀ x ∈ pre, effective q draw x = true → isStop x = false) :
    foldRoutes q draw a (pre ++ r :: post) = foldRoutes q draw Action.empty (r :: post) := by
  have key : ∀ (l : List Rule) (a : Action), (∀ x ∈ l, isStop x = false) →
      ∀ m, foldE q a (l ++ r :: m) = foldE q Action.empty (r :: m) := by
    intro l
    induction l with
    | nil =>
      intro a _ m
      simp [foldE, stepRule, hreset]
    | cons x xs ih =>
      intro a hl m
      have hx : isStop x = false := hl x (by simp)
      simp only [List.cons_append, foldE, hx, Bool.false_eq_true, if_false]
      exact ih _ (fun y hy => hl y (List.mem_cons_of_mem _ hy)) m
  rw [foldRoutes_eq_foldE, foldRoutes_eq_foldE, List.filter_append, List.filter_cons, hr]
  simp only [if_true, List.filter_cons, hr]
  apply key
  intro x hx
  have := List.mem_filter.mp hx
  exact hpre x this.1 this.2

/-- `stop_cuts`: nothing after an effective `stop` rule contributes — the higher-priority rules might
as well not have matched. -/
theorem stop_cuts (q : Req) (draw : Rule → Nat) (a : Action) (pre post : List Rule) (r : Rule)
    (hr : effective q draw r = true) (hstop : isStop r = true) :
    foldRoutes q draw a (pre ++ r :: post) = foldRoutes q draw a (pre ++ [r]) := by
  have key : ∀ (l : List Rule) (a : Action) (m : List Rule),
      foldE q a (l ++ r :: m) = foldE q a (l ++ [r]) := by
    intro l
    induction l with
    | nil => intro a m; simp [foldE, hstop]
    | cons x xs ih =>
      intro a m
      simp only [List.cons_append, foldE]
      split
      · rfl
      · exact ih _ m
  rw [foldRoutes_eq_foldE, foldRoutes_eq_foldE, List.filter_append, List.filter_append,
    List.filter_cons, hr]
  simp only [if_true, List.filter_cons, hr, List.filter_nil]
  exact key _ _ _

/-- A rule skipped by the sampling decision contributes nothing, not even its `stop` / `reset`. -/
theorem skipped_rule_ignored (q : Req) (draw : Rule → Nat) (a : Action) (pre post : List Rule) (r : Rule)
    (hr : effective q draw r = false) :
    foldRoutes q draw a (pre ++ r :: post) = foldRoutes q draw a (pre ++ post) := by
  rw [foldRoutes_eq_foldE, foldRoutes_eq_foldE, List.filter_append, List.filter_append,
    List.filter_cons, hr]
  simp

/-- `sampling_0_100`: the sampling test of `from_route_rule` (`true` = rule skipped), for every draw
in `1..100`: no sampling ⇒ kept; rate 0 ⇒ kept iff the override is `Some(true)`; rate ≥ 100 ⇒ kept
iff the override is not `Some(false)`; and whatever the rate, `Some(true)` keeps, `Some(false)` skips. -/
theorem sampling_0_100 (ov : Option Bool) (d : Nat) (h1 : 1 ≤ d) (h100 : d ≤ 100) :
    sampledOut none ov d = false ∧
    (sampledOut (some 0) ov d = false ↔ ov = some true) ∧
    (∀ s, 100 ≤ s → (sampledOut (some s) ov d = false ↔ ov ≠ some false)) ∧
    (∀ s, sampledOut (some s) (some true) d = false) ∧
    (∀ s, sampledOut (some s) (some false) d = true) := by
  refine ⟨rfl, ?_, ?_, ?_, ?_⟩
  · unfold sampledOut
    have : 0 < d := by omega
    cases ov with
    | none => simp [this]
    | some b => cases b <;> simp
  · intro s hs
    unfold sampledOut
    have : ¬ d > min s 100 := by omega
    cases ov with
    | none => simp [this]
    | some b => cases b <;> simp
  · intro s; simp [sampledOut]
  · intro s; simp [sampledOut]

/-- The model's sampling test is the specification's `effective`, for every rate and draw. -/
theorem sampling_closed_form (q : Req) (draw : Rule → Nat) (r : Rule) :
    sampledOut r.sampling q.samplingOverride (draw r) = !effective q draw r :=
  sampledOut_eq q draw r

/-- Hence with rates in {none, 0, ≥100} or an override on the request, the whole action does not
depend on the random draws. -/
theorem sampling_draw_independent (R : List Rule) (q : Req) (draw draw' : Rule → Nat)
    (hd : ∀ r, 1 ≤ draw r ∧ draw r ≤ 100) (hd' : ∀ r, 1 ≤ draw' r ∧ draw' r ≤ 100)
    (hR : ∀ r ∈ R, q.samplingOverride.isSome = true ∨ r.sampling = none ∨ r.sampling = some 0 ∨
      ∃ s, 100 ≤ s ∧ r.sampling = some s) :
    fromRoutesRule R q draw = fromRoutesRule R q draw' := by
  rw [action_eq_spec, action_eq_spec]
  unfold contributing
  have : (sortRules R).filter (effective q draw) = (sortRules R).filter (effective q draw') := by
    apply List.filter_congr
    intro r hr
    have hr' : r ∈ R := (sortRules_perm R).subset hr
    unfold effective
    rcases hR r hr' with h | h | h | ⟨s, hs, h⟩
    · cases hov : q.samplingOverride with
      | none => simp [hov] at h
      | some b => cases b <;> cases r.sampling <;> rfl
    · simp [h]
    · have a1 := hd r; have a2 := hd' r
      have e1 : draw r ≠ 0 := by omega
      have e2 : draw' r ≠ 0 := by omega
      cases hov : q.samplingOverride with
      | none => simp [h, e1, e2]
      | some b => cases b <;> simp [h]
    · have a1 := hd r; have a2 := hd' r
      have e1 : draw r ≤ min s 100 := by omega
      have e2 : draw' r ≤ min s 100 := by omega
      cases hov : q.samplingOverride with
      | none => simp [h, e1, e2]
      | some b => cases b <;> simp [h]
  rw [this]

/-! ### Non-vacuity: a concrete sorted match result -/

private def mk (id : RuleId) (rank : Nat) (status : Option Nat) (codes : Option (List Nat))
    (reset stop : Bool) (sampling : Option Nat) : Rule :=
  { id := id, rank := rank, statusCode := status, target := none, responseStatusCodes := codes,
    excludeResponseStatusCodes := none, sampling := sampling, headerFilters := none, bodyFilters := none,
    logOverride := none, reset := some reset, stop := some stop, redirectUnitId := none,
    configurationLogUnitId := none, targetHash := none }

/-- Five matched rules, already in sorted order (rank desc, id desc):
`e` (rank 3, 410) is discarded by the reset of `d`; `d` (rank 2, unconditional 301, reset);
`c` (rank 2, 302 on [404]); `b` (rank 1, 500, sampling 0 → skipped, its stop flag with it);
`a` (rank 1, stop); `z` (rank 0, 418) is cut by the stop of `a`. -/
private def S : List Rule :=
  [mk [101] 3 (some 410) none false false none,
   mk [100] 2 (some 301) none true false none,
   mk [99] 2 (some 302) (some [404]) false false none,
   mk [98] 1 (some 500) none false true (some 0),
   mk [97] 1 none none false true none,
   mk [122] 0 (some 418) none false false none]

example :
    NodupIds S ∧ S.Pairwise (fun a b => ruleLe a b = true) ∧
    (contributing ⟨none, none⟩ (fun _ => 50) S).map (·.id) = [[100], [99], [97]] ∧
    -- request time: the unconditional 301 of `d` is only the fallback of the conditional `c`: nothing yet
    statusAt (contributing ⟨none, none⟩ (fun _ => 50) S) 0 = (0, none) ∧
    -- backend answers 404: `c` applies; 200: fallback to `d`
    statusAt (contributing ⟨none, none⟩ (fun _ => 50) S) 404 = (302, some [99]) ∧
    statusAt (contributing ⟨none, none⟩ (fun _ => 50) S) 200 = (301, some [100]) := by
  refine ⟨by unfold NodupIds; decide, by decide, by decide, by decide, by decide, by decide⟩

/-- The same list through the theorems: the model action for any permutation of `S` is the
specification's action over those three rules. -/
example (R : List Rule) (hp : S.Perm R) :
    (fromRoutesRule R ⟨none, none⟩ (fun _ => 50)).ruleTraces.map (·.id) = [[100], [99], [97]] := by
  have hn : NodupIds R := NodupIds.perm (by unfold NodupIds; decide) hp
  rw [action_eq_spec_of_sorted R S _ _ hp (by decide) hn]
  decide

end Rio.C05
