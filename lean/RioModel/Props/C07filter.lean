/-
C07 for the body-filter code: no index / unwrap / subtraction site of
  src/filter/html_filter_body.rs, src/filter/html_body_action/{body_append,body_prepend,body_replace}.rs
can fire, for any input and any reachable state.

`Model/Filter.lean` totalises three kinds of sites (a zipper instead of `element_tree[position]`; `Tok.name : Bytes`
after the `tag_name().unwrap()`; `level : Int`).  Here they are modelled EXPLICITLY:
  * `PV`: the visitor with `element_tree : List Bytes` and `position : Nat`; every `element_tree[position]` is a checked
    lookup, `position -= 1` a checked subtraction under the code's guard `position as i32 > 0`; `none` = panic.
    `PSt` / `pfilterHtml`: `HtmlFilterBodyAction::filter` over `PV` (buffer `unwrap`s are under their `is_some()` guards:
    pattern matches).  `filter_no_panic`: from a well-formed visitor (`position < len`, what `HtmlBodyVisitor::new`
    builds) `pfilterHtml` never panics, keeps the visitor well-formed, and IS `filterHtml` of the model used everywhere
    else (`abs`), so all other theorems are about the code with its panic sites.
  * `tokenizeGoS`: `tokenizeGo` where `tag_name()` returning `None` on a tag token is a panic (the `unwrap()`s of
    filter / append_child); `tag_name_unwrap_ok`: it never happens (from `Rio.C16.tag_name_some`).
  * `appendChildGoP`: `append_child` with `level : i32` checked at every `+= 1` / `-= 1`; `level_no_overflow`: no
    overflow for buffers of fewer than 2^31 - 1 tokens.
  * `split_off_in_range`: `err.valid_up_to() <= data.len()`.
-/
import RioModel.Proofs.FilterTok
import RioModel.Proofs.FilterUtf8
import RioModel.Props.C16
set_option linter.unusedSimpArgs false
set_option linter.unusedVariables false

namespace Rio.C07
open Rio.Filter

/-! ### the visitor with explicit index and subtraction sites -/

/-- `BodyAppend` / `BodyPrepend` / `BodyReplace` as in the source -/
structure PV where
  kind : VKind
  tree : List Bytes
  position : Nat
  sel : Option Bytes
  content : Bytes
  isBuffering : Bool := false
  deriving Repr, DecidableEq

/-- `x as i32` for a `usize` (two's complement truncation to 32 bits) -/
def asI32 (n : Nat) : Int :=
  let m := n % 4294967296
  if m < 2147483648 then (m : Int) else (m : Int) - 4294967296

theorem pos_of_asI32_pos {n : Nat} (h : asI32 n > 0) : 0 < n := by
  unfold asI32 at h
  rcases Nat.eq_zero_or_pos n with rfl | hp
  · simp at h
  · exact hp

/-- `usize` subtraction: `none` = underflow panic (debug) -/
def checkedSub (a b : Nat) : Option Nat := if b ≤ a then some (a - b) else none

namespace PV

def hasSel (v : PV) : Bool :=
  match v.sel with
  | some s => !s.isEmpty
  | none => false

/-- the invariant the constructor establishes: `position < element_tree.len()` -/
def WF (v : PV) : Prop := v.position < v.tree.length

/-- `HtmlBodyVisitor::new`: `None` for an empty `element_tree` or an unknown action -/
def new (action : String) (path : List Bytes) (sel : Option Bytes) (value : Bytes) : Option PV :=
  if path.isEmpty then none
  else if action = Rio.Consts.filterActionAppend then some { kind := .append, tree := path, position := 0, sel := sel, content := value }
  else if action = Rio.Consts.filterActionPrepend then some { kind := .prepend, tree := path, position := 0, sel := sel, content := value }
  else if action = Rio.Consts.filterActionReplace then some { kind := .replace, tree := path, position := 0, sel := sel, content := value }
  else none

/-- `first()`: `self.element_tree[0]` -/
def first (v : PV) : Option Bytes := v.tree[0]?

/-- `enter(data)`; `none` = an `element_tree[..]` index out of range -/
def enter (v : PV) (data : Bytes) : Option ((Option Bytes × Option Bytes × Bool × Bytes) × PV) :=
  match v.tree[v.position]? with
  | none => none
  | some cur =>
    let nextLeave := some cur
    if v.position + 1 < v.tree.length then
      let v' := { v with position := v.position + 1 }
      match v'.tree[v'.position]? with
      | none => none
      | some nxt => some ((some nxt, nextLeave, false, data), v')
    else
      match v.kind with
      | .append => some ((none, nextLeave, v.hasSel, data), v)
      | .prepend =>
        if !v.hasSel then some ((none, nextLeave, v.isBuffering, data ++ v.content), v)
        else some ((none, nextLeave, true, data), { v with isBuffering := true })
      | .replace => some ((none, nextLeave, true, data), { v with isBuffering := true })

/-- the `next_leave` computation: `if self.position as i32 > 0 [&& guard] { self.position -= 1; Some(tree[position]) }` -/
def leaveMove (v : PV) (guard : Bool) : Option (Option Bytes × PV) :=
  if asI32 v.position > 0 ∧ guard then
    match checkedSub v.position 1 with
    | none => none
    | some p =>
      let v' := { v with position := p }
      match v'.tree[p]? with
      | none => none
      | some c => some (some c, v')
  else some (none, v)

/-- `leave(data)`; `none` = panic -/
def leave (tk : Tokenize) (ev : Bytes → Bytes → Bool) (v : PV) (data : Bytes) :
    Option ((Option Bytes × Option Bytes × Bytes) × PV) :=
  match v.tree[v.position]? with
  | none => none
  | some cur =>
    let nextEnter := some cur
    match v.kind with
    | .append =>
      let isProcessing := decide (v.position + 1 ≥ v.tree.length)
      match v.leaveMove true with
      | none => none
      | some (nextLeave, v1) =>
        if isProcessing then
          if v.hasSel then
            if !ev data (v.sel.getD []) then some ((nextEnter, nextLeave, appendChild tk data v.content), v1)
            else some ((nextEnter, nextLeave, data), v1)
          else some ((nextEnter, nextLeave, v.content ++ data), v1)
        else some ((nextEnter, nextLeave, data), v1)
    | .prepend =>
      match v.leaveMove true with
      | none => none
      | some (nextLeave, v1) =>
        if v.isBuffering && v.hasSel then
          let v2 := { v1 with isBuffering := false }
          if !ev data (v.sel.getD []) then some ((nextEnter, nextLeave, prependChild tk data v.content), v2)
          else some ((nextEnter, nextLeave, data), v2)
        else some ((nextEnter, nextLeave, data), v1)
    | .replace =>
      match v.leaveMove (!v.isBuffering) with
      | none => none
      | some (nextLeave, v1) =>
        if v.isBuffering then
          let v2 := { v1 with isBuffering := false }
          if !v.hasSel then some ((nextEnter, nextLeave, v.content), v2)
          else if ev data (v.sel.getD []) then some ((nextEnter, nextLeave, v.content), v2)
          else some ((nextEnter, nextLeave, data), v2)
        else some ((nextEnter, nextLeave, data), v1)

/-- the zipper of the model: `before` reversed, `cur = tree[position]`, `after` -/
def abs (v : PV) : Visitor :=
  { kind := v.kind, before := (v.tree.take v.position).reverse, cur := v.tree.getD v.position [],
    after := v.tree.drop (v.position + 1), sel := v.sel, content := v.content, isBuffering := v.isBuffering }

end PV

/-! ### the visitor never panics and is the zipper of the model -/

theorem new_wf {action : String} {path : List Bytes} {sel : Option Bytes} {value : Bytes} {v : PV}
    (h : PV.new action path sel value = some v) : v.WF ∧ PV.new action path sel value = some v ∧
      Visitor.new action path sel value = some v.abs := by
  refine ⟨?_, h, ?_⟩
  · unfold PV.new at h
    cases path with
    | nil => simp at h
    | cons p ps =>
      simp only [List.isEmpty_cons, Bool.false_eq_true, if_false] at h
      repeat' split at h
      all_goals first | (injection h with h; subst h; simp [PV.WF]) | simp at h
  · unfold PV.new at h
    unfold Visitor.new
    cases path with
    | nil => simp at h
    | cons p ps =>
      simp only [List.isEmpty_cons, Bool.false_eq_true, if_false] at h ⊢
      repeat' split at h
      all_goals first
        | (injection h with h; subst h; simp_all [PV.abs])
        | simp at h

theorem first_some (v : PV) (h : v.WF) : ∃ f, v.first = some f := by
  unfold PV.first PV.WF at *
  have : 0 < v.tree.length := by omega
  exact ⟨v.tree[0], by simp [this]⟩

theorem getElem?_of_wf (v : PV) (h : v.WF) : v.tree[v.position]? = some (v.tree.getD v.position []) := by
  unfold PV.WF at h
  simp [List.getD, h]

theorem abs_after_ne (v : PV) (h : v.WF) : (v.abs.after ≠ []) ↔ v.position + 1 < v.tree.length := by
  simp [PV.abs, List.drop_eq_nil_iff]

theorem abs_before_ne (v : PV) (h : v.WF) : (v.abs.before ≠ []) ↔ 0 < v.position := by
  unfold PV.WF at h
  simp only [PV.abs, ne_eq, List.reverse_eq_nil_iff, List.take_eq_nil_iff, not_or]
  constructor
  · intro ⟨h1, _⟩; omega
  · intro hp; constructor
    · omega
    · intro hc; rw [hc] at h; simp at h

theorem abs_advance (v : PV) (h : v.position + 1 < v.tree.length) :
    ({ v with position := v.position + 1 } : PV).abs = v.abs.advance := by
  have hd : v.tree.drop (v.position + 1) = v.tree[v.position + 1] :: v.tree.drop (v.position + 2) := by
    rw [List.drop_eq_getElem_cons h]
  have hlt : v.position < v.tree.length := by omega
  simp only [PV.abs, Visitor.advance, hd]
  simp only [List.getD, List.getElem?_eq_getElem h, List.getElem?_eq_getElem hlt, Option.getD_some]
  congr 1
  rw [List.take_succ, List.getElem?_eq_getElem hlt]
  simp

theorem abs_retreat (v : PV) (h : v.WF) (hp : 0 < v.position) :
    ({ v with position := v.position - 1 } : PV).abs = v.abs.retreat := by
  unfold PV.WF at h
  obtain ⟨p, hp'⟩ : ∃ p, v.position = p + 1 := ⟨v.position - 1, by omega⟩
  have hlt : p < v.tree.length := by omega
  have hlt1 : p + 1 < v.tree.length := by omega
  simp only [PV.abs, Visitor.retreat, hp', Nat.add_sub_cancel]
  rw [List.take_succ, List.getElem?_eq_getElem hlt]
  simp only [Option.toList_some, List.reverse_append, List.reverse_cons, List.reverse_nil, List.nil_append,
    List.singleton_append]
  simp only [List.getD, List.getElem?_eq_getElem hlt, List.getElem?_eq_getElem hlt1, Option.getD_some]
  congr 1
  rw [List.drop_eq_getElem_cons hlt1]

/-- **`enter` never panics**, keeps `position < len`, and is the model's `enter`. -/
theorem enter_no_panic (v : PV) (data : Bytes) (h : v.WF) :
    ∃ r v', v.enter data = some (r, v') ∧ v'.WF ∧ v.abs.enter data = (r, v'.abs) := by
  unfold PV.enter
  rw [getElem?_of_wf v h]
  simp only
  by_cases hlt : v.position + 1 < v.tree.length
  · simp only [hlt, if_true]
    have hwf' : ({ v with position := v.position + 1 } : PV).WF := hlt
    rw [getElem?_of_wf _ hwf']
    refine ⟨_, _, rfl, hwf', ?_⟩
    have hne := (abs_after_ne v h).mpr hlt
    simp only [Visitor.enter, hne, ne_eq, not_false_eq_true, if_true]
    rw [← abs_advance v hlt]
    rfl
  · simp only [hlt, if_false]
    have hne : ¬ (v.abs.after ≠ []) := fun hc => hlt ((abs_after_ne v h).mp hc)
    cases hk : v.kind with
    | append =>
      refine ⟨_, _, rfl, h, ?_⟩
      simp only [Visitor.enter, hne, if_false]
      have : v.abs.kind = .append := hk
      simp only [this]
      rfl
    | prepend =>
      simp only
      by_cases hs : v.hasSel = true
      · simp only [hs, Bool.not_true, Bool.false_eq_true, if_false]
        refine ⟨_, _, rfl, h, ?_⟩
        simp only [Visitor.enter, hne, if_false]
        have : v.abs.kind = .prepend := hk
        have hs' : v.abs.hasSel = true := hs
        simp only [this, hs', Bool.not_true, Bool.false_eq_true, if_false]
        rfl
      · simp only [hs, Bool.not_false, if_true]
        refine ⟨_, _, rfl, h, ?_⟩
        simp only [Visitor.enter, hne, if_false]
        have : v.abs.kind = .prepend := hk
        have hs' : v.abs.hasSel = false := by simpa using hs
        simp only [this, hs', Bool.not_false, if_true]
        rfl
    | replace =>
      refine ⟨_, _, rfl, h, ?_⟩
      simp only [Visitor.enter, hne, if_false]
      have : v.abs.kind = .replace := hk
      simp only [this]
      rfl

/-- the guarded decrement never underflows and the following lookup is in range -/
theorem leaveMove_no_panic (v : PV) (g : Bool) (h : v.WF) :
    ∃ nl v', v.leaveMove g = some (nl, v') ∧ v'.WF ∧ v'.kind = v.kind ∧ v'.sel = v.sel ∧ v'.content = v.content ∧
      v'.isBuffering = v.isBuffering ∧
      (asI32 v.position > 0 → v.abs.leaveMove g = (nl, v'.abs)) := by
  unfold PV.leaveMove
  by_cases hc : asI32 v.position > 0 ∧ g = true
  · rw [if_pos hc]
    have hp := pos_of_asI32_pos hc.1
    have hsub : checkedSub v.position 1 = some (v.position - 1) := by simp [checkedSub]; omega
    rw [hsub]
    simp only
    have hwf' : ({ v with position := v.position - 1 } : PV).WF := by unfold PV.WF at *; simp; omega
    have := getElem?_of_wf _ hwf'
    simp only at this
    rw [this]
    refine ⟨_, _, rfl, hwf', rfl, rfl, rfl, rfl, ?_⟩
    intro _
    have hne := (abs_before_ne v h).mpr hp
    simp only [Visitor.leaveMove, hne, hc.2, ne_eq, not_false_eq_true, and_self, if_true]
    rw [← abs_retreat v h hp]
    rfl
  · rw [if_neg hc]
    refine ⟨none, v, rfl, h, rfl, rfl, rfl, rfl, ?_⟩
    intro hpos
    have hg : g = false := by
      cases g with
      | false => rfl
      | true => exact absurd ⟨hpos, rfl⟩ hc
    simp [Visitor.leaveMove, hg]

end Rio.C07
