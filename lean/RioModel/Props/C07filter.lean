/-
C07 for the body-filter code: no index / unwrap / subtraction site of
  src/filter/html_filter_body.rs, src/filter/html_body_action/{body_append,body_prepend,body_replace}.rs
can fire, for any input and any reachable state.

`Model/Filter.lean` totalises three kinds of sites (a zipper instead of `element_tree[position]`; `Tok.name : Bytes`
after the `tag_name().unwrap()`; `level : Int`).  Here they are modelled EXPLICITLY:
  * `PV`: the visitor with `element_tree : List Bytes` and `position : Nat`; every `element_tree[position]` is a checked
    lookup, `position -= 1` a checked subtraction under the code's guard `position as i32 > 0`; `none` = panic.
    `PSt` / `pfilterHtml`: `HtmlFilterBodyAction::filter` over `PV` (buffer `unwrap`s are under their `is_some()` guards:
    pattern matches).  `filter_no_panic`: from a well-formed visitor (`position < len`, what `HtmlBodyVisitor::new`
    builds) `pfilterHtml` never panics, keeps the visitor well-formed, and IS `filterHtml` of the model used everywhere
    else (`abs`), so all other theorems are about the code with its panic sites.
  * `tokenizeGoS`: `tokenizeGo` where `tag_name()` returning `None` on a tag token is a panic (the `unwrap()`s of
    filter / append_child); `tag_name_unwrap_ok`: it never happens (from `Rio.C16.tag_name_some`).
  * `appendChildGoP`: `append_child` with `level : i32` checked at every `+= 1` / `-= 1`; `level_no_overflow`: no
    overflow for buffers of fewer than 2^31 - 1 tokens.
  * `split_off_in_range`: `err.valid_up_to() <= data.len()`.
-/
import RioModel.Proofs.FilterTok
import RioModel.Proofs.FilterUtf8
import RioModel.Props.C16
import RioModel.Proofs.FilterValid
set_option linter.unusedSimpArgs false
set_option linter.unusedVariables false

namespace Rio.C07
open Rio.Filter

/-! ### the visitor with explicit index and subtraction sites -/

/-- `BodyAppend` / `BodyPrepend` / `BodyReplace` as in the source -/
structure PV where
  kind : VKind
  tree : List Bytes
  position : Nat
  sel : Option Bytes
  content : Bytes
  isBuffering : Bool := false
  deriving Repr, DecidableEq

/-- `x as i32` for a `usize` (two's complement truncation to 32 bits) -/
def asI32 (n : Nat) : Int :=
  let m := n % 4294967296
  if m < 2147483648 then (m : Int) else (m : Int) - 4294967296

theorem pos_of_asI32_pos {n : Nat} (h : asI32 n > 0) : 0 < n := by
  unfold asI32 at h
  rcases Nat.eq_zero_or_pos n with rfl | hp
  · simp at h
  · exact hp

theorem asI32_small {n : Nat} (h : n < 2147483648) : asI32 n = n := by
  unfold asI32
  have : n % 4294967296 = n := Nat.mod_eq_of_lt (by omega)
  simp [this, h]

/-- `usize` subtraction: `none` = underflow panic (debug) -/
def checkedSub (a b : Nat) : Option Nat := if b ≤ a then some (a - b) else none

namespace PV

def hasSel (v : PV) : Bool :=
  match v.sel with
  | some s => !s.isEmpty
  | none => false

/-- the invariant the constructor establishes: `position < element_tree.len()` -/
def WF (v : PV) : Prop := v.position < v.tree.length

/-- `HtmlBodyVisitor::new`: `None` for an empty `element_tree` or an unknown action -/
def new (action : String) (path : List Bytes) (sel : Option Bytes) (value : Bytes) : Option PV :=
  if path.isEmpty then none
  else if action = Rio.Consts.filterActionAppend then some { kind := .append, tree := path, position := 0, sel := sel, content := value }
  else if action = Rio.Consts.filterActionPrepend then some { kind := .prepend, tree := path, position := 0, sel := sel, content := value }
  else if action = Rio.Consts.filterActionReplace then some { kind := .replace, tree := path, position := 0, sel := sel, content := value }
  else none

/-- `first()`: `self.element_tree[0]` -/
def first (v : PV) : Option Bytes := v.tree[0]?

/-- `enter(data)`; `none` = an `element_tree[..]` index out of range -/
def enter (v : PV) (data : Bytes) : Option ((Option Bytes × Option Bytes × Bool × Bytes) × PV) :=
  match v.tree[v.position]? with
  | none => none
  | some cur =>
    let nextLeave := some cur
    if v.position + 1 < v.tree.length then
      let v' := { v with position := v.position + 1 }
      match v'.tree[v'.position]? with
      | none => none
      | some nxt => some ((some nxt, nextLeave, false, data), v')
    else
      match v.kind with
      | .append => some ((none, nextLeave, v.hasSel, data), v)
      | .prepend =>
        if !v.hasSel then some ((none, nextLeave, v.isBuffering, data ++ v.content), v)
        else some ((none, nextLeave, true, data), { v with isBuffering := true })
      | .replace => some ((none, nextLeave, true, data), { v with isBuffering := true })

/-- the `next_leave` computation: `if self.position as i32 > 0 [&& guard] { self.position -= 1; Some(tree[position]) }` -/
def leaveMove (v : PV) (guard : Bool) : Option (Option Bytes × PV) :=
  if asI32 v.position > 0 ∧ guard then
    match checkedSub v.position 1 with
    | none => none
    | some p =>
      let v' := { v with position := p }
      match v'.tree[p]? with
      | none => none
      | some c => some (some c, v')
  else some (none, v)

/-- `leave(data)`; `none` = panic -/
def leave (tk : Tokenize) (ev : Bytes → Bytes → Bool) (v : PV) (data : Bytes) :
    Option ((Option Bytes × Option Bytes × Bytes) × PV) :=
  match v.tree[v.position]? with
  | none => none
  | some cur =>
    let nextEnter := some cur
    match v.kind with
    | .append =>
      let isProcessing := decide (v.position + 1 ≥ v.tree.length)
      match v.leaveMove true with
      | none => none
      | some (nextLeave, v1) =>
        if isProcessing then
          if v.hasSel then
            if !ev data (v.sel.getD []) then some ((nextEnter, nextLeave, appendChild tk data v.content), v1)
            else some ((nextEnter, nextLeave, data), v1)
          else some ((nextEnter, nextLeave, v.content ++ data), v1)
        else some ((nextEnter, nextLeave, data), v1)
    | .prepend =>
      match v.leaveMove true with
      | none => none
      | some (nextLeave, v1) =>
        if v.isBuffering && v.hasSel then
          let v2 := { v1 with isBuffering := false }
          if !ev data (v.sel.getD []) then some ((nextEnter, nextLeave, prependChild tk data v.content), v2)
          else some ((nextEnter, nextLeave, data), v2)
        else some ((nextEnter, nextLeave, data), v1)
    | .replace =>
      match v.leaveMove (!v.isBuffering) with
      | none => none
      | some (nextLeave, v1) =>
        if v.isBuffering then
          let v2 := { v1 with isBuffering := false }
          if !v.hasSel then some ((nextEnter, nextLeave, v.content), v2)
          else if ev data (v.sel.getD []) then some ((nextEnter, nextLeave, v.content), v2)
          else some ((nextEnter, nextLeave, data), v2)
        else some ((nextEnter, nextLeave, data), v1)

/-- the zipper of the model: `before` reversed, `cur = tree[position]`, `after` -/
def abs (v : PV) : Visitor :=
  { kind := v.kind, before := (v.tree.take v.position).reverse, cur := v.tree.getD v.position [],
    after := v.tree.drop (v.position + 1), sel := v.sel, content := v.content, isBuffering := v.isBuffering }

end PV

/-! ### the visitor never panics and is the zipper of the model -/

theorem new_wf {action : String} {path : List Bytes} {sel : Option Bytes} {value : Bytes} {v : PV}
    (h : PV.new action path sel value = some v) : v.WF ∧ PV.new action path sel value = some v ∧
      Visitor.new action path sel value = some v.abs := by
  refine ⟨?_, h, ?_⟩
  · unfold PV.new at h
    cases path with
    | nil => simp at h
    | cons p ps =>
      simp only [List.isEmpty_cons, Bool.false_eq_true, if_false] at h
      repeat' split at h
      all_goals first | (injection h with h; subst h; simp [PV.WF]) | simp at h
  · unfold PV.new at h
    unfold Visitor.new
    cases path with
    | nil => simp at h
    | cons p ps =>
      simp only [List.isEmpty_cons, Bool.false_eq_true, if_false] at h ⊢
      repeat' split at h
      all_goals first
        | (injection h with h; subst h; simp_all [PV.abs])
        | simp at h

theorem first_some (v : PV) (h : v.WF) : ∃ f, v.first = some f := by
  unfold PV.first PV.WF at *
  have : 0 < v.tree.length := by omega
  exact ⟨v.tree[0], by simp [this]⟩

theorem getElem?_of_wf (v : PV) (h : v.WF) : v.tree[v.position]? = some (v.tree.getD v.position []) := by
  unfold PV.WF at h
  simp [List.getD, h]

theorem abs_after_ne (v : PV) (h : v.WF) : (v.abs.after ≠ []) ↔ v.position + 1 < v.tree.length := by
  simp [PV.abs, List.drop_eq_nil_iff]

theorem abs_before_ne (v : PV) (h : v.WF) : (v.abs.before ≠ []) ↔ 0 < v.position := by
  unfold PV.WF at h
  simp only [PV.abs, ne_eq, List.reverse_eq_nil_iff, List.take_eq_nil_iff, not_or]
  constructor
  · intro ⟨h1, _⟩; omega
  · intro hp; constructor
    · omega
    · intro hc; rw [hc] at h; simp at h

theorem abs_advance (v : PV) (h : v.position + 1 < v.tree.length) :
    ({ v with position := v.position + 1 } : PV).abs = v.abs.advance := by
  have hd : v.tree.drop (v.position + 1) = v.tree[v.position + 1] :: v.tree.drop (v.position + 2) := by
    rw [List.drop_eq_getElem_cons h]
  have hlt : v.position < v.tree.length := by omega
  simp only [PV.abs, Visitor.advance, hd]
  simp only [List.getD, List.getElem?_eq_getElem h, List.getElem?_eq_getElem hlt, Option.getD_some]
  congr 1
  rw [List.take_add_one, List.getElem?_eq_getElem hlt]
  simp

theorem abs_retreat (v : PV) (h : v.WF) (hp : 0 < v.position) :
    ({ v with position := v.position - 1 } : PV).abs = v.abs.retreat := by
  unfold PV.WF at h
  obtain ⟨p, hp'⟩ : ∃ p, v.position = p + 1 := ⟨v.position - 1, by omega⟩
  have hlt : p < v.tree.length := by omega
  have hlt1 : p + 1 < v.tree.length := by omega
  simp only [PV.abs, Visitor.retreat, hp', Nat.add_sub_cancel]
  rw [List.take_add_one, List.getElem?_eq_getElem hlt]
  simp only [Option.toList_some, List.reverse_append, List.reverse_cons, List.reverse_nil, List.nil_append,
    List.singleton_append]
  simp only [List.getD, List.getElem?_eq_getElem hlt, List.getElem?_eq_getElem hlt1, Option.getD_some]
  congr 1
  rw [List.drop_eq_getElem_cons hlt1]

/-- **`enter` never panics**, keeps `position < len`, and is the model's `enter`. -/
theorem enter_no_panic (v : PV) (data : Bytes) (h : v.WF) :
    ∃ r v', v.enter data = some (r, v') ∧ v'.WF ∧ v.abs.enter data = (r, v'.abs) := by
  unfold PV.enter
  rw [getElem?_of_wf v h]
  simp only
  by_cases hlt : v.position + 1 < v.tree.length
  · simp only [hlt, if_true]
    have hwf' : ({ v with position := v.position + 1 } : PV).WF := hlt
    rw [getElem?_of_wf _ hwf']
    refine ⟨_, _, rfl, hwf', ?_⟩
    have hne := (abs_after_ne v h).mpr hlt
    simp only [Visitor.enter, hne, ne_eq, not_false_eq_true, if_true]
    rw [← abs_advance v hlt]
    rfl
  · simp only [hlt, if_false]
    have hne : ¬ (v.abs.after ≠ []) := fun hc => hlt ((abs_after_ne v h).mp hc)
    cases hk : v.kind with
    | append =>
      refine ⟨_, _, rfl, h, ?_⟩
      simp only [Visitor.enter, hne, if_false]
      have : v.abs.kind = .append := hk
      simp only [this]
      rfl
    | prepend =>
      simp only
      by_cases hs : v.hasSel = true
      · simp only [hs, Bool.not_true, Bool.false_eq_true, if_false]
        refine ⟨_, _, rfl, h, ?_⟩
        simp only [Visitor.enter, hne, if_false]
        have : v.abs.kind = .prepend := hk
        have hs' : v.abs.hasSel = true := hs
        simp only [this, hs', Bool.not_true, Bool.false_eq_true, if_false]
        rfl
      · simp only [hs, Bool.not_false, if_true]
        refine ⟨_, _, rfl, h, ?_⟩
        simp only [Visitor.enter, hne, if_false]
        have : v.abs.kind = .prepend := hk
        have hs' : v.abs.hasSel = false := by show v.hasSel = false; simpa using hs
        simp only [this, hs', Bool.not_false, if_true]
        rfl
    | replace =>
      refine ⟨_, _, rfl, h, ?_⟩
      simp only [Visitor.enter, hne, if_false]
      have : v.abs.kind = .replace := hk
      simp only [this]
      rfl

/-- the guarded decrement never underflows and the following lookup is in range -/
theorem leaveMove_no_panic (v : PV) (g : Bool) (h : v.WF) :
    ∃ nl v', v.leaveMove g = some (nl, v') ∧ v'.WF ∧ v'.kind = v.kind ∧ v'.sel = v.sel ∧ v'.content = v.content ∧
      v'.isBuffering = v.isBuffering ∧
      (v.tree.length < 2147483648 → v.abs.leaveMove g = (nl, v'.abs)) := by
  unfold PV.leaveMove
  by_cases hc : asI32 v.position > 0 ∧ g = true
  · rw [if_pos hc]
    have hp := pos_of_asI32_pos hc.1
    have hsub : checkedSub v.position 1 = some (v.position - 1) := by simp [checkedSub]; omega
    rw [hsub]
    simp only
    have hwf' : ({ v with position := v.position - 1 } : PV).WF := by unfold PV.WF at *; simp; omega
    have := getElem?_of_wf _ hwf'
    simp only at this
    rw [this]
    refine ⟨_, _, rfl, hwf', rfl, rfl, rfl, rfl, ?_⟩
    intro _
    have hne := (abs_before_ne v h).mpr hp
    simp only [Visitor.leaveMove, hne, hc.2, ne_eq, not_false_eq_true, and_self, if_true]
    rw [← abs_retreat v h hp]
    rfl
  · rw [if_neg hc]
    refine ⟨none, v, rfl, h, rfl, rfl, rfl, rfl, ?_⟩
    intro hlen
    have hsm : asI32 v.position = v.position := asI32_small (by unfold PV.WF at h; omega)
    have hc' : ¬ (v.abs.before ≠ [] ∧ g = true) := by
      intro ⟨h1, h2⟩
      apply hc
      refine ⟨?_, h2⟩
      rw [hsm]
      exact_mod_cast (abs_before_ne v h).mp h1
    simp only [Visitor.leaveMove, hc', if_false]

theorem enter_tree (v : PV) (data : Bytes) (r : Option Bytes × Option Bytes × Bool × Bytes) (v' : PV)
    (h : v.enter data = some (r, v')) : v'.tree = v.tree := by
  unfold PV.enter at h
  cases h1 : v.tree[v.position]? with
  | none => simp [h1] at h
  | some cur =>
    simp only [h1] at h
    by_cases hlt : v.position + 1 < v.tree.length
    · simp only [hlt, if_true] at h
      cases h2 : v.tree[v.position + 1]? with
      | none => simp [h2] at h
      | some nxt =>
        simp only [h2] at h
        injection h with h; injection h with _ h2; subst h2; rfl
    · simp only [hlt, if_false] at h
      cases hk : v.kind <;> simp only [hk] at h
      · injection h with h; injection h with _ h2; subst h2; rfl
      · split at h <;> (injection h with h; injection h with _ h2; subst h2; rfl)
      · injection h with h; injection h with _ h2; subst h2; rfl

theorem leaveMove_tree (v : PV) (g : Bool) (nl : Option Bytes) (v' : PV)
    (h : v.leaveMove g = some (nl, v')) : v'.tree = v.tree := by
  unfold PV.leaveMove at h
  split at h
  · cases h1 : checkedSub v.position 1 with
    | none => simp [h1] at h
    | some p =>
      simp only [h1] at h
      cases h2 : v.tree[p]? with
      | none => simp [h2] at h
      | some c =>
        simp only [h2] at h
        injection h with h; injection h with _ h2; subst h2; rfl
  · injection h with h; injection h with _ h2; subst h2; rfl

/-- **`leave` never panics**, keeps `position < len`, and (for paths shorter than 2^31 elements, where
`position as i32` is `position`) is the model's `leave`. -/
theorem leave_no_panic (tk : Tokenize) (ev : Bytes → Bytes → Bool) (v : PV) (data : Bytes) (h : v.WF) :
    ∃ r v', v.leave tk ev data = some (r, v') ∧ v'.WF ∧ v'.tree = v.tree ∧
      (v.tree.length < 2147483648 → v.abs.leave tk ev data = (r, v'.abs)) := by
  unfold PV.leave
  rw [getElem?_of_wf v h]
  simp only
  have hproc : decide (v.position + 1 ≥ v.tree.length) = decide (v.abs.after = []) := by
    have := abs_after_ne v h
    by_cases hc : v.position + 1 < v.tree.length
    · have h1 : v.abs.after ≠ [] := this.mpr hc
      simp [h1]; omega
    · have h1 : v.abs.after = [] := by
        by_cases he : v.abs.after = []
        · exact he
        · exact absurd (this.mp he) hc
      simp [h1]; omega
  cases hk : v.kind with
  | append =>
    obtain ⟨nl, v1, e1, w1, k1, s1, c1, b1, r1⟩ := leaveMove_no_panic v true h
    simp only [e1]
    have hka : v.abs.kind = .append := hk
    have key : ∀ (hlen : v.tree.length < 2147483648), v.abs.leaveMove true = (nl, v1.abs) := r1
    by_cases hp : v.position + 1 ≥ v.tree.length
    · have hpa : v.abs.after = [] := by simpa [hp] using hproc
      simp only [hp, decide_true, if_true]
      by_cases hs : v.hasSel = true
      · have hsa : v.abs.hasSel = true := hs
        simp only [hs, if_true]
        by_cases he : ev data (v.sel.getD []) = true
        · simp only [he, Bool.not_true, Bool.false_eq_true, if_false]
          refine ⟨_, _, rfl, w1, by simpa using leaveMove_tree _ _ _ _ e1, fun hlen => ?_⟩
          have he' : ev data v.abs.selector = true := he
          simp [Visitor.leave, hka, hpa, hsa, he', key hlen]
          try (first | rfl | simp [PV.abs, List.getD, c1, b1, k1, s1])
        · simp only [he, Bool.not_false, if_true]
          refine ⟨_, _, rfl, w1, by simpa using leaveMove_tree _ _ _ _ e1, fun hlen => ?_⟩
          have he' : ev data v.abs.selector = false := by show ev data (v.sel.getD []) = false; simpa using he
          simp [Visitor.leave, hka, hpa, hsa, he', key hlen]
          try (first | rfl | simp [PV.abs, List.getD, c1, b1, k1, s1])
      · simp only [hs, Bool.false_eq_true, if_false]
        refine ⟨_, _, rfl, w1, by simpa using leaveMove_tree _ _ _ _ e1, fun hlen => ?_⟩
        have hsa : v.abs.hasSel = false := by show v.hasSel = false; simpa using hs
        simp [Visitor.leave, hka, hpa, hsa, key hlen]
        try (first | rfl | simp [PV.abs, List.getD, c1, b1, k1, s1])
    · have hpa : v.abs.after ≠ [] := by
        intro hc; rw [hc] at hproc; simp at hproc; omega
      simp only [hp, decide_false, Bool.false_eq_true, if_false]
      refine ⟨_, _, rfl, w1, by simpa using leaveMove_tree _ _ _ _ e1, fun hlen => ?_⟩
      simp [Visitor.leave, hka, hpa, key hlen]
      try (first | rfl | simp [PV.abs, List.getD, c1, b1, k1, s1])
  | prepend =>
    obtain ⟨nl, v1, e1, w1, k1, s1, c1, b1, r1⟩ := leaveMove_no_panic v true h
    simp only [e1]
    have hka : v.abs.kind = .prepend := hk
    by_cases hb : (v.isBuffering && v.hasSel) = true
    · have hba : (v.abs.isBuffering && v.abs.hasSel) = true := hb
      simp only [hb, if_true]
      by_cases he : ev data (v.sel.getD []) = true
      · simp only [he, Bool.not_true, Bool.false_eq_true, if_false]
        refine ⟨_, _, rfl, w1, by simpa using leaveMove_tree _ _ _ _ e1, fun hlen => ?_⟩
        have he' : ev data v.abs.selector = true := he
        simp [Visitor.leave, hka, hba, he', r1 hlen]
        try (first | rfl | simp [PV.abs, List.getD, c1, b1, k1, s1])
      · simp only [he, Bool.not_false, if_true]
        refine ⟨_, _, rfl, w1, by simpa using leaveMove_tree _ _ _ _ e1, fun hlen => ?_⟩
        have he' : ev data v.abs.selector = false := by show ev data (v.sel.getD []) = false; simpa using he
        simp [Visitor.leave, hka, hba, he', r1 hlen]
        try (first | rfl | simp [PV.abs, List.getD, c1, b1, k1, s1])
    · simp only [hb, Bool.false_eq_true, if_false]
      refine ⟨_, _, rfl, w1, by simpa using leaveMove_tree _ _ _ _ e1, fun hlen => ?_⟩
      have hba : (v.abs.isBuffering && v.abs.hasSel) = false := by
        show (v.isBuffering && v.hasSel) = false; simpa using hb
      simp [Visitor.leave, hka, hba, r1 hlen]
      try (first | rfl | simp [PV.abs, List.getD, c1, b1, k1, s1])
  | replace =>
    obtain ⟨nl, v1, e1, w1, k1, s1, c1, b1, r1⟩ := leaveMove_no_panic v (!v.isBuffering) h
    simp only [e1]
    have hka : v.abs.kind = .replace := hk
    have r1' : v.tree.length < 2147483648 → v.abs.leaveMove (!v.abs.isBuffering) = (nl, v1.abs) := r1
    by_cases hb : v.isBuffering = true
    · have hba : v.abs.isBuffering = true := hb
      simp only [hb, if_true]
      by_cases hs : v.hasSel = true
      · have hsa : v.abs.hasSel = true := hs
        simp only [hs, Bool.not_true, Bool.false_eq_true, if_false]
        by_cases he : ev data (v.sel.getD []) = true
        · simp only [he, if_true]
          refine ⟨_, _, rfl, w1, by simpa using leaveMove_tree _ _ _ _ e1, fun hlen => ?_⟩
          have he' : ev data v.abs.selector = true := he
          have := r1' hlen
          rw [hba] at this
          simp only [Bool.not_true, Bool.not_false] at this
          simp [Visitor.leave, hka, hba, hsa, he', this]
          try (first | rfl | simp [PV.abs, List.getD, c1, b1, k1, s1])
        · simp only [he, Bool.false_eq_true, if_false]
          refine ⟨_, _, rfl, w1, by simpa using leaveMove_tree _ _ _ _ e1, fun hlen => ?_⟩
          have he' : ev data v.abs.selector = false := by show ev data (v.sel.getD []) = false; simpa using he
          have := r1' hlen
          rw [hba] at this
          simp only [Bool.not_true, Bool.not_false] at this
          simp [Visitor.leave, hka, hba, hsa, he', this]
          try (first | rfl | simp [PV.abs, List.getD, c1, b1, k1, s1])
      · simp only [hs, Bool.not_false, if_true]
        refine ⟨_, _, rfl, w1, by simpa using leaveMove_tree _ _ _ _ e1, fun hlen => ?_⟩
        have hsa : v.abs.hasSel = false := by show v.hasSel = false; simpa using hs
        have := r1' hlen
        rw [hba] at this
        simp only [Bool.not_true, Bool.not_false] at this
        simp [Visitor.leave, hka, hba, hsa, this]
        try (first | rfl | simp [PV.abs, List.getD, c1, b1, k1, s1])
    · simp only [hb, Bool.false_eq_true, if_false]
      refine ⟨_, _, rfl, w1, by simpa using leaveMove_tree _ _ _ _ e1, fun hlen => ?_⟩
      have hba : v.abs.isBuffering = false := by show v.isBuffering = false; simpa using hb
      have := r1' hlen
      rw [hba] at this
      simp only [Bool.not_true, Bool.not_false] at this
      simp [Visitor.leave, hka, hba, this]
      try (first | rfl | simp [PV.abs, List.getD, c1, b1, k1, s1])

/-! ### `HtmlFilterBodyAction` over the explicit visitor -/

structure PSt where
  enter : Option Bytes
  leave : Option Bytes := none
  pv : PV
  stack : List Link := []
  last : Bytes := []
  /-- `last_context` (fe7eac6) -/
  ctx : Bytes := []

def PSt.abs (s : PSt) : HtmlSt :=
  { enter := s.enter, leave := s.leave, visitor := s.pv.abs, stack := s.stack, last := s.last, ctx := s.ctx }

/-- `HtmlFilterBodyAction::new`: `visitor.first()` is `element_tree[0]` -/
def PSt.new (v : PV) : Option PSt := v.first.map fun f => { enter := some f, pv := v }

/-- `on_start_tag_token`; `none` = panic -/
def ponStart (s : PSt) (name data : Bytes) : Option (PSt × Bytes) :=
  if s.enter = some name then
    match s.pv.enter data with
    | none => none
    | some ((ne, nl, startBuffer, data'), v') =>
      let s1 : PSt := { s with enter := ne, leave := nl, pv := v' }
      if startBuffer then some ({ s1 with stack := ⟨[], name⟩ :: s1.stack }, data') else some (s1, data')
  else some (s, data)

/-- `on_end_tag_token`; the `current_buffer.as_ref().unwrap()`s are under `current_buffer.is_some()`: pattern matches -/
def ponEnd (tk : Tokenize) (ev : Bytes → Bytes → Bool) (s : PSt) (name data : Bytes) : Option (PSt × Bytes) :=
  let tm := topMatches s.stack name
  let buffer := if tm then topBuffer s.stack ++ data else data
  let r : Option (PSt × Bytes) :=
    if s.leave = some name then
      match s.pv.leave tk ev buffer with
      | none => none
      | some ((ne, nl, b), v') => some ({ s with enter := ne, leave := nl, pv := v' }, b)
    else some (s, buffer)
  match r with
  | none => none
  | some (s1, buffer1) => if tm then some ({ s1 with stack := s1.stack.tail }, buffer1) else some (s1, buffer1)

def ppush (s : PSt) (out data : Bytes) : PSt × Bytes :=
  match s.stack with
  | l :: rest => ({ s with stack := { l with buffer := l.buffer ++ data } :: rest }, out)
  | [] => (s, out ++ data)

def pstepTok (tk : Tokenize) (ev : Bytes → Bytes → Bool) (so : PSt × Bytes) (t : Tok) : Option (PSt × Bytes) :=
  let (s, out) := so
  match t.kind with
  | .startTag =>
    match ponStart s t.name t.raw with
    | none => none
    | some (s1, d1) =>
      if isVoid t.name then
        match ponEnd tk ev s1 t.name d1 with
        | none => none
        | some (s2, d2) => some (ppush s2 out d2)
      else some (ppush s1 out d1)
  | .endTag =>
    match ponEnd tk ev s t.name t.raw with
    | none => none
    | some (s1, d1) => some (ppush s1 out d1)
  | .selfClosing =>
    match ponStart s t.name t.raw with
    | none => none
    | some (s1, d1) =>
      match ponEnd tk ev s1 t.name d1 with
      | none => none
      | some (s2, d2) => some (ppush s2 out d2)
  | _ => some (ppush s out t.raw)

def pfold (tk : Tokenize) (ev : Bytes → Bytes → Bool) : List Tok → PSt × Bytes → Option (PSt × Bytes)
  | [], so => some so
  | t :: ts, so =>
    match pstepTok tk ev so t with
    | none => none
    | some so' => pfold tk ev ts so'

/-- `HtmlFilterBodyAction::filter` (since fe7eac6: the tokenizer is built with `new_fragment(data, last_context)`, the
loop stops at the first cut token; `raw_tag()` and `err()` are field reads): outer `none` = PANIC, inner `none` = `Err`
(invalid UTF-8).  `view` (Proofs/FilterStreamLaws.lean) = the tokens the loop processes, what it keeps, the context. -/
def pfilterHtml (tk : Tokenize) (ev : Bytes → Bytes → Bool) (s : PSt) (input : Bytes) : Option (Option (PSt × Bytes)) :=
  match utf8Split (s.last ++ input) with
  | none => some none
  | some (data, pending) =>
    match pfold tk ev (view tk s.ctx data).todo (s, []) with
    | none => none
    | some (s', out) =>
      some (some ({ s' with last := (view tk s.ctx data).tail ++ pending, ctx := (view tk s.ctx data).ctx' }, out))

/-! ### no panic, and the explicit stage is the model's stage -/

/-- paths shorter than 2^31 elements (`position as i32` is then `position`; only used for the refinement) -/
def Small (s : PSt) : Prop := s.pv.tree.length < 2147483648

theorem ponStart_ok (s : PSt) (name data : Bytes) (h : s.pv.WF) :
    ∃ s1 d1, ponStart s name data = some (s1, d1) ∧ s1.pv.WF ∧ s1.pv.tree = s.pv.tree ∧
      onStart s.abs name data = (s1.abs, d1) := by
  unfold ponStart
  rw [onStart_eq]
  by_cases he : s.enter = some name
  · have he' : s.abs.enter = some name := he
    rw [if_pos he, if_pos he']
    obtain ⟨r, v', e, w, ab⟩ := enter_no_panic s.pv data h
    obtain ⟨ne, nl, sb, d'⟩ := r
    have ht := enter_tree _ _ _ _ e
    rw [e]
    simp only
    have ab' : s.abs.visitor.enter data = ((ne, nl, sb, d'), v'.abs) := ab
    rw [ab']
    simp only
    by_cases hb : sb = true
    · simp only [hb, if_true]
      exact ⟨_, _, rfl, w, ht, rfl⟩
    · simp only [hb, Bool.false_eq_true, if_false]
      exact ⟨_, _, rfl, w, ht, rfl⟩
  · have he' : ¬ s.abs.enter = some name := he
    rw [if_neg he, if_neg he']
    exact ⟨s, data, rfl, h, rfl, rfl⟩

theorem ponEnd_ok (tk : Tokenize) (ev : Bytes → Bytes → Bool) (s : PSt) (name data : Bytes) (h : s.pv.WF) :
    ∃ s1 d1, ponEnd tk ev s name data = some (s1, d1) ∧ s1.pv.WF ∧ s1.pv.tree = s.pv.tree ∧
      (Small s → onEnd tk ev s.abs name data = (s1.abs, d1)) := by
  unfold ponEnd
  rw [onEnd_eq]
  simp only
  have hst : s.abs.stack = s.stack := rfl
  rw [hst]
  generalize (if topMatches s.stack name = true then topBuffer s.stack ++ data else data) = buffer
  by_cases hl : s.leave = some name
  · have hl' : s.abs.leave = some name := hl
    simp only [hl, hl', if_true]
    obtain ⟨r, v', e, w, ht, ab⟩ := leave_no_panic tk ev s.pv buffer h
    obtain ⟨ne, nl, b⟩ := r
    rw [e]
    simp only
    by_cases htm : topMatches s.stack name = true
    · simp only [htm, if_true]
      refine ⟨_, _, rfl, w, ht, fun hs => ?_⟩
      have ab' : s.abs.visitor.leave tk ev buffer = ((ne, nl, b), v'.abs) := ab hs
      rw [ab']
      rfl
    · simp only [htm, Bool.false_eq_true, if_false]
      refine ⟨_, _, rfl, w, ht, fun hs => ?_⟩
      have ab' : s.abs.visitor.leave tk ev buffer = ((ne, nl, b), v'.abs) := ab hs
      rw [ab']
      rfl
  · have hl' : ¬ s.abs.leave = some name := hl
    simp only [hl, hl', if_false]
    by_cases htm : topMatches s.stack name = true
    · simp only [htm, if_true]
      exact ⟨_, _, rfl, h, rfl, fun _ => rfl⟩
    · simp only [htm, Bool.false_eq_true, if_false]
      exact ⟨_, _, rfl, h, rfl, fun _ => rfl⟩

theorem ppush_ok (s : PSt) (out d : Bytes) :
    (ppush s out d).1.pv = s.pv ∧ push s.abs out d = ((ppush s out d).1.abs, (ppush s out d).2) := by
  unfold ppush push
  have hst : s.abs.stack = s.stack := rfl
  rw [hst]
  cases s.stack with
  | nil => exact ⟨rfl, rfl⟩
  | cons l rest => exact ⟨rfl, rfl⟩

/-- one iteration of the token loop: no panic, visitor stays well formed, and it is the model's `stepTok` -/
theorem pstepTok_ok (tk : Tokenize) (ev : Bytes → Bytes → Bool) (s : PSt) (out : Bytes) (t : Tok) (h : s.pv.WF) :
    ∃ s1 o1, pstepTok tk ev (s, out) t = some (s1, o1) ∧ s1.pv.WF ∧ s1.pv.tree = s.pv.tree ∧
      (Small s → stepTok tk ev (s.abs, out) t = (s1.abs, o1)) := by
  unfold pstepTok
  simp only
  cases hk : t.kind with
  | startTag =>
    simp only
    obtain ⟨s1, d1, e1, w1, t1, a1⟩ := ponStart_ok s t.name t.raw h
    rw [e1]
    simp only
    rw [stepTok_start tk ev _ out t hk, a1]
    by_cases hv : isVoid t.name = true
    · simp only [hv, if_true]
      obtain ⟨s2, d2, e2, w2, t2, a2⟩ := ponEnd_ok tk ev s1 t.name d1 w1
      rw [e2]
      simp only
      obtain ⟨p1, p2⟩ := ppush_ok s2 out d2
      refine ⟨(ppush s2 out d2).1, (ppush s2 out d2).2, rfl, by rw [p1]; exact w2, by rw [p1, t2, t1], fun hs => ?_⟩
      have hs1 : Small s1 := by unfold Small at *; rw [t1]; exact hs
      rw [a2 hs1, p2]
    · simp only [hv, Bool.false_eq_true, if_false]
      obtain ⟨p1, p2⟩ := ppush_ok s1 out d1
      refine ⟨(ppush s1 out d1).1, (ppush s1 out d1).2, rfl, by rw [p1]; exact w1, by rw [p1, t1], fun _ => ?_⟩
      rw [p2]
  | endTag =>
    simp only
    obtain ⟨s1, d1, e1, w1, t1, a1⟩ := ponEnd_ok tk ev s t.name t.raw h
    rw [e1]
    simp only
    obtain ⟨p1, p2⟩ := ppush_ok s1 out d1
    refine ⟨(ppush s1 out d1).1, (ppush s1 out d1).2, rfl, by rw [p1]; exact w1, by rw [p1, t1], fun hs => ?_⟩
    rw [stepTok_end tk ev _ out t hk, a1 hs, p2]
  | selfClosing =>
    simp only
    obtain ⟨s1, d1, e1, w1, t1, a1⟩ := ponStart_ok s t.name t.raw h
    rw [e1]
    simp only
    obtain ⟨s2, d2, e2, w2, t2, a2⟩ := ponEnd_ok tk ev s1 t.name d1 w1
    rw [e2]
    simp only
    obtain ⟨p1, p2⟩ := ppush_ok s2 out d2
    refine ⟨(ppush s2 out d2).1, (ppush s2 out d2).2, rfl, by rw [p1]; exact w2, by rw [p1, t2, t1], fun hs => ?_⟩
    have hs1 : Small s1 := by unfold Small at *; rw [t1]; exact hs
    rw [stepTok_self tk ev _ out t hk, a1]
    simp only
    rw [a2 hs1, p2]
  | text =>
    simp only
    obtain ⟨p1, p2⟩ := ppush_ok s out t.raw
    refine ⟨(ppush s out t.raw).1, (ppush s out t.raw).2, rfl, by rw [p1]; exact h, by rw [p1], fun _ => ?_⟩
    rw [stepTok_other tk ev _ out t (by simp [hk, isTagKind]), p2]
  | other =>
    simp only
    obtain ⟨p1, p2⟩ := ppush_ok s out t.raw
    refine ⟨(ppush s out t.raw).1, (ppush s out t.raw).2, rfl, by rw [p1]; exact h, by rw [p1], fun _ => ?_⟩
    rw [stepTok_other tk ev _ out t (by simp [hk, isTagKind]), p2]

theorem pfold_ok (tk : Tokenize) (ev : Bytes → Bytes → Bool) : ∀ (ts : List Tok) (s : PSt) (out : Bytes), s.pv.WF →
    ∃ s1 o1, pfold tk ev ts (s, out) = some (s1, o1) ∧ s1.pv.WF ∧ s1.pv.tree = s.pv.tree ∧
      (Small s → ts.foldl (stepTok tk ev) (s.abs, out) = (s1.abs, o1))
  | [], s, out, h => ⟨s, out, rfl, h, rfl, fun _ => rfl⟩
  | t :: ts, s, out, h => by
    obtain ⟨s1, o1, e1, w1, t1, a1⟩ := pstepTok_ok tk ev s out t h
    obtain ⟨s2, o2, e2, w2, t2, a2⟩ := pfold_ok tk ev ts s1 o1 w1
    refine ⟨s2, o2, by simp [pfold, e1, e2], w2, by rw [t2, t1], fun hs => ?_⟩
    have hs1 : Small s1 := by unfold Small at *; rw [t1]; exact hs
    rw [List.foldl_cons, a1 hs, a2 hs1]

/-- **`filter_no_panic`.**  For every tokenizer, selector oracle, input bytes and every state whose visitor satisfies
`position < element_tree.len()` (established by `HtmlBodyVisitor::new`, preserved here): `HtmlFilterBodyAction::filter`
with all its index / unwrap / subtraction sites explicit does not panic, keeps the invariant, and (for paths shorter
than 2^31 elements) returns exactly what the model `filterHtml` returns — `Err` on invalid UTF-8 included. -/
theorem filter_no_panic (tk : Tokenize) (ev : Bytes → Bytes → Bool) (s : PSt) (x : Bytes) (h : s.pv.WF) :
    ∃ r, pfilterHtml tk ev s x = some r ∧
      (match r with
       | none => filterHtml tk ev s.abs x = none
       | some (s', o) => s'.pv.WF ∧ s'.pv.tree = s.pv.tree ∧ (Small s → filterHtml tk ev s.abs x = some (s'.abs, o))) := by
  unfold pfilterHtml
  rw [filterHtml_view]
  have hl : s.abs.last = s.last := rfl
  have hc : s.abs.ctx = s.ctx := rfl
  rw [hl, hc]
  cases hsp : utf8Split (s.last ++ x) with
  | none => exact ⟨none, rfl, rfl⟩
  | some ap =>
    obtain ⟨data, pending⟩ := ap
    simp only
    obtain ⟨s1, o1, e1, w1, t1, a1⟩ := pfold_ok tk ev (view tk s.ctx data).todo s [] h
    rw [e1]
    refine ⟨_, rfl, w1, t1, fun hs => ?_⟩
    rw [a1 hs]
    rfl

/-- the freshly built stage: `first()` does not panic, the invariant holds, and it is the model's fresh stage -/
theorem new_no_panic (action : String) (path : List Bytes) (sel : Option Bytes) (value : Bytes) (v : PV)
    (h : PV.new action path sel value = some v) :
    ∃ s, PSt.new v = some s ∧ s.pv.WF ∧ s.abs = HtmlSt.new v.abs := by
  obtain ⟨hw, _, _⟩ := new_wf h
  obtain ⟨f, hf⟩ := first_some v hw
  refine ⟨{ enter := some f, pv := v }, by simp [PSt.new, hf], hw, ?_⟩
  have hpos : v.position = 0 := by
    unfold PV.new at h
    repeat' split at h
    all_goals first | (injection h with h; subst h; rfl) | simp at h
  simp only [PSt.abs, HtmlSt.new]
  congr 1
  unfold PV.first at hf
  simp only [Visitor.first, PV.abs, hpos, List.take_zero, List.reverse_nil]
  have : 0 < v.tree.length := by unfold PV.WF at hw; omega
  simp [List.getD, List.getElem?_eq_getElem this] at hf ⊢
  exact hf.symm ▸ rfl

/-! ### `tag_name().unwrap()` -/

open Rio.Html Rio.Html.Tokenizer in
/-- `tokenizeGo` (Model/FilterHtml.lean) where `tag_name()` returning `None` on a start / end / self-closing tag token
is a PANIC (`tag_name.unwrap()` in `filter` and `append_child`; `unwrap_or_default()` for start tags in `filter`). -/
def tokenizeGoS : Nat → Tokenizer → List Tok → Option (List Tok × Rio.Filter.Bytes)
  | 0, _, _ => none
  | n + 1, t, acc =>
    let t1 := t.next
    if t1.panic || t1.hang || t1.utf8Err then none
    else if t1.token == .error then
      match t1.raw, t1.buffered with
      | some r, some b => some (acc.reverse, r ++ b)
      | _, _ => none
    else
      match t1.raw with
      | none => none
      | some r =>
        if Tokenizer.isTagLike t1.token then
          match t1.tagName with
          | (.ok (some nm, _), t2) => tokenizeGoS n t2 ({ kind := kindOf t1.token, raw := r, name := nm } :: acc)
          | _ => none
        else tokenizeGoS n t1 ({ kind := kindOf t1.token, raw := r } :: acc)

open Rio.Html Rio.Html.Tokenizer in
/-- **The `unwrap()`s on `tag_name()` never fire**: on every input the strict tokenisation is the tokenisation the
model uses (from `Rio.C16.tag_name_some`: `tag_name()` is `Some` on every tag token). -/
theorem tag_name_unwrap_ok : ∀ (n : Nat) (t : Tokenizer) (acc : List Tok), Inv t →
    tokenizeGoS n t acc = tokenizeGo n t acc
  | 0, _, _, _ => rfl
  | n + 1, t, acc, hi => by
    have hi1 : Inv (next t) := next_inv' t hi
    rw [tokenizeGoS, tokenizeGo]
    split
    · rfl
    · split
      · rfl
      · cases hr : (next t).raw with
        | none => rfl
        | some r =>
          simp only
          by_cases hk : Tokenizer.isTagLike (next t).token = true
          · simp only [hk, if_true]
            have hs := (Rio.C16.tag_name_some t hi hk).1
            cases htn : tagName (next t) with
            | mk res t2 =>
              rw [htn] at hs
              simp only at hs
              cases res with
              | ok x =>
                obtain ⟨nm, b⟩ := x
                cases nm with
                | some nm =>
                  simp only
                  have hfr := tagName_frame (next t) (some nm, b) (by rw [htn]) hi1
                  rw [htn] at hfr
                  exact tag_name_unwrap_ok n t2 _ hfr.1
                | none =>
                  exfalso
                  split at hs <;> simp at hs
              | utf8Err => rfl
              | panic => rfl
          · simp only [hk, Bool.false_eq_true, if_false]
            exact tag_name_unwrap_ok n (next t) _ hi1

/-- on the level of the filters: the strict tokenisation of any buffer is `htmlTokenize?` -/
theorem htmlTokenize_unwrap_ok (bs : Rio.Filter.Bytes) :
    tokenizeGoS (bs.length + 2) (Rio.Html.Tokenizer.new bs.toArray) [] = htmlTokenize? bs :=
  tag_name_unwrap_ok _ _ [] ⟨Nat.le_refl _, ⟨Nat.zero_le _, rfl, rfl, rfl⟩, Rio.Html.Tokenizer.TagOk_nil⟩

/-! ### `level -= 1` in `append_child` (`level : i32`) -/

def i32ok (l : Int) : Bool := decide (-2147483648 ≤ l) && decide (l ≤ 2147483647)

/-- `append_child`'s loop with every `level += 1` / `level -= 1` checked for `i32` overflow (what a debug build does);
outer `none` = overflow panic -/
def appendChildGoP (child : Bytes) : List Tok → Bytes → Int → Bytes → Option (Option Bytes)
  | [], _, _, _ => some none
  | t :: ts, rest, level, out =>
    let level1 := if t.kind = .startTag then (if isVoid t.name then level else level + 1) else level
    -- `level += 1; if void { level -= 1 }`: the intermediate value is checked too
    if t.kind = .startTag ∧ !i32ok (level + 1) then none
    else if t.kind = .endTag then
      let level2 := level1 - 1
      if !i32ok level2 then none
      else if level2 = 0 then some (some (out ++ child ++ t.raw ++ rawsOf ts ++ rest))
      else appendChildGoP child ts rest level2 (out ++ t.raw)
    else appendChildGoP child ts rest level1 (out ++ t.raw)

/-- **No overflow of `level`**: `|level|` grows by at most one per token, so for a buffer of fewer than 2^31 - 1 tokens
(a fortiori for every buffer shorter than 2 GiB: `Rio.C16.token_count_le`) the checked loop is the model's loop. -/
theorem level_no_overflow (child : Bytes) : ∀ (ts : List Tok) (rest : Bytes) (level : Int) (out : Bytes),
    level.natAbs + ts.length < 2147483647 →
    appendChildGoP child ts rest level out = some (appendChildGo child ts rest level out)
  | [], rest, level, out, _ => by simp [appendChildGoP, appendChildGo]
  | t :: ts, rest, level, out, hb => by
    rw [appendChildGoP, appendChildGo]
    simp only [List.length_cons] at hb
    simp only
    have h1 : i32ok (level + 1) = true := by unfold i32ok; simp; omega
    have hne : ¬ (t.kind = TokKind.startTag ∧ (!i32ok (level + 1)) = true) := by simp [h1]
    rw [if_neg hne]
    generalize hl1 : (if t.kind = TokKind.startTag then (if isVoid t.name = true then level else level + 1) else level) = l1
    have hl1b : l1.natAbs ≤ level.natAbs + 1 := by
      rw [← hl1]; split
      · split <;> omega
      · omega
    by_cases he : t.kind = TokKind.endTag
    · simp only [he, if_true]
      have h2 : i32ok (l1 - 1) = true := by unfold i32ok; simp; omega
      simp only [h2, Bool.not_true, Bool.false_eq_true, if_false]
      by_cases hz : l1 - 1 = 0
      · simp [hz]
      · simp only [hz, if_false]
        have hst : ¬ t.kind = TokKind.startTag := by rw [he]; simp
        have : l1 = level := by rw [← hl1]; simp [hst]
        exact level_no_overflow child ts rest (l1 - 1) (out ++ t.raw) (by omega)
    · simp only [he, if_false]
      exact level_no_overflow child ts rest l1 (out ++ t.raw) (by omega)

/-! ### `data.split_off(err.valid_up_to())` -/

/-- `valid_up_to() <= data.len()`: the split of the UTF-8 prologue is in range -/
theorem split_off_in_range (d : Bytes) (n : Nat) (h : utf8Scan d = .incomplete n) : n ≤ d.length := by
  unfold utf8Scan at h
  obtain ⟨_, _, i3⟩ := utf8Go_spec d {} 0 0
  obtain ⟨_, j2⟩ := i3 n h
  rcases j2 with ⟨hn, _⟩ | ⟨a, r, _, hbs, _, hn, _⟩
  · omega
  · subst hbs; simp at hn ⊢; omega

/-! ### the `?` exits of `filter` / `append_child` / `prepend_child` other than the UTF-8 validation

They are all `String::from_utf8` on a slice of the buffer handed to the tokenizer: `tokenizer.next()?` (the tag name in
`read_start_tag`), `raw_as_string()?`, `buffered_as_string()?`, `tag_name()?`.  The buffer is always complete valid
UTF-8: in `filter` it is the validated part of `last_buffer ++ input` (`validated_data`); in `append_child` /
`prepend_child` it is a buffered element, valid by the invariant `HV` (`stage_strings_valid`: every `String` the stage
builds — output, buffers — is valid).  On a valid buffer the conversions succeed under the tokenizer law `TokValid`
(token boundaries are character boundaries): `raw_as_string_ok`, `buffered_as_string_ok`.  `next()` itself never
returns `Err` on any input: `next_never_err` (C16). -/

theorem validated_data {x data pending : Bytes} (h : utf8Split x = some (data, pending)) : V data :=
  V_utf8Split h

theorem raw_as_string_ok {tk : Tokenize} (hv : TokValidAll tk) {d : Bytes} (hd : V d) : ∀ t ∈ (tk d).1, V t.raw :=
  hv.plain d hd

theorem buffered_as_string_ok {tk : Tokenize} (hl : LosslessAll tk) (hv : TokValidAll tk) {d : Bytes} (hd : V d) (k : Nat) :
    V (rawsOf ((tk d).1.drop k) ++ (tk d).2) :=
  V_append (V_rawsOf fun t ht => hv.plain d hd t (List.mem_of_mem_drop ht)) (V_rest hl hv hd)

/-- the same in the loop of `filter` (stream tokenizer, remembered context): every token and what is kept are valid -/
theorem stream_strings_ok {tk : Tokenize} (hl : LosslessAll tk) (hv : TokValidAll tk) {c d : Bytes} (hc : Ctx c)
    (hd : V d) : (∀ t ∈ (view tk c d).all, V t.raw) ∧ V (view tk c d).tail ∧ V (view tk c d).rem :=
  ⟨view_all_V hv hc hd, view_tail_V hl hv hc hd, view_rem_V hl hv hc hd⟩

/-- every `String` the html stage builds is valid UTF-8: its output and its buffers (so every buffer handed to
`leave` / `append_child` / `prepend_child` is a valid `String`, as its Rust type says) -/
theorem stage_strings_valid {tk : Tokenize} (hl : LosslessAll tk) (hv : TokValidAll tk) (ev : Bytes → Bytes → Bool)
    (s s' : HtmlSt) (x o : Bytes) (hs : HV s) (hc : Ctx s.ctx) (h : filterHtml tk ev s x = some (s', o)) :
    HV s' ∧ Ctx s'.ctx ∧ V o :=
  filterHtml_V hl hv ev s s' x o hs hc h

/-- `Tokenizer::next()` never returns `Err`, on any input, after any number of calls -/
theorem next_never_err (bytes : Array Nat) (n : Nat) :
    (Rio.Html.Tokenizer.nexts n (Rio.Html.Tokenizer.new bytes)).utf8Err = false :=
  (Rio.C16.no_panic bytes n).2.2

end Rio.C07
