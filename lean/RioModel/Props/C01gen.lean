/-
C01 (rule matching is exact) — the leaf predicates for date, time of day, week day and ip range REGENERATED FROM
THE SOURCE.

`Rio.Consts.genRouteDateTimeMatch / genRouteTimeMatch / genRouteWeekdayMatch / genRouteIpMatchInRange /
NotInRange` are translated on every run from `match_datetime` of src/router/route_datetime.rs, route_time.rs,
route_weekday.rs and from `match_ip` of src/router/route_ip.rs (tools/consts.d/w4_translate.py, section
`w4_translate_time`).  Proofs/TimeGen.lean shows they are the hand-written primitives; here the `window_*`
theorems of Props/C01prim.lean are restated for the translated definitions, and the date / ip clauses of the
specification `sat` of `match_exact` are expressed through them — so a source change that alters a leaf
predicate (a `<` that becomes `<=`, swapped bounds, a dropped negation) breaks a proof, not only the
correspondence.  What stays abstract in the translation: chrono's values (bounds and instants are `Nat`s ordered
like the chrono values), `Weekday` equality, `AnyIpCidr::contains` (modelled and proved in Props/C01prim).
-/
import RioModel.Props.C01prim
import RioModel.Proofs.TimeGen
import RioModel.Proofs.RouterGen
set_option linter.unusedSimpArgs false

namespace Rio.C01
open Rio.Consts Rio.TimeWindow Rio.TimeGen

/-- the translated functions are the modelled ones (W1's primitives) -/
theorem gen_time_primitives_eq_model (w : Window) (r : RouteWeekday) (t : Nat) :
    genRouteDateTimeMatch w.start w.stop t = matchDateTime w t ∧
    genRouteTimeMatch w.start w.stop (timeOfDay t) = matchTime w t ∧
    genRouteWeekdayMatch r.days (TimeWindow.weekdayOf t) = r.matchDateTime t :=
  ⟨gen_matchDateTime w t, gen_matchTime w t, gen_matchWeekday r t⟩

/-- … and the router model's (W2): the date clause of `sat` is computed by the translated code -/
theorem gen_date_condition_eq_model (c : Router.DCond) (q : Router.Req) :
    c.eval q =
      match q.createdAt with
      | none => false
      | some t =>
        match c with
        | .dateRange rs => rs.any fun r => genRouteDateTimeMatch r.start r.stop t
        | .timeRange rs => rs.any fun r => genRouteTimeMatch r.start r.stop (Router.timeOfDay t)
        | .weekdays ws => genRouteWeekdayMatch ws (Router.weekdayOf t) :=
  gen_dcond c q

theorem gen_match_ip_eq_model (k : Cidr.RouteIp) (a : Cidr.IpAddr) (k' : Router.RouteIp) (a' : Router.Ip) :
    (k.matchIp a =
      match k with
      | .inRange c => genRouteIpMatchInRange Cidr.AnyIpCidr.contains c a
      | .notInRange c => genRouteIpMatchNotInRange Cidr.AnyIpCidr.contains c a) ∧
    (k'.matchIp a' =
      match k' with
      | .inRange c => genRouteIpMatchInRange Router.Cidr.contains c a'
      | .notInRange c => genRouteIpMatchNotInRange Router.Cidr.contains c a') :=
  ⟨gen_matchIp k a, gen_router_matchIp k' a'⟩

/-- **Window membership, closed form, for the regenerated code** (both `RouteDateTime` and `RouteTime`): start
inclusive, end exclusive, a missing bound is open. -/
theorem window_closed_form_gen (start stop : Option Nat) (t : Nat) :
    (genRouteDateTimeMatch start stop t = true ↔ (∀ s, start = some s → s ≤ t) ∧ (∀ e, stop = some e → t < e)) ∧
    (genRouteTimeMatch start stop t = true ↔ (∀ s, start = some s → s ≤ t) ∧ (∀ e, stop = some e → t < e)) := by
  have h := window_closed_form ⟨start, stop⟩ t
  exact ⟨by rw [genRouteDateTimeMatch_eq ⟨start, stop⟩ t]; exact h,
         by rw [genRouteTimeMatch_eq ⟨start, stop⟩ t]; exact h⟩

/-- **Boundary instants** of `[s, e)`, `s < e`, for the regenerated code. -/
theorem window_boundaries_gen {s e : Nat} (h : s < e) :
    genRouteDateTimeMatch (some s) (some e) s = true ∧ genRouteDateTimeMatch (some s) (some e) (e - 1) = true ∧
    genRouteDateTimeMatch (some s) (some e) e = false ∧
    (0 < s → genRouteDateTimeMatch (some s) (some e) (s - 1) = false) ∧
    genRouteTimeMatch (some s) (some e) s = true ∧ genRouteTimeMatch (some s) (some e) (e - 1) = true ∧
    genRouteTimeMatch (some s) (some e) e = false ∧
    (0 < s → genRouteTimeMatch (some s) (some e) (s - 1) = false) := by
  have hb := window_boundaries h
  have e1 := fun t => genRouteDateTimeMatch_eq ⟨some s, some e⟩ t
  have e2 := fun t => genRouteTimeMatch_eq ⟨some s, some e⟩ t
  simp only at e1 e2
  simp only [e1, e2]
  exact ⟨hb.1, hb.2.1, hb.2.2.1, hb.2.2.2, hb.1, hb.2.1, hb.2.2.1, hb.2.2.2⟩

/-- **Open bounds**, for the regenerated code. -/
theorem window_open_bounds_gen (t b : Nat) :
    genRouteDateTimeMatch none none t = true ∧
    (genRouteDateTimeMatch none (some b) t = true ↔ t < b) ∧
    (genRouteDateTimeMatch (some b) none t = true ↔ b ≤ t) ∧
    genRouteTimeMatch none none t = true ∧
    (genRouteTimeMatch none (some b) t = true ↔ t < b) ∧
    (genRouteTimeMatch (some b) none t = true ↔ b ≤ t) := by
  have h := window_open_bounds t b
  have e1 := fun (s e : Option Nat) => genRouteDateTimeMatch_eq ⟨s, e⟩ t
  have e2 := fun (s e : Option Nat) => genRouteTimeMatch_eq ⟨s, e⟩ t
  simp only at e1 e2
  simp only [e1, e2]
  exact ⟨h.1, h.2.1, h.2.2, h.1, h.2.1, h.2.2⟩

/-- **Midnight wrap**, for the regenerated `RouteTime::match_datetime`: a window whose end is not after its start
matches no instant. -/
theorem time_window_wrap_empty_gen {s e : Nat} (h : e ≤ s) (t : Nat) :
    genRouteTimeMatch (some s) (some e) (timeOfDay t) = false := by
  rw [gen_matchTime ⟨some s, some e⟩ t]
  exact time_window_wrap_empty h t

/-- Time-of-day windows are periodic, for the regenerated code. -/
theorem time_periodic_gen (start stop : Option Nat) (t : Nat) :
    genRouteTimeMatch start stop (timeOfDay (t + nsPerDay)) = genRouteTimeMatch start stop (timeOfDay t) := by
  rw [gen_matchTime ⟨start, stop⟩, gen_matchTime ⟨start, stop⟩]
  exact (time_periodic ⟨start, stop⟩ t).1

/-- PIN OF THE GENERATED TEXT (not a restated property).  Week-day membership for the regenerated code: exactly the listed days. -/
theorem weekday_member_gen (r : RouteWeekday) (t : Nat) :
    genRouteWeekdayMatch r.days (TimeWindow.weekdayOf t) = true ↔ TimeWindow.weekdayOf t ∈ r.days := by
  simp [genRouteWeekdayMatch]

/-- PIN OF THE GENERATED TEXT (not a restated property).  `not_in_range` for the regenerated arms: the negated form is the complement, whatever `contains` is. -/
theorem not_in_range_gen {κ β : Type} (contains : κ → β → Bool) (c : κ) (a : β) :
    genRouteIpMatchNotInRange contains c a = !genRouteIpMatchInRange contains c a := rfl

/-! ### Non-vacuity -/

example : genRouteTimeMatch (some 79200) (some 7200) (timeOfDay 1709247600) = false := by decide
example : genRouteDateTimeMatch (some 10) (some 20) 10 = true ∧ genRouteDateTimeMatch (some 10) (some 20) 20 = false := by
  decide

/-! ### `match_request` of the host / scheme / method / ip layers, regenerated (section `w4_translate_router`)

`Rio.Consts.genHostMatchRequest`, `genSchemeMatchRequest`, `genMethodMatchRequest`, `genIpMatchRequest` are translated
from src/router/request_matcher/{host,scheme,method,ip}.rs; Proofs/RouterGen.lean instantiates their parameters (next
layer, map / tree lookups, the entries of the iterated maps) from W2's layer states and proves them equal to W2's
`Host.matchReq`, `Scheme.matchReq`, `Method.matchReq`, `Ip.matchReq`.  `towerOpsGen E` is the router tower with the four
translated `match_request`s; `match_exact` and the any-host clauses are restated for it. -/

section RouterLayers
open Rio.Router Rio.RouterGen

/-- the four translated `match_request`s are the modelled ones, for every next layer `I`, state and request -/
theorem gen_layers_eq_model (I : MOps) {P : Type} [DecidableEq P] (H : HostCfg P) (q : Req)
    (sh : LState I (HKeyG P)) (ss : LState I String) (sm : LState I MKey) (si : LState I RouteIp) :
    genHost I H sh q = Host.matchReq H I sh q ∧ genScheme I ss q = Scheme.matchReq I ss q ∧
    genMethod I sm q = Method.matchReq I sm q ∧ genIp I si q = Ip.matchReq I si q :=
  ⟨genHost_eq I H sh q, genScheme_eq I ss q, genMethod_eq I sm q, genIp_eq I si q⟩

/-- hence the tower built from them is the modelled tower -/
theorem gen_tower_eq_model (E : Env) : towerOpsGen E = towerOps E := towerOpsGen_eq E

/-- **C01 main statement for the router whose scheme / host / ip / method `match_request` are the regenerated code.** -/
theorem match_exact_gen (E : Env) (R : List Route) (hR : NodupIds R) (q : Req) :
    ((RouterG.matchReq (towerOpsGen E) (RouterG.build (towerOpsGen E) R) q).map (·.id)).Nodup ∧
    ∀ r, r ∈ RouterG.matchReq (towerOpsGen E) (RouterG.build (towerOpsGen E) R) q ↔ r ∈ R ∧ sat E R r q = true := by
  rw [towerOpsGen_eq]
  exact match_exact E R hR q

/-- **`always_any_host` for the regenerated code**: with `always_match_any_host` a rule is reported iff its seven
triggers accept the request. -/
theorem always_any_host_gen (E : Env) (hE : E.alwaysAnyHost = true) (R : List Route) (hR : NodupIds R) (q : Req)
    (r : Route) :
    r ∈ RouterG.matchReq (towerOpsGen E) (RouterG.build (towerOpsGen E) R) q ↔ r ∈ R ∧ triggersOk E r q = true := by
  rw [(match_exact_gen E R hR q).2 r, always_any_host E hE R r q]

/-- **`fallback_any_host` for the regenerated code**: without it a host-less rule is reported iff its triggers accept
the request and no host-bound rule of the same scheme scope has all its triggers accepted. -/
theorem fallback_any_host_gen (E : Env) (hE : E.alwaysAnyHost = false) (R : List Route) (hR : NodupIds R) (q : Req)
    (r : Route) :
    r ∈ RouterG.matchReq (towerOpsGen E) (RouterG.build (towerOpsGen E) R) q ↔
      r ∈ R ∧ triggersOk E r q = true ∧
        (hostBound r = true ∨
          ¬ ∃ r' ∈ R, hostBound r' = true ∧ schemeKey r' = schemeKey r ∧ triggersOk E r' q = true) := by
  rw [(match_exact_gen E R hR q).2 r, fallback_any_host E hE R r q]

/-- PIN OF THE GENERATED TEXT (not a restated property).  **The any-host clause, closed form of the translated `HostMatcher::match_request`** (any next layer, any lookups):
`bound` = the routes of the matching tree buckets followed by those of the static bucket; the any-host bucket is
appended iff `always_match_any_host` or `bound` is empty. -/
theorem host_any_clause_gen {ρ μ η : Type} (next : μ → List ρ) (treeFind : η → List μ) (staticGet : η → Option μ)
    (anyHost : μ) (always : Bool) (host : Option η) (bound : List ρ)
    (hb : bound =
      match host with
      | none => []
      | some h => (treeFind h).flatMap next ++ ((staticGet h).map next).getD []) :
    Rio.Consts.genHostMatchRequest next treeFind staticGet anyHost always host =
      if always || bound.isEmpty then bound ++ next anyHost else bound :=
  genHostMatchRequest_closed next treeFind staticGet anyHost always host bound hb

/-- PIN OF THE GENERATED TEXT (not a restated property).  **The method clause, closed form of the translated `MethodMatcher::match_request`**: the any-method bucket, then the
bucket of the request method, then every exclude bucket whose list does not contain the method. -/
theorem method_clause_gen {ρ μ η ε : Type} (next : μ → List ρ) (listed : ε → η → Bool) (methodsGet : η → Option μ)
    (excl : List (ε × μ)) (anyMethod : μ) (m : η) :
    Rio.Consts.genMethodMatchRequest next listed methodsGet excl anyMethod m =
      next anyMethod ++ ((methodsGet m).map next).getD [] ++
        excl.flatMap (fun e => if !listed e.1 m then next e.2 else []) := by
  unfold Rio.Consts.genMethodMatchRequest
  simp only [methodLoop_eq]
  cases methodsGet m <;> simp

/-- PIN OF THE GENERATED TEXT (not a restated property).  **The ip clause incl. report-once, closed form of the translated `IpMatcher::match_request`**: without a remote
address only the no-ip bucket; otherwise every bucket whose range matches contributes the routes whose id is not
listed yet (`pushNew`). -/
theorem ip_clause_gen {μ κ α : Type} (next : μ → List Route) (matchIp : κ → α → Bool) (matchers : List (κ × μ))
    (noMatcher : μ) (addr : Option α) :
    Rio.Consts.genIpMatchRequest next matchIp (fun r : Route => r.id) matchers noMatcher addr =
      match addr with
      | none => next noMatcher
      | some a => matchers.foldl (fun acc e => if matchIp e.1 a then pushNew acc (next e.2) else acc) (next noMatcher) := by
  unfold Rio.Consts.genIpMatchRequest
  cases addr with
  | none => rfl
  | some a => simp only [ipLoop1_eq]

/-- PIN OF THE GENERATED TEXT (not a restated property).  **The scheme clause, closed form of the translated `SchemeMatcher::match_request`.** -/
theorem scheme_clause_gen {ρ μ η : Type} (next : μ → List ρ) (schemesGet : η → Option μ) (anyScheme : μ)
    (scheme : Option η) :
    Rio.Consts.genSchemeMatchRequest next schemesGet anyScheme scheme =
      next anyScheme ++ ((scheme.bind schemesGet).map next).getD [] := by
  unfold Rio.Consts.genSchemeMatchRequest
  cases scheme with
  | none => simp
  | some sc => simp only [Option.bind_some]; cases schemesGet sc <;> simp

end RouterLayers

end Rio.C01
