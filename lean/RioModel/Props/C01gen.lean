/-
C01 (rule matching is exact) — the leaf predicates for date, time of day, week day and ip range REGENERATED FROM
THE SOURCE.

`Rio.Consts.genRouteDateTimeMatch / genRouteTimeMatch / genRouteWeekdayMatch / genRouteIpMatchInRange /
NotInRange` are translated on every run from `match_datetime` of src/router/route_datetime.rs, route_time.rs,
route_weekday.rs and from `match_ip` of src/router/route_ip.rs (tools/consts.d/w4_translate.py, section
`w4_translate_time`).  Proofs/TimeGen.lean shows they are the hand-written primitives; here the `window_*`
theorems of Props/C01prim.lean are restated for the translated definitions, and the date / ip clauses of the
specification `sat` of `match_exact` are expressed through them — so a source change that alters a leaf
predicate (a `<` that becomes `<=`, swapped bounds, a dropped negation) breaks a proof, not only the
correspondence.  What stays abstract in the translation: chrono's values (bounds and instants are `Nat`s ordered
like the chrono values), `Weekday` equality, `AnyIpCidr::contains` (modelled and proved in Props/C01prim).
-/
import RioModel.Props.C01prim
import RioModel.Proofs.TimeGen
set_option linter.unusedSimpArgs false

namespace Rio.C01
open Rio.Consts Rio.TimeWindow Rio.TimeGen

/-- the translated functions are the modelled ones (W1's primitives) -/
theorem gen_time_primitives_eq_model (w : Window) (r : RouteWeekday) (t : Nat) :
    genRouteDateTimeMatch w.start w.stop t = matchDateTime w t ∧
    genRouteTimeMatch w.start w.stop (timeOfDay t) = matchTime w t ∧
    genRouteWeekdayMatch r.days (TimeWindow.weekdayOf t) = r.matchDateTime t :=
  ⟨gen_matchDateTime w t, gen_matchTime w t, gen_matchWeekday r t⟩

/-- … and the router model's (W2): the date clause of `sat` is computed by the translated code -/
theorem gen_date_condition_eq_model (c : Router.DCond) (q : Router.Req) :
    c.eval q =
      match q.createdAt with
      | none => false
      | some t =>
        match c with
        | .dateRange rs => rs.any fun r => genRouteDateTimeMatch r.start r.stop t
        | .timeRange rs => rs.any fun r => genRouteTimeMatch r.start r.stop (Router.timeOfDay t)
        | .weekdays ws => genRouteWeekdayMatch ws (Router.weekdayOf t) :=
  gen_dcond c q

theorem gen_match_ip_eq_model (k : Cidr.RouteIp) (a : Cidr.IpAddr) (k' : Router.RouteIp) (a' : Router.Ip) :
    (k.matchIp a =
      match k with
      | .inRange c => genRouteIpMatchInRange Cidr.AnyIpCidr.contains c a
      | .notInRange c => genRouteIpMatchNotInRange Cidr.AnyIpCidr.contains c a) ∧
    (k'.matchIp a' =
      match k' with
      | .inRange c => genRouteIpMatchInRange Router.Cidr.contains c a'
      | .notInRange c => genRouteIpMatchNotInRange Router.Cidr.contains c a') :=
  ⟨gen_matchIp k a, gen_router_matchIp k' a'⟩

/-- **Window membership, closed form, for the regenerated code** (both `RouteDateTime` and `RouteTime`): start
inclusive, end exclusive, a missing bound is open. -/
theorem window_closed_form_gen (start stop : Option Nat) (t : Nat) :
    (genRouteDateTimeMatch start stop t = true ↔ (∀ s, start = some s → s ≤ t) ∧ (∀ e, stop = some e → t < e)) ∧
    (genRouteTimeMatch start stop t = true ↔ (∀ s, start = some s → s ≤ t) ∧ (∀ e, stop = some e → t < e)) := by
  have h := window_closed_form ⟨start, stop⟩ t
  exact ⟨by rw [genRouteDateTimeMatch_eq ⟨start, stop⟩ t]; exact h,
         by rw [genRouteTimeMatch_eq ⟨start, stop⟩ t]; exact h⟩

/-- **Boundary instants** of `[s, e)`, `s < e`, for the regenerated code. -/
theorem window_boundaries_gen {s e : Nat} (h : s < e) :
    genRouteDateTimeMatch (some s) (some e) s = true ∧ genRouteDateTimeMatch (some s) (some e) (e - 1) = true ∧
    genRouteDateTimeMatch (some s) (some e) e = false ∧
    (0 < s → genRouteDateTimeMatch (some s) (some e) (s - 1) = false) ∧
    genRouteTimeMatch (some s) (some e) s = true ∧ genRouteTimeMatch (some s) (some e) (e - 1) = true ∧
    genRouteTimeMatch (some s) (some e) e = false ∧
    (0 < s → genRouteTimeMatch (some s) (some e) (s - 1) = false) := by
  have hb := window_boundaries h
  have e1 := fun t => genRouteDateTimeMatch_eq ⟨some s, some e⟩ t
  have e2 := fun t => genRouteTimeMatch_eq ⟨some s, some e⟩ t
  simp only at e1 e2
  simp only [e1, e2]
  exact ⟨hb.1, hb.2.1, hb.2.2.1, hb.2.2.2, hb.1, hb.2.1, hb.2.2.1, hb.2.2.2⟩

/-- **Open bounds**, for the regenerated code. -/
theorem window_open_bounds_gen (t b : Nat) :
    genRouteDateTimeMatch none none t = true ∧
    (genRouteDateTimeMatch none (some b) t = true ↔ t < b) ∧
    (genRouteDateTimeMatch (some b) none t = true ↔ b ≤ t) ∧
    genRouteTimeMatch none none t = true ∧
    (genRouteTimeMatch none (some b) t = true ↔ t < b) ∧
    (genRouteTimeMatch (some b) none t = true ↔ b ≤ t) := by
  have h := window_open_bounds t b
  have e1 := fun (s e : Option Nat) => genRouteDateTimeMatch_eq ⟨s, e⟩ t
  have e2 := fun (s e : Option Nat) => genRouteTimeMatch_eq ⟨s, e⟩ t
  simp only at e1 e2
  simp only [e1, e2]
  exact ⟨h.1, h.2.1, h.2.2, h.1, h.2.1, h.2.2⟩

/-- **Midnight wrap**, for the regenerated `RouteTime::match_datetime`: a window whose end is not after its start
matches no instant. -/
theorem time_window_wrap_empty_gen {s e : Nat} (h : e ≤ s) (t : Nat) :
    genRouteTimeMatch (some s) (some e) (timeOfDay t) = false := by
  rw [gen_matchTime ⟨some s, some e⟩ t]
  exact time_window_wrap_empty h t

/-- Time-of-day windows are periodic, for the regenerated code. -/
theorem time_periodic_gen (start stop : Option Nat) (t : Nat) :
    genRouteTimeMatch start stop (timeOfDay (t + nsPerDay)) = genRouteTimeMatch start stop (timeOfDay t) := by
  rw [gen_matchTime ⟨start, stop⟩, gen_matchTime ⟨start, stop⟩]
  exact (time_periodic ⟨start, stop⟩ t).1

/-- Week-day membership for the regenerated code: exactly the listed days. -/
theorem weekday_member_gen (r : RouteWeekday) (t : Nat) :
    genRouteWeekdayMatch r.days (TimeWindow.weekdayOf t) = true ↔ TimeWindow.weekdayOf t ∈ r.days := by
  simp [genRouteWeekdayMatch]

/-- `not_in_range` for the regenerated arms: the negated form is the complement, whatever `contains` is. -/
theorem not_in_range_gen {κ β : Type} (contains : κ → β → Bool) (c : κ) (a : β) :
    genRouteIpMatchNotInRange contains c a = !genRouteIpMatchInRange contains c a := rfl

/-! ### Non-vacuity -/

example : genRouteTimeMatch (some 79200) (some 7200) (timeOfDay 1709247600) = false := by decide
example : genRouteDateTimeMatch (some 10) (some 20) 10 = true ∧ genRouteDateTimeMatch (some 10) (some 20) 20 = false := by
  decide

end Rio.C01
