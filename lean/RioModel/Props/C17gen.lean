/-
C17 (the trace lists what matching returns) — `trace` of the two CONDITION-GROUP layers (HeaderMatcher, DateTimeMatcher) with
the "mimic cache behaviour" memo, REGENERATED FROM THE SOURCE.

`Rio.Consts.genHeaderTrace` / `genDateTimeTrace` (with `Loop1` = the group loop, `Loop2` = the loop over one group's
conditions: `matched`, `executed`, the memo written ONLY `if executed`, the per-condition payload with
`result: if executed { Some(..) } else { None }` and `cached`) are translated on every run from
src/router/request_matcher/header.rs / datetime.rs (tools/consts_dev/w15_memo.py → section `w15_memo`).  Abstract: the next
layer's `trace(request)` / `len()`, the condition evaluation, the memo (`BTreeMap::new / get / insert`), `Trace::new` (checked
by shape to be the plain constructor) and the two `TraceInfo` variants.  Proofs/RouterMemoGen.lean: for every memo
implementation simulating an association list, every next layer, state and request the translated functions are W2's
`DateTime.trace` / `Header.trace` — under `LensFit` (every bucket's `len()` is below 2^64: the code computes
`matcher.len() as u64`; without the bound the equality is FALSE of the unbounded model counts, `…_unbounded_fails`).
Two seeded defects (c02-5, r8a-3) were exactly a dropped `if executed` guard around the memo insertion of a `trace`: with
the guard dropped the generated text changes and `dtTraceLoop2_eq` / `hdTraceLoop2_eq` no longer hold.
-/
import RioModel.Props.C17
import RioModel.Proofs.RouterMemoGen
set_option linter.unusedSimpArgs false

namespace Rio.C17
open Rio.Consts Rio.Router Rio.RouterMemoGen

/-- **translated = model** for `trace` of both layers: every next layer, memo implementation, layer state whose bucket
lengths are `usize` values, request -/
theorem gen_memo_trace_eq_model {σd σh : Type} (I : MOps) (E : Env) (Md : MemoImpl σd DCond) (Mh : MemoImpl σh HCond)
    (sd : LState I (List DCond)) (sh : LState I (List HCond)) (q : Req) (hd : LensFit I sd) (hh : LensFit I sh) :
    genDateTimeTr I Md sd q = DateTime.trace I sd q ∧ genHeaderTr I E Mh sh q = Header.trace E I sh q :=
  ⟨genDateTimeTr_eq I Md sd q hd, genHeaderTr_eq I E Mh sh q hh⟩

/-- non-vacuity of `LensFit`: the empty layer, and any state whose buckets hold fewer than 2^64 routes -/
example (I : MOps) : LensFit I (lEmpty I : LState I (List DCond)) := by
  intro g hg; simp [lEmpty] at hg

/-- the statement without the bound -/
def TraceEqUnbounded : Prop :=
  ∀ (I : MOps) (s : LState I (List DCond)) (q : Req),
    genDateTimeTr I (MemoImpl.assoc DCond) s q = DateTime.trace I s q

/-- a next layer whose state is its own length -/
def lenOps : MOps where
  M := Nat
  empty := 0
  insert := fun _ n => n + 1
  remove := fun _ n => (n, none)
  batchRemove := fun _ n => n
  matchReq := fun _ _ => []
  trace := fun _ _ => []
  len := fun n => n
  cache := fun limit _ n => (n, limit)

/-- one empty group whose bucket has length 2^64 -/
def bigState : LState lenOps (List DCond) := ⟨(0 : Nat), [([], (2 ^ 64 : Nat))], 0⟩

def traceCounts : List Trace → List Nat
  | [] => []
  | .mk _ _ n _ _ :: ts => n :: traceCounts ts

/-- **Without the `usize` bound the equality is false** (of the MODEL's unbounded counts; no `usize` can hold the witness):
a bucket of 2^64 routes is traced with `count = 0` by the code's `as u64`, with `count = 2^64` by the model. -/
theorem gen_memo_trace_eq_model_unbounded_fails : ¬ TraceEqUnbounded := by
  intro h
  have := h lenOps bigState default
  have := congrArg traceCounts this
  simp [genDateTimeTr, genDateTimeTrace, genDateTimeTraceLoop1, genDateTimeTraceLoop2, DateTime.trace, traceGroups,
    traceGroup, traceCounts, lenOps, bigState, mkTraceM, genAsU64] at this

/-- the partial statement that holds (date-time layer, the model's own memo) -/
theorem gen_memo_trace_eq_model_partial (I : MOps) (s : LState I (List DCond)) (q : Req) (h : LensFit I s) :
    genDateTimeTr I (MemoImpl.assoc DCond) s q = DateTime.trace I s q :=
  genDateTimeTr_eq I _ s q h

/-- the translated loop over ONE group's conditions (`Loop2`) is `traceGroup`: same `matched`, the memo it leaves simulates
`traceGroup`'s — from every state (`matched`, `executed`, payload so far) -/
theorem gen_trace_group_eq_model {σ C μ τ ι ν χ : Type} [DecidableEq C] (M : MemoImpl σ C) (nextTrace : μ → List τ)
    (lenOf : μ → Nat) (ev : C → Bool) (condOf : C → χ) (nameOf : C → ν) (mv : χ → ν → Bool)
    (mk : Bool → Bool → Nat → List τ → ι → τ) (grpD : List (GenTraceInfoDateTimeCondition C) → ι)
    (grpH : List (GenTraceInfoHeaderCondition ν χ) → ι) (cs : List C) (s : σ) (l : List (C × Bool)) (m e : Bool)
    (isD : List (GenTraceInfoDateTimeCondition C)) (isH : List (GenTraceInfoHeaderCondition ν χ)) (h : M.R s l) :
    ((genDateTimeTraceLoop2 nextTrace lenOf M.new M.get M.insert ev mk grpD cs s m e isD).2.1 = (traceGroup ev cs m e l).1 ∧
      M.R (genDateTimeTraceLoop2 nextTrace lenOf M.new M.get M.insert ev mk grpD cs s m e isD).1 (traceGroup ev cs m e l).2) ∧
    ((genHeaderTraceLoop2 nextTrace lenOf M.new M.get M.insert condOf nameOf mv mk grpH cs s m e isH).2.1 =
        (traceGroup (fun c => mv (condOf c) (nameOf c)) cs m e l).1 ∧
      M.R (genHeaderTraceLoop2 nextTrace lenOf M.new M.get M.insert condOf nameOf mv mk grpH cs s m e isH).1
        (traceGroup (fun c => mv (condOf c) (nameOf c)) cs m e l).2) :=
  ⟨dtTraceLoop2_eq M nextTrace lenOf ev mk grpD cs s l m e isD h,
   hdTraceLoop2_eq M nextTrace lenOf condOf nameOf mv mk grpH cs s l m e isH h⟩

/-- **`trace_memo_exact` for the translated code** (both layers): from `matched = executed = true` and a memo state that
simulates a sound memo, the `matched` flag the translated loop ends with is the conjunction of the group's conditions, and
the memo it leaves again simulates a sound memo (this is what the `if executed` guard is for: without it a condition that
was evaluated but not "executed" would be memoised with `matched = false`). -/
theorem trace_memo_exact_gen {σ C μ τ ι ν χ : Type} [DecidableEq C] (M : MemoImpl σ C) (nextTrace : μ → List τ)
    (lenOf : μ → Nat) (ev : C → Bool) (condOf : C → χ) (nameOf : C → ν) (mv : χ → ν → Bool)
    (mk : Bool → Bool → Nat → List τ → ι → τ) (grpD : List (GenTraceInfoDateTimeCondition C) → ι)
    (grpH : List (GenTraceInfoHeaderCondition ν χ) → ι) (cs : List C) (s : σ) (l : List (C × Bool)) (h : M.R s l) :
    (MemoSound ev l →
      (genDateTimeTraceLoop2 nextTrace lenOf M.new M.get M.insert ev mk grpD cs s true true []).2.1 = cs.all ev ∧
      ∃ l', M.R (genDateTimeTraceLoop2 nextTrace lenOf M.new M.get M.insert ev mk grpD cs s true true []).1 l' ∧
        MemoSound ev l') ∧
    (MemoSound (fun c => mv (condOf c) (nameOf c)) l →
      (genHeaderTraceLoop2 nextTrace lenOf M.new M.get M.insert condOf nameOf mv mk grpH cs s true true []).2.1 =
        cs.all (fun c => mv (condOf c) (nameOf c)) ∧
      ∃ l', M.R (genHeaderTraceLoop2 nextTrace lenOf M.new M.get M.insert condOf nameOf mv mk grpH cs s true true []).1 l' ∧
        MemoSound (fun c => mv (condOf c) (nameOf c)) l') := by
  constructor
  · intro hs
    have e := dtTraceLoop2_eq M nextTrace lenOf ev mk grpD cs s l true true [] h
    have sp := trace_memo_exact ev cs l hs
    exact ⟨e.1.trans sp.1, _, e.2, sp.2⟩
  · intro hs
    have e := hdTraceLoop2_eq M nextTrace lenOf condOf nameOf mv mk grpH cs s l true true [] h
    have sp := trace_memo_exact (fun c => mv (condOf c) (nameOf c)) cs l hs
    exact ⟨e.1.trans sp.1, _, e.2, sp.2⟩

/-- **The per-condition payload of a traced group** (`TraceInfo::HeaderGroup / DateTimeGroup { conditions }`; not in the
hand-written model), both layers, from the state a group starts in and a memo simulating a sound one: one entry per
condition of the group, in order, carrying the condition (header: its name and value condition); `result` is
`Some(the condition's value)` while every earlier condition of the group held and `None` afterwards (`infoResults`) —
whether the value came from the memo or from an evaluation. -/
theorem trace_condition_results_gen {σ C μ τ ι ν χ : Type} [DecidableEq C] (M : MemoImpl σ C) (nextTrace : μ → List τ)
    (lenOf : μ → Nat) (ev : C → Bool) (condOf : C → χ) (nameOf : C → ν) (mv : χ → ν → Bool)
    (mk : Bool → Bool → Nat → List τ → ι → τ) (grpD : List (GenTraceInfoDateTimeCondition C) → ι)
    (grpH : List (GenTraceInfoHeaderCondition ν χ) → ι) (cs : List C) (s : σ) (l : List (C × Bool)) (h : M.R s l) :
    (MemoSound ev l →
      (genDateTimeTraceLoop2 nextTrace lenOf M.new M.get M.insert ev mk grpD cs s true true []).2.2.2.map (·.result) =
        infoResults ev cs true ∧
      (genDateTimeTraceLoop2 nextTrace lenOf M.new M.get M.insert ev mk grpD cs s true true []).2.2.2.map (·.condition) =
        cs) ∧
    (MemoSound (fun c => mv (condOf c) (nameOf c)) l →
      (genHeaderTraceLoop2 nextTrace lenOf M.new M.get M.insert condOf nameOf mv mk grpH cs s true true []).2.2.2.map
          (·.result) = infoResults (fun c => mv (condOf c) (nameOf c)) cs true ∧
      (genHeaderTraceLoop2 nextTrace lenOf M.new M.get M.insert condOf nameOf mv mk grpH cs s true true []).2.2.2.map
          (fun i => (i.name, i.condition)) = cs.map (fun c => (nameOf c, condOf c))) := by
  constructor
  · intro hs
    simpa using dtTraceLoop2_infos M nextTrace lenOf ev mk grpD cs s l true [] h hs
  · intro hs
    simpa using hdTraceLoop2_infos M nextTrace lenOf condOf nameOf mv mk grpH cs s l true [] h hs

/-- **`trace_routes` for the two layers, translated pair**: in every state of the layer that represents a rule list `L`
with distinct ids (`Repr` of the layer's law record: reached by any valid history, see C02) and whose bucket lengths are
`usize` values, the routes listed by `get_routes_from_traces` over the TRANSLATED `trace` are exactly the routes the
TRANSLATED `match_request` returns — for any next layer satisfying the layer laws. -/
theorem trace_routes_gen_layers {σd σh : Type} {I : MOps} (IL : MLaws I) (E : Env) (Md : MemoImpl σd DCond)
    (Mh : MemoImpl σh HCond) (q : Req) (r : Route) :
    (∀ (s : LState I (List DCond)) (L : List Route), (dateTimeLaws IL).Repr s L → UIds L → LensFit I s →
      (r ∈ routesOfList (genDateTimeTr I Md s q) ↔ r ∈ genDateTimeMatch I Md s q)) ∧
    (∀ (s : LState I (List HCond)) (L : List Route), (headerLaws IL E).Repr s L → UIds L → LensFit I s →
      (r ∈ routesOfList (genHeaderTr I E Mh s q) ↔ r ∈ genHeaderMatch I E Mh s q)) :=
  ⟨fun s L h hU hl => genDateTime_mem_routesOfList IL Md s L q r h hU hl,
   fun s L h hU hl => genHeader_mem_routesOfList IL E Mh s L q r h hU hl⟩

/-- non-vacuity: the empty layer represents the empty list -/
example {I : MOps} (IL : MLaws I) : (dateTimeLaws IL).Repr (dateTimeOps I).empty [] ∧ UIds ([] : List Route) :=
  ⟨(dateTimeLaws IL).repr_empty, by simp [UIds]⟩

/-- **`trace_lists_once` for the two layers**: every id is listed once by `get_routes_from_traces` over the translated
traces (unconditionally) -/
theorem trace_lists_once_gen_layers {σd σh : Type} (I : MOps) (E : Env) (Md : MemoImpl σd DCond) (Mh : MemoImpl σh HCond)
    (sd : LState I (List DCond)) (sh : LState I (List HCond)) (q : Req) :
    ((routesOfList (genDateTimeTr I Md sd q)).map (·.id)).Nodup ∧
    ((routesOfList (genHeaderTr I E Mh sh q)).map (·.id)).Nodup :=
  ⟨trace_lists_once _, trace_lists_once _⟩

/-! Evaluated example on the translated code (conditions are numbers, `even` the evaluation, bucket `m` has length `m` and
traces as `[m]`; a trace node is the tuple of the arguments of `Trace::new`).  Group `[3, 2]`: 3 fails, 2 is evaluated but
NOT executed (`result = None`) and NOT memoised; group `[2]`: 2 is evaluated again (`cached = false`) and matches. -/

example :
    genDateTimeTrace (τ := Nat ⊕ (Bool × Bool × Nat × List Nat × List (Option Bool × Nat × Bool)))
      (fun m : Nat => [Sum.inl m]) (fun m => m) (MemoImpl.inPlace Nat).new
      (MemoImpl.inPlace Nat).get (MemoImpl.inPlace Nat).insert (fun c => c % 2 == 0)
      (fun m e n ch info => Sum.inr (m, e, n, ch.filterMap (fun x => match x with | .inl a => some a | .inr _ => none), info))
      (fun is => is.map (fun i => (i.result, i.condition, i.cached))) 9 [([3, 2], 5), ([2], 6)] =
      [.inl 9, .inr (false, true, 5, [], [(some false, 3, false), (none, 2, false)]),
        .inr (true, true, 6, [6], [(some true, 2, false)])] := by
  rfl

end Rio.C17
