/-
`impl IntoRoute<Rule> for Rule` — what the conversion from a rule source to a route guarantees
(Model/IntoRoute.lean; tied to the code by the `into_route` cases of harness c05 / drv_c05, which
compare every field of the real `Route` with the model on generated rule JSON).

All theorems hold for ARBITRARY external parsers `P` (crates `cidr` / `chrono`).

Totality.  `intoRoute` is a total Lean function into `Route` (not into `Except Panic Route`): every
step of the Rust code is modelled by a total operation — parse errors are `Option`s that are dropped
or left open, `self.source.host.as_ref()?` is `Option.map`, there is no indexing, no `unwrap`, no
arithmetic that can overflow (`0 - rank as i64` with `rank : u16`).  So, as far as the model is
faithful (that is what the correspondence checks), `into_route` cannot panic on any deserialisable
rule; the remaining callee with its own panic sites is `MarkerString::new` (C10 / C07).
-/
import RioModel.Model.IntoRoute
import RioModel.Props.C02
set_option linter.unusedSimpArgs false

namespace Rio.C01
open Rio.Router Rio.IntoRoute

/-! ### identity, priority -/

theorem intoRoute_id (P : Parsers) (cfg : Cfg) (src : RuleSource) : (intoRoute P cfg src).id = src.id := rfl

/-- `priority = 0 - rank`: a higher rank is a lower priority, never positive. -/
theorem intoRoute_priority (P : Parsers) (cfg : Cfg) (src : RuleSource) :
    (intoRoute P cfg src).priority = 0 - (src.rank : Int) ∧ (intoRoute P cfg src).priority ≤ 0 := by
  refine ⟨rfl, ?_⟩
  show (0 : Int) - (src.rank : Int) ≤ 0
  omega

/-! ### no empty list is ever produced -/

theorem ite_isEmpty_ne {α : Type} (l : List α) : (if l.isEmpty then none else some l) ≠ some [] := by
  cases l <;> simp

/-- **`ips = Some([])` is never produced** — the well-formedness `WFRoute` that W2's
`remove_returns` (C02) needs holds of every route `IntoRoute` builds, for every source (also
`ips: []`, also when every cidr is unparsable). -/
theorem intoRoute_wf (P : Parsers) (cfg : Cfg) (src : RuleSource) : WFRoute (intoRoute P cfg src) := by
  unfold WFRoute intoRoute routeIps
  simp only
  cases src.ips with
  | none => simp
  | some l => exact ite_isEmpty_ne _

/-- The same for the three date constraints. -/
theorem intoRoute_no_empty_list (P : Parsers) (cfg : Cfg) (src : RuleSource) :
    (intoRoute P cfg src).ips ≠ some [] ∧ (intoRoute P cfg src).datetime ≠ some [] ∧
    (intoRoute P cfg src).time ≠ some [] ∧ (intoRoute P cfg src).weekdays ≠ some [] := by
  refine ⟨intoRoute_wf P cfg src, ?_, ?_, ?_⟩
  · exact ite_isEmpty_ne _
  · exact ite_isEmpty_ne _
  · unfold intoRoute routeWeekdays
    simp only
    cases src.weekdays with
    | none => simp
    | some l => exact ite_isEmpty_ne _

/-! ### ip ranges: unparsable cidrs are dropped, nothing else -/

/-- The route's ranges are exactly the parsable source ranges, in order, each with its polarity; the
trigger disappears altogether (`None` = any client) iff none is parsable. -/
theorem route_ips_spec (P : Parsers) (l : List IpSource) :
    let parsed := l.filterMap fun ip =>
      match P.cidr ip.range with
      | some c => some (if ip.neg then RouteIp.notInRange c else RouteIp.inRange c)
      | none => none
    routeIps P (some l) = if parsed = [] then none else some parsed := by
  intro parsed
  unfold routeIps
  show (if parsed.isEmpty then none else some parsed) = _
  cases parsed <;> simp

/-- A rule whose ip constraints are ALL unparsable loses its ip trigger: it applies to every client
(and to requests without a client address). -/
theorem unparsable_ips_match_everyone (P : Parsers) (l : List IpSource)
    (h : ∀ ip ∈ l, P.cidr ip.range = none) : routeIps P (some l) = none := by
  rw [route_ips_spec]
  have : (l.filterMap fun ip =>
      match P.cidr ip.range with
      | some c => some (if ip.neg then RouteIp.notInRange c else RouteIp.inRange c)
      | none => none) = [] := by
    rw [List.filterMap_eq_nil_iff]
    intro ip hip
    simp [h ip hip]
  simp [this]

/-! ### date windows: an unparsable bound becomes an OPEN bound -/

/-- `RouteDateTime::from_range` / `RouteTime::from_range`: the window is kept and the bound that
does not parse is dropped — a typo in a start (end) date makes the rule apply from the beginning
(until the end) of time. -/
theorem unparsable_bound_is_open (parse : String → Option Nat) (s e : String)
    (hs : parse s = none) :
    rangeOf parse (some s, some e) = ⟨none, parse e⟩ ∧
    rangeOf parse (some e, some s) = ⟨parse e, none⟩ ∧
    rangeOf parse (some s, none) = ⟨none, none⟩ := by
  simp [rangeOf, hs]

/-- … so a window with both bounds unparsable matches every instant. -/
theorem unparsable_window_matches_always (parse : String → Option Nat) (s e : String)
    (hs : parse s = none) (he : parse e = none) (t : Nat) :
    (rangeOf parse (some s, some e)).matchInstant t = true := by
  simp [rangeOf, hs, he, DRange.matchInstant]

/-- Unparsable week-day names are dropped; if none remains the trigger disappears. -/
theorem route_weekdays_spec (P : Parsers) (l : List String) :
    routeWeekdays P (some l) = if l.filterMap P.weekday = [] then none else some (l.filterMap P.weekday) := by
  unfold routeWeekdays
  cases h : l.filterMap P.weekday <;> simp [h]

/-! ### header conditions: the table of the nine kinds -/

/-- the kinds that carry a value, with the constructor they map to -/
def valueKinds : List (String × (String → HKind)) :=
  [("is_equals", .isEquals), ("is_not_equal_to", .isNotEqualTo), ("contains", .contains),
   ("does_not_contain", .doesNotContain), ("ends_with", .endsWith), ("starts_with", .startsWith)]

/-- `is_defined` / `is_not_defined`: no value needed, none used. -/
theorem header_defined (ic : Bool) (ms : List Char) (name : String) (v : Option String) :
    headerOf ic ms ⟨name, "is_defined", v⟩ = some ⟨name, .isDefined⟩ ∧
    headerOf ic ms ⟨name, "is_not_defined", v⟩ = some ⟨name, .isNotDefined⟩ := by
  simp [headerOf]

/-- The six value kinds: the constructor of the table, the value lower-cased iff
`ignore_header_case`; without a value the condition is skipped. -/
theorem header_value_kinds (ic : Bool) (ms : List Char) (name : String) (kf : String × (String → HKind))
    (hk : kf ∈ valueKinds) :
    (∀ v, headerOf ic ms ⟨name, kf.1, some v⟩ = some ⟨name, kf.2 (if ic then v.toLower else v)⟩) ∧
    headerOf ic ms ⟨name, kf.1, none⟩ = none := by
  simp only [valueKinds, List.mem_cons, List.mem_nil_iff, or_false] at hk
  rcases hk with rfl | rfl | rfl | rfl | rfl | rfl <;> simp [headerOf]

/-- `match_regex`: kept iff the value contains a listed marker (`MarkerString::new` returns `None`
otherwise); the pattern is NOT lower-cased. -/
theorem header_match_regex (ic : Bool) (ms : List Char) (name : String) (v : Option String) :
    headerOf ic ms ⟨name, "match_regex", v⟩ =
      match v with
      | none => none
      | some s =>
        if (tokenize ms s.toList).all Tok.isLit then none
        else some ⟨name, .matchRegex (tokenize ms s.toList)⟩ := by
  cases v <;> simp [headerOf]

/-- Every other `type` string is skipped (logged as unsupported), whatever its value: the table has
exactly nine entries, compared case-sensitively. -/
theorem header_unknown_kind (ic : Bool) (ms : List Char) (h : HeaderDesc)
    (hk : h.kind ∉ ["is_defined", "is_not_defined", "is_equals", "is_not_equal_to", "contains",
      "does_not_contain", "ends_with", "starts_with", "match_regex"]) :
    headerOf ic ms h = none := by
  simp only [List.mem_cons, List.mem_nil_iff, or_false, not_or] at hk
  obtain ⟨h1, h2, h3, h4, h5, h6, h7, h8, h9⟩ := hk
  unfold headerOf
  split <;> first | rfl | (rename_i heq; simp_all)

/-- The produced condition always carries the source's header name, unchanged (it is lower-cased
later, by `HeaderMatcher::insert`). -/
theorem header_name_kept (ic : Bool) (ms : List Char) (h : HeaderDesc) (rh : RouteHeader)
    (hr : headerOf ic ms h = some rh) : rh.name = h.name := by
  unfold headerOf at hr
  cases hv : h.value <;> cases ic <;> simp only [hv, Option.map] at hr <;> split at hr
  all_goals (try (cases hr <;> rfl))
  all_goals (try (split at hr <;> cases hr <;> rfl))

/-! ### `exclude_methods: Some(false)` is exclusion (DESIGN §6-O5) -/

private def o5Src (ex : Option Bool) : RuleSource :=
  { id := "m", rank := 1, scheme := none, host := none, path := [47, 97], query := none, markers := [],
    ips := none, methods := some ["GET"], excludeMethods := ex, headers := none,
    datetime := none, time := none, weekdays := none }

private def o5Cfg : Cfg := ⟨false, false, false, true⟩

private def o5Req (m : String) : Req :=
  { scheme := none, host := none, method := some m, headers := [], ip := none, createdAt := none,
    path := "/a" }

/-- Kernel-checked witness, through `IntoRoute` and the whole router: a rule with `methods: ["GET"]`
and `exclude_methods: false` does NOT match a `GET` request and DOES match a `POST` request — exactly
like `exclude_methods: true`, and unlike an absent flag. -/
theorem exclude_methods_false_is_exclusion :
    let E := envOf o5Cfg
    let answer (ex : Option Bool) (m : String) : List String :=
      ((Router.build E [intoRoute Parsers.std o5Cfg (o5Src ex)]).matchReq E (o5Req m)).map (·.id)
    answer (some false) "GET" = [] ∧ answer (some false) "POST" = ["m"] ∧
    answer (some true) "GET" = [] ∧ answer (some true) "POST" = ["m"] ∧
    answer none "GET" = ["m"] ∧ answer none "POST" = [] := by
  decide

end Rio.C01
