/-
C10 ∘ C08 ∘ C01 — a marker rule matches its instantiations through the whole router.

Setting.  `T : TEnv` is the environment of the router over the real regex-tree model (`towerTOps T`:
all seven matcher layers, `PathAndQueryMatcher` / `HostMatcher` with the radix tree of Model/Tree.lean);
`T.engine` is the regex engine, `T.render p` the regex string of the route's pattern handle `p`,
`T.icPath` / `T.icHost` the trees' case flags.  A rule with path template `t` and markers `ms`
(`(name, expression)` pairs) is a route `r` with `r.path = .dyn p` and
`T.render p = (Marker.build t ms).regex` – the string `MarkerString::new` builds (C10:
`regex_is_tokens`: it is the rendering of the token view `tokens t ms` when names are plain and
expressions contain no `@`).  `MarkerOnly r p ph`: no trigger other than that path and, optionally,
a marker host `ph`.  `RReprT T Good hPS S L`: `S` is any router state representing the live rules
`L` – every state reached by a valid history whose inserted rules satisfy `WF`
(`Rio.C02.repr_run_tree`; `…_run` corollaries below).

Engine laws assumed: ONE – `FullLaw E ic L ceq ts` = the field `full_iff` of W9's `EngineLaws`
(`^regex$` matches `s` iff `s` decomposes along the tokens), for `E.full T.icPath` on the path
tokens (and `E.full T.icHost` on the host tokens) – plus W1's `PrefixSound E Good` on the domain
`Good` of the stored patterns (what the tree needs).  Both are PROVED for W1's model engine
`engineOf G`, every meaning `G` of group bodies, with `L := markerLang G ic`, `ceq := litEq ic`,
`Good := GoodPat`, on templates whose groups are good (`TokGood`): `fullLaw_engineOf`
(Proofs/MarkerRouterBridge.lean: W9's and W1's renderings and escape tables coincide – `render_bridge`),
`Rio.C08.prefix_sound`; the `…_engineOf` theorems below have no engine hypothesis left.  The other four
`EngineLaws` fields (unanchored search, captures) are not needed for matching and have no counterpart in
W1's `Engine`.
-/
import RioModel.Proofs.MarkerRouterBridge
import RioModel.Props.C02
import RioModel.Model.RouterTreeParse
set_option linter.unusedSimpArgs false
set_option linter.unusedVariables false
set_option linter.unusedSectionVars false

namespace Rio.C10
open Rio.Router Rio.Bridge Rio.Regex Rio.Tree

section
variable (T : TEnv) (Good : List Char → Prop) (hPS : PrefixSound T.engine Good)
variable (S : RouterT T) (L : List Route) (hS : RReprT T Good hPS S L)

/-- the any-host clause for a host-less, any-scheme rule -/
def AnyHostOk (T : TEnv) (L : List Route) (q : Req) : Prop :=
  T.alwaysAnyHost = true ∨
    ∀ r' ∈ L, hostBound r' = true → schemeKey r' = none → triggersOk T.env r' q = false

include hS in
/-- membership of a marker-only rule in the match result, in terms of its regexes -/
theorem marker_rule_mem_iff (r : Route) (hr : r ∈ L) (p : Pat) (ph : Option Pat) (hm : MarkerOnly r p ph)
    (q : Req) :
    r ∈ RouterG.matchReq (towerTOps T) S q ↔
      triggersOk T.env r q = true ∧ (ph.isSome = true ∨ AnyHostOk T L q) := by
  rw [g_mem_match T.env _ (towerTSpec T Good hPS) S L hS q r]
  unfold sat AnyHostOk
  rw [hostBound_markerOnly r p ph hm, schemeKey_markerOnly r p ph hm]
  simp only [hr, true_and, Bool.and_eq_true, Bool.or_eq_true, Bool.not_eq_true', List.any_eq_false,
    Bool.and_eq_true, beq_iff_eq, not_and, Bool.not_eq_true]
  constructor
  · rintro ⟨h1, (h2 | h2) | h2⟩
    · exact ⟨h1, Or.inl h2⟩
    · exact ⟨h1, Or.inr (Or.inl h2)⟩
    · exact ⟨h1, Or.inr (Or.inr (fun r' hr' hb hs => h2 r' hr' ⟨hb, hs⟩))⟩
  · rintro ⟨h1, h2 | h2 | h2⟩
    · exact ⟨h1, Or.inl (Or.inl h2)⟩
    · exact ⟨h1, Or.inl (Or.inr h2)⟩
    · exact ⟨h1, Or.inr (fun r' hr' hbs => h2 r' hr' hbs.1 hbs.2)⟩

/-! ### path template -/

section path
variable (t : Marker.Str) (ms : List (Marker.Str × Marker.Str))
  (hplain : Marker.namesPlain ms = true) (hre : Marker.regexNoAt ms = true)
  (Lg : List Char → List Char → Prop) (ceq : Char → Char → Bool) (hrefl : ∀ c, ceq c c = true)
  (hlaw : FullLaw T.engine T.icPath Lg ceq (Marker.tokens t ms))
  (r : Route) (hr : r ∈ L) (p : Pat) (hm : MarkerOnly r p none)
  (hp : T.render p = (Marker.build t ms).regex)

include hplain hre hlaw hm hp in
/-- the rule's triggers hold iff the request path decomposes along the template -/
theorem marker_path_triggers (q : Req) :
    triggersOk T.env r q = true ↔ ∃ vs, Marker.Decomp Lg ceq (Marker.tokens t ms) q.path.toList vs := by
  rw [triggers_pathOnly T r p hm q, hp, (regex_is_tokens t ms hplain hre).1]
  exact hlaw q.path.toList

include hS hplain hre hrefl hlaw hr hm hp in
/-- **instantiation matches through the whole router**: if every marker value is accepted by its
expression, the request whose path is the instantiated template is answered with the rule – under
the any-host policy (the rule has no host): `always_match_any_host`, or no host-bound any-scheme
rule is fully satisfied by the request. -/
theorem marker_rule_matches (v : Marker.Str → Marker.Str)
    (hacc : ∀ n re, Marker.Tok.grp n re ∈ Marker.tokens t ms → Lg re (v n))
    (q : Req) (hq : q.path.toList = Marker.instOf (Marker.tokens t ms) v) (hany : AnyHostOk T L q) :
    r ∈ RouterG.matchReq (towerTOps T) S q := by
  rw [marker_rule_mem_iff T Good hPS S L hS r hr p none hm q]
  refine ⟨?_, Or.inr hany⟩
  rw [marker_path_triggers T t ms hplain hre Lg ceq hlaw r p hm hp q, hq]
  exact ⟨_, Marker.decomp_inst Lg ceq hrefl _ v hacc⟩

include hS hplain hre hrefl hlaw hr hm hp in
/-- **a rejected value does not match** (delimiter-separated template): if one marker value is
rejected by its expression, the rule is not in the answer – whatever else is in the router. -/
theorem marker_rule_rejected (v : Marker.Str → Marker.Str)
    (hdelim : Marker.Delimited Lg ceq v (Marker.tokens t ms))
    (n re : Marker.Str) (hmem : Marker.Tok.grp n re ∈ Marker.tokens t ms) (hrej : ¬ Lg re (v n))
    (q : Req) (hq : q.path.toList = Marker.instOf (Marker.tokens t ms) v) :
    r ∉ RouterG.matchReq (towerTOps T) S q := by
  rw [marker_rule_mem_iff T Good hPS S L hS r hr p none hm q]
  rintro ⟨h1, _⟩
  rw [marker_path_triggers T t ms hplain hre Lg ceq hlaw r p hm hp q, hq] at h1
  obtain ⟨vs, hvs⟩ := h1
  exact hrej ((Marker.decomp_unique Lg ceq hrefl v _ hdelim vs hvs).2 n re hmem)

include hS hplain hre hrefl hlaw hr hm hp in
/-- match ⇔ all values accepted (and the any-host policy lets the rule through), for
delimiter-separated templates -/
theorem marker_rule_match_iff (v : Marker.Str → Marker.Str)
    (hdelim : Marker.Delimited Lg ceq v (Marker.tokens t ms))
    (q : Req) (hq : q.path.toList = Marker.instOf (Marker.tokens t ms) v) :
    r ∈ RouterG.matchReq (towerTOps T) S q ↔
      (∀ n re, Marker.Tok.grp n re ∈ Marker.tokens t ms → Lg re (v n)) ∧ AnyHostOk T L q := by
  rw [marker_rule_mem_iff T Good hPS S L hS r hr p none hm q,
    marker_path_triggers T t ms hplain hre Lg ceq hlaw r p hm hp q, hq]
  simp only [Option.isSome_none, Bool.false_eq_true, false_or]
  constructor
  · rintro ⟨⟨vs, hvs⟩, h2⟩
    exact ⟨(Marker.decomp_unique Lg ceq hrefl v _ hdelim vs hvs).2, h2⟩
  · rintro ⟨h1, h2⟩
    exact ⟨⟨_, Marker.decomp_inst Lg ceq hrefl _ v h1⟩, h2⟩

end path

/-! ### path and host templates (a host-bound rule: no any-host clause) -/

section host
variable (t th : Marker.Str) (ms : List (Marker.Str × Marker.Str))
  (hplain : Marker.namesPlain ms = true) (hre : Marker.regexNoAt ms = true)
  (Lp Lh : List Char → List Char → Prop) (ceqp ceqh : Char → Char → Bool)
  (hreflp : ∀ c, ceqp c c = true) (hreflh : ∀ c, ceqh c c = true)
  (hlawp : FullLaw T.engine T.icPath Lp ceqp (Marker.tokens t ms))
  (hlawh : FullLaw T.engine T.icHost Lh ceqh (Marker.tokens th ms))
  (r : Route) (hr : r ∈ L) (p k : Pat) (hm : MarkerOnly r p (some k))
  (hp : T.render p = (Marker.build t ms).regex) (hk : T.render k = (Marker.build th ms).regex)

include hS hplain hre hreflp hreflh hlawp hlawh hr hm hp hk in
/-- a rule with marker host and marker path is answered for every request whose host and path
instantiate the two templates with accepted values -/
theorem marker_host_rule_matches (v : Marker.Str → Marker.Str)
    (haccp : ∀ n re, Marker.Tok.grp n re ∈ Marker.tokens t ms → Lp re (v n))
    (hacch : ∀ n re, Marker.Tok.grp n re ∈ Marker.tokens th ms → Lh re (v n))
    (q : Req) (hq : q.path.toList = Marker.instOf (Marker.tokens t ms) v)
    (hh : String) (hqh : q.host = some hh) (hhh : hh.toList = Marker.instOf (Marker.tokens th ms) v) :
    r ∈ RouterG.matchReq (towerTOps T) S q := by
  rw [marker_rule_mem_iff T Good hPS S L hS r hr p (some k) hm q]
  refine ⟨?_, Or.inl rfl⟩
  rw [triggers_hostPath T r p k hm q hh hqh, hp, hk, (regex_is_tokens t ms hplain hre).1,
    (regex_is_tokens th ms hplain hre).1]
  simp only [Bool.and_eq_true]
  exact ⟨(hlawh _).2 (hhh ▸ ⟨_, Marker.decomp_inst Lh ceqh hreflh _ v hacch⟩),
    (hlawp _).2 (hq ▸ ⟨_, Marker.decomp_inst Lp ceqp hreflp _ v haccp⟩)⟩

include hS hplain hre hreflp hreflh hlawp hlawh hr hm hp hk in
/-- … and not when a value of the host template is rejected (delimiter-separated host template) -/
theorem marker_host_rule_rejected (v : Marker.Str → Marker.Str)
    (hdelim : Marker.Delimited Lh ceqh v (Marker.tokens th ms))
    (n re : Marker.Str) (hmem : Marker.Tok.grp n re ∈ Marker.tokens th ms) (hrej : ¬ Lh re (v n))
    (q : Req) (hh : String) (hqh : q.host = some hh)
    (hhh : hh.toList = Marker.instOf (Marker.tokens th ms) v) :
    r ∉ RouterG.matchReq (towerTOps T) S q := by
  rw [marker_rule_mem_iff T Good hPS S L hS r hr p (some k) hm q]
  rintro ⟨h1, _⟩
  rw [triggers_hostPath T r p k hm q hh hqh, hk, (regex_is_tokens th ms hplain hre).1] at h1
  simp only [Bool.and_eq_true] at h1
  obtain ⟨vs, hvs⟩ := (hlawh _).1 h1.1
  rw [hhh] at hvs
  exact hrej ((Marker.decomp_unique Lh ceqh hreflh v _ hdelim vs hvs).2 n re hmem)

end host
end

/-! ### "inserted in any state reached by a valid history" -/

/-- The rule is inserted (fresh id, patterns in the domain) into any represented state: it is live
afterwards, so the theorems above apply to it with `L := r :: L`. -/
theorem marker_rule_inserted (T : TEnv) (Good : List Char → Prop) (hPS : PrefixSound T.engine Good)
    (S : RouterT T) (L : List Route) (hS : RReprT T Good hPS S L) (r : Route)
    (hfresh : r.id ∉ L.map (·.id)) (hg : TreeGood T Good r) :
    RReprT T Good hPS (RouterG.insert (towerTOps T) r S) (r :: L) ∧ r ∈ r :: L :=
  ⟨g_insert T.env _ (towerTSpec T Good hPS) S L r hS hfresh hg, List.mem_cons_self ..⟩

/-- The states reached by valid histories whose inserted rules satisfy `WF` are represented states
(this is `Rio.C02.repr_run_tree` from the empty router). -/
theorem history_state_represented (T : TEnv) (Good : List Char → Prop) (hPS : PrefixSound T.engine Good)
    (h : List Op) (hv : ValidHistory h []) (hg : ∀ op ∈ h, ∀ r ∈ Rio.C02.opRoutes op, TreeGood T Good r) :
    RReprT T Good hPS (runOpsG (towerTOps T) h (RouterG.empty _)) (liveOps h []) :=
  Rio.C02.repr_run_tree T Good hPS h _ [] (g_empty T.env _ (towerTSpec T Good hPS)) hv hg

/-! ### No engine hypothesis left: W1's model engine `engineOf G` -/

section engineOf
variable (T : TEnv) (G : List Char → Option Re) (hE : T.engine = engineOf G)

/-- W1's engine satisfies the one law W9's matching theorems use (both case flags). -/
theorem engine_law_holds (ic : Bool) (ts : List Marker.Tok) (hg : TokGood ts) :
    FullLaw (engineOf G) ic (markerLang G ic) (Bridge.litEq ic) ts := fullLaw_engineOf G ic ts hg

include hE in
/-- the rule's pattern is in the domain of the tree: `WF` follows from the template -/
theorem marker_rule_treeGood (t : Marker.Str) (ms : List (Marker.Str × Marker.Str))
    (hplain : Marker.namesPlain ms = true) (hre : Marker.regexNoAt ms = true)
    (hg : TokGood (Marker.tokens t ms)) (hne : Marker.tokens t ms ≠ [])
    (r : Route) (p : Pat) (hm : MarkerOnly r p none) (hp : T.render p = (Marker.build t ms).regex) :
    TreeGood T GoodPat r := by
  have hstr : T.render p = Marker.renderRegex (Marker.tokens t ms) := by
    rw [hp, (regex_is_tokens t ms hplain hre).1]
  constructor
  · intro p' hp'
    have : p' = p := by
      have := hm.path; unfold dynOf at hp'; rw [this] at hp'; simpa using hp'.symm
    subst this
    rw [hstr]
    refine ⟨renderRegex_goodPat _ hg, ?_⟩
    cases hts : Marker.tokens t ms with
    | nil => exact absurd hts hne
    | cons tk ts =>
      cases tk with
      | lit c => simp [Marker.renderRegex, Marker.Tok.regex, Marker.escChar]; split <;> simp
      | grp n re =>
        simp [Marker.renderRegex, Marker.Tok.regex, Marker.groupRegex, Rio.Consts.markerGroupRegexFormat]
  · intro p' hp'
    have := hm.host
    rw [this] at hp'; simp at hp'

include hE in
/-- **C10 ∘ C08 ∘ C01, closed form**: engine = W1's `engineOf G`, marker languages `markerLang G`,
literal comparison `litEq` under the tree's case flag.  In any state reached by a valid history over
rule-shaped patterns (`RReprT … GoodPat`), a live path-marker rule whose template has good groups is
answered for every instantiation with accepted values (any-host policy permitting). -/
theorem marker_rule_matches_engineOf
    (S : RouterT T) (L : List Route)
    (hS : RReprT T GoodPat (hE ▸ Rio.C08.prefix_sound G) S L)
    (t : Marker.Str) (ms : List (Marker.Str × Marker.Str))
    (hplain : Marker.namesPlain ms = true) (hre : Marker.regexNoAt ms = true)
    (hg : TokGood (Marker.tokens t ms))
    (r : Route) (hr : r ∈ L) (p : Pat) (hm : MarkerOnly r p none)
    (hp : T.render p = (Marker.build t ms).regex)
    (v : Marker.Str → Marker.Str)
    (hacc : ∀ n re, Marker.Tok.grp n re ∈ Marker.tokens t ms → markerLang G T.icPath re (v n))
    (q : Req) (hq : q.path.toList = Marker.instOf (Marker.tokens t ms) v) (hany : AnyHostOk T L q) :
    r ∈ RouterG.matchReq (towerTOps T) S q :=
  marker_rule_matches T GoodPat _ S L hS t ms hplain hre (markerLang G T.icPath) (Bridge.litEq T.icPath)
    (litEq_refl T.icPath) (hE ▸ fullLaw_engineOf G T.icPath _ hg) r hr p hm hp v hacc q hq hany

include hE in
/-- … and for a delimiter-separated template not when a value is rejected. -/
theorem marker_rule_rejected_engineOf
    (S : RouterT T) (L : List Route)
    (hS : RReprT T GoodPat (hE ▸ Rio.C08.prefix_sound G) S L)
    (t : Marker.Str) (ms : List (Marker.Str × Marker.Str))
    (hplain : Marker.namesPlain ms = true) (hre : Marker.regexNoAt ms = true)
    (hg : TokGood (Marker.tokens t ms))
    (r : Route) (hr : r ∈ L) (p : Pat) (hm : MarkerOnly r p none)
    (hp : T.render p = (Marker.build t ms).regex)
    (v : Marker.Str → Marker.Str)
    (hdelim : Marker.Delimited (markerLang G T.icPath) (Bridge.litEq T.icPath) v (Marker.tokens t ms))
    (n re : Marker.Str) (hmem : Marker.Tok.grp n re ∈ Marker.tokens t ms)
    (hrej : ¬ markerLang G T.icPath re (v n))
    (q : Req) (hq : q.path.toList = Marker.instOf (Marker.tokens t ms) v) :
    r ∉ RouterG.matchReq (towerTOps T) S q :=
  marker_rule_rejected T GoodPat _ S L hS t ms hplain hre (markerLang G T.icPath) (Bridge.litEq T.icPath)
    (litEq_refl T.icPath) (hE ▸ fullLaw_engineOf G T.icPath _ hg) r hr p hm hp v hdelim n re hmem hrej q hq

end engineOf

/-! ### Non-vacuity: the closed form applied to a concrete rule (`/A/@id`, `id = [0-9]+`), W1's `stdEngine`,
the router built by inserting it, and the request `/A/12`; the rejected instantiation `/A/1x` is not answered -/

def exT : TEnv := tenvOf ⟨false, false, false, true⟩
def exP : Pat := [.lit '/', .lit 'A', .lit '/', .plus .digit]
def exR : Route :=
  { id := "m", priority := 0, scheme := none, host := none, ips := none, methods := none,
    excludeMethods := none, headers := [], datetime := none, time := none, weekdays := none,
    path := .dyn exP }
def exTm : Marker.Str := "/A/@id".toList
def exMs : List (Marker.Str × Marker.Str) := [("id".toList, "[0-9]+".toList)]
def exQ (path : String) : Req :=
  { scheme := none, host := none, method := none, headers := [], ip := none, createdAt := none, path := path }

set_option maxRecDepth 100000 in
example : exR ∈ RouterG.matchReq (towerTOps exT) (RouterG.build (towerTOps exT) [exR]) (exQ "/A/12") ∧
    exR ∉ RouterG.matchReq (towerTOps exT) (RouterG.build (towerTOps exT) [exR]) (exQ "/A/1x") := by
  have hE : exT.engine = engineOf parseBody := rfl
  have hplain : Marker.namesPlain exMs = true := by decide +kernel
  have hre : Marker.regexNoAt exMs = true := by decide +kernel
  have htoks : Marker.tokens exTm exMs =
      [.lit '/', .lit 'A', .lit '/', .grp "id".toList "[0-9]+".toList] := by decide +kernel
  have hg : TokGood (Marker.tokens exTm exMs) := by
    rw [htoks]; intro t ht; simp only [List.map_cons, List.map_nil, toRTok] at ht
    revert t; decide +kernel
  have hp : exT.render exP = (Marker.build exTm exMs).regex := by decide +kernel
  have hm : MarkerOnly exR exP none := ⟨rfl, rfl, rfl, rfl, rfl, rfl, rfl, rfl, rfl⟩
  have hgood := marker_rule_treeGood exT parseBody hE exTm exMs hplain hre hg (by rw [htoks]; simp) exR exP hm hp
  have hS : RReprT exT GoodPat (hE ▸ Rio.C08.prefix_sound parseBody) (RouterG.build (towerTOps exT) [exR]) [exR] :=
    g_build exT.env _ (towerTSpec exT GoodPat (hE ▸ Rio.C08.prefix_sound parseBody)) [exR]
      (by simp [NodupIds]) (by intro r hr; simp at hr; subst hr; exact hgood)
  -- the language of the marker expression: "12" is accepted, "1x" is not
  have hlang : ∀ w : List Char, markerLang parseBody false "[0-9]+".toList w ↔
      (parseBody ('?' :: ':' :: "[0-9]+".toList)).map (fun r => fmatch false r w) = some true := by
    intro w
    unfold markerLang
    cases hpb : parseBody ('?' :: ':' :: "[0-9]+".toList) with
    | none => simp
    | some r => simp [fmatch_iff]
  constructor
  · refine marker_rule_matches_engineOf exT parseBody hE _ _ hS exTm exMs hplain hre hg exR (by simp) exP hm hp
      (fun _ => "12".toList) ?_ (exQ "/A/12") (by rw [htoks]; decide +kernel) (Or.inl rfl)
    intro n re h
    rw [htoks] at h
    simp at h
    obtain ⟨rfl, rfl⟩ := h
    exact (hlang _).2 (by decide +kernel)
  · refine marker_rule_rejected_engineOf exT parseBody hE _ _ hS exTm exMs hplain hre hg exR (by simp) exP hm hp
      (fun _ => "1x".toList) ?_ "id".toList "[0-9]+".toList (by rw [htoks]; simp) ?_ (exQ "/A/1x")
      (by rw [htoks]; decide +kernel)
    · rw [htoks]; simp [Marker.Delimited]
    · intro h; have := (hlang _).1 h; revert this; decide +kernel

end Rio.C10
