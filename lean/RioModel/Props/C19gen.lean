/-
C19 — the redirect-chain walker, TRANSLATED from the source (W19)

`Rio.Consts.genLoopCompute` is regenerated from `src/api/redirection_loop.rs` (`RedirectionLoop::compute`) on every run by
the fail-closed Rust → Lean translator `w19_loop.py`: the hop loop `'outer: for i in 1..=max_hops`, the `Err(..) => break`
of `Request::from_example`, the two `get_status_code` calls and the choice of the backend code, the `REDIRECTION_CODES` test,
the search for the first `Location` header, `if i > 1 { AtLeastOneHop }`, the 301 / 302 ⇒ `GET` rewrite, the `(url, method)`
repeat test with its `break 'outer`, the push, the project-domain `break`, `i >= max_hops ⇒ TooManyHops`.  The callees it does
not translate are function parameters (`Rio.LoopGen.Callees`: one field per callee, see the plugin's docstring).

Theorems of this file (lemmas: Proofs/LoopGen.lean):
* `gen_compute_eq_model` — translated `compute` = hand-written model `Rio.Loop.compute` (Model/Loop.lean), for EVERY bundle of
  callees, router, `max_hops` (any `Nat`, so in particular every `u8`), example and project-domain list, where the model's two
  parameters are read off the callees (`stepOf`: one turn of the router pipeline; `extOf`: the project-domain test).
* `gen_compute_eq_model_any_step` — conversely every `step` / `ext` / `get` / start of the model is realised by some bundle of
  callees: the equality covers every step function the model's theorems quantify over.
* `loop_bounded_gen`, `loop_iff_repeat_gen`, `too_many_gen` — the headline clauses of C19 restated for the translated
  definition (corollaries through the equality).
-/
import RioModel.Proofs.LoopGen
import RioModel.Props.C19

set_option linter.unusedSimpArgs false
set_option linter.unusedSectionVars false

namespace Rio.C19
open Rio.Loop Rio.Consts Rio.LoopGen

section Gen
variable {S Ex Rt Cf Rq Rs Ac Pu : Type} [DecidableEq S] (E : Callees S Ex Rt Cf Rq Rs Ac Pu)
variable (router : Rt) (maxHops : Nat) (ex : Ex) (pd : List S)

/-- The model run the translated code is compared with: `step` / `ext` read off the callees, `get = "GET"`, started at
`example.url` and `example.method.unwrap_or("GET")`. -/
def modelOfCallees : State S S :=
  compute (stepOf E router ex) (extOf E pd) (E.lit "GET") maxHops (E.exampleUrl ex)
    ((E.exampleMethod ex).getD (E.lit "GET"))

/-- **Translated = model.**  For every bundle of callees, router, hop limit, example and project-domain list the translated
`RedirectionLoop::compute` returns exactly the hops (as `(url, status_code, method)` tuples) and the error of the hand-written
model.  No hypothesis: the function does no arithmetic, indexing or `unwrap` that could fail. -/
theorem gen_compute_eq_model :
    genCompute E router maxHops ex pd =
      ((modelOfCallees E router maxHops ex pd).hops.map toGenHop,
       (modelOfCallees E router maxHops ex pd).error.map toGenErr) :=
  genCompute_eq E router maxHops ex pd

/-- `LastRepeats` on the translated code's tuples: the `(url, method)` of the last hop occurs among the earlier hops. -/
def GenLastRepeats (hs : List (S × Nat × S)) : Prop :=
  ∃ pre l, hs = pre ++ [l] ∧ ∃ h ∈ pre, h.1 = l.1 ∧ h.2.2 = l.2.2

theorem genLastRepeats_map (hs : List (Hop S S)) : GenLastRepeats (hs.map toGenHop) ↔ LastRepeats hs := by
  constructor
  · rintro ⟨pre, l, h, x, hx, h1, h2⟩
    obtain ⟨l₁, l₂, rfl, hp, hl⟩ := List.map_eq_append_iff.1 h
    obtain ⟨l', rfl, hl'⟩ : ∃ l', l₂ = [l'] ∧ toGenHop l' = l := by
      cases l₂ with
      | nil => simp at hl
      | cons a t =>
        cases t with
        | nil => exact ⟨a, rfl, by simpa using hl⟩
        | cons b t' => simp at hl
    subst hp
    obtain ⟨y, hy, rfl⟩ := List.mem_map.1 hx
    refine ⟨l₁, l', rfl, ?_⟩
    subst hl'
    simp only [toGenHop] at h1 h2
    simp only [keys, List.mem_map]
    exact ⟨y, hy, by rw [h1, h2]⟩
  · rintro ⟨pre, l, rfl, hmem⟩
    simp only [keys, List.mem_map] at hmem
    obtain ⟨y, hy, hyl⟩ := hmem
    refine ⟨pre.map toGenHop, toGenHop l, by simp, toGenHop y, List.mem_map.2 ⟨y, hy, rfl⟩, ?_⟩
    simp only [Prod.mk.injEq] at hyl
    simp [toGenHop, hyl.1, hyl.2]

/-- **Bound, restated for the translated code.**  The chain has at least the start and at most `max_hops + 1` entries. -/
theorem loop_bounded_gen :
    1 ≤ (genCompute E router maxHops ex pd).1.length ∧
    (genCompute E router maxHops ex pd).1.length ≤ maxHops + 1 := by
  rw [gen_compute_eq_model]
  simpa [modelOfCallees] using
    loop_bounded (stepOf E router ex) (extOf E pd) (E.lit "GET") maxHops (E.exampleUrl ex)
      ((E.exampleMethod ex).getD (E.lit "GET"))

/-- **Loop iff repeat, restated for the translated code.**  `error = Some(Loop)` exactly when the `(url, method)` of the
last hop occurs among the earlier hops. -/
theorem loop_iff_repeat_gen :
    (genCompute E router maxHops ex pd).2 = some GenRedirectionError.loop ↔
      GenLastRepeats (genCompute E router maxHops ex pd).1 := by
  rw [gen_compute_eq_model]
  simp only [genLastRepeats_map]
  unfold modelOfCallees
  rw [← loop_iff_repeat (stepOf E router ex) (extOf E pd) (E.lit "GET") maxHops (E.exampleUrl ex)
      ((E.exampleMethod ex).getD (E.lit "GET"))]
  show Option.map toGenErr _ = some (toGenErr Err.loop) ↔ _
  cases h : (compute (stepOf E router ex) (extOf E pd) (E.lit "GET") maxHops (E.exampleUrl ex)
      ((E.exampleMethod ex).getD (E.lit "GET"))).error with
  | none => simp
  | some e =>
    simp only [Option.map_some, Option.some.injEq]
    exact ⟨fun h' => toGenErr_inj _ _ h', fun h' => by rw [h']⟩

/-- **TooManyHops, restated for the translated code** (the direction used by the analyses): when the translated walker
reports `TooManyHops`, the limit is at least 1 and exactly `max_hops + 1` hops were recorded. -/
theorem too_many_gen
    (h : (genCompute E router maxHops ex pd).2 = some GenRedirectionError.tooManyHops) :
    1 ≤ maxHops ∧ (genCompute E router maxHops ex pd).1.length = maxHops + 1 := by
  rw [gen_compute_eq_model] at h ⊢
  have hm : (modelOfCallees E router maxHops ex pd).error = some Err.tooManyHops := by
    cases he : (modelOfCallees E router maxHops ex pd).error with
    | none => simp [he] at h
    | some e =>
      simp only [he, Option.map_some, Option.some.injEq] at h
      exact congrArg some (toGenErr_inj e Err.tooManyHops h)
  have := (too_many_iff (stepOf E router ex) (extOf E pd) (E.lit "GET") maxHops (E.exampleUrl ex)
      ((E.exampleMethod ex).getD (E.lit "GET"))).1 hm
  exact ⟨this.1, by simpa [modelOfCallees] using this.2.1⟩

end Gen

/-! ### Every step function of the model is covered -/

section AnyStep
variable {S : Type} [DecidableEq S]

/-- Callees realising a given `step` / `ext` / `get`: an example is the pair (url, method), the "request", "routes" and
"action" are that pair too, `get_status_code` answers the status `step` gives, `filter_headers` one header named `get`
(= every literal) carrying the location, `join_url` returns the header value, `Url::parse` succeeds exactly on the urls with
`ext`, whose host is `other`, a value different from the only project domain `get`. -/
def calleesOf (step : S → S → StepOut S) (ext : S → Bool) (get other : S) :
    Callees S (S × S) Unit Unit (S × S) (S × S) (S × S) S where
  lit := fun _ => get
  exampleUrl := fun e => e.1
  exampleMethod := fun e => some e.2
  responseStatusCode := fun _ => none
  withUrl := fun e u => (u, e.2)
  withMethod := fun e m => (e.1, m.getD get)
  routerConfig := fun _ => ()
  fromExample := fun _ e => match step e.1 e.2 with | .reqErr => none | .resp _ _ => some e
  matchRequest := fun _ r => r
  fromRoutesRule := fun r _ => r
  getStatusCode := fun a _ => (match step a.1 a.2 with | .reqErr => 0 | .resp s _ => s, a)
  filterHeaders := fun a _ => (match step a.1 a.2 with | .resp _ (some l) => [(get, l)] | _ => [], a)
  lower := fun n => n
  joinUrl := fun _ v => v
  urlParse := fun u => if ext u then some u else none
  hostStr := fun _ => some other

theorem stepOf_calleesOf (step : S → S → StepOut S) (ext : S → Bool) (get other : S) (e : S × S) :
    stepOf (calleesOf step ext get other) () e = step := by
  funext u m
  unfold stepOf statusOf locationOf calleesOf
  simp only []
  cases h : step u m with
  | reqErr => simp [h]
  | resp s l =>
    simp only [h, Option.getD_some]
    by_cases hs : s = 0
    · subst hs
      cases l <;> simp [h]
    · cases l <;> simp [h, hs]

theorem extOf_calleesOf (step : S → S → StepOut S) (ext : S → Bool) (get other : S) (h : other ≠ get) :
    extOf (calleesOf step ext get other) [get] = ext := by
  funext u
  unfold extOf calleesOf
  simp only []
  cases ext u <;> simp [h]

/-- **Every step function is covered.**  For every `step`, `ext`, `get`, hop limit and start of the model (over a type with
at least two values) there are callees on which the translated code computes exactly the model's run: the equality
`gen_compute_eq_model` is not about a special class of step functions. -/
theorem gen_compute_eq_model_any_step (step : S → S → StepOut S) (ext : S → Bool) (get other : S) (h : other ≠ get)
    (maxHops : Nat) (url method : S) :
    genCompute (calleesOf step ext get other) () maxHops (url, method) [get] =
      ((compute step ext get maxHops url method).hops.map toGenHop,
       (compute step ext get maxHops url method).error.map toGenErr) := by
  rw [gen_compute_eq_model]
  unfold modelOfCallees
  rw [stepOf_calleesOf, extOf_calleesOf _ _ _ _ h]
  rfl

end AnyStep

/-! ### Non-vacuity: the translated code evaluated on concrete callees -/

section Examples

/-- urls / methods / header names are numbers, every literal (`"GET"`, `"location"`, `""`) is 7; an example is (url, method);
url `u < 3` answers 302 at request time with the headers `[(5, 99), (7, u + 1)]` (the second one is the `location` header),
other urls answer the backend code. -/
def exLine : Callees Nat (Nat × Nat) Unit Unit (Nat × Nat) (Nat × Nat) (Nat × Nat) Nat where
  lit := fun _ => 7
  exampleUrl := fun e => e.1
  exampleMethod := fun e => some e.2
  responseStatusCode := fun _ => none
  withUrl := fun e u => (u, e.2)
  withMethod := fun e m => (e.1, m.getD 7)
  routerConfig := fun _ => ()
  fromExample := fun _ e => if e.1 < 100 then some e else none
  matchRequest := fun _ r => r
  fromRoutesRule := fun r _ => r
  getStatusCode := fun a c => (if a.1 < 3 then 302 else c, a)
  filterHeaders := fun a _ => ([(5, 99), (7, a.1 + 1)], a)
  lower := fun n => n
  joinUrl := fun _ v => v
  urlParse := fun u => some u
  hostStr := fun p => some p

/-- a 2-cycle `0 → 1 → 0` with 307 (method kept). -/
def exCycle : Callees Nat (Nat × Nat) Unit Unit (Nat × Nat) (Nat × Nat) (Nat × Nat) Nat :=
  { exLine with getStatusCode := fun a _ => (307, a), filterHeaders := fun a _ => ([(7, 1 - a.1)], a) }

example : genCompute exLine () 10 (0, 3) [] =
    ([(0, 0, 3), (1, 302, 7), (2, 302, 7), (3, 302, 7)], some GenRedirectionError.atLeastOneHop) := by decide

example : genCompute exLine () 2 (0, 3) [] =
    ([(0, 0, 3), (1, 302, 7), (2, 302, 7)], some GenRedirectionError.tooManyHops) := by decide

example : genCompute exCycle () 10 (0, 3) [] =
    ([(0, 0, 3), (1, 307, 3), (0, 307, 3)], some GenRedirectionError.loop) := by decide

/-- the project-domain break: host 1 is not among the project domains `[0]` → one hop, no error. -/
example : genCompute exCycle () 10 (0, 3) [0] = ([(0, 0, 3), (1, 307, 3)], none) := by decide

/-- `max_hops = 0`: the loop body never runs. -/
example : genCompute exCycle () 0 (0, 3) [] = ([(0, 0, 3)], none) := by decide

example : GenLastRepeats (genCompute exCycle () 10 (0, 3) []).1 :=
  (loop_iff_repeat_gen exCycle () 10 (0, 3) []).1 (by decide)

example : 1 ≤ 2 ∧ (genCompute exLine () 2 (0, 3) []).1.length = 2 + 1 :=
  too_many_gen exLine () 2 (0, 3) [] (by decide)

end Examples

end Rio.C19
