/-
C12 (router level) — `Router::cache` is transparent and terminates.

`RouterG.cache` (Model/RouterLayers.lean) is `Router::cache(limit)` of src/router/mod.rs: the
`while prev_cache_limit > 0` loop with its `level` / `retry` counters over the outermost matcher's
`cache(limit, level)`, which every matcher passes down (always-present bucket, then the keyed
buckets, the budget threaded through; `HostMatcher`: tree, static buckets, tree buckets, any-host;
`PathAndQueryMatcher`: `regex_tree_rule.cache(limit, Some(level))`).  Over the tower on the real
regex-tree model (`towerTOps`) it sets `compiled` flags in the trees (`Tree.treeCache`, C12 tree
level); over the specification-level tower it changes nothing.

Theorems: the cached router represents the same live rules (`cache_repr…`), hence answers every
request and trace alike (`match_cache…`, `trace_cache…`), keeps `len` / `get_route_by_id`
(`cache_keeps_rules`); a history answers as the same history without its cache calls
(`cache_transparent_router…`); the loop never exhausts its fuel (`cache_terminates…`) and no
matcher returns more budget than it got (`cache_budget_le…`, which also means no `u64` underflow).
-/
import RioModel.Proofs.RouterTreeTop
import RioModel.Props.C08
import RioModel.Props.C02
import RioModel.Model.RouterTreeParse
set_option linter.unusedSimpArgs false

namespace Rio.C12
open Rio.Router Rio.Regex Rio.Tree

/-! ### any outermost matcher satisfying the layer laws -/

/-- `Router::cache` keeps the representation relation. -/
theorem cache_repr {O : MOps} (OL : MLaws O) (S : RouterG O) (L : List Route) (limit : Option Nat)
    (h : RReprG OL S L) : RReprG OL (RouterG.cache O limit S) L := g_cache OL S L limit h

/-- `len()` / `get_route_by_id` / `routes()` are untouched. -/
theorem cache_keeps_rules (O : MOps) (S : RouterG O) (limit : Option Nat) :
    (RouterG.cache O limit S).routes = S.routes := rfl

/-- **cache_terminates.**  The loop of `Router::cache` stops within `prev_cache_limit + 7`
iterations (the fuel `RouterG.cache` runs it with), for every limit incl. `None` and values that wrap
to a negative `i64`: each iteration lowers the budget or consumes one of six retries. -/
theorem cache_terminates {O : MOps} (OL : MLaws O) (S : RouterG O) (limit : Option Nat) :
    (RouterG.cacheLoop O ((RouterG.cachePrev O limit S).toNat + 7) (RouterG.cachePrev O limit S) 0 0
      S.matcher).2.2 = false := by
  apply cacheLoop_terminates OL
  · unfold RouterG.cachePrev
    cases limit with
    | some l => exact asI64_lt l
    | none => simp only; omega
  · omega
  · omega

/-! ### the specification-level tower -/

theorem match_cache (E : Env) (S : Router E) (L : List Route) (h : RRepr E S L) (limit : Option Nat)
    (q : Req) : (RouterG.matchReq (towerOps E) (RouterG.cache (towerOps E) limit S) q).Perm (S.matchReq E q) :=
  g_match_perm E _ (towerSpec E) _ _ L L (cache_repr _ S L limit h) h (fun _ => Iff.rfl) q

theorem cache_terminates_spec (E : Env) (S : Router E) (limit : Option Nat) :
    (RouterG.cacheLoop (towerOps E) ((RouterG.cachePrev _ limit S).toNat + 7) (RouterG.cachePrev _ limit S)
      0 0 S.matcher).2.2 = false := cache_terminates (towerLaws E) S limit

/-! ### the tower over the real regex-tree model -/

section
variable (T : TEnv) (Good : List Char → Prop) (hPS : PrefixSound T.engine Good)

/-- **match_cache.**  In every state reached by a valid history (`RReprT`), caching does not change
the answer to any request (as a multiset of rules). -/
theorem match_cache_tree (S : RouterT T) (L : List Route) (h : RReprT T Good hPS S L)
    (limit : Option Nat) (q : Req) :
    (RouterG.matchReq (towerTOps T) (RouterG.cache (towerTOps T) limit S) q).Perm
      (RouterG.matchReq (towerTOps T) S q) :=
  g_match_perm T.env _ (towerTSpec T Good hPS) _ _ L L (cache_repr _ S L limit h) h (fun _ => Iff.rfl) q

/-- **trace_cache.**  … nor the rules listed by the explain trace. -/
theorem trace_cache_tree (S : RouterT T) (L : List Route) (h : RReprT T Good hPS S L)
    (limit : Option Nat) (q : Req) :
    (routesOfList (RouterG.trace (towerTOps T) (RouterG.cache (towerTOps T) limit S) q)).Perm
      (routesOfList (RouterG.trace (towerTOps T) S q)) := by
  have hT := towerTSpec T Good hPS
  have h' := cache_repr _ S L limit h
  exact (g_trace_perm T.env _ hT _ L h' q).trans
    ((match_cache_tree T Good hPS S L h limit q).trans (g_trace_perm T.env _ hT _ L h q).symm)

include hPS in
theorem cache_terminates_tree (S : RouterT T) (limit : Option Nat) :
    (RouterG.cacheLoop (towerTOps T) ((RouterG.cachePrev _ limit S).toNat + 7) (RouterG.cachePrev _ limit S)
      0 0 S.matcher).2.2 = false := cache_terminates (towerTLaws T Good hPS) S limit

include hPS in
/-- No matcher of the tower returns more budget than it received (in particular the `u64`
subtractions `left - 1` of the trees never underflow: `Tree.treeCache` returns `some`). -/
theorem cache_budget_le_tree (m : (towerTOps T).M) (limit level : Nat) :
    ((towerTOps T).cache limit level m).2 ≤ limit := (towerTLaws T Good hPS).cache_le m limit level

/-- the history without its cache calls -/
def dropCacheOps (h : List Op) : List Op :=
  h.filter (fun op => match op with | .cache _ => false | _ => true)

include hPS in
/-- **Caching is transparent along every history**: a valid history (inserted rules in the domain
of C08) and the same history without its `cache` calls lead to routers that answer every request
alike and have the same size. -/
theorem cache_transparent_router_tree (h : List Op) (hv : ValidHistory h [])
    (hg : ∀ op ∈ h, ∀ r ∈ Rio.C02.opRoutes op, TreeGood T Good r) (q : Req) :
    (RouterG.matchReq (towerTOps T) (runOpsG (towerTOps T) h (RouterG.empty _)) q).Perm
        (RouterG.matchReq (towerTOps T) (runOpsG (towerTOps T) (dropCacheOps h) (RouterG.empty _)) q) ∧
      RouterG.len (towerTOps T) (runOpsG (towerTOps T) h (RouterG.empty _)) =
        RouterG.len (towerTOps T) (runOpsG (towerTOps T) (dropCacheOps h) (RouterG.empty _)) := by
  have hT := towerTSpec T Good hPS
  have hlive : ∀ (h : List Op) (L : List Route), liveOps (dropCacheOps h) L = liveOps h L := by
    intro h
    induction h with
    | nil => intro L; rfl
    | cons op h ih =>
      intro L
      cases op <;> simp [dropCacheOps, liveOps, Op.live] at ih ⊢ <;> exact ih _
  have hvalid : ∀ (h : List Op) (L : List Route), ValidHistory h L → ValidHistory (dropCacheOps h) L := by
    intro h
    induction h with
    | nil => intro L _; trivial
    | cons op h ih =>
      intro L hv
      cases op with
      | cache n => exact ih _ hv.2
      | insert r => exact ⟨hv.1, ih _ hv.2⟩
      | remove id => exact ⟨hv.1, ih _ hv.2⟩
      | batchRemove ids => exact ⟨hv.1, ih _ hv.2⟩
      | changeSet a u d => exact ⟨hv.1, ih _ hv.2⟩
  have hr1 := Rio.C02.repr_run_tree T Good hPS h (RouterG.empty _) [] (g_empty T.env _ hT) hv hg
  have hr2 := Rio.C02.repr_run_tree T Good hPS (dropCacheOps h) (RouterG.empty _) []
    (g_empty T.env _ hT) (hvalid h [] hv)
    (fun op hop => hg op (List.mem_filter.mp hop).1)
  rw [hlive] at hr2
  exact ⟨g_match_perm T.env _ hT _ _ _ _ hr1 hr2 (fun _ => Iff.rfl) q,
    by rw [g_len T.env _ hT _ _ hr1, g_len T.env _ hT _ _ hr2]⟩

end

/-! ### Non-vacuity: a concrete router over the real trees (W1's `stdEngine`), cached with budget 5 -/

def exT : TEnv := tenvOf ⟨true, false, true, false⟩

def exR : Route :=
  { id := "r", priority := 0, scheme := none,
    host := some (.dyn [.plus .lower, .lit '.', .lit 'C', .lit 'o', .lit 'm']), ips := none,
    methods := none, excludeMethods := none, headers := [], datetime := none,
    time := none, weekdays := none, path := .dyn [.lit '/', .lit 'A', .lit '/', .plus .digit] }

def exQ : Req :=
  { scheme := none, host := some "abc.com", method := none, headers := [], ip := none,
    createdAt := none, path := "/a/12" }

set_option maxRecDepth 100000 in
example :
    (RouterG.matchReq (towerTOps exT)
      (RouterG.cache (towerTOps exT) (some 5) (RouterG.build (towerTOps exT) [exR])) exQ).map (·.id) = ["r"] ∧
    (RouterG.matchReq (towerTOps exT) (RouterG.build (towerTOps exT) [exR]) exQ).map (·.id) = ["r"] := by
  decide +kernel

end Rio.C12
