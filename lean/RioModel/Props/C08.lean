/-
C08 — the regex prefix tree answers exactly like a linear scan of its patterns.

Property theorems only; helper lemmas live in Proofs/{Scan,Regex,RegexTok,Tree*}.lean.
Model: Model/Scan.lean (prefix.rs), Model/Regex.lean (stand-in for the regex crate), Model/Tree.lean
(regex.rs + regex_radix_tree/{item,leaf,node,tree,iter}.rs, the repaired `Node::insert` of `fix:` 7235b24).

Reading guide
* `Inv ic t` — the decidable structural invariant (`Item.inv`): flags uniform, leaves non-empty with
  unique ids, every node has ≥ 2 non-`Empty` children, its prefix is a scanner boundary and a boundary
  prefix of every child's `regex()`, child nodes have strictly longer prefixes, siblings pairwise share
  no boundary prefix longer than the node's and have different `regex()`.  The driver evaluates the
  same function on every model tree, and the model tree is compared with `verif_snapshot()` of the real one.
* The regex engine is a parameter `E : Engine`; the only law used is `PrefixSound E Good`.  It is
  *proved* (`prefix_sound`) for the engine `engineOf G` for every meaning `G` of group bodies, on the
  domain `GoodPat` (rule-shaped patterns: escaped literals interleaved with groups on whose extent the
  tree's scanner and the real regex syntax agree).
* Domain of the headline theorems: patterns in `GoodPat`, non-empty (`RulePat`), and — for histories —
  "an id in use determines its pattern" (`histOk`).  What lies outside is not hidden: `find_spec_fails_…`
  are kernel-checked counterexamples for a mis-bracketed group (DESIGN §6-O1, known finding
  `class-paren`) and for the empty pattern (§6-O3).
-/
import RioModel.Proofs.TreeHistory
import RioModel.Proofs.TreeUnique
import RioModel.Proofs.TreeDistinct
import RioModel.Proofs.TreeIter
import RioModel.Proofs.TreeModify
import RioModel.Proofs.TreeLookup
import RioModel.Proofs.RegexTok
set_option linter.unusedSimpArgs false
set_option linter.unusedVariables false
set_option linter.unusedSectionVars false

namespace Rio.C08
open Rio.Scan Rio.Regex Rio.Tree

variable {ι V : Type} [DecidableEq ι]

/-- The tree invariant. -/
abbrev Inv (ic : Bool) (t : Item ι V) : Prop := t.inv ic = true

/-- The patterns of the property: rule-shaped and non-empty. -/
def RulePat (p : List Char) : Prop := GoodPat p ∧ p ≠ []

/-- Executable `RulePat` (used by `histOk` and by the driver). -/
def rulePatB (p : List Char) : Bool := goodPatB p && !p.isEmpty

/-- Every stored pattern is in the domain `Good` and non-empty. -/
def InDomain (Good : List Char → Prop) (t : Item ι V) : Prop := ∀ e ∈ t.contents, Good e.pat ∧ e.pat ≠ []

/-- The linear scan: values of the entries whose anchored pattern matches `s`. -/
def scanOf (E : Engine) (ic : Bool) (L : List (Entry ι V)) (s : List Char) : List V :=
  (L.filter fun e => E.full ic e.pat s).map (·.val)

/-! ### Mechanism 1: the scanner cuts only at its own boundaries, and they are token boundaries -/

/-- `common_prefix(l, r)` is a boundary prefix of both arguments, and the longest one. -/
theorem common_prefix_boundary (l r : List Char) :
    BPre (commonPrefix l r) l ∧ BPre (commonPrefix l r) r ∧
    ∀ q, BPre q l → BPre q r → q.length ≤ (commonPrefix l r).length := by
  refine ⟨commonPrefix_bpre_left l r, commonPrefix_bpre_right l r, fun q h1 h2 => ?_⟩
  rw [commonPrefix_length]; exact le_cpcs_of_bpre h1 h2

/-- On a rule-shaped pattern, a position where the scanner is at depth 0 and not after a backslash is
a token boundary: the tree never cuts inside a group or between `\` and the escaped character. -/
theorem cut_is_token_boundary (ts : List Tok) (hg : ∀ t ∈ ts, t.good = true) (q : List Char)
    (hq : BPre q (render ts)) : ∃ pre suf, ts = pre ++ suf ∧ q = render pre :=
  bpre_render hg hq

/-- The executable matcher of the model decides the denotational language (`^r$` and `^r`). -/
theorem matcher_full (ic : Bool) (r : Re) (s : List Char) : fmatch ic r s = true ↔ Lang ic r s :=
  fmatch_iff r s

theorem matcher_prefix (ic : Bool) (r : Re) (s : List Char) :
    pmatch ic r s = true ↔ ∃ u v, s = u ++ v ∧ Lang ic r u := pmatch_iff r s

/-- Prefix soundness, for every meaning `G` of group bodies: if `^p$` matches `s` and `q` is a non-empty
boundary prefix of the rule-shaped `p`, then the node regex `^q` compiles and matches `s`
(with the same case flag). -/
theorem prefix_sound (G : List Char → Option Re) : PrefixSound (engineOf G) GoodPat :=
  prefixSound_engineOf G

/-- `goodPatB` decides `GoodPat`. -/
theorem rulePatB_iff (p : List Char) : rulePatB p = true ↔ RulePat p := by
  unfold rulePatB RulePat
  rw [Bool.and_eq_true, goodPatB_iff]
  cases p <;> simp

/-! ### The invariant is established by `new` and preserved by every operation -/

theorem inv_empty (ic : Bool) : Inv ic (Item.empty ic : Item ι V) := by simp [Inv, Item.inv]

/-- For *every* inserted string – no hypothesis on the pattern. -/
theorem inv_insert {ic : Bool} (t : Item ι V) (p : List Char) (id : ι) (v : V) (h : Inv ic t) :
    Inv ic (t.insert p id v) := Tree.inv_insert t p id v h

theorem inv_remove {ic : Bool} (t : Item ι V) (id : ι) (h : Inv ic t) : Inv ic (t.remove id).1 :=
  Tree.inv_remove t id h

theorem inv_retain {ic : Bool} (t : Item ι V) (f : ι → V → Option V) (h : Inv ic t) : Inv ic (t.retain f) :=
  Tree.inv_retain t f h

/-- `cache` (any limit, any level or the level loop) returns normally and preserves the invariant. -/
theorem inv_cache (E : Engine) {ic : Bool} (t : Item ι V) (limit : Nat) (level : Option Nat) (h : Inv ic t) :
    ∃ t' n, treeCache E t limit level = some (t', n) ∧ Inv ic t' := by
  obtain ⟨t', n, h1, hs, _⟩ := treeCache_spec E t limit level
  exact ⟨t', n, h1, by unfold Inv; rw [inv_of_treeCache h1]; exact h⟩

/-- The index chosen by the child-selection loop is in range (`Vec::remove` cannot panic). -/
theorem select_in_range {p : List Char} {rs : List (List Char)} {mx k : Nat}
    (h : selLoop p rs 0 mx none = some k) : k < rs.length := selLoop_lt h

/-! ### Headline: lookup ≡ linear scan -/

/-- **find_spec.**  In a tree satisfying the invariant whose patterns are in the domain, `find s` returns
exactly the values whose anchored pattern matches `s` (case-insensitively iff the tree was created
so) – as a list, in the order of `contents`; the implementation's order inside a leaf is that of a
`HashMap`, so the correspondence compares sorted lists. -/
theorem find_spec {E : Engine} {Good : List Char → Prop} (hPS : PrefixSound E Good) {ic : Bool}
    (t : Item ι V) (hinv : Inv ic t) (hdom : InDomain Good t) (s : List Char) :
    t.find E s = scanOf E ic t.contents s :=
  find_eq_scan hPS t hinv hdom s

/-- `find_spec` for the concrete engine family: any meaning of group bodies, rule-shaped patterns. -/
theorem find_spec_rule (G : List Char → Option Re) {ic : Bool} (t : Item ι V) (hinv : Inv ic t)
    (hdom : ∀ e ∈ t.contents, RulePat e.pat) (s : List Char) :
    t.find (engineOf G) s = scanOf (engineOf G) ic t.contents s :=
  find_spec (prefix_sound G) t hinv (fun e he => hdom e he) s

/-- **len_spec.**  `len()` is the number of stored entries (no hypothesis). -/
theorem len_spec (t : Item ι V) : t.len = t.contents.length := Tree.len_spec t

/-- **get_spec.**  `get(p)` returns the values stored under exactly the pattern `p`. -/
theorem get_spec {ic : Bool} (t : Item ι V) (hinv : Inv ic t) (p : List Char) :
    t.get p = (t.contents.filter fun e => decide (e.pat = p)).map (·.val) :=
  get_eq_filter t hinv p

/-- `is_empty()` says exactly that nothing is stored. -/
theorem is_empty_spec {ic : Bool} (t : Item ι V) (hinv : Inv ic t) : t.isEmpty = true ↔ t.contents = [] :=
  isEmpty_iff t hinv

/-! ### What the operations do to the stored entries -/

/-- **contents_insert.**  Storing `(p, id, v)` replaces the value stored under the same (pattern, id) and
otherwise adds the entry (up to the order of children).  This is the clause that was false before the
`fix:` commit (DESIGN §6-D11). -/
theorem contents_insert {ic : Bool} (t : Item ι V) (p : List Char) (id : ι) (v : V) (hinv : Inv ic t) :
    (t.insert p id v).contents.Perm (refInsert t.contents p id v) :=
  Tree.contents_insert t p id v hinv

/-- Under the invariant no (pattern, id) is stored twice; in particular a pattern has at most one leaf
(the part of the tree invariant that was violated before the D11 repair). -/
theorem no_duplicate_keys {ic : Bool} (t : Item ι V) (hinv : Inv ic t) : KeyNodup t.contents :=
  keyNodup_contents t hinv

/-- Replacement, spelled out (only `Inv` needed): after `insert(p, id, v)` the stored entries are the new
entry plus every old entry *not* stored under (p, id) – so the old value is gone, nothing else changed, and
`len` grows by one iff (p, id) was not present. -/
theorem insert_replaces {ic : Bool} (t : Item ι V) (p : List Char) (id : ι) (v : V) (hinv : Inv ic t) :
    (t.insert p id v).contents.Perm
      (⟨p, id, v⟩ :: t.contents.filter fun e => !decide (e.pat = p ∧ e.id = id)) :=
  (contents_insert t p id v hinv).trans (refInsert_perm_filter' (no_duplicate_keys t hinv) p id v)

/-- **contents_remove.**  `remove(id)` drops the first entry (tree order) stored under `id` – the only one
when ids are distinct – and returns its value. -/
theorem contents_remove (t : Item ι V) (id : ι) :
    (t.remove id).1.contents = refRemove t.contents id ∧ (t.remove id).2 = refRemoved t.contents id :=
  Tree.contents_remove t id

/-- **contents_retain.**  `retain(f)` keeps exactly the entries the closure keeps, with the values the closure
left in them (`f id v = some v'`), in order. -/
theorem contents_retain (t : Item ι V) (f : ι → V → Option V) :
    (t.retain f).contents = refRetain t.contents f := Tree.contents_retain t f

/-- `cache` does not change what is stored. -/
theorem contents_cache (E : Engine) (t : Item ι V) (limit : Nat) (level : Option Nat) :
    ∃ t' n, treeCache E t limit level = some (t', n) ∧ t'.contents = t.contents := by
  obtain ⟨t', n, h1, hs, _⟩ := treeCache_spec E t limit level
  exact ⟨t', n, h1, by rw [← contents_strip, hs, contents_strip]⟩

/-- **iter_enumerates.**  `iter()` – the stack machine of `iter.rs` (`IterSt.next`: current slice, chain of boxed
parents, `Values` of the current leaf) – terminates and yields the value of every stored entry, each once, in
tree order.  No hypothesis. -/
theorem iter_enumerates (t : Item ι V) : t.iterCollect = some (t.contents.map (·.val)) := iterCollect_eq t

/-- `get_mut(p)` + in-place update of what it returned: the invariant is kept and exactly the values stored under
`p` are updated (for a `UniqueRegexTreeMap`: the value under key `p`). -/
theorem inv_modify_at {ic : Bool} (t : Item ι V) (p : List Char) (g : ι → V → V) (hinv : Inv ic t) :
    Inv ic (t.modifyAt p g) := inv_modifyAt t p g hinv

theorem contents_modify_at {ic : Bool} (t : Item ι V) (p : List Char) (g : ι → V → V) (hinv : Inv ic t) :
    (t.modifyAt p g).contents = refModify t.contents p g := contents_modifyAt t p g hinv

/-! ### The tree as a map (pattern, id) ↦ value (the view the router layers use) -/

/-- `insert(p, id, v)` is a map update. -/
theorem lookup_insert {ic : Bool} (t : Item ι V) (p : List Char) (id : ι) (v : V) (hinv : Inv ic t)
    (p' : List Char) (id' : ι) :
    lookupE (t.insert p id v).contents p' id' =
      if p' = p ∧ id' = id then some v else lookupE t.contents p' id' :=
  Tree.lookup_insert t p id v hinv p' id'

/-- `retain(f)` keeps the entries `f` keeps, with the values `f` left in them. -/
theorem lookup_retain {ic : Bool} (t : Item ι V) (f : ι → V → Option V) (hinv : Inv ic t)
    (p : List Char) (id : ι) :
    lookupE (t.retain f).contents p id = (lookupE t.contents p id).bind (f id) :=
  Tree.lookup_retain t f hinv p id

/-- `get_mut(p0)` + update changes exactly the values under pattern `p0`. -/
theorem lookup_modify_at {ic : Bool} (t : Item ι V) (p0 : List Char) (g : ι → V → V) (hinv : Inv ic t)
    (p : List Char) (id : ι) :
    lookupE (t.modifyAt p0 g).contents p id =
      (lookupE t.contents p id).map fun v => if p = p0 then g id v else v :=
  Tree.lookup_modifyAt t p0 g hinv p id

/-- `remove(id0)` deletes the entry of that id (ids distinct). -/
theorem lookup_remove (t : Item ι V) (id0 : ι) (hnd : IdNodup t.contents) (p : List Char) (id : ι) :
    lookupE (t.remove id0).1.contents p id = if id = id0 then none else lookupE t.contents p id :=
  Tree.lookup_remove t id0 hnd p id

/-- `find` as membership. -/
theorem mem_find_iff {E : Engine} {Good : List Char → Prop} (hPS : PrefixSound E Good) {ic : Bool}
    (t : Item ι V) (hinv : Inv ic t) (hdom : InDomain Good t) (s : List Char) (v : V) :
    v ∈ t.find E s ↔ ∃ e ∈ t.contents, E.full ic e.pat s = true ∧ e.val = v :=
  Tree.mem_find_iff hPS t hinv hdom s v

/-! ### Lifted over arbitrary histories -/

/-- **history_spec.**  After any sequence of insert / remove / retain / cache operations in the domain
(`histOk`: inserted patterns are in the domain, an id in use is only re-used with its pattern), starting from
the empty tree: every `cache` returned normally, the invariant holds, the tree stores exactly the live
entries of the flat reference semantics, `find` is the linear scan of the live entries (as multisets),
`len` is their number and `get(p)` the values live under `p`. -/
theorem history_spec {E : Engine} {Good : List Char → Prop} (hPS : PrefixSound E Good)
    {good : List Char → Bool} (hgood : ∀ p, good p = true → Good p ∧ p ≠ [])
    (ic : Bool) (ops : List (Op ι V)) (hok : histOk good [] ops = true) :
    ∃ t : Item ι V, treeRun E (.empty ic) ops = some t ∧ Inv ic t ∧
      t.contents.Perm (refRun [] ops) ∧
      (∀ s, (t.find E s).Perm (scanOf E ic (refRun [] ops) s)) ∧
      t.len = (refRun [] ops).length ∧
      (∀ p, (t.get p).Perm (((refRun [] ops).filter fun e => decide (e.pat = p)).map (·.val))) := by
  obtain ⟨t, hrun, ⟨hinv, hperm⟩, hdom⟩ :=
    run_spec E hgood ops (.empty ic) [] ⟨inv_empty ic, by simp⟩ (by simp [IdNodup]) (by simp [Dom]) hok
  refine ⟨t, hrun, hinv, hperm, ?_, ?_, ?_⟩
  · intro s
    rw [find_spec hPS t hinv (fun e he => hdom e (hperm.subset he)) s]
    exact (hperm.filter _).map _
  · rw [len_spec]; exact hperm.length_eq
  · intro p
    rw [get_spec t hinv p]
    exact (hperm.filter _).map _

/-- `history_spec` for the concrete engine family and the executable domain check. -/
theorem history_spec_rule (G : List Char → Option Re) (ic : Bool) (ops : List (Op ι V))
    (hok : histOk rulePatB [] ops = true) :
    ∃ t : Item ι V, treeRun (engineOf G) (.empty ic) ops = some t ∧ Inv ic t ∧
      t.contents.Perm (refRun [] ops) ∧
      (∀ s, (t.find (engineOf G) s).Perm (scanOf (engineOf G) ic (refRun [] ops) s)) ∧
      t.len = (refRun [] ops).length ∧
      (∀ p, (t.get p).Perm (((refRun [] ops).filter fun e => decide (e.pat = p)).map (·.val))) :=
  history_spec (prefix_sound G) (fun p hp => (rulePatB_iff p).1 hp) ic ops hok

/-! ### `UniqueRegexTreeMap` -/

/-- For a `UniqueRegexTreeMap` (every insert stores under the pattern itself: `insert(p, v)` is
`tree.insert(p, p, v)`) the id hypothesis of `history_spec` holds by construction: it is enough that the
inserted patterns are in the domain. -/
theorem unique_history_ok (good : List Char → Bool) (ops : List (Op (List Char) V)) (hu : UniqueHist ops)
    (hg : ∀ p ∈ insertedPats' ops, good p = true) : histOk good [] ops = true :=
  histOk_unique good ops [] (by simp) hu hg

/-- `UniqueRegexTreeMap::get(p)` after a unique history in the domain: the value last stored under `p` and
not removed since (`refRemoved L p` = the value of the live entry with id `p`), `None` if there is none. -/
theorem unique_get_spec {E : Engine} {Good : List Char → Prop} {good : List Char → Bool}
    (hgood : ∀ p, good p = true → Good p ∧ p ≠ []) (ic : Bool) (ops : List (Op (List Char) V))
    (hu : UniqueHist ops) (hg : ∀ p ∈ insertedPats' ops, good p = true) (p : List Char) :
    ∃ t : Item (List Char) V, treeRun E (.empty ic) ops = some t ∧ uGet t p = refRemoved (refRun [] ops) p := by
  have hok := unique_history_ok good ops hu hg
  obtain ⟨t, hrun, hrep, _⟩ :=
    run_spec E hgood ops (.empty ic) [] ⟨inv_empty ic, by simp⟩ (by simp [IdNodup]) (by simp [Dom]) hok
  refine ⟨t, hrun, uGet_spec hrep ?_ (refRun_unique ops [] (by simp) hu) p⟩
  -- ids of the live entries are distinct
  have : ∀ (ops : List (Op (List Char) V)) (L : List (Entry (List Char) V)), IdNodup L →
      histOk good L ops = true → IdNodup (refRun L ops) := by
    intro ops
    induction ops with
    | nil => intro L h _; exact h
    | cons op ops ih =>
      intro L h hk
      rw [histOk_cons, Bool.and_eq_true] at hk
      refine ih _ ?_ hk.2
      cases op with
      | insert q id v =>
        simp only [opOk, Bool.and_eq_true, List.all_eq_true, decide_eq_true_eq] at hk
        exact h.refInsert hk.1.2 v
      | remove id => exact h.refRemove id
      | retain f => exact h.refRetain f
      | modify p g => exact h.refModify p g
      | cache _ _ => exact h
  exact this ops [] (by simp [IdNodup]) hok

/-! ### Outside the domain: the full statement is false of the code (kernel-checked witnesses) -/

/-- The statement of `find_spec` without the domain hypothesis, for the standard engine. -/
def FindSpecAllPatterns : Prop :=
  ∀ (t : Item Nat Nat) (s : List Char), Inv false t → t.find stdEngine s = scanOf stdEngine false t.contents s

/-- DESIGN §6-O1 (known finding `class-paren`): patterns `(?:[)]a)` and `(?:[)]b)`. -/
def classParenTree : Item Nat Nat :=
  ((Item.empty false).insert "(?:[)]a)".toList 1 1).insert "(?:[)]b)".toList 2 2

set_option maxRecDepth 100000 in
/-- The two patterns are valid regexes that tokenise (`tokTop`) but whose group the tree's scanner
mis-brackets; the node prefix `(?:[)]` does not compile, `find(")a")` is empty although `^(?:[)]a)$`
matches – and the invariant holds, so the hypothesis that fails is the domain, not `Inv`. -/
theorem find_spec_fails_class_paren : ¬ FindSpecAllPatterns := by
  intro h
  have h1 := h classParenTree ")a".toList (by decide +kernel)
  have h2 : classParenTree.find stdEngine ")a".toList = [] := by decide +kernel
  have h3 : scanOf stdEngine false classParenTree.contents ")a".toList = [1] := by decide +kernel
  rw [h2, h3] at h1
  exact absurd h1 (by decide)

set_option maxRecDepth 100000 in
theorem class_paren_not_in_domain :
    goodPatB "(?:[)]a)".toList = false ∧ misBracketed "(?:[)]a)".toList = true ∧
    stdEngine.nodeOk false "(?:[)]".toList = false := by decide +kernel

/-- DESIGN §6-O3: an uncached leaf with the empty pattern matches every haystack (the shortcut
`original.is_empty()` of `LazyRegex::is_match` is meant for the root node), for every engine. -/
theorem find_spec_fails_empty_pattern (E : Engine) (ic : Bool) (s : List Char) :
    ((Item.empty ic : Item Nat Nat).insert [] 1 1).find E s = [1] := by
  simp [insert_empty, newLeafItem, find_leaf, LazyRegex.newLeaf, LazyRegex.isMatch]

set_option maxRecDepth 100000 in
theorem empty_pattern_scan : scanOf stdEngine false ((Item.empty false : Item Nat Nat).insert [] 1 1).contents "x".toList = [] := by
  decide +kernel

/-! ### Non-vacuity: the hypotheses hold on a concrete non-trivial history -/

/-- insert `/a(?:x)/b`, `/a(?:x)` (twice under the same id: the D11 scenario), a non-ASCII pattern, cache,
remove, retain. -/
def demoOps : List (Op Nat Nat) :=
  [.insert "/a(?:x)/b".toList 2 20, .insert "/a(?:x)".toList 1 11, .insert "/a(?:x)".toList 1 12,
   .insert "/日\\.(?:[0-9]+)".toList 3 30, .cache 2 none, .remove 2, .retain (keepIf fun id _ => id != 3)]

set_option maxRecDepth 100000 in
example : histOk rulePatB [] demoOps = true := by decide +kernel

set_option maxRecDepth 100000 in
/-- … and the conclusion is about a non-empty state: one live entry, found by its haystack. -/
example : (refRun [] demoOps).map (·.val) = [12] ∧
    scanOf stdEngine false (refRun [] demoOps) "/ax".toList = [12] := by decide +kernel

end Rio.C08
