/-
C07 — no input makes the library panic: the part of W8.

The models of the other work packages carry their panics explicitly and prove them unreachable in their
own property files (tokenizer, filters, router, tree).  This file holds the three lemmas DESIGN §5/C07
assigns to W8; the static tie for every other panic-capable construct of the source is
`tools/panic_sites.py` + `tools/panic_inventory.json`, and the search for replays is harness `c07`.

* `slice_transform_total`   the repaired slice transformer never panics, for every byte string, every
                            char-boundary predicate, every `from`, every `to` (D7 is closed); together with
                            the exact characterisation of when the code BEFORE the repair panicked and the
                            fact that the repair changes nothing else;
* `loop_compute_bounded`    `RedirectionLoop::compute` evaluates the router at most `max_hops` times and
                            returns at most `max_hops + 1` hops, for every router (termination);
* `request_time_total`      the repaired rendering of the `request_time` variable never panics (W8-F2 is closed), with
                            the exact characterisation of when the code before the repair panicked;
* `null_patterns`           no `extern "C"` entry point dereferences a null parameter, under any null pattern
                            of its nullable parameters — `decide` over the finite table regenerated from the
                            source (`Rio.Consts.ffiNullTable`); removing a null check breaks this proof.
-/
import RioModel.Model.PanicSlice
import RioModel.Model.FfiNull
import RioModel.Model.PanicTime
import RioModel.Proofs.Loop
set_option linter.unusedSimpArgs false

namespace Rio.C07
open Rio.Slice

/-! ### Slice transformer -/

/-- **The repaired transformer is total**: whatever the string, the boundary set and the indices
(`from > to`, indices inside a multi-byte character, huge indices), the result is a value. -/
theorem slice_transform_total (bs : List Nat) (isB : Nat → Bool) (from_ : Nat) (to : Option Nat) :
    transform bs isB from_ to ≠ Outcome.panic := by
  unfold transform
  simp only
  split
  · simp
  · split <;> simp

/-- The repair is conservative: where the old code returned a value, the new code returns the same. -/
theorem slice_agrees_with_old (bs : List Nat) (isB : Nat → Bool) (from_ : Nat) (to : Option Nat)
    (out : List Nat) (h : transformOld bs isB from_ to = Outcome.ok out) :
    transform bs isB from_ to = Outcome.ok out := by
  unfold transformOld at h
  unfold transform
  simp only at h ⊢
  split
  · rename_i hc; simp only [hc, if_true] at h; exact h
  · rename_i hc
    simp only [hc, if_false] at h
    split at h
    · exact h
    · exact absurd h (by simp)

/-- Exactly when the code before the repair panicked (D7): `from` is inside the string and the
(clamped) range is not a valid `str` range — `from > to`, or an index off a char boundary. -/
theorem slice_old_panics_iff (bs : List Nat) (isB : Nat → Bool) (from_ : Nat) (to : Option Nat) :
    transformOld bs isB from_ to = Outcome.panic ↔
      from_ ≤ bs.length ∧
        get? bs isB from_ (if to.getD bs.length > bs.length then bs.length else to.getD bs.length) = none := by
  unfold transformOld
  simp only
  split
  · rename_i hc; constructor
    · intro h; exact absurd h (by simp)
    · rintro ⟨h, _⟩; omega
  · rename_i hc
    constructor
    · intro h
      refine ⟨by omega, ?_⟩
      split at h
      · exact absurd h (by simp)
      · assumption
    · rintro ⟨_, h⟩
      rw [h]

/-- What the transformer returns: the requested byte range when it is a valid range, nothing otherwise. -/
theorem slice_transform_spec (bs : List Nat) (isB : Nat → Bool) (from_ : Nat) (to : Option Nat) :
    transform bs isB from_ to =
      Outcome.ok (if from_ > bs.length then []
        else (get? bs isB from_ (min (to.getD bs.length) bs.length)).getD []) := by
  unfold transform
  simp only
  split
  · rfl
  · have : (if to.getD bs.length > bs.length then bs.length else to.getD bs.length) =
        min (to.getD bs.length) bs.length := by
      split <;> omega
    rw [this]
    split <;> simp_all

/-- D7 witnesses, on the real byte strings: `"abc"[2..1]` and `"é"[1..2]` panicked before the repair. -/
example : transformOld [97, 98, 99] (utf8Boundary [97, 98, 99]) 2 (some 1) = Outcome.panic := by decide
example : transformOld [195, 169] (utf8Boundary [195, 169]) 1 none = Outcome.panic := by decide
example : transform [97, 98, 99] (utf8Boundary [97, 98, 99]) 2 (some 1) = Outcome.ok [] := by decide
example : transform [195, 169] (utf8Boundary [195, 169]) 1 none = Outcome.ok [] := by decide
example : transform [97, 195, 169, 98] (utf8Boundary [97, 195, 169, 98]) 1 (some 3) = Outcome.ok [195, 169] := by
  decide
example : transform [97, 98, 99] (utf8Boundary [97, 98, 99]) 1 (some 1000000) = Outcome.ok [98, 99] := by decide

/-! ### The `request_time` variable (finding W8-F2, repaired by 2547641) -/

open Rio.Time in
/-- **The repaired rendering never panics**, whatever the instant. -/
theorem request_time_total (c : Civil) : ∃ s, requestTime c = Rio.Time.Outcome.ok s := by
  unfold requestTime
  split
  · rename_i h
    unfold rfc2822
    have : ¬ (c.year < 0 ∨ c.year > 9999) := by omega
    simp only [this, if_false]
    exact ⟨_, rfl⟩
  · exact ⟨_, rfl⟩

open Rio.Time in
/-- Exactly when the code before the repair panicked: a year outside 0..=9999 (W8-F2). -/
theorem request_time_old_panics_iff (c : Civil) :
    (∀ s, requestTimeOld c ≠ Rio.Time.Outcome.ok s) ↔ (c.year < 0 ∨ c.year > 9999) := by
  unfold requestTimeOld rfc2822
  constructor
  · intro h
    by_cases hy : c.year < 0 ∨ c.year > 9999
    · exact hy
    · simp only [hy, if_false] at h
      exact absurd rfl (h _)
  · intro hy s
    simp [hy]

open Rio.Time in
/-- The repair changes nothing inside the range. -/
theorem request_time_agrees_with_old (c : Civil) (h : 0 ≤ c.year ∧ c.year ≤ 9999) :
    requestTime c = requestTimeOld c := by
  simp [requestTime, requestTimeOld, h]

/-! ### Redirect-loop analysis terminates -/

open Rio.Loop in
/-- For every router step function, project-domain predicate, limit, url and method: at most
`max_hops` router evaluations, at most `max_hops + 1` hops. -/
theorem loop_compute_bounded {U M : Type} [DecidableEq U] [DecidableEq M]
    (step : U → M → StepOut U) (ext : U → Bool) (get : M) (maxHops : Nat) (url : U) (method : M) :
    (computeCount step ext get maxHops url method).1 = compute step ext get maxHops url method ∧
    (computeCount step ext get maxHops url method).2 ≤ maxHops ∧
    (compute step ext get maxHops url method).hops.length ≤ maxHops + 1 := by
  have h := runCount_spec step ext get maxHops maxHops 1 (init url method) 0
  exact ⟨h.1, by simpa [computeCount] using h.2, (compute_post step ext get maxHops url method).bound⟩

/-! ### Null patterns of the C API -/

open Rio.FfiNull in
/-- **Every entry point is null-safe under every null pattern.**  `table` is regenerated from the source;
this is a `decide` over a finite table (`Rio.Consts.ffiNullTableSize` entries: every `extern "C"` function and the four helpers
pointers go through; at most 2^5 patterns each), labelled as such. -/
theorem null_patterns : table.all Entry.safeAll = true := by decide

open Rio.FfiNull in
/-- The table is the real one (not empty), and the check is not vacuous: an entry point that dereferences
before checking is rejected, and a deref in an else-branch is accepted. -/
example : table.length = Rio.Consts.ffiNullTableSize ∧ table.length ≥ 25 := by decide
open Rio.FfiNull in
example : Entry.safeAll ⟨"bad", ["p"], [.deref 0, .guard 0]⟩ = false := by decide
open Rio.FfiNull in
example : Entry.safeAll ⟨"good", ["p", "q"], [.guard 0, .deref 0, .helper 1, .derefElse 1]⟩ = true := by decide
open Rio.FfiNull in
example : run [true, false] [.guard 0, .deref 0] = Outcome.returnedEarly 0 := by decide

end Rio.C07
