/-
C09 — URL normalisation is canonical: rules and requests agree on equivalent URLs.

Property theorems only; helper lemmas live in Proofs/Url{Enc,Map,}.lean, the model in Model/Url.lean.
URLs are byte strings (`List Nat`); `IsBytes u` says every element is < 256 (needed wherever an
escaped byte has to decode back to itself).  The encode sets are the regenerated constants of
`Rio.Consts`; `SafeSet` facts about them are proved by evaluation, so changing a set on one side
only breaks `self_match`.
-/
import RioModel.Proofs.Url
import RioModel.Proofs.UrlRouterBridge
set_option linter.unusedSimpArgs false
set_option linter.unusedVariables false

namespace Rio.C09
open Rio.Url

/-! ### percent-encoding round trip (the core lemma, for all byte strings) -/

/-- `percent_decode(utf8_percent_encode(x, set)) = percent_decode(x)` for every byte string and
every set that contains neither `%` nor a hex digit: the encoder leaves `%` alone, so input that
is already escaped stays escaped, and every byte it escapes decodes back to itself. -/
theorem decode_encode (S : List Nat) (hS : SafeSet S = true) (x : Bytes) (hx : IsBytes x) :
    pctDecode (pctEncode S x) = pctDecode x :=
  pctDecode_pctEncode hS x hx

/-- … hence `decode ∘ encode = id` exactly on the strings without `%`. -/
theorem decode_encode_id (S : List Nat) (hS : SafeSet S = true) (x : Bytes) (hx : IsBytes x)
    (h : 37 ∉ x) : pctDecode (pctEncode S x) = x :=
  pctDecode_pctEncode_id hS x hx h

/-- the witness for the excluded point: the literal text `%41` is not recovered. -/
theorem decode_encode_id_fails :
    pctDecode (pctEncode urlSet [37, 52, 49]) ≠ [37, 52, 49] := by decide

/-- Both encode passes of the rule side compose to one pass with the larger set. -/
theorem encode_twice (x : Bytes) :
    pctEncode ruleQuerySet (pctEncode sortedQuerySet x) = pctEncode querySet x := by
  rw [ruleQuerySet_eq]
  exact pctEncode_pctEncode safe_querySet (shouldEncode_mono sortedQuerySet_sub) x

/-- The request side sees the same decoded parameters in the sanitised query as the rule side sees
in the raw query. -/
theorem parse_sanitized (q : Bytes) (hq : IsBytes q) : parseQuery (sanitize q) = parseQuery q :=
  parseQuery_pctEncode safe_urlSet shouldEncode_urlSet_43 q hq

/-! ### self-match -/

/-- **A rule whose source is the literal path and query of `u` matches the request for `u`**, under
every configuration, for every URL inside the decidable domain `WFurl cfg u` (Model/Url.lean:
sanitised URL accepted by `PathAndQuery`, non-empty path, no ignored marketing parameter in `u`,
the empty parameter `=` not combined with others).  Repeated keys are allowed.
This is the PARTIAL statement: the unqualified one (`SelfMatchFull`, below) is false of the code; the four clauses of
`WFurl` are the four recorded findings `self-match-*`, not restrictions of the property's quantifier. -/
theorem self_match (cfg : Cfg) (u : Bytes) (hb : IsBytes u) (hwf : WFurl cfg u = true) :
    ruleKey cfg u = reqKey cfg u :=
  ruleKey_eq_reqKey cfg u hb hwf

/-- the router's comparison. -/
theorem self_match_router (cfg : Cfg) (u : Bytes) (hb : IsBytes u) (hwf : WFurl cfg u = true) :
    ruleMatches cfg u u = true := by
  unfold ruleMatches matchesKey
  rw [self_match cfg u hb hwf]; simp

/-- **Exactly which URLs `PathAndQuery` accepts after `sanitize_url`** (so exactly when the request
side sorts and re-encodes): not empty, sanitised length ≤ 65534, `*` or starting with `/` or `?`,
no back-quote before the first `?`.  Every other byte `PathAndQuery` would reject is in the
sanitising encode set. -/
theorem accepted_syntax (u : Bytes) : (pqParse (sanitize u)).isSome = true ↔ AcceptedSyntax u :=
  accepted_iff u

/-- `WFurl`, spelled out. -/
theorem wfurl_syntax (cfg : Cfg) (u : Bytes) :
    WFurl cfg u = true ↔
      AcceptedSyntax u ∧ (splitFirst 63 u).1 ≠ [] ∧
      (paramsOf u).all (fun kv => !isMarketing cfg kv.1) = true ∧ EmptyParamAlone (paramsOf u) := by
  rw [WFurl_iff, accepted_iff]

/-- Each clause of `WFurl` is needed: witnesses (default marketing parameters). -/
def cfgDefault : Cfg :=
  { ignoreCase := false, ignoreMarketing := true, passMarketing := true,
    marketing := [[117, 116, 109, 95, 115, 111, 117, 114, 99, 101]] }   -- "utm_source"

/-- `/a?=&a`: the empty parameter next to another one. -/
theorem self_match_fails_empty_param :
    ruleMatches cfgDefault [47, 97, 63, 61, 38, 97] [47, 97, 63, 61, 38, 97] = false := by decide

/-- `?a`: empty path. -/
theorem self_match_fails_empty_path : ruleMatches cfgDefault [63, 97] [63, 97] = false := by decide

/-- ``/`?b&a``: a URL `PathAndQuery` rejects is matched unsorted. -/
theorem self_match_fails_rejected :
    ruleMatches cfgDefault [47, 96, 63, 98, 38, 97] [47, 96, 63, 98, 38, 97] = false := by decide

/-- `/a?utm_source`: a rule naming an ignored marketing parameter never matches. -/
theorem self_match_fails_marketing :
    ruleMatches cfgDefault ([47, 97, 63] ++ [117, 116, 109, 95, 115, 111, 117, 114, 99, 101])
      ([47, 97, 63] ++ [117, 116, 109, 95, 115, 111, 117, 114, 99, 101]) = false := by decide

/-- The property as stated: **under every router configuration, a rule whose source is the literal path and query of a
URL matches a request for that URL.** -/
def SelfMatchFull : Prop := ∀ (cfg : Cfg) (u : Bytes), IsBytes u → ruleMatches cfg u u = true

/-- It is FALSE of the code, in four independent ways (the four witnesses above; known findings
`self-match-empty-param`, `self-match-empty-path`, `self-match-rejected-by-pathandquery`,
`self-match-marketing-param`).  `self_match` is what holds: the statement restricted to `WFurl`. -/
theorem self_match_full_fails : ¬ SelfMatchFull := by
  intro h
  have := h cfgDefault [47, 97, 63, 61, 38, 97] (by decide)
  rw [self_match_fails_empty_param] at this
  cases this

/-- each of the four classes refutes it on its own -/
theorem self_match_full_fails_each :
    (∃ u, IsBytes u ∧ (paramsOf u).contains ([], []) = true ∧ ruleMatches cfgDefault u u = false) ∧
    (∃ u, IsBytes u ∧ (splitFirst 63 u).1 = [] ∧ ruleMatches cfgDefault u u = false) ∧
    (∃ u, IsBytes u ∧ (pqParse (sanitize u)).isSome = false ∧ ruleMatches cfgDefault u u = false) ∧
    (∃ u, IsBytes u ∧ (paramsOf u).any (fun kv => isMarketing cfgDefault kv.1) = true ∧
      ruleMatches cfgDefault u u = false) :=
  ⟨⟨[47, 97, 63, 61, 38, 97], by decide, by decide, by decide⟩,
   ⟨[63, 97], by decide, by decide, by decide⟩,
   ⟨[47, 96, 63, 98, 38, 97], by decide, by decide, by decide⟩,
   ⟨[47, 97, 63] ++ [117, 116, 109, 95, 115, 111, 117, 114, 99, 101], by decide, by decide, by decide⟩⟩

/-! ### order independence -/

/-- the three fields the router and the action use. -/
def SameNorm (r r' : PQS) : Prop :=
  r.pathAndQuery = r'.pathAndQuery ∧ r.matching = r'.matching ∧ r.skipped = r'.skipped

/-- **Permuting the query parameters (distinct decoded keys) leaves the normalised request
unchanged**: `Q'` has the same `&`-separated pieces as `Q` in another order.  (Acceptance of the
permuted URL by `PathAndQuery` follows from acceptance of the first: `accepted_perm`.) -/
theorem order_independent (cfg : Cfg) (P Q Q' : Bytes) (hP : 63 ∉ P)
    (hb : IsBytes (P ++ 63 :: Q)) (hb' : IsBytes (P ++ 63 :: Q'))
    (hperm : (pieces 38 Q).Perm (pieces 38 Q'))
    (hnd : ((parseQuery Q).map Prod.fst).Nodup)
    (hacc : (pqParse (sanitize (P ++ 63 :: Q))).isSome = true) :
    SameNorm (fromConfig cfg (P ++ 63 :: Q)) (fromConfig cfg (P ++ 63 :: Q')) := by
  have hacc' := accepted_perm P Q Q' hP hperm hacc
  have hpq : (parseQuery Q).Perm (parseQuery Q') := by
    unfold parseQuery
    exact (hperm.filter _).map _
  have hm : paramsOf (P ++ 63 :: Q) = paramsOf (P ++ 63 :: Q') := by
    rw [paramsOf_url P Q hP, paramsOf_url P Q' hP]
    exact btCollect_perm hpq hnd
  rw [fromConfig_accepted cfg _ hb hacc, fromConfig_accepted cfg _ hb' hacc']
  simp only [SameNorm, hm, splitFirst_url P Q hP, splitFirst_url P Q' hP, and_self]

/-- … so every rule matches both or neither. -/
theorem order_independent_match (cfg : Cfg) (ruleK : Bytes) (P Q Q' : Bytes) (hP : 63 ∉ P)
    (hb : IsBytes (P ++ 63 :: Q)) (hb' : IsBytes (P ++ 63 :: Q'))
    (hperm : (pieces 38 Q).Perm (pieces 38 Q'))
    (hnd : ((parseQuery Q).map Prod.fst).Nodup)
    (hacc : (pqParse (sanitize (P ++ 63 :: Q))).isSome = true) :
    matchesKey ruleK (reqKey cfg (P ++ 63 :: Q)) = matchesKey ruleK (reqKey cfg (P ++ 63 :: Q')) := by
  have := order_independent cfg P Q Q' hP hb hb' hperm hnd hacc
  unfold reqKey PQS.key
  rw [this.2.1, this.1]

/-- The full statement (no distinct-keys hypothesis) is false — DESIGN §6-D13, known finding
`duplicate-key-order`: rule `/a?k=1&k=2` matches `/a?k=1&k=2` but not `/a?k=2&k=1`. -/
def OrderIndependentFull : Prop :=
  ∀ (cfg : Cfg) (P Q Q' : Bytes), 63 ∉ P → IsBytes (P ++ 63 :: Q) → IsBytes (P ++ 63 :: Q') →
    (pieces 38 Q).Perm (pieces 38 Q') →
    (pqParse (sanitize (P ++ 63 :: Q))).isSome = true →
    reqKey cfg (P ++ 63 :: Q) = reqKey cfg (P ++ 63 :: Q')

theorem order_independent_full_fails : ¬ OrderIndependentFull := by
  intro h
  have := h cfgDefault [47, 97] [107, 61, 49, 38, 107, 61, 50] [107, 61, 50, 38, 107, 61, 49]
    (by decide) (by decide) (by decide) (by decide) (by decide)
  revert this
  decide

/-! ### marketing parameters are ignored for matching … -/

/-- **Two URLs with the same path and the same non-marketing pieces (in the same order) normalise
to the same path-and-query and matching key** — whatever marketing parameters either of them
carries, wherever they stand.  (`keptPieces`: the non-empty `&`-pieces whose decoded name is not in
the configured set; with the ignore flag off nothing is a marketing parameter.) -/
theorem marketing_ignored (cfg : Cfg) (u u' : Bytes) (hb : IsBytes u) (hb' : IsBytes u')
    (hacc : (pqParse (sanitize u)).isSome = true) (hacc' : (pqParse (sanitize u')).isSome = true)
    (hpath : (splitFirst 63 u).1 = (splitFirst 63 u').1)
    (hkept : keptPieces cfg (queryOf u) = keptPieces cfg (queryOf u')) :
    (fromConfig cfg u).pathAndQuery = (fromConfig cfg u').pathAndQuery ∧
    reqKey cfg u = reqKey cfg u' := by
  unfold reqKey
  rw [fromConfig_accepted cfg u hb hacc, fromConfig_accepted cfg u' hb' hacc']
  simp only [PQS.key, npq, keptOf_congr cfg hkept, hpath, and_self]

/-- Instance: a marketing parameter appended to a URL that already has a query. -/
theorem marketing_appended (cfg : Cfg) (u Q seg : Bytes) (hQ : (splitFirst 63 u).2 = some Q)
    (h38 : 38 ∉ seg) (hmk : isMarketing cfg (parsePair seg).1 = true)
    (hb : IsBytes u) (hb' : IsBytes (u ++ 38 :: seg))
    (hacc : (pqParse (sanitize u)).isSome = true)
    (hacc' : (pqParse (sanitize (u ++ 38 :: seg))).isSome = true) :
    reqKey cfg (u ++ 38 :: seg) = reqKey cfg u := by
  refine (marketing_ignored cfg (u ++ 38 :: seg) u hb' hb hacc' hacc ?_ ?_).2
  · rw [splitFirst_append_some hQ]
  · unfold queryOf
    rw [splitFirst_append_some hQ, hQ]
    simp only [Option.getD_some]
    rw [keptPieces_append, keptPieces_marketing cfg h38 hmk, List.append_nil]

/-- Instance: a marketing parameter added to a URL without query (`/a` vs `/a?utm_source=x`). -/
theorem marketing_added (cfg : Cfg) (u seg : Bytes) (h63 : 63 ∉ u)
    (h38 : 38 ∉ seg) (hmk : isMarketing cfg (parsePair seg).1 = true)
    (hb : IsBytes u) (hb' : IsBytes (u ++ 63 :: seg))
    (hacc : (pqParse (sanitize u)).isSome = true)
    (hacc' : (pqParse (sanitize (u ++ 63 :: seg))).isSome = true) :
    reqKey cfg (u ++ 63 :: seg) = reqKey cfg u := by
  refine (marketing_ignored cfg (u ++ 63 :: seg) u hb' hb hacc' hacc ?_ ?_).2
  · rw [splitFirst_url u seg h63, splitFirst_of_not_mem h63]
  · unfold queryOf
    rw [splitFirst_url u seg h63, splitFirst_of_not_mem h63]
    simp only [Option.getD_some, Option.getD_none]
    rw [keptPieces_marketing cfg h38 hmk, keptPieces_nil]

/-! ### … and forwarded to the target iff so configured -/

/-- **Skipped parameters are reported iff the pass flag is set and some ignored marketing
parameter (other than the empty one) is present**; the reported string is exactly those
parameters, sorted and re-encoded (`skippedStr`). -/
theorem skipped_forwarded (cfg : Cfg) (u : Bytes) (hb : IsBytes u)
    (hacc : (pqParse (sanitize u)).isSome = true) :
    (skipped cfg u = some (skippedStr cfg (paramsOf u)) ↔
      (cfg.passMarketing = true ∧ ∃ kv ∈ paramsOf u, isMarketing cfg kv.1 = true ∧ kv ≠ ([], []))) ∧
    (skipped cfg u = none ↔
      ¬(cfg.passMarketing = true ∧ ∃ kv ∈ paramsOf u, isMarketing cfg kv.1 = true ∧ kv ≠ ([], []))) := by
  unfold skipped
  rw [fromConfig_accepted cfg u hb hacc]
  simp only [skippedOf]
  rw [← skippedStr_ne_nil]
  cases hp : cfg.passMarketing <;> cases hs : skippedStr cfg (paramsOf u) <;> simp

/-- Without the pass flag, or without the ignore flag, nothing is ever forwarded (all URLs). -/
theorem skipped_none (cfg : Cfg) (u : Bytes) (hb : IsBytes u)
    (h : cfg.passMarketing = false ∨ cfg.ignoreMarketing = false) : skipped cfg u = none := by
  unfold skipped
  cases hacc : (pqParse (sanitize u)).isSome with
  | false =>
    have : pqParse (sanitize u) = none := by
      cases h : pqParse (sanitize u) with
      | none => rfl
      | some _ => rw [h] at hacc; cases hacc
    simp [fromConfig, this]
  | true =>
    rw [fromConfig_accepted cfg u hb hacc]
    simp only [skippedOf]
    rcases h with h | h
    · simp [h]
    · simp [skippedStr_of_not_ignore cfg h]

/-- The redirect target carries exactly the skipped parameters: appended after `?`, or after `&`
when the target already has a query; untouched when nothing was skipped. -/
theorem location_forwarded (target s : Bytes) :
    location target none = target ∧
    location target (some s) = target ++ (if target.contains 63 then [38] else [63]) ++ s :=
  ⟨rfl, rfl⟩

/-! ### ASCII case under `ignore_path_and_query_case` -/

/-- The full statement: URLs that differ only in ASCII letter case get the same key when the flag
is set. -/
def CaseIndependentFull : Prop :=
  ∀ (cfg : Cfg) (u u' : Bytes), cfg.ignoreCase = true → IsBytes u → IsBytes u' →
    (pqParse (sanitize u)).isSome = true → (pqParse (sanitize u')).isSome = true →
    lowerAscii u = lowerAscii u' → reqKey cfg u = reqKey cfg u'

def cfgCase : Cfg := { cfgDefault with ignoreCase := true }

/-- It is false of the code, for two independent reasons (both recorded as known findings).
(1) `case-key-order`: the parameters are sorted by the case-sensitive key before lower-casing:
`/a?B=1&a=2` ↦ `/a?b=1&a=2`, `/a?b=1&A=2` ↦ `/a?a=2&b=1`. -/
theorem case_independent_full_fails_key_order : ¬ CaseIndependentFull := by
  intro h
  have := h cfgCase [47, 97, 63, 66, 61, 49, 38, 97, 61, 50] [47, 97, 63, 98, 61, 49, 38, 65, 61, 50]
    (by decide) (by decide) (by decide) (by decide) (by decide) (by decide)
  revert this
  decide

/-- (2) `case-marketing-name`: marketing names are compared case-sensitively:
`/a?utm_source` ↦ `/a`, `/a?UTM_SOURCE` ↦ `/a?utm_source`. -/
theorem case_independent_full_fails_marketing_name : ¬ CaseIndependentFull := by
  intro h
  have := h cfgCase ([47, 97, 63] ++ [117, 116, 109, 95, 115, 111, 117, 114, 99, 101])
    ([47, 97, 63] ++ [85, 84, 77, 95, 83, 79, 85, 82, 67, 69])
    (by decide) (by decide) (by decide) (by decide) (by decide) (by decide)
  revert this
  decide

/-- **What does hold**: if the paths agree up to ASCII case and the collected parameter lists
correspond entry by entry up to ASCII case (so: same order after collecting) with the same entries
classified as marketing parameters, the keys are equal.  `l` is the list of corresponding entries. -/
theorem case_independent_partial (cfg : Cfg) (hic : cfg.ignoreCase = true) (u u' : Bytes)
    (hb : IsBytes u) (hb' : IsBytes u')
    (hacc : (pqParse (sanitize u)).isSome = true) (hacc' : (pqParse (sanitize u')).isSome = true)
    (hpath : lowerAscii (splitFirst 63 u).1 = lowerAscii (splitFirst 63 u').1)
    (l : List ((Bytes × Bytes) × (Bytes × Bytes)))
    (hl : paramsOf u = l.map Prod.fst) (hl' : paramsOf u' = l.map Prod.snd)
    (hcorr : ∀ pr ∈ l, lowerAscii pr.1.1 = lowerAscii pr.2.1 ∧ lowerAscii pr.1.2 = lowerAscii pr.2.2 ∧
      isMarketing cfg pr.1.1 = isMarketing cfg pr.2.1) :
    reqKey cfg u = reqKey cfg u' := by
  unfold reqKey
  rw [fromConfig_accepted cfg u hb hacc, fromConfig_accepted cfg u' hb' hacc']
  simp only [PQS.key, hic, lowerIf, if_true, hl, hl']
  exact lower_npq cfg (lower_pqPath (lower_pctEncode letters_not_encoded_url hpath)) l hcorr

/-- In particular, for URLs without query: **path matching is ASCII-case-insensitive under the
flag**, for every URL (accepted by `PathAndQuery` or not). -/
theorem case_independent_path (cfg : Cfg) (hic : cfg.ignoreCase = true) (u u' : Bytes)
    (hb : IsBytes u) (hb' : IsBytes u') (h63 : 63 ∉ u) (h63' : 63 ∉ u')
    (h : lowerAscii u = lowerAscii u') : reqKey cfg u = reqKey cfg u' := by
  rw [reqKey_no_query cfg u hb h63, reqKey_no_query cfg u' hb' h63']
  simp only [hic, lowerIf, if_true]
  exact lower_pctEncode letters_not_encoded_url h

/-! ### separation -/

/-- **Distinct paths or distinct (non-marketing) decoded parameter lists give distinct keys**
(case-sensitive configuration; decoded parameters `Plain`: no `%`, `&`, no `=` in names, valid
UTF-8, not the empty parameter).  Contrapositive form: equal keys force equal sanitised paths and
equal collected parameters. -/
theorem separation (cfg : Cfg) (hic : cfg.ignoreCase = false) (u u' : Bytes)
    (hb : IsBytes u) (hb' : IsBytes u')
    (hacc : (pqParse (sanitize u)).isSome = true) (hacc' : (pqParse (sanitize u')).isSome = true)
    (hpl : ∀ kv ∈ (paramsOf u).filter (notMarketing cfg), Plain kv)
    (hpl' : ∀ kv ∈ (paramsOf u').filter (notMarketing cfg), Plain kv)
    (hkey : reqKey cfg u = reqKey cfg u') :
    pqPath (sanitize (splitFirst 63 u).1) = pqPath (sanitize (splitFirst 63 u').1) ∧
    (paramsOf u).filter (notMarketing cfg) = (paramsOf u').filter (notMarketing cfg) := by
  unfold reqKey at hkey
  rw [fromConfig_accepted cfg u hb hacc, fromConfig_accepted cfg u' hb' hacc'] at hkey
  simp only [PQS.key, hic, lowerIf, Bool.false_eq_true, if_false] at hkey
  have h63 : ∀ w : Bytes, 63 ∉ pqPath (sanitize (splitFirst 63 w).1) := fun w =>
    not_mem_pqPath_63 (not_mem_pctEncode_of_not_mem isDelim_63 (not_mem_splitFirst_fst 63 w))
  exact npq_inj cfg (h63 u) (h63 u') hpl hpl' hkey

/-- … so a rule built from `u` (inside `WFurl`) does not match a request whose path or parameters
differ. -/
theorem separation_no_match (cfg : Cfg) (hic : cfg.ignoreCase = false) (u u' : Bytes)
    (hb : IsBytes u) (hb' : IsBytes u') (hwf : WFurl cfg u = true)
    (hacc' : (pqParse (sanitize u')).isSome = true)
    (hpl : ∀ kv ∈ (paramsOf u).filter (notMarketing cfg), Plain kv)
    (hpl' : ∀ kv ∈ (paramsOf u').filter (notMarketing cfg), Plain kv)
    (hdiff : pqPath (sanitize (splitFirst 63 u).1) ≠ pqPath (sanitize (splitFirst 63 u').1) ∨
      (paramsOf u).filter (notMarketing cfg) ≠ (paramsOf u').filter (notMarketing cfg)) :
    ruleMatches cfg u u' = false := by
  cases hm : ruleMatches cfg u u' with
  | false => rfl
  | true =>
    unfold ruleMatches matchesKey at hm
    rw [self_match cfg u hb hwf] at hm
    have hkey : reqKey cfg u = reqKey cfg u' := by simpa using hm
    have hacc := ((WFurl_iff cfg u).mp hwf).1
    have := separation cfg hic u u' hb hb' hacc hacc' hpl hpl' hkey
    rcases hdiff with h | h
    · exact absurd this.1 h
    · exact absurd this.2 h

/-- **Separation under `ignore_path_and_query_case`: equal keys force equal paths and equal (non-marketing) decoded
parameter lists UP TO ASCII CASE** — URLs that differ by more than the case of ASCII letters get different keys also
when the flag is set (same hypotheses otherwise; `lowerKV` lower-cases name and value). -/
theorem separation_ignore_case (cfg : Cfg) (hic : cfg.ignoreCase = true) (u u' : Bytes)
    (hb : IsBytes u) (hb' : IsBytes u')
    (hacc : (pqParse (sanitize u)).isSome = true) (hacc' : (pqParse (sanitize u')).isSome = true)
    (hpl : ∀ kv ∈ (paramsOf u).filter (notMarketing cfg), Plain kv)
    (hpl' : ∀ kv ∈ (paramsOf u').filter (notMarketing cfg), Plain kv)
    (hkey : reqKey cfg u = reqKey cfg u') :
    lowerAscii (pqPath (sanitize (splitFirst 63 u).1)) = lowerAscii (pqPath (sanitize (splitFirst 63 u').1)) ∧
    ((paramsOf u).filter (notMarketing cfg)).map lowerKV = ((paramsOf u').filter (notMarketing cfg)).map lowerKV := by
  unfold reqKey at hkey
  rw [fromConfig_accepted cfg u hb hacc, fromConfig_accepted cfg u' hb' hacc'] at hkey
  simp only [PQS.key, hic, lowerIf, if_true] at hkey
  have h63 : ∀ w : Bytes, 63 ∉ pqPath (sanitize (splitFirst 63 w).1) := fun w =>
    not_mem_pqPath_63 (not_mem_pctEncode_of_not_mem isDelim_63 (not_mem_splitFirst_fst 63 w))
  exact lower_npq_inj cfg (h63 u) (h63 u') hpl hpl' hkey

/-- … so, with the flag, a rule built from `u` (inside `WFurl`) does not match a request whose path or parameters
differ by more than ASCII case. -/
theorem separation_ignore_case_no_match (cfg : Cfg) (hic : cfg.ignoreCase = true) (u u' : Bytes)
    (hb : IsBytes u) (hb' : IsBytes u') (hwf : WFurl cfg u = true)
    (hacc' : (pqParse (sanitize u')).isSome = true)
    (hpl : ∀ kv ∈ (paramsOf u).filter (notMarketing cfg), Plain kv)
    (hpl' : ∀ kv ∈ (paramsOf u').filter (notMarketing cfg), Plain kv)
    (hdiff : lowerAscii (pqPath (sanitize (splitFirst 63 u).1)) ≠ lowerAscii (pqPath (sanitize (splitFirst 63 u').1)) ∨
      ((paramsOf u).filter (notMarketing cfg)).map lowerKV ≠ ((paramsOf u').filter (notMarketing cfg)).map lowerKV) :
    ruleMatches cfg u u' = false := by
  cases hm : ruleMatches cfg u u' with
  | false => rfl
  | true =>
    unfold ruleMatches matchesKey at hm
    rw [self_match cfg u hb hwf] at hm
    have hkey : reqKey cfg u = reqKey cfg u' := by simpa using hm
    have hacc := ((WFurl_iff cfg u).mp hwf).1
    have := separation_ignore_case cfg hic u u' hb hb' hacc hacc' hpl hpl' hkey
    rcases hdiff with h | h
    · exact absurd this.1 h
    · exact absurd this.2 h

/-- **The case flag only ever sees ASCII text, on both sides.**  Rust applies the Unicode `str::to_lowercase`; the
model applies ASCII lower-casing.  They coincide because the text that is lower-cased — the key of the case-sensitive
configuration — is pure ASCII for EVERY URL: `sanitize_url` / `utf8_percent_encode` escape every non-ASCII byte before
the flag is applied. -/
theorem lowercased_text_ascii (cfg : Cfg) (u : Bytes) :
    reqKey cfg u = lowerIf cfg.ignoreCase (reqKey { cfg with ignoreCase := false } u) ∧
    Ascii (reqKey { cfg with ignoreCase := false } u) ∧
    ruleKey cfg u = lowerIf cfg.ignoreCase (ruleKey { cfg with ignoreCase := false } u) ∧
    Ascii (ruleKey { cfg with ignoreCase := false } u) := by
  refine ⟨?_, ascii_reqKey _ u, ?_, ascii_ruleKey _ u⟩
  · have h1 : ∀ c : Cfg, (fromConfig c u).key = lowerIf c.ignoreCase (fromConfig c u).pathAndQuery := by
      intro c
      unfold fromConfig
      simp only
      split <;> simp [PQS.key]
    have h2 : (fromConfig { cfg with ignoreCase := false } u).pathAndQuery = (fromConfig cfg u).pathAndQuery := by
      unfold fromConfig
      simp only
      split
      · rfl
      · rfl
    unfold reqKey
    rw [h1 cfg, h1 { cfg with ignoreCase := false }, h2]
    simp [lowerIf]
  · simp [ruleKey, ruleKeyOf, lowerIf]

/-- consequence, and a limit of the flag in the code: the case of NON-ASCII letters is never ignored — `/É` and `/é`
(`/%C3%89`, `/%C3%A9` after sanitising) keep different keys under `ignore_path_and_query_case` (the escapes are
lower-cased, not the letters they stand for). -/
theorem case_flag_ascii_letters_only :
    reqKey cfgCase [47, 195, 137] = [47, 37, 99, 51, 37, 56, 57] ∧
    reqKey cfgCase [47, 195, 169] = [47, 37, 99, 51, 37, 97, 57] := by decide

/-- The excluded point is real: a decoded value containing `%20` collides with a space
(`/a?x=%2520` and `/a?x=%20` get the same key). -/
theorem separation_fails_encoded_percent :
    reqKey cfgDefault [47, 97, 63, 120, 61, 37, 50, 53, 50, 48] = reqKey cfgDefault [47, 97, 63, 120, 61, 37, 50, 48] ∧
    paramsOf [47, 97, 63, 120, 61, 37, 50, 53, 50, 48] ≠ paramsOf [47, 97, 63, 120, 61, 37, 50, 48] := by
  decide

/-! ### re-normalising a request changes nothing -/

/-- **`rebuild_with_config` is idempotent.** -/
theorem rebuild_idempotent (cfg : Cfg) (r : Req) :
    Req.rebuild cfg (Req.rebuild cfg r) = Req.rebuild cfg r := by
  unfold Req.rebuild
  simp only [Req.mk.injEq, true_and]
  refine ⟨?_, ?_⟩
  · cases r.host <;> simp [lowerIf_idem]
  · simp [List.map_map, Function.comp_def, lowerIf_idem]

/-- **Rebuilding a request made by `Request::from_config` under the same configuration returns it
unchanged** (headers added afterwards with the configured case). -/
theorem rebuild_fromConfig (cfg : Cfg) (u : Bytes) (host : Option Bytes) :
    Req.rebuild cfg (Req.fromConfig cfg u host) = Req.fromConfig cfg u host := by
  unfold Req.rebuild Req.fromConfig
  simp only [Req.mk.injEq, true_and, List.map_nil, and_true]
  cases host <;> simp [lowerIf_idem]

/-- Under a different configuration the URL part of the result is what `from_config` gives for the
original URL: nothing of the first normalisation leaks into the second. -/
theorem rebuild_other_config (cfg cfg' : Cfg) (u : Bytes) (host : Option Bytes) :
    (Req.rebuild cfg' (Req.fromConfig cfg u host)).pqs = fromConfig cfg' u := rfl

theorem fromConfig_original (cfg : Cfg) (u : Bytes) : (fromConfig cfg u).original = u := by
  unfold fromConfig
  simp only
  split <;> rfl

/-- **A request restored without its `path_and_query_v2` field** (older JSON shape: the field is `None`) **is rebuilt from
`path_and_query_skipped.original`**: under every configuration the result is the rebuild of the request that still has
the field — so nothing of the first normalisation (stripped marketing parameters, sorting, re-encoding, lower-casing)
leaks into the second, the skipped parameters are those of the original URL under the new configuration, and the rebuilt
request matches what a fresh request for the original URL matches. -/
theorem rebuild_without_v2 (cfg cfg' : Cfg) (u : Bytes) (host : Option Bytes) (hs : List (Bytes × Bytes)) :
    Req.rebuild cfg' { Req.fromConfig cfg u host with pathAndQuery := none, headers := hs } =
      Req.rebuild cfg' { Req.fromConfig cfg u host with headers := hs } ∧
    (Req.rebuild cfg' { Req.fromConfig cfg u host with pathAndQuery := none, headers := hs }).pqs = fromConfig cfg' u := by
  unfold Req.rebuild Req.fromConfig
  simp only [fromConfig_original, and_self]

/-! ### non-vacuity -/

/-- `/caf%c3%a9 x?b=a+b&a=%2B&é` under the default configuration is inside `WFurl`, and its
parameters are really re-ordered and re-encoded. -/
def exUrl : Bytes :=
  [47, 99, 97, 102, 37, 99, 51, 37, 97, 57, 32, 120, 63, 98, 61, 97, 43, 98, 38, 97, 61, 37, 50, 66, 38, 195, 169]

example : WFurl cfgDefault exUrl = true ∧ IsBytes exUrl ∧
    reqKey cfgDefault exUrl =
      [47, 99, 97, 102, 37, 99, 51, 37, 97, 57, 37, 50, 48, 120, 63, 97, 61, 37, 50, 66, 38, 98, 61, 97,
        37, 50, 48, 98, 38, 37, 67, 51, 37, 65, 57] := by decide

/-- order independence instantiated: `/a?b=1&a=2` and `/a?a=2&b=1`. -/
example : SameNorm (fromConfig cfgDefault ([47, 97] ++ 63 :: [98, 61, 49, 38, 97, 61, 50]))
    (fromConfig cfgDefault ([47, 97] ++ 63 :: [97, 61, 50, 38, 98, 61, 49])) :=
  order_independent cfgDefault [47, 97] _ _ (by decide) (by decide) (by decide) (by decide) (by decide)
    (by decide)

/-- marketing: `/a?b=1&utm_source=x` and `/a?b=1` (ignore flag on). -/
example : reqKey cfgDefault ([47, 97, 63, 98, 61, 49] ++ 38 :: [117, 116, 109, 95, 115, 111, 117, 114, 99, 101, 61, 120]) =
    reqKey cfgDefault [47, 97, 63, 98, 61, 49] :=
  marketing_appended cfgDefault _ [98, 61, 49] _ (by decide) (by decide) (by decide) (by decide) (by decide)
    (by decide) (by decide)

/-- forwarding: the skipped string of `/a?utm_source=x%20y` is `utm_source=x%20y`. -/
example : skipped cfgDefault ([47, 97, 63] ++ [117, 116, 109, 95, 115, 111, 117, 114, 99, 101, 61, 120, 43, 121]) =
    some [117, 116, 109, 95, 115, 111, 117, 114, 99, 101, 61, 120, 37, 50, 48, 121] := by decide

/-- case: `/A?B=1` vs `/a?b=1` correspond entry by entry. -/
example : reqKey cfgCase [47, 65, 63, 66, 61, 49] = reqKey cfgCase [47, 97, 63, 98, 61, 49] :=
  case_independent_partial cfgCase rfl _ _ (by decide) (by decide) (by decide) (by decide) (by decide)
    [(([66], [49]), ([98], [49]))] (by decide) (by decide) (by decide)

/-- separation: `/a?x=1` vs `/a?x=2`. -/
example : ruleMatches { cfgDefault with ignoreCase := false } [47, 97, 63, 120, 61, 49] [47, 97, 63, 120, 61, 50] = false := by
  decide

/-- the D12 input (repaired by ac67ce9): with marketing parameters kept, rule `/a?b=1&a=2` matches the
request `/a?b=1&a=2` (both sides now sort). -/
example : ruleMatches { cfgDefault with ignoreMarketing := false } [47, 97, 63, 98, 61, 49, 38, 97, 61, 50]
    [47, 97, 63, 98, 61, 49, 38, 97, 61, 50] = true :=
  self_match_router _ _ (by decide) (by decide)

end Rio.C09
