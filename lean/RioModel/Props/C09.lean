/-
C09 — URL normalisation is canonical: rules and requests agree on equivalent URLs.

Property theorems only; helper lemmas live in Proofs/Url{Enc,Map,}.lean, the model in Model/Url.lean.
URLs are byte strings (`List Nat`); `IsBytes u` says every element is < 256 (needed wherever an
escaped byte has to decode back to itself).  The encode sets are the regenerated constants of
`Rio.Consts`; `SafeSet` facts about them are proved by evaluation, so changing a set on one side
only breaks `self_match`.
-/
import RioModel.Proofs.Url
set_option linter.unusedSimpArgs false
set_option linter.unusedVariables false

namespace Rio.C09
open Rio.Url

/-! ### percent-encoding round trip (the core lemma, for all byte strings) -/

/-- `percent_decode(utf8_percent_encode(x, set)) = percent_decode(x)` for every byte string and
every set that contains neither `%` nor a hex digit: the encoder leaves `%` alone, so input that
is already escaped stays escaped, and every byte it escapes decodes back to itself. -/
theorem decode_encode (S : List Nat) (hS : SafeSet S = true) (x : Bytes) (hx : IsBytes x) :
    pctDecode (pctEncode S x) = pctDecode x :=
  pctDecode_pctEncode hS x hx

/-- … hence `decode ∘ encode = id` exactly on the strings without `%`. -/
theorem decode_encode_id (S : List Nat) (hS : SafeSet S = true) (x : Bytes) (hx : IsBytes x)
    (h : 37 ∉ x) : pctDecode (pctEncode S x) = x :=
  pctDecode_pctEncode_id hS x hx h

/-- the witness for the excluded point: the literal text `%41` is not recovered. -/
theorem decode_encode_id_fails :
    pctDecode (pctEncode urlSet [37, 52, 49]) ≠ [37, 52, 49] := by decide

/-- Both encode passes of the rule side compose to one pass with the larger set. -/
theorem encode_twice (x : Bytes) :
    pctEncode ruleQuerySet (pctEncode sortedQuerySet x) = pctEncode querySet x := by
  rw [ruleQuerySet_eq]
  exact pctEncode_pctEncode safe_querySet (shouldEncode_mono sortedQuerySet_sub) x

/-- The request side sees the same decoded parameters in the sanitised query as the rule side sees
in the raw query. -/
theorem parse_sanitized (q : Bytes) (hq : IsBytes q) : parseQuery (sanitize q) = parseQuery q :=
  parseQuery_pctEncode safe_urlSet shouldEncode_urlSet_43 q hq

/-! ### self-match -/

/-- **A rule whose source is the literal path and query of `u` matches the request for `u`**, under
every configuration, for every URL inside the decidable domain `WFurl cfg u` (Model/Url.lean:
sanitised URL accepted by `PathAndQuery`, non-empty path, no ignored marketing parameter in `u`,
the empty parameter `=` not combined with others).  Repeated keys are allowed. -/
theorem self_match (cfg : Cfg) (u : Bytes) (hb : IsBytes u) (hwf : WFurl cfg u = true) :
    ruleKey cfg u = reqKey cfg u :=
  ruleKey_eq_reqKey cfg u hb hwf

/-- the router's comparison. -/
theorem self_match_router (cfg : Cfg) (u : Bytes) (hb : IsBytes u) (hwf : WFurl cfg u = true) :
    ruleMatches cfg u u = true := by
  unfold ruleMatches matchesKey
  rw [self_match cfg u hb hwf]; simp

/-- Each clause of `WFurl` is needed: witnesses (default marketing parameters). -/
def cfgDefault : Cfg :=
  { ignoreCase := false, ignoreMarketing := true, passMarketing := true,
    marketing := [[117, 116, 109, 95, 115, 111, 117, 114, 99, 101]] }   -- "utm_source"

/-- `/a?=&a`: the empty parameter next to another one. -/
theorem self_match_fails_empty_param :
    ruleMatches cfgDefault [47, 97, 63, 61, 38, 97] [47, 97, 63, 61, 38, 97] = false := by decide

/-- `?a`: empty path. -/
theorem self_match_fails_empty_path : ruleMatches cfgDefault [63, 97] [63, 97] = false := by decide

/-- ``/`?b&a``: a URL `PathAndQuery` rejects is matched unsorted. -/
theorem self_match_fails_rejected :
    ruleMatches cfgDefault [47, 96, 63, 98, 38, 97] [47, 96, 63, 98, 38, 97] = false := by decide

/-- `/a?utm_source`: a rule naming an ignored marketing parameter never matches. -/
theorem self_match_fails_marketing :
    ruleMatches cfgDefault ([47, 97, 63] ++ [117, 116, 109, 95, 115, 111, 117, 114, 99, 101])
      ([47, 97, 63] ++ [117, 116, 109, 95, 115, 111, 117, 114, 99, 101]) = false := by decide

/-! ### order independence -/

/-- the three fields the router and the action use. -/
def SameNorm (r r' : PQS) : Prop :=
  r.pathAndQuery = r'.pathAndQuery ∧ r.matching = r'.matching ∧ r.skipped = r'.skipped

theorem splitFirst_url (P Q : Bytes) (hP : 63 ∉ P) : splitFirst 63 (P ++ 63 :: Q) = (P, some Q) := by
  rw [splitFirst_append_of_not_mem 63 P _ hP]
  simp [splitFirst]

theorem paramsOf_url (P Q : Bytes) (hP : 63 ∉ P) : paramsOf (P ++ 63 :: Q) = btCollect (parseQuery Q) := by
  rw [paramsOf_eq, splitFirst_url P Q hP]

/-- **Permuting the query parameters (distinct decoded keys) leaves the normalised request
unchanged**: `Q'` has the same `&`-separated pieces as `Q` in another order. -/
theorem order_independent (cfg : Cfg) (P Q Q' : Bytes) (hP : 63 ∉ P)
    (hb : IsBytes (P ++ 63 :: Q)) (hb' : IsBytes (P ++ 63 :: Q'))
    (hperm : (pieces 38 Q).Perm (pieces 38 Q'))
    (hnd : ((parseQuery Q).map Prod.fst).Nodup)
    (hacc : (pqParse (sanitize (P ++ 63 :: Q))).isSome = true)
    (hacc' : (pqParse (sanitize (P ++ 63 :: Q'))).isSome = true) :
    SameNorm (fromConfig cfg (P ++ 63 :: Q)) (fromConfig cfg (P ++ 63 :: Q')) := by
  have hpq : (parseQuery Q).Perm (parseQuery Q') := by
    unfold parseQuery
    exact (hperm.filter _).map _
  have hm : paramsOf (P ++ 63 :: Q) = paramsOf (P ++ 63 :: Q') := by
    rw [paramsOf_url P Q hP, paramsOf_url P Q' hP]
    exact btCollect_perm hpq hnd
  rw [fromConfig_accepted cfg _ hb hacc, fromConfig_accepted cfg _ hb' hacc']
  simp only [SameNorm, hm, splitFirst_url P Q hP, splitFirst_url P Q' hP, and_self]

/-- … so every rule matches both or neither. -/
theorem order_independent_match (cfg : Cfg) (ruleK : Bytes) (P Q Q' : Bytes) (hP : 63 ∉ P)
    (hb : IsBytes (P ++ 63 :: Q)) (hb' : IsBytes (P ++ 63 :: Q'))
    (hperm : (pieces 38 Q).Perm (pieces 38 Q'))
    (hnd : ((parseQuery Q).map Prod.fst).Nodup)
    (hacc : (pqParse (sanitize (P ++ 63 :: Q))).isSome = true)
    (hacc' : (pqParse (sanitize (P ++ 63 :: Q'))).isSome = true) :
    matchesKey ruleK (reqKey cfg (P ++ 63 :: Q)) = matchesKey ruleK (reqKey cfg (P ++ 63 :: Q')) := by
  have := order_independent cfg P Q Q' hP hb hb' hperm hnd hacc hacc'
  unfold reqKey PQS.key
  rw [this.2.1, this.1]

/-- The full statement (no distinct-keys hypothesis) is false — DESIGN §6-D13, known finding
`duplicate-key-order`: rule `/a?k=1&k=2` matches `/a?k=1&k=2` but not `/a?k=2&k=1`. -/
def OrderIndependentFull : Prop :=
  ∀ (cfg : Cfg) (P Q Q' : Bytes), 63 ∉ P → IsBytes (P ++ 63 :: Q) → IsBytes (P ++ 63 :: Q') →
    (pieces 38 Q).Perm (pieces 38 Q') →
    (pqParse (sanitize (P ++ 63 :: Q))).isSome = true →
    (pqParse (sanitize (P ++ 63 :: Q'))).isSome = true →
    reqKey cfg (P ++ 63 :: Q) = reqKey cfg (P ++ 63 :: Q')

theorem order_independent_full_fails : ¬ OrderIndependentFull := by
  intro h
  have := h cfgDefault [47, 97] [107, 61, 49, 38, 107, 61, 50] [107, 61, 50, 38, 107, 61, 49]
    (by decide) (by decide) (by decide) (by decide) (by decide) (by decide)
  revert this
  decide

/-! ### re-normalising a request changes nothing -/

theorem lowerByte_idem (b : Nat) : lowerByte (lowerByte b) = lowerByte b := by
  unfold lowerByte; split <;> (try split) <;> omega

theorem lowerIf_idem (f : Bool) (s : Bytes) : lowerIf f (lowerIf f s) = lowerIf f s := by
  cases f
  · rfl
  · simp [lowerIf, lowerAscii, lowerByte_idem]

/-- **`rebuild_with_config` is idempotent.** -/
theorem rebuild_idempotent (cfg : Cfg) (r : Req) :
    Req.rebuild cfg (Req.rebuild cfg r) = Req.rebuild cfg r := by
  unfold Req.rebuild
  simp only [Req.mk.injEq, true_and]
  refine ⟨?_, ?_⟩
  · cases r.host <;> simp [lowerIf_idem]
  · simp [List.map_map, Function.comp_def, lowerIf_idem]

/-- **Rebuilding a request made by `Request::from_config` under the same configuration returns it
unchanged** (headers added afterwards with the configured case). -/
theorem rebuild_fromConfig (cfg : Cfg) (u : Bytes) (host : Option Bytes) :
    Req.rebuild cfg (Req.fromConfig cfg u host) = Req.fromConfig cfg u host := by
  unfold Req.rebuild Req.fromConfig
  simp only [Req.mk.injEq, true_and, List.map_nil, and_true]
  cases host <;> simp [lowerIf_idem]

/-- Under a different configuration the URL part of the result is what `from_config` gives for the
original URL: nothing of the first normalisation leaks into the second. -/
theorem rebuild_other_config (cfg cfg' : Cfg) (u : Bytes) (host : Option Bytes) :
    (Req.rebuild cfg' (Req.fromConfig cfg u host)).pqs = fromConfig cfg' u := rfl

/-! ### non-vacuity -/

/-- `/caf%c3%a9 x?b=a+b&a=%2B&é` under the default configuration is inside `WFurl`, and its
parameters are really re-ordered and re-encoded. -/
def exUrl : Bytes :=
  [47, 99, 97, 102, 37, 99, 51, 37, 97, 57, 32, 120, 63, 98, 61, 97, 43, 98, 38, 97, 61, 37, 50, 66, 38, 195, 169]

example : WFurl cfgDefault exUrl = true ∧ IsBytes exUrl ∧
    reqKey cfgDefault exUrl =
      [47, 99, 97, 102, 37, 99, 51, 37, 97, 57, 37, 50, 48, 120, 63, 97, 61, 37, 50, 66, 38, 98, 61, 97,
        37, 50, 48, 98, 38, 37, 67, 51, 37, 65, 57] := by decide

/-- order independence instantiated: `/a?b=1&a=2` and `/a?a=2&b=1`. -/
example : SameNorm (fromConfig cfgDefault ([47, 97] ++ 63 :: [98, 61, 49, 38, 97, 61, 50]))
    (fromConfig cfgDefault ([47, 97] ++ 63 :: [97, 61, 50, 38, 98, 61, 49])) :=
  order_independent cfgDefault [47, 97] _ _ (by decide) (by decide) (by decide) (by decide) (by decide)
    (by decide) (by decide)

end Rio.C09
