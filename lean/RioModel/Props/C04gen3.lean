/-
C04 (W18) — the body filter CHAIN driver TRANSLATED from the source equals the hand-written model.

`Rio.Consts.genChainDoFilter / genChainFilter / genChainDoEnd / genChainEnd` (and one `gen…Loop<n>` per `for` loop) are
generated on every run from `FilterBodyAction::{do_filter, filter, do_end, end}` of src/filter/filter_body.rs by the plugin
w18_chain.py; the stage calls (`item.filter`, `item.end`, the html held bytes of the failure path) are PARAMETERS of the
generated text.  Here they are instantiated with the model's stages (`Rio.Filter.genItemFilter / genItemEnd / genHeldHtml`,
Proofs/ChainGen.lean) and proved equal to `doFilter`, `Chain.filter`, `doEnd`, `Chain.end` of Model/Filter.lean — for every list of
stages, every `in_error`, every input, every tokenizer / selector oracle / codec.  The two operations of `do_end` that can panic
in Rust (`self.chain[index]`, `self.chain[index..]`) carry an explicit PANIC outcome (`none`) in the translation; the equalities
show it is never taken.  The failure path (`in_error`, what is given back, the `.rev()` order of the give-back loops, the in-flight
bytes of `do_end`) is part of the translated text, so it is covered by the equalities; `passthrough_after_error` and
`passthrough_empty` are restated for the translated definitions and hold there for ANY stage implementation.
-/
import RioModel.Proofs.ChainGen
import RioModel.Props.C04
set_option linter.unusedSimpArgs false
set_option linter.unusedVariables false

namespace Rio.C04
open Rio.Consts Rio.Filter

variable {D E : Type}

/-! ### translated = model -/

/-- `do_filter`: the stages afterwards and the result (`Ok(data)` ↦ `some`, `Err` ↦ `none`) are the model's, for every chain and input. -/
theorem gen_chain_do_filter_eq_model (tk : Tokenize) (ev : Bytes → Bytes → Bool) (codec : Codec D E)
    (items : List (Stage D E)) (data : Bytes) :
    genChainDoFilter (genItemFilter tk ev codec) items data =
      ((doFilter tk ev codec items data).1, optRes (doFilter tk ev codec items data).2) :=
  doFilter_gen_eq tk ev codec items data

/-- `filter`: chain, `in_error` and the returned bytes are the model's, for every chain state (also `in_error = true`) and input. -/
theorem gen_chain_filter_eq_model (tk : Tokenize) (ev : Bytes → Bytes → Bool) (codec : Codec D E)
    (c : Chain D E) (data : Bytes) :
    genChainFilter (genItemFilter tk ev codec) genHeldHtml c.items c.inError data =
      (((c.filter tk ev codec data).1.items, (c.filter tk ev codec data).1.inError), (c.filter tk ev codec data).2) :=
  filter_gen_eq tk ev codec c data

/-- `do_end`: NO PANIC (`some`: the index `self.chain[index]` and the slice `self.chain[index..]` are in range for every chain —
the representation invariant is just "the range is `0..chain.len()`"), the stages afterwards are the model's, `Ok(data)` is the
model's threaded `Option` defaulted, `Err((err, passthrough))` carries the model's pass-through bytes. -/
theorem gen_chain_do_end_eq_model (tk : Tokenize) (ev : Bytes → Bytes → Bool) (codec : Codec D E)
    (items : List (Stage D E)) :
    genChainDoEnd (genItemFilter tk ev codec) (genItemEnd codec) genHeldHtml items =
      some ((doEnd tk ev codec items none).1,
        match (doEnd tk ev codec items none).2 with
        | .ok d => .ok (d.getD [])
        | .error p => .error ((), p)) :=
  doEnd_gen_eq tk ev codec items

/-- the index loop of `do_end` from ANY position: with `pre` the stages before `index` and `suf` the stages from `index` on, the loop
over `index .. len` does not panic and computes the model's `doEnd suf data` (stages before untouched). -/
theorem gen_chain_do_end_loop_eq_model (tk : Tokenize) (ev : Bytes → Bytes → Bool) (codec : Codec D E)
    (pre suf : List (Stage D E)) (data : Option Bytes) :
    genChainDoEndLoop1 (genItemFilter tk ev codec) (genItemEnd codec) genHeldHtml
        (List.range' pre.length suf.length) data (pre ++ suf) =
      some (doEndRes pre (doEnd tk ev codec suf data)) :=
  doEndLoop_eq tk ev codec suf pre data

/-- `end`: no panic; chain, `in_error` and the returned bytes are the model's, for every chain state. -/
theorem gen_chain_end_eq_model (tk : Tokenize) (ev : Bytes → Bytes → Bool) (codec : Codec D E) (c : Chain D E) :
    genChainEnd (genItemFilter tk ev codec) (genItemEnd codec) genHeldHtml c.items c.inError =
      some (((c.end tk ev codec).1.items, (c.end tk ev codec).1.inError), (c.end tk ev codec).2) :=
  end_gen_eq tk ev codec c

/-- the two give-back loops (`for item in ...iter_mut().rev()`), for every list they are run on (the caller passes the REVERSED chain
/ chain slice): no stage is changed and the held bytes are appended in the order of the list. -/
theorem gen_chain_give_back_eq_model (xs : List (Stage D E)) (p : Bytes) :
    genChainFilterLoop1 genHeldHtml xs p = (xs, p ++ xs.flatMap heldOf) ∧
    genChainDoEndLoop2 genHeldHtml xs p = (xs, p ++ xs.flatMap heldOf) :=
  ⟨filterGiveBack_eq xs p, doEndGiveBack_eq xs p⟩

/-! ### a whole run of the translated driver -/

section
variable {σ ε : Type} (itemFilter : σ → List Nat → σ × Except ε (List Nat)) (itemEnd : σ → σ × Except ε (List Nat))
  (heldHtml : σ → Option (σ × List Nat))

/-- the chunks fed in order to the TRANSLATED `filter`: ((chain, in_error) afterwards, outputs of the calls) -/
def genChainFeed : List σ → Bool → List (List Nat) → (List σ × Bool) × List (List Nat)
  | chain, ie, [] => ((chain, ie), [])
  | chain, ie, x :: xs =>
    let r := genChainFilter itemFilter heldHtml chain ie x
    let rs := genChainFeed r.1.1 r.1.2 xs
    (rs.1, r.2 :: rs.2)

/-- everything the TRANSLATED driver emits for the chunks and the final `end` (`none` = a panic in `end`) -/
def genChainRun (chain : List σ) (ie : Bool) (cs : List (List Nat)) : Option (List Nat) :=
  let r := genChainFeed itemFilter heldHtml chain ie cs
  (genChainEnd itemFilter itemEnd heldHtml r.1.1 r.1.2).map fun e => r.2.flatten ++ e.2

/-- **`passthrough_after_error` restated for the translated definitions**, for ANY implementation of the stages (the parameters are
universally quantified): once `in_error` is set the translated `filter` returns every chunk unchanged, `end` returns nothing and
does not panic, and the stages are not touched. -/
theorem passthrough_after_error_gen (chain : List σ) (cs : List (List Nat)) :
    genChainFeed itemFilter heldHtml chain true cs = ((chain, true), cs) ∧
    genChainEnd itemFilter itemEnd heldHtml chain true = some ((chain, true), []) ∧
    genChainRun itemFilter itemEnd heldHtml chain true cs = some cs.flatten := by
  have key : ∀ cs : List (List Nat), genChainFeed itemFilter heldHtml chain true cs = ((chain, true), cs) := by
    intro cs
    induction cs with
    | nil => rfl
    | cons x xs ih => simp [genChainFeed, genChainFilter, ih]
  refine ⟨key cs, by simp [genChainEnd], ?_⟩
  simp [genChainRun, key, genChainEnd]

/-- **`passthrough_empty` restated**: the translated driver with an empty chain (what `new` builds for an unsupported encoding, C14)
returns every chunk unchanged, for ANY implementation of the stages. -/
theorem passthrough_empty_gen (cs : List (List Nat)) :
    genChainRun itemFilter itemEnd heldHtml [] false cs = some cs.flatten := by
  have key : ∀ cs : List (List Nat), genChainFeed itemFilter heldHtml [] false cs = (([], false), cs) := by
    intro cs
    induction cs with
    | nil => rfl
    | cons x xs ih => simp [genChainFeed, genChainFilter, genChainDoFilter, genChainDoFilterLoop1, ih]
  simp [genChainRun, key, genChainEnd, genChainDoEnd, genChainDoEndLoop1]

end

/-- a whole run: the translated driver on the model's stages emits, call by call, what the model emits, and ends in the model's state -/
theorem gen_chain_feed_eq_model (tk : Tokenize) (ev : Bytes → Bytes → Bool) (codec : Codec D E) :
    ∀ (cs : List Bytes) (c : Chain D E),
      genChainFeed (genItemFilter tk ev codec) genHeldHtml c.items c.inError cs =
        (((c.feed tk ev codec cs).1.items, (c.feed tk ev codec cs).1.inError), (c.feed tk ev codec cs).2)
  | [], c => rfl
  | x :: xs, c => by
    simp only [genChainFeed, Chain.feed, gen_chain_filter_eq_model]
    rw [gen_chain_feed_eq_model tk ev codec xs (c.filter tk ev codec x).1]

/-- … and the concatenation of everything emitted is `Chain.run` (never a panic) -/
theorem gen_chain_run_eq_model (tk : Tokenize) (ev : Bytes → Bytes → Bool) (codec : Codec D E) (c : Chain D E) (cs : List Bytes) :
    genChainRun (genItemFilter tk ev codec) (genItemEnd codec) genHeldHtml c.items c.inError cs = some (c.run tk ev codec cs) := by
  simp only [genChainRun, gen_chain_feed_eq_model, gen_chain_end_eq_model, Chain.run, Chain.runOuts, Option.map_some]

/-- `passthrough_after_error` through the equivalence: the translated run of a chain in its error state is the concatenation of the chunks -/
theorem passthrough_after_error_gen_model (tk : Tokenize) (ev : Bytes → Bytes → Bool) (codec : Codec D E)
    (ch : Chain D E) (h : ch.inError = true) (cs : List Bytes) :
    genChainRun (genItemFilter tk ev codec) (genItemEnd codec) genHeldHtml ch.items ch.inError cs = some cs.flatten := by
  rw [gen_chain_run_eq_model, passthrough_after_error tk ev codec ch h cs]

/-- `failing_call_output` restated: the translated call that fails sets `in_error`, and returns what the html stages were holding —
LAST stage first (the `.rev()` of the give-back loop) — followed by the chunk itself. -/
theorem failing_call_output_gen (tk : Tokenize) (ev : Bytes → Bytes → Bool) (codec : Codec D E)
    (items items' : List (Stage D E)) (x : Bytes) (hf : doFilter tk ev codec items x = (items', none)) :
    genChainFilter (genItemFilter tk ev codec) genHeldHtml items false x =
      ((items', true), items'.reverse.flatMap heldOf ++ x) := by
  have := gen_chain_filter_eq_model tk ev codec { items := items, inError := false } x
  simp only at this
  rw [this, failing_call_output tk ev codec { items := items, inError := false } x items' rfl hf, flushHtml_eq]

/-- the failing `end`: `in_error` is set and the returned bytes are what the stages from the failing one on hold, last stage first,
then the in-flight bytes (`error_path_strong_full_final` of Props/C04err.lean speaks about exactly this model value). -/
theorem failing_end_output_gen (tk : Tokenize) (ev : Bytes → Bytes → Bool) (codec : Codec D E)
    (items items' : List (Stage D E)) (p : Bytes) (hf : doEnd tk ev codec items none = (items', .error p)) :
    genChainEnd (genItemFilter tk ev codec) (genItemEnd codec) genHeldHtml items false = some ((items', true), p) := by
  have := gen_chain_end_eq_model tk ev codec { items := items, inError := false }
  simp only at this
  rw [this]
  simp [Chain.end, hf]

/-! ### non-vacuity -/

/-- a codec whose decoder fails on every write -/
def failCodec : Codec Unit Unit where
  create _ := ((), ())
  decWrite _ _ := none
  decFinish _ := none
  encWrite _ b := some ((), b)
  encFinish _ := some []

def exTk : Tokenize := { plain := fun d => ([], d), stream := fun c d => ([], d, c) }
def exHtml (held : Bytes) : Stage Unit Unit :=
  .html { enter := none, visitor := { kind := .append, cur := [], content := [] }, last := held }

/-- the give-back order on the translated code: two html stages holding `[1]` and `[2]`, a failing decode stage first; the failing
`filter` call returns the bytes of the LAST stage first, then the chunk. -/
example : (genChainFilter (genItemFilter exTk (fun _ _ => false) failCodec) genHeldHtml
    [.decode (), exHtml [1], exHtml [2]] false [9]).2 = [2, 1, 9] ∧
    (genChainFilter (genItemFilter exTk (fun _ _ => false) failCodec) genHeldHtml
    [.decode (), exHtml [1], exHtml [2]] false [9]).1.2 = true := by
  constructor <;> rfl

/-- the failing `end` on the translated code (the decode stage fails in `end()`): held bytes last stage first, no panic -/
example : (genChainEnd (genItemFilter exTk (fun _ _ => false) failCodec) (genItemEnd failCodec) genHeldHtml
    [.decode (), exHtml [1], exHtml [2]] false).map (fun r => (r.1.2, r.2)) = some (true, [2, 1]) := by
  rfl

/-- a run that works: a prepend text stage and an append text stage, two chunks -/
example : genChainRun (genItemFilter exTk (fun _ _ => false) noCodec) (genItemEnd noCodec) genHeldHtml
    [.text { action := .prepend, content := [80] }, .text { action := .append, content := [65] }] false [[1], [2]] =
      some [80, 1, 2, 65] := by
  rfl

end Rio.C04
