/-
C07 (tree part) — how deep the regex radix tree is, as a function of the stored patterns (DESIGN §6-D26).

`Item::{insert, find, get, get_mut, remove, retain, len, is_empty, cache, trace}` and their `Node::` / `Leaf::`
counterparts call themselves once per level on the way down (`node.rs`, `item.rs`, `leaf.rs`, `trace.rs`; only `iter()` is
iterative, with a heap-allocated parent chain of the same length), so the recursion depth of every operation is the depth of
the tree.  The Lean model recurses structurally and cannot overflow; what it CAN say is what that depth is:

* `depth_le_chain` – under the tree invariant, `depth ≤ 1 +` the number of scanner-boundary prefixes of some stored pattern
  (the node prefixes on a root-to-leaf path are boundary prefixes, of strictly increasing length, of the pattern at the
  bottom); hence `depth ≤ 2 + |p|` for a stored pattern `p`: the depth is bounded by the LENGTH of the patterns (for rule-shaped
  patterns: by their number of tokens), not by a constant;
* `chain_reaches_depth` – the bound is reached up to the additive constant: inserting the chain `a, aa, …, aⁿ` (each pattern a
  prefix of the next) builds a spine of `n − 1` nested nodes, depth `n`, whatever the engine and the case flag; so `n` rules
  whose paths extend one another make every operation recurse `n` levels deep – the reviewer reproduced the stack overflow of
  the real code at ≈ 5 000 chained prefixes (known finding D26 of C07).
-/
import RioModel.Proofs.TreeDepth
import RioModel.Props.C08
import RioModel.Proofs.TreeCacheSim
set_option linter.unusedSimpArgs false
set_option linter.unusedVariables false
set_option linter.unusedSectionVars false

namespace Rio.C07
open Rio.Scan Rio.Regex Rio.Tree

variable {ι V : Type} [DecidableEq ι]

/-- **depth_le_chain.**  A non-empty tree satisfying the invariant stores a pattern `p` such that the depth of the tree (= the
recursion depth of every operation) is at most `1 +` the number of boundary prefixes of `p` (`boundariesFrom 0 p`: positions
`k ≤ |p|` where the scanner is at depth 0 and not after a backslash – for a rule-shaped pattern its token boundaries), and so
at most `2 + |p|`. -/
theorem depth_le_chain {ic : Bool} (t : Item ι V) (hinv : C08.Inv ic t) (hne : t.contents ≠ []) :
    ∃ e ∈ t.contents, t.depth ≤ 1 + boundariesFrom 0 e.pat ∧ t.depth ≤ 2 + e.pat.length :=
  depth_le_boundaries t hinv hne

/-- The same over histories: after any history the depth is bounded by the longest inserted pattern. -/
theorem depth_le_inserted (E : Engine) (ic : Bool) (ops : List (Op ι V)) (B : Nat)
    (hB : ∀ p ∈ insertedPats ops, p.length ≤ B) (t : Item ι V) (h : treeRun E (.empty ic) ops = some t) :
    t.depth ≤ 2 + B := by
  obtain ⟨hinv, hP⟩ := run_reachable E (fun p => p.length ≤ B) ops (.empty ic : Item ι V) (C08.inv_empty ic)
    (by simp) hB t h
  by_cases hne : t.contents = []
  · cases t with
    | empty ic' => simp [depth_empty]
    | leaf rx vs =>
      rw [depth_leaf]; omega
    | node rx cs =>
      exact absurd hne (contents_ne_nil _ hinv rfl)
  · obtain ⟨e, he, _, hle⟩ := depth_le_boundaries t hinv hne
    have := hP e he
    omega

/-- **chain_reaches_depth.**  For every `n`, engine and case flag: inserting `a¹, a², …, aⁿ⁺¹` yields a tree of depth `n + 1`
whose longest stored pattern has `n + 1` characters – the depth grows linearly with the length of a chain of prefixes. -/
theorem chain_reaches_depth (E : Engine) (ic : Bool) (n : Nat) :
    ∃ t : Item Nat Nat, treeRun E (.empty ic) (chainOps (n + 1)) = some t ∧ t.depth = n + 1 ∧
      (∀ p ∈ insertedPats (chainOps (n + 1)), p.length ≤ n + 1) := by
  refine ⟨chainFrom ic n 1, chain_tree E ic n, chainFrom_depth ic n 1, ?_⟩
  intro p hp
  have : ∀ m, ∀ p ∈ insertedPats (chainOps m), p.length ≤ m := by
    intro m
    induction m with
    | zero => simp [chainOps, insertedPats]
    | succ m ih =>
      intro p hp
      rw [chainOps_succ] at hp
      have happ : ∀ a b : List (Op Nat Nat), insertedPats (a ++ b) = insertedPats a ++ insertedPats b := by
        intro a b
        induction a with
        | nil => rfl
        | cons op a iha => cases op <;> simp [insertedPats, iha]
      rw [happ] at hp
      rcases List.mem_append.1 hp with hp | hp
      · have := ih p hp; omega
      · simp only [insertedPats, List.mem_cons, List.not_mem_nil, or_false] at hp
        rw [hp, chainPat_length]; omega
  exact this (n + 1) p hp

set_option maxRecDepth 100000 in
/-- Concretely: 12 chained patterns, depth 12; the tree of the C08 demo history has depth 1. -/
example : ((treeRun stdEngine (.empty false) (chainOps 12)).map Item.depth) = some 12 := by decide +kernel

end Rio.C07
