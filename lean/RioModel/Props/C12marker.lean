/-
C12 (capture clause) — warming the regex cache does not change what markers capture.

`Router::cache` ends with `route.compile()` on the routes, which replaces the `LazyRegex` inside the
`Arc<RwLock<..>>` of the path and host marker strings by a compiled copy.  Property theorems only (helpers:
Proofs/MarkerCache.lean; model: Model/MarkerCache.lean).

What the model says about sharing: clones of a marker string / route / router copy the `Arc`, i.e. the HANDLE of the
cell; the theorems quantify over arbitrary handles and arbitrary sequences of compile operations on arbitrary
handles, so they cover "compile through one clone, capture through another" and every sequential interleaving.
What it does not say: the `Err` arms of `RwLock::read/write` (a lock poisoned by a panic in another thread:
`capture` would then return nothing, `compile` false) and true concurrency — the `RwLock` is assumed to make each
`compile` / `capture` atomic, so that a concurrent execution is one of the interleavings covered here.
-/
import RioModel.Proofs.MarkerCache
set_option linter.unusedSimpArgs false

namespace Rio.C12
open Rio.Marker Rio.MarkerCache
variable {R : Type} (lib : RegexLib R)

/-- `LazyRegex::compile` preserves `regex`, `original` and `ignore_case`; only `compiled` changes. -/
theorem lazy_compile_preserves (r : LazyRegex R) :
    (r.compile lib).regex = r.regex ∧ (r.compile lib).original = r.original ∧
    (r.compile lib).ignoreCase = r.ignoreCase ∧ (r.compile lib).compiled = r.createRegex lib :=
  ⟨rfl, rfl, rfl, rfl⟩

/-- A fresh cell is consistent, `compile` keeps cells consistent (whether or not the pattern compiles). -/
theorem lazy_consistent (p : Str) (ic : Bool) (r : LazyRegex R) :
    (LazyRegex.newLeaf p ic : LazyRegex R).Consistent lib ∧ (r.compile lib).Consistent lib :=
  ⟨Or.inl rfl, compile_consistent lib r⟩

/-- The regex handed out by `LazyRegex::regex()` is the same before and after `compile()`, for any number of
calls. -/
theorem lazy_regex_cache_indep (r : LazyRegex R) (h : r.Consistent lib) (k : Nat) :
    (r.compileN lib k).regexOf lib = r.regexOf lib ∧ (r.compileN lib k).Consistent lib := by
  induction k generalizing r with
  | zero => exact ⟨rfl, h⟩
  | succ k ih =>
    have := ih (r.compile lib) (compile_consistent lib r)
    simp only [LazyRegex.compileN]
    exact ⟨this.1.trans (regexOf_compile lib r h), this.2⟩

/-- **capture_cache_indep.**  After `compile` of the marker string `m`, every marker string `m'` — `m` itself, a
clone sharing its cell, or an unrelated one — captures from every string what it captured before. -/
theorem capture_cache_indep (st : Store R) (hst : StoreOK lib st) (m m' : MString) (s : Str) :
    m'.captureOn lib (m.compile lib st).1 s = m'.captureOn lib st s :=
  (sim_compileString lib st hst m).2 m' s

/-- … for any number of compile calls, through any handles, `StaticOrDynamic::compile`, `Route::compile` and
the budgeted loop at the end of `Router::cache`, in any order; and the store stays consistent. -/
theorem capture_cache_indep_ops (st : Store R) (hst : StoreOK lib st) (ops : List Op) (m' : MString) (s : Str) :
    m'.captureOn lib (runOps lib st ops) s = m'.captureOn lib st s ∧ StoreOK lib (runOps lib st ops) :=
  ⟨(sim_runOps lib st hst ops).2 m' s, (sim_runOps lib st hst ops).1⟩

/-- The same for what `Route::capture` reads of a route's path and host (`StaticOrDynamic::capture`). -/
theorem sod_capture_cache_indep_ops (st : Store R) (hst : StoreOK lib st) (ops : List Op) (x : SoD) (s : Str) :
    x.captureOn lib (runOps lib st ops) s = x.captureOn lib st s := by
  cases x with
  | static _ => rfl
  | dynamic m => exact (capture_cache_indep_ops lib st hst ops m s).1

/-- `Route::compile` returns the number of marker strings among path and host (what `Router::cache` subtracts
from its budget): at most 2, and 0 for a route without markers there. -/
theorem route_compile_count (st : Store R) (rt : Route) :
    (rt.compile lib st).2 =
      (match rt.pathAndQuery with | .dynamic _ => 1 | .static _ => 0) +
      (match rt.host with | some (.dynamic _) => 1 | _ => 0) := by
  unfold Route.compile
  cases hp : rt.pathAndQuery with
  | static s =>
    cases hh : rt.host with
    | none => simp [SoD.compile]
    | some x => cases x <;> simp [SoD.compile, compileString_snd]
  | dynamic m =>
    cases hh : rt.host with
    | none => simp [SoD.compile, compileString_snd]
    | some x => cases x <;> simp [SoD.compile, compileString_snd]

/-- Tie to the stateless model used by C10 (`capOf`): a marker string whose cell was created by `new_leaf` from its
capture pattern — compiled or not — captures what the C10 engine parameter `caps` returns, when `caps ic p s`
is read as "build `^p$` with the flag, then `captures`". -/
theorem capture_eq_stateless (st : Store R) (ops : List Op) (m : MString)
    (hst : StoreOK lib st)
    (hcell : st[m.cell]? = some (LazyRegex.newLeaf m.capture m.ignoreCase)) (s : Str) :
    m.captureOn lib (runOps lib st ops) s =
      (((lib.build m.ignoreCase (['^'] ++ m.capture ++ ['$'])).bind fun c => lib.captures c s).getD []) := by
  rw [(capture_cache_indep_ops lib st hst ops m s).1]
  simp only [MString.captureOn, hcell, LazyRegex.regexOf, LazyRegex.newLeaf, LazyRegex.createRegex]
  cases lib.build m.ignoreCase (['^'] ++ m.capture ++ ['$']) <;> simp

/-! ### Non-vacuity: two clones sharing one cell, an unrelated string, a pattern that does not compile -/

example :
    let lib : RegexLib Str := ⟨fun _ p => if p.contains '(' then none else some p, fun c s => if c = s then some [(['m'], s)] else none⟩
    let st : Store Str := [LazyRegex.newLeaf ['a'] false, LazyRegex.newLeaf ['('] false]
    let m : MString := ⟨['a'], ['a'], false, 0⟩
    let clone : MString := m
    let bad : MString := ⟨['('], ['('], false, 1⟩
    StoreOK lib st ∧
    clone.captureOn lib (runOps lib st [.compileString m, .compileString bad, .compileString m]) ['^','a','$']
      = [(['m'], ['^','a','$'])] ∧
    bad.captureOn lib (runOps lib st [.compileString bad]) ['('] = [] := by
  refine ⟨?_, by decide, by decide⟩
  intro r hr
  simp at hr
  rcases hr with rfl | rfl <;> exact Or.inl rfl

end Rio.C12
