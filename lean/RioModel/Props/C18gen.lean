/-
C18 / C07 — the C header LIST functions TRANSLATED from the source (W17).

`Rio.Consts.genCCharToStr`, `genStringToCChar`, `genHttpHeadersToHeaderMap`, `genHeaderMapToHttpHeaders` (with their loop
bodies / loops) are regenerated from src/ffi_helpers.rs and src/http/ffi.rs on every run (plugin `w17_ffi_headers`), statement by
statement: raw node pointers are addresses of a node store, every node carries its own `next` pointer, the `while` loop has fuel,
`continue` returns the state as it is at that point, a dereference of NULL / of an address outside the store and a cut loop are
explicit failures (`GenFfiErr`).  Nothing in the generated text makes the walk terminate or the dereferences safe.  Here:

* `gen_c_char_to_str_spec`, `gen_string_to_c_char_eq_model` — the two helpers never fail and equal the hand model (`cstrOf`);
* `gen_walk_terminates_exact` — on every NULL-terminated list in memory (`Chain`) the translated walk ends after EXACTLY one
  execution of the body per node (enough fuel: the result; less: `outOfFuel`), without a NULL / dangling dereference, and returns
  the `filterMap` of the nodes whose name and value are non-NULL valid strings, in order;
* `gen_walk_returns_iff_null_terminated` — the walk comes back with some fuel IFF the list is NULL-terminated (`Chain`);
* `gen_walk_null` — a NULL list pointer gives `[]` with no dereference (C07);
* `gen_walk_cyclic_diverges` — non-termination IS representable: on a one-node cycle the walk is cut for every fuel;
* `gen_walk_eq_model`, `gen_to_header_map_eq_model` — equality with `Rio.Ffi.fromHeaderMap` / `Rio.Ffi.toHeaderMap` under `Chain`;
* `gen_headers_roundtrip`, `gen_headers_roundtrip_identity`, `gen_headers_roundtrip_multiset` — the headline clause of C18
  (`headers_roundtrip`, `headers_roundtrip_multiset`) restated for the translated definitions.
-/
import RioModel.Proofs.FfiGen
import RioModel.Props.C18
set_option linter.unusedSimpArgs false
set_option linter.unusedVariables false

namespace Rio.C18
open Rio.Consts Rio.Ffi Rio.FfiGen

/-- **gen_c_char_to_str_spec.**  Translated `c_char_to_str`: for EVERY pointer it returns without dereferencing NULL (the
`is_null` guard covers `CStr::from_ptr`), `None` for NULL and for invalid UTF-8, the bytes otherwise — in particular `Some("")`
for an empty C string (seed r8f-3 returned `None` there). -/
theorem gen_c_char_to_str_spec (utf8 : List Nat → Bool) (p : Option (List Nat)) :
    genCCharToStr utf8 p = .ok (match p with
      | none => none
      | some b => if utf8 b then some b else none) := by
  rw [cCharToStr_eq]; cases p <;> rfl

/-- an EMPTY C string is a string, not `None` (what seed r8f-3 broke), whenever `utf8` accepts the empty byte string -/
theorem gen_c_char_to_str_empty (utf8 : List Nat → Bool) (h : utf8 [] = true) : genCCharToStr utf8 (some []) = .ok (some []) := by
  rw [gen_c_char_to_str_spec]; simp [h]

/-- **gen_string_to_c_char_eq_model.**  Translated `string_to_c_char` = the hand model's `cstrOf`: NULL iff an interior NUL. -/
theorem gen_string_to_c_char_eq_model (s : List Nat) : genStringToCChar s = .ok (cstrOf s) :=
  stringToCChar_eq s

/-- **gen_walk_terminates_exact.**  For every node memory `store`, pointer `p` and node list `nodes` with `Chain store p nodes`
(following `next` from `p` visits `nodes` and reaches NULL): the translated `header_map_to_http_headers`
(a) with fuel ≥ `nodes.length` returns — no NULL / dangling dereference, no cut — the headers of the nodes whose name and value
are non-NULL and valid UTF-8, in list order;  (b) with fuel < `nodes.length` is cut.  So the loop body runs exactly once per node. -/
theorem gen_walk_terminates_exact (utf8 : List Nat → Bool) (store : List GenHeaderMap) (p : Option Nat) (nodes : List CNode)
    (hc : Chain store p nodes) :
    (∀ fuel, nodes.length ≤ fuel →
        genHeaderMapToHttpHeaders utf8 store fuel p = .ok (nodes.filterMap (nodeHeader utf8))) ∧
    (∀ fuel, fuel < nodes.length → genHeaderMapToHttpHeaders utf8 store fuel p = .error .outOfFuel) := by
  constructor
  · intro fuel hf
    obtain ⟨extra, rfl⟩ := Nat.exists_eq_add_of_le hf
    simp [genHeaderMapToHttpHeaders, while_chain utf8 store p hc extra []]
  · intro fuel hf
    simp [genHeaderMapToHttpHeaders, while_short utf8 store p hc fuel hf []]

/-- **gen_walk_returns_iff_null_terminated.**  The translated walk comes back (with SOME fuel) exactly when the list in memory is
NULL-terminated and every `next` pointer on the way is a valid address; the fuel it needs is the length of the list.  So
"terminates" is a property of the caller's list, stated by `Chain`, and of nothing else. -/
theorem gen_walk_returns_iff_null_terminated (utf8 : List Nat → Bool) (store : List GenHeaderMap) (p : Option Nat) (fuel : Nat) :
    (∃ out, genHeaderMapToHttpHeaders utf8 store fuel p = .ok out) ↔ ∃ nodes, Chain store p nodes ∧ nodes.length ≤ fuel := by
  constructor
  · rintro ⟨out, h⟩
    unfold genHeaderMapToHttpHeaders at h
    cases hw : genHeaderMapToHttpHeadersWhile1 utf8 store p fuel [] p with
    | error e => simp [hw] at h
    | ok r => exact while_ok_chain utf8 store p fuel [] p r hw
  · rintro ⟨nodes, hc, hl⟩
    exact ⟨_, (gen_walk_terminates_exact utf8 store p nodes hc).1 fuel hl⟩

/-- **gen_walk_null.**  (C07: NULL accepted) a NULL list pointer gives the empty header list — no dereference, no body
execution (fuel 0 is enough), whatever the memory holds. -/
theorem gen_walk_null (utf8 : List Nat → Bool) (store : List GenHeaderMap) (fuel : Nat) :
    genHeaderMapToHttpHeaders utf8 store fuel none = .ok [] :=
  (gen_walk_terminates_exact utf8 store none [] Chain.nil).1 fuel (Nat.zero_le _)

/-- **gen_walk_cyclic_diverges.**  Termination is NOT built into the translation: on a node whose `next` points to itself the
translated walk is cut for every amount of fuel (the C caller's list must be NULL-terminated; `Chain` says so). -/
theorem gen_walk_cyclic_diverges (utf8 : List Nat → Bool) (fuel : Nat) :
    genHeaderMapToHttpHeaders utf8 [{ name := some [97], value := some [98], next := some 0 }] fuel (some 0)
      = .error .outOfFuel := by
  have h : ∀ (fuel : Nat) (acc : List HeaderBytes),
      genHeaderMapToHttpHeadersWhile1 utf8 [{ name := some [97], value := some [98], next := some 0 }] (some 0) fuel acc (some 0)
        = .error .outOfFuel := by
    intro fuel
    induction fuel with
    | zero => intro acc; unfold genHeaderMapToHttpHeadersWhile1; simp
    | succ f ih =>
      intro acc
      unfold genHeaderMapToHttpHeadersWhile1
      have hb := whileBody_eq utf8 [{ name := some [97], value := some [98], next := some 0 }] (some 0) acc 0
        { name := some [97], value := some [98], next := some 0 } rfl
      simp only [Option.isNone_some, Bool.not_false, if_true, hb, ih]
  simp [genHeaderMapToHttpHeaders, h]

/-- every string of the list is valid UTF-8 (true of every list built from Rust `String`s) -/
def NodesUtf8 (utf8 : List Nat → Bool) (nodes : List CNode) : Prop :=
  ∀ c ∈ nodes, (∀ b, c.1 = some b → utf8 b = true) ∧ (∀ b, c.2 = some b → utf8 b = true)

theorem filterMap_ext' {α β : Type} {f g : α → Option β} : ∀ {l : List α}, (∀ x ∈ l, f x = g x) → l.filterMap f = l.filterMap g
  | [], _ => rfl
  | x :: xs, h => by
    simp only [List.filterMap_cons, h x (by simp)]
    rw [filterMap_ext' (fun y hy => h y (by simp [hy]))]

/-- **gen_walk_eq_model.**  Translated walk = hand model `fromHeaderMap` on every chain whose strings are valid UTF-8 (the hand
model does not represent UTF-8 validity; without the hypothesis the translated walk additionally skips invalid strings, see
`gen_walk_terminates_exact`). -/
theorem gen_walk_eq_model (utf8 : List Nat → Bool) (store : List GenHeaderMap) (p : Option Nat) (nodes : List CNode)
    (hc : Chain store p nodes) (hu : NodesUtf8 utf8 nodes) :
    genHeaderMapToHttpHeaders utf8 store nodes.length p = .ok (fromHeaderMap nodes) := by
  rw [(gen_walk_terminates_exact utf8 store p nodes hc).1 _ (Nat.le_refl _)]
  congr 1
  unfold fromHeaderMap
  apply filterMap_ext'
  intro c hcm
  obtain ⟨h1, h2⟩ := hu c hcm
  obtain ⟨n, v⟩ := c
  cases n <;> cases v <;> simp_all [nodeHeader, strOf]

/-- **gen_to_header_map_eq_model.**  Translated `http_headers_to_header_map`, from ANY node memory: never fails, leaves the
existing memory untouched, allocates exactly one node per header and returns a pointer to a NULL-terminated list carrying
exactly the hand model's `toHeaderMap hs` (each new node in front: reversed order, NULL for strings with an interior NUL). -/
theorem gen_to_header_map_eq_model (store : List GenHeaderMap) (hs : List HeaderBytes) :
    ∃ store' p, genHttpHeadersToHeaderMap store hs = .ok (store', p) ∧ Chain store' p (toHeaderMap hs) ∧
      store'.length = store.length + hs.length ∧ store'.take store.length = store := by
  obtain ⟨s', p, he, hc, hl, ht⟩ := for_chain hs hs store none [] Chain.nil
  exact ⟨s', p, by simp [genHttpHeadersToHeaderMap, he], hc, hl, ht⟩

theorem toHeaderMap_length (hs : List HeaderBytes) : (toHeaderMap hs).length = hs.length := by
  rw [toHeaderMap_eq]; simp

theorem toHeaderMap_utf8 (utf8 : List Nat → Bool) (hs : List HeaderBytes)
    (hu : ∀ h ∈ hs, utf8 h.1 = true ∧ utf8 h.2 = true) : NodesUtf8 utf8 (toHeaderMap hs) := by
  intro c hc
  rw [toHeaderMap_eq] at hc
  simp only [List.mem_reverse, List.mem_map] at hc
  obtain ⟨h, hh, rfl⟩ := hc
  obtain ⟨u1, u2⟩ := hu h hh
  constructor <;> intro b hb <;> simp only [cstrOf] at hb <;> split at hb <;> simp_all

/-- **gen_headers_roundtrip** (`headers_roundtrip` for the translated code).  Rust → C → Rust through the two translated
functions, from any node memory, with exactly `hs.length` executions of the walk's body: the headers without interior NUL, in
reversed order.  `utf8` holds of the strings because they are Rust `String`s. -/
theorem gen_headers_roundtrip (utf8 : List Nat → Bool) (store : List GenHeaderMap) (hs : List HeaderBytes)
    (hu : ∀ h ∈ hs, utf8 h.1 = true ∧ utf8 h.2 = true) :
    ∃ store' p, genHttpHeadersToHeaderMap store hs = .ok (store', p) ∧
      genHeaderMapToHttpHeaders utf8 store' hs.length p = .ok ((hs.filter nulFree).reverse) := by
  obtain ⟨s', p, he, hc, _, _⟩ := gen_to_header_map_eq_model store hs
  refine ⟨s', p, he, ?_⟩
  have := gen_walk_eq_model utf8 s' p _ hc (toHeaderMap_utf8 utf8 hs hu)
  rw [toHeaderMap_length, headers_roundtrip] at this
  exact this

/-- **gen_headers_roundtrip_identity.**  On header lists without NUL bytes the translated round trip is the identity up to the
order the model states (reversal). -/
theorem gen_headers_roundtrip_identity (utf8 : List Nat → Bool) (store : List GenHeaderMap) (hs : List HeaderBytes)
    (hu : ∀ h ∈ hs, utf8 h.1 = true ∧ utf8 h.2 = true) (hn : ∀ h ∈ hs, nulFree h = true) :
    ∃ store' p, genHttpHeadersToHeaderMap store hs = .ok (store', p) ∧
      genHeaderMapToHttpHeaders utf8 store' hs.length p = .ok hs.reverse := by
  obtain ⟨s', p, he, hw⟩ := gen_headers_roundtrip utf8 store hs hu
  exact ⟨s', p, he, by rw [hw, List.filter_eq_self.2 hn]⟩

/-- **gen_headers_roundtrip_multiset** (`headers_roundtrip_multiset` for the translated code). -/
theorem gen_headers_roundtrip_multiset (utf8 : List Nat → Bool) (store : List GenHeaderMap) (hs : List HeaderBytes)
    (hu : ∀ h ∈ hs, utf8 h.1 = true ∧ utf8 h.2 = true) (hn : ∀ h ∈ hs, nulFree h = true) :
    ∃ store' p out, genHttpHeadersToHeaderMap store hs = .ok (store', p) ∧
      genHeaderMapToHttpHeaders utf8 store' hs.length p = .ok out ∧ List.Perm out hs := by
  obtain ⟨s', p, he, hw⟩ := gen_headers_roundtrip_identity utf8 store hs hu hn
  exact ⟨s', p, _, he, hw, List.reverse_perm hs⟩

/-! ### Non-vacuity -/

/-- a three-node list scattered in memory (addresses 2 → 0 → 3 → NULL) next to an unrelated node: the middle node has a NULL
value, the last one an invalid string; `Chain` holds and the walk keeps the first header only -/
example :
    let utf8 : List Nat → Bool := fun b => !(b.contains 255)
    let store : List GenHeaderMap :=
      [⟨some [98], none, some 3⟩, ⟨some [120], some [121], some 1⟩, ⟨some [97], some [], some 0⟩, ⟨some [255], some [99], none⟩]
    let nodes : List CNode := [(some [97], some []), (some [98], none), (some [255], some [99])]
    Chain store (some 2) nodes ∧
      genHeaderMapToHttpHeaders utf8 store 3 (some 2) = .ok [([97], [])] ∧
      genHeaderMapToHttpHeaders utf8 store 2 (some 2) = .error .outOfFuel := by
  refine ⟨?_, rfl, rfl⟩
  exact Chain.cons (i := 2) (n := ⟨some [97], some [], some 0⟩) rfl
    (Chain.cons (i := 0) (n := ⟨some [98], none, some 3⟩) rfl
      (Chain.cons (i := 3) (n := ⟨some [255], some [99], none⟩) rfl Chain.nil))

/-- a dangling `next` pointer and a NULL-less walk are failures of the translated code, not defaults -/
example : genHeaderMapToHttpHeaders (fun _ => true) [⟨some [97], some [98], some 7⟩] 5 (some 0) = .error .dangling := rfl

/-- the hypotheses of the round trip are satisfiable, with a NUL-carrying header dropped (finding O12) and duplicates kept -/
example :
    (genHttpHeadersToHeaderMap [] [([97], [1]), ([98, 0], [2]), ([97], [1])]).map
        (fun r => genHeaderMapToHttpHeaders (fun _ => true) r.1 3 r.2)
      = .ok (.ok [([97], [1]), ([97], [1])]) := rfl

example : nulFree ([97], [1]) = true ∧ nulFree ([98, 0], [2]) = false := by decide

end Rio.C18
