/-
C05 (the action computed from the matched rules) — the use-time decision functions REGENERATED FROM THE SOURCE.

`Rio.Consts.genActionGetStatusCode`, `genActionGetFinalStatusCode`, `genActionShouldLogRequest` are translated on
every run from `Action::get_status_code`, `get_final_status_code_with_fallback`, `should_log_request` of
src/action/mod.rs (tools/consts.d/w4_translate.py, section `w4_translate_action`); Proofs/ActionGen.lean wraps them
as observers of the model action (`genGetStatusCode`, `genGetFinal`, `genShouldLogRequest`: sub-rule decision =
the model's `StatusCodeUpdate.getStatusCode` / `getLogOverrideFull`, which are W3's translations
`statusGetStatusCode` / `logGetLogOverride`; `LinkedHashSet::insert` = `lhsInsert`) and proves them equal to W3's
hand-written observers.  Here the closed forms of C05 for the status code, the final status code with fallback and
the logging decision are restated for the translated code — so a source change in the `match` / `if` ladder of
these three functions (a dropped insertion into `rules_applied`, `unwrap_or` of the wrong default, `&&` → `||` in
the request-time fallback, the two results swapped) breaks a proof, not only the correspondence.  Not covered by
the translation: the unit-trace blocks (skipped when they have exactly the known shape).  Second part: `Action::merge`
and the loop of `Action::from_routes_rule` (`genMerge`, `genFromRoutesRule`), with `action_eq_spec` restated.  Third part:
the selection loops (with `continue`) of `filter_headers` and the whole of `create_filter_body`; NOT translated there: the
tail of `filter_headers` (`FilterHeaderAction::new(..).filter(..)`, the `X-RedirectionIo-RuleIds` header; C13 / C05
`filter_headers_end_to_end` cover it on the model) — only its SHAPE is checked, fail closed, when the section is generated
(`filters` handed unchanged to `FilterHeaderAction::new`, no further write to `filters` / `rules_applied`,
`get_applied_rule_ids()` = `&self.rules_applied`).
-/
import RioModel.Props.C05
import RioModel.Proofs.ActionGen
set_option linter.unusedSimpArgs false

namespace Rio.C05
open Rio.Action Rio.Action.Spec Rio.ActionGen

/-- the translated observers are the modelled ones, on every action -/
theorem gen_observers_eq_model (a : Action) (allow : Bool) (c fb : Nat) :
    genGetStatusCode a c = a.getStatusCode c ∧
    genGetFinal a c fb = a.getFinalStatusCodeWithFallback c fb ∧
    genShouldLogRequest a allow c = a.shouldLogRequest allow c :=
  ⟨genGetStatusCode_eq a c, genGetFinal_eq a c fb, genShouldLogRequest_eq a allow c⟩

/-- **`status_closed_form` for the regenerated code**: the translated `get_status_code(c)` on the computed action
returns `statusAt C c` and inserts into `rules_applied` the rule that value is attributed to. -/
theorem status_closed_form_gen (R : List Rule) (q : Req) (draw : Rule → Nat) (c : Nat) :
    let C := contributing q draw (sortRules R)
    (genGetStatusCode (fromRoutesRule R q draw) c).1 = (statusAt C c).1 ∧
    (genGetStatusCode (fromRoutesRule R q draw) c).2.rulesApplied = (statusAt C c).2.toList := by
  rw [genGetStatusCode_eq]
  exact status_closed_form R q draw c

/-- **The final status code with fallback, for the regenerated code**: at request time (`c = 0`) with no status of
its own, the action is asked again with the fallback code `fb`; the applied ids are those of both calls. -/
theorem final_status_closed_form_gen (R : List Rule) (q : Req) (draw : Rule → Nat) (c fb : Nat) :
    let C := contributing q draw (sortRules R)
    genGetFinal (fromRoutesRule R q draw) c fb =
      if (c == 0 && (statusAt C c).1 == 0) = true then
        (((statusAt C fb).1, fb),
          withApplied (Spec.action q C) (lhsInsertOpt (lhsInsertOpt [] (statusAt C c).2) (statusAt C fb).2))
      else (((statusAt C c).1, c), withApplied (Spec.action q C) (lhsInsertOpt [] (statusAt C c).2)) := by
  intro C
  have e : fromRoutesRule R q draw = withApplied (Spec.action q C) [] := action_eq_spec R q draw
  rw [genGetFinal_eq, e]
  exact getFinal_spec q C [] c fb

/-- **`log_closed_form` for the regenerated code.** -/
theorem log_closed_form_gen (R : List Rule) (q : Req) (draw : Rule → Nat) (allowLog : Bool) (c : Nat) :
    let C := contributing q draw (sortRules R)
    (genShouldLogRequest (fromRoutesRule R q draw) allowLog c).1 = (logAt C c).1.getD allowLog ∧
    (genShouldLogRequest (fromRoutesRule R q draw) allowLog c).2.rulesApplied = (logAt C c).2.toList := by
  rw [genShouldLogRequest_eq]
  exact log_closed_form R q draw allowLog c

/-! ### `Action::merge` and the loop of `Action::from_routes_rule`, regenerated (section `w4_translate_merge`) -/

/-- the translated `merge` (on structures generated from the Rust struct definitions) is the modelled one -/
theorem gen_merge_eq_model (self other : Action) : genMerge self other = self.merge other :=
  genMerge_eq self other

/-- the translated `from_routes_rule` — `routes.sort()` as the model's sort, the translated loop with its early
`return` on `stop`, the translated `merge` — is the modelled one -/
theorem gen_from_routes_rule_eq_model (R : List Rule) (q : Req) (draw : Rule → Nat) :
    Rio.Consts.genFromRoutesRule (frr q draw) genMerge Action.empty sortRules R = fromRoutesRule R q draw :=
  genFromRoutesRule_eq R q draw

/-- **`action_eq_spec` for the regenerated code**: what the translated loop and `merge` compute from the matched
rules is the field-by-field specification over the contributing rules (effective rules, through the first `stop`,
from the last `reset`; status / log primary and fallback; filters, ids and traces in application order). -/
theorem action_eq_spec_gen (R : List Rule) (q : Req) (draw : Rule → Nat) :
    Rio.Consts.genFromRoutesRule (frr q draw) genMerge Action.empty sortRules R =
      Spec.action q (contributing q draw (sortRules R)) := by
  rw [gen_from_routes_rule_eq_model]
  exact action_eq_spec R q draw

/-- … and every observation on it is the specification's (`observations_mixed_codes` for the regenerated loop). -/
theorem observations_gen (R : List Rule) (q : Req) (draw : Rule → Nat) (allowLog : Bool) (ops : List (Op × Nat)) :
    runOpsC allowLog (Rio.Consts.genFromRoutesRule (frr q draw) genMerge Action.empty sortRules R) ops =
      Spec.observeC q (contributing q draw (sortRules R)) allowLog [] ops := by
  rw [gen_from_routes_rule_eq_model]
  exact observations_mixed_codes R q draw allowLog ops

/-! ### the selection loops of `filter_headers` / `create_filter_body`, regenerated (section `w4_translate_select`) -/

/-- the translated loops are the modelled observers, on every action.  For `filter_headers` the translation covers
the two selection loops only: the left-hand side is (the vector `filters`, `rules_applied`) AFTER THE TWO LOOPS; that
the rest of the function hands exactly this vector to `FilterHeaderAction::new` and does not touch `rules_applied`
again is a fail-closed SHAPE CHECK of the extractor (tools/consts.d/w4_translate.py `_check_filter_headers_tail`), not
a translation; what the tail then does with them (`FilterHeaderAction::filter`, the rule-ids header) is the model's
`filterHeadersFull` (C13gen / C05 `filter_headers_end_to_end`), tied by the correspondence. -/
theorem gen_selection_eq_model {κ : Type} (newBody : List BodyFilter → κ) (isEmptyBody : κ → Bool)
    (a : Action) (c : Nat) (add : Bool) :
    Rio.Consts.genActionSelectHeaderFilters lhsInsert c (a.ruleTraces.map toGenTrace) (a.headerFilters.map toGenHF)
        a.rulesApplied = ((a.filterHeaders c add).filters, (a.filterHeaders c add).action.rulesApplied) ∧
    Rio.Consts.genActionCreateFilterBody lhsInsert c newBody isEmptyBody (a.bodyFilters.map toGenBF) a.rulesApplied =
      ((if isEmptyBody (newBody (a.createFilterBody c).1) then none else some (newBody (a.createFilterBody c).1)),
       (a.createFilterBody c).2.rulesApplied) :=
  ⟨genSelectHeaderFilters_eq a c add, genCreateFilterBody_eq newBody isEmptyBody a c⟩

/-- **Header-filter selection, closed form, for the regenerated loops**: on the computed action, for response code
`c`, the vector `filters` AFTER THE TWO LOOPS holds the header filters of the contributing rules admitting `c`, in
priority order, and `rules_applied` after the two loops has received the admitted rules (traces first, then once per
selected filter).  (That this vector is what `FilterHeaderAction::new` gets: shape check of the extractor, see
`gen_selection_eq_model`.) -/
theorem header_selection_closed_form_gen (R : List Rule) (q : Req) (draw : Rule → Nat) (c : Nat) :
    let C := contributing q draw (sortRules R)
    let a := fromRoutesRule R q draw
    Rio.Consts.genActionSelectHeaderFilters lhsInsert c (a.ruleTraces.map toGenTrace) (a.headerFilters.map toGenHF)
        a.rulesApplied = (headerFiltersAt q C c, (insertedBy q C c .headers).foldl lhsInsert []) := by
  intro C a
  rw [genSelectHeaderFilters_eq a c true]
  have e : a = withApplied (Spec.action q C) [] := action_eq_spec R q draw
  rw [e, filterHeaders_spec]
  rfl

/-- **Body-filter selection, closed form, for the regenerated `create_filter_body`.** -/
theorem body_selection_closed_form_gen {κ : Type} (newBody : List BodyFilter → κ) (isEmptyBody : κ → Bool)
    (R : List Rule) (q : Req) (draw : Rule → Nat) (c : Nat) :
    let C := contributing q draw (sortRules R)
    let a := fromRoutesRule R q draw
    Rio.Consts.genActionCreateFilterBody lhsInsert c newBody isEmptyBody (a.bodyFilters.map toGenBF) a.rulesApplied =
      ((if isEmptyBody (newBody (bodyFiltersAt C c)) then none else some (newBody (bodyFiltersAt C c))),
       (insertedBy q C c .body).foldl lhsInsert []) := by
  intro C a
  rw [genCreateFilterBody_eq newBody isEmptyBody a c]
  have e : a = withApplied (Spec.action q C) [] := action_eq_spec R q draw
  rw [e, createFilterBody_spec]
  rfl

/-! ### Non-vacuity: the translated code run on a concrete action -/

private def exA : Action :=
  { Action.empty with
    statusCodeUpdate := some ⟨410, [404], false, 301, some [98], some [97], none, none⟩
    logOverride := some ⟨false, some [98], [404], false, some true, some [97], none⟩ }

example :
    (genGetStatusCode exA 0).1 = 0 ∧ (genGetStatusCode exA 404) = (410, { exA with rulesApplied := [[98]] }) ∧
    (genGetFinal exA 0 500).1 = (301, 500) ∧ (genGetFinal exA 0 500).2.rulesApplied = [[97]] ∧
    (genShouldLogRequest exA true 404).1 = false ∧ (genShouldLogRequest exA false 200).1 = true := by
  decide +kernel

end Rio.C05
