/-
C05 (the action computed from the matched rules) — the use-time decision functions REGENERATED FROM THE SOURCE.

`Rio.Consts.genActionGetStatusCode`, `genActionGetFinalStatusCode`, `genActionShouldLogRequest` are translated on
every run from `Action::get_status_code`, `get_final_status_code_with_fallback`, `should_log_request` of
src/action/mod.rs (tools/consts.d/w4_translate.py, section `w4_translate_action`); Proofs/ActionGen.lean wraps them
as observers of the model action (`genGetStatusCode`, `genGetFinal`, `genShouldLogRequest`: sub-rule decision =
the model's `StatusCodeUpdate.getStatusCode` / `getLogOverrideFull`, which are W3's translations
`statusGetStatusCode` / `logGetLogOverride`; `LinkedHashSet::insert` = `lhsInsert`) and proves them equal to W3's
hand-written observers.  Here the closed forms of C05 for the status code, the final status code with fallback and
the logging decision are restated for the translated code — so a source change in the `match` / `if` ladder of
these three functions (a dropped insertion into `rules_applied`, `unwrap_or` of the wrong default, `&&` → `||` in
the request-time fallback, the two results swapped) breaks a proof, not only the correspondence.  Not covered by
the translation: the unit-trace blocks (skipped when they have exactly the known shape), `filter_headers` and
`create_filter_body` (loops over filter lists with `continue`: outside the subset).
-/
import RioModel.Props.C05
import RioModel.Proofs.ActionGen
set_option linter.unusedSimpArgs false

namespace Rio.C05
open Rio.Action Rio.Action.Spec Rio.ActionGen

/-- the translated observers are the modelled ones, on every action -/
theorem gen_observers_eq_model (a : Action) (allow : Bool) (c fb : Nat) :
    genGetStatusCode a c = a.getStatusCode c ∧
    genGetFinal a c fb = a.getFinalStatusCodeWithFallback c fb ∧
    genShouldLogRequest a allow c = a.shouldLogRequest allow c :=
  ⟨genGetStatusCode_eq a c, genGetFinal_eq a c fb, genShouldLogRequest_eq a allow c⟩

/-- **`status_closed_form` for the regenerated code**: the translated `get_status_code(c)` on the computed action
returns `statusAt C c` and inserts into `rules_applied` the rule that value is attributed to. -/
theorem status_closed_form_gen (R : List Rule) (q : Req) (draw : Rule → Nat) (c : Nat) :
    let C := contributing q draw (sortRules R)
    (genGetStatusCode (fromRoutesRule R q draw) c).1 = (statusAt C c).1 ∧
    (genGetStatusCode (fromRoutesRule R q draw) c).2.rulesApplied = (statusAt C c).2.toList := by
  rw [genGetStatusCode_eq]
  exact status_closed_form R q draw c

/-- **The final status code with fallback, for the regenerated code**: at request time (`c = 0`) with no status of
its own, the action is asked again with the fallback code `fb`; the applied ids are those of both calls. -/
theorem final_status_closed_form_gen (R : List Rule) (q : Req) (draw : Rule → Nat) (c fb : Nat) :
    let C := contributing q draw (sortRules R)
    genGetFinal (fromRoutesRule R q draw) c fb =
      if (c == 0 && (statusAt C c).1 == 0) = true then
        (((statusAt C fb).1, fb),
          withApplied (Spec.action q C) (lhsInsertOpt (lhsInsertOpt [] (statusAt C c).2) (statusAt C fb).2))
      else (((statusAt C c).1, c), withApplied (Spec.action q C) (lhsInsertOpt [] (statusAt C c).2)) := by
  intro C
  have e : fromRoutesRule R q draw = withApplied (Spec.action q C) [] := action_eq_spec R q draw
  rw [genGetFinal_eq, e]
  exact getFinal_spec q C [] c fb

/-- **`log_closed_form` for the regenerated code.** -/
theorem log_closed_form_gen (R : List Rule) (q : Req) (draw : Rule → Nat) (allowLog : Bool) (c : Nat) :
    let C := contributing q draw (sortRules R)
    (genShouldLogRequest (fromRoutesRule R q draw) allowLog c).1 = (logAt C c).1.getD allowLog ∧
    (genShouldLogRequest (fromRoutesRule R q draw) allowLog c).2.rulesApplied = (logAt C c).2.toList := by
  rw [genShouldLogRequest_eq]
  exact log_closed_form R q draw allowLog c

/-! ### Non-vacuity: the translated code run on a concrete action -/

private def exA : Action :=
  { Action.empty with
    statusCodeUpdate := some ⟨410, [404], false, 301, some [98], some [97], none, none⟩
    logOverride := some ⟨false, some [98], [404], false, some true, some [97], none⟩ }

example :
    (genGetStatusCode exA 0).1 = 0 ∧ (genGetStatusCode exA 404) = (410, { exA with rulesApplied := [[98]] }) ∧
    (genGetFinal exA 0 500).1 = (301, 500) ∧ (genGetFinal exA 0 500).2.rulesApplied = [[97]] ∧
    (genShouldLogRequest exA true 404).1 = false ∧ (genShouldLogRequest exA false 200).1 = true := by
  decide +kernel

end Rio.C05
