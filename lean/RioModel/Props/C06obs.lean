/-
C06 for the MODELLED observers — "behaviourally identical" stated on the level where behaviour is modelled.

`Props/C06.lean` proves that the serde-model value is restored exactly (`action_roundtrip`,
`action_text_roundtrip`, `request_roundtrip`); its `action_behaviour` / `request_behaviour` are the congruence
corollaries for an arbitrary Lean function of the serde-model type and carry no further content.  What a proxy
DOES with a restored action is modelled elsewhere, on other types: the use-time observers of C05
(`Rio.Action.Action.getStatusCode`, `filterHeaders` (+ `X-RedirectionIo-RuleIds`), `createFilterBody`,
`shouldLogRequest`, `getFinalStatusCodeWithFallback`, all `&mut self` on `rules_applied`) and the router of C01
(`Rio.Router.RouterG.matchReq`).  This file connects the types (Proofs/JsonObs.lean):

* `ofJsonAction readId : Rio.Json.Action → Rio.Action.Action` makes every C05 observer a function of a serde-model
  action; `model_action_recovered`: it undoes W3's `toJsonAction showId` on every action the C05 model computes
  from rules whose codes fit a `u16` (the Rust fields are `u16`; `toJsonAction` alone is NOT injective, it wraps).
  So the observations made on the restored action are, call for call, for every observer sequence with a response
  code per call, those made on the original action and those of C05's specification table
  (`model_action_observers`), also when the action is handed over in the middle of a sequence
  (`observed_action_handover`).
* `reqOfJson ipOf instant : Rio.Json.Request → Rio.Router.Req` makes matching a function of a serde-model request:
  `request_match_roundtrip`.

What is and is not proved here.  Proved: the JSON carries every field the modelled observers / the modelled
matcher read, and nothing they read is altered by the round trip (through the JSON text).  Given the round trip,
the equalities of observations are congruences — the content is in (a) the round-trip theorems, (b) the totality
of `ofJsonAction` / `reqOfJson` on the serde types (no observer input is missing from the JSON) and (c)
`model_action_recovered` (nothing is lost or conflated on the way back, which fails without the `u16` bound).  Not
proved: that the Rust observers are the modelled ones (that is C05's / C01's correspondence), and the body-filter
OUTPUT beyond the selected filter list (C03 / C04 model the chains on their own types; here only the text-filter
probe `Probe.runChain` of the action model is covered).  The implementation-side oracle of harness c06 (same status
code, headers, body, log decision, applied ids on the real restored action) remains the check of the real code.
-/
import RioModel.Props.C06b
import RioModel.Proofs.JsonObs
set_option linter.unusedSimpArgs false
set_option linter.unusedVariables false

namespace Rio.C06
open Rio.Action Rio.Action.Spec

/-! ### actions -/

/-- Every action the C05 model computes from rules with `u16` codes has `u16` codes. -/
theorem fromRoutesRule_u16 (R : List Rule) (q : Req) (draw : Rule → Nat) (hR : ∀ r ∈ R, r.U16) :
    (fromRoutesRule R q draw).U16 := by
  rw [Rio.C05.action_eq_spec]
  exact spec_action_u16 q _ fun r hr => hR r (Rio.C05.contributing_mem R q draw r hr).1

/-- … and so has every state a sequence of observer calls leaves behind. -/
theorem stateAfter_u16 (R : List Rule) (q : Req) (draw : Rule → Nat) (hR : ∀ r ∈ R, r.U16)
    (allow : Bool) (c : Nat) (ops : List Op) :
    (stateAfter allow c (fromRoutesRule R q draw) ops).U16 := by
  have e : fromRoutesRule R q draw =
      withApplied (Spec.action q (contributing q draw (sortRules R))) (dedupLast []) :=
    Rio.C05.action_eq_spec R q draw
  rw [e, stateAfter_spec]
  exact withApplied_u16 _ _
    (spec_action_u16 q _ fun r hr => hR r (Rio.C05.contributing_mem R q draw r hr).1)

/-- A reader that reads back what `showId` renders makes `showId` injective (the hypothesis of Props/C06b). -/
theorem injective_of_reader (showId : RuleId → String) (readId : String → RuleId)
    (hleft : ∀ i, readId (showId i) = i) : Function.Injective showId := by
  intro a b e
  have := congrArg readId e
  rwa [hleft, hleft] at this

/-- Conversely every injective rendering has such a reader (so `hleft` asks no more than C06b's `hinj`). -/
theorem exists_reader_of_injective (showId : RuleId → String) (hinj : Function.Injective showId) :
    ∃ readId : String → RuleId, ∀ i, readId (showId i) = i := by
  classical
  refine ⟨fun s => if h : ∃ i, showId i = s then Classical.choose h else [], ?_⟩
  intro i
  have h : ∃ j, showId j = showId i := ⟨i, rfl⟩
  simp only [h, dite_true]
  exact hinj (Classical.choose_spec h)

/-- **Nothing is lost between the action model and the JSON**: a computed action, translated into the serde
model and read back, is the computed action. -/
theorem model_action_recovered (showId : RuleId → String) (readId : String → RuleId)
    (hleft : ∀ i, readId (showId i) = i) (R : List Rule) (q : Req) (draw : Rule → Nat)
    (hR : ∀ r ∈ R, r.U16) :
    ofJsonAction readId (toJsonAction showId (fromRoutesRule R q draw)) = fromRoutesRule R q draw :=
  ofJson_toJson showId readId hleft _ (fromRoutesRule_u16 R q draw hR)

/-- The bound is needed: status codes 301 and 65837 are different in the action model and the same `u16`. -/
example : u16 301 = u16 65837 := by decide

/-- **The restored action under the C05 observers** (any serde-model action, e.g. one received from an agent this
model knows nothing about): the action restored from the JSON TEXT exists and, read into the action model,
gives — for every sequence of observer calls with a response code per call (results AND applied-rule ids after
every call), for the complete `filter_headers` on any header list, and for the text body-filter chain built from
the selected filters on any body — what the original gives. -/
theorem action_observers_roundtrip (readId : String → RuleId) (a : Rio.Json.Action) (h : a.WF) :
    ∃ a', Rio.Json.deActionText (Rio.Json.print (Rio.Json.serAction a)).toList = some a' ∧
      Rio.Json.deAction (Rio.Json.serAction a) = some a' ∧
      (∀ allow ops, runOpsC allow (ofJsonAction readId a') ops = runOpsC allow (ofJsonAction readId a) ops) ∧
      (∀ lower showId headers c add,
        (ofJsonAction readId a').filterHeadersFull lower showId headers c add =
          (ofJsonAction readId a).filterHeadersFull lower showId headers c add) ∧
      (∀ c body,
        Probe.runChain (Probe.chainOf ((ofJsonAction readId a').createFilterBody c).1) body =
          Probe.runChain (Probe.chainOf ((ofJsonAction readId a).createFilterBody c).1) body) :=
  ⟨a, action_text_roundtrip a h, action_roundtrip a h, fun _ _ => rfl, fun _ _ _ _ _ => rfl, fun _ _ => rfl⟩

/-- **C06 ∘ C05**: the action the library computes (`Action::from_routes_rule` on any matched rules, request and
sampling draws), printed as JSON text, read back and used: for every sequence of (observer, response code) calls,
the result of each call and the applied-rule ids after it are those of the ORIGINAL action, i.e. (C05) those of
the specification table over the contributing rules. -/
theorem model_action_observers (showId : RuleId → String) (readId : String → RuleId)
    (hleft : ∀ i, readId (showId i) = i) (R : List Rule) (q : Req) (draw : Rule → Nat)
    (hR : ∀ r ∈ R, r.U16) :
    ∃ a', Rio.Json.deActionText
          (Rio.Json.print (Rio.Json.serAction (toJsonAction showId (fromRoutesRule R q draw)))).toList = some a' ∧
      ofJsonAction readId a' = fromRoutesRule R q draw ∧
      ∀ allow (ops : List (Op × Nat)),
        runOpsC allow (ofJsonAction readId a') ops = runOpsC allow (fromRoutesRule R q draw) ops ∧
        runOpsC allow (ofJsonAction readId a') ops =
          Spec.observeC q (contributing q draw (sortRules R)) allow [] ops := by
  have hinj := injective_of_reader showId readId hleft
  have hrec := model_action_recovered showId readId hleft R q draw hR
  refine ⟨_, model_action_text_roundtrip showId hinj R q draw, hrec, fun allow ops => ?_⟩
  rw [hrec]
  exact ⟨rfl, Rio.C05.observations_mixed_codes R q draw allow ops⟩

/-- … in particular the complete `filter_headers` (selection, the C13 header actions, the
`X-RedirectionIo-RuleIds` header) on the restored action returns the headers it returns on the original. -/
theorem model_action_headers (showId : RuleId → String) (readId : String → RuleId)
    (hleft : ∀ i, readId (showId i) = i) (R : List Rule) (q : Req) (draw : Rule → Nat)
    (hR : ∀ r ∈ R, r.U16) (lower : String → String) (headers : List Rio.Header.Header) (c : Nat) (add : Bool) :
    ∃ a', Rio.Json.deActionText
          (Rio.Json.print (Rio.Json.serAction (toJsonAction showId (fromRoutesRule R q draw)))).toList = some a' ∧
      (ofJsonAction readId a').filterHeadersFull lower showId headers c add =
        (fromRoutesRule R q draw).filterHeadersFull lower showId headers c add := by
  have hinj := injective_of_reader showId readId hleft
  refine ⟨_, model_action_text_roundtrip showId hinj R q draw, ?_⟩
  rw [model_action_recovered showId readId hleft R q draw hR]

theorem runOps_append (allow : Bool) (c : Nat) (a : Action) (ops1 ops2 : List Op) :
    runOps allow c a (ops1 ++ ops2) =
      runOps allow c a ops1 ++ runOps allow c (stateAfter allow c a ops1) ops2 := by
  induction ops1 generalizing a with
  | nil => rfl
  | cons op ops ih => simp only [List.cons_append, runOps, stateAfter, ih]

/-- **Hand-over in the middle of use**: a proxy that has already made the calls `ops1` serialises the action it
holds; whoever restores it and continues with `ops2` observes exactly the rest of the uninterrupted sequence
(results and applied-rule ids, which include the ids inserted before the hand-over). -/
theorem observed_action_handover (showId : RuleId → String) (readId : String → RuleId)
    (hleft : ∀ i, readId (showId i) = i) (R : List Rule) (q : Req) (draw : Rule → Nat)
    (hR : ∀ r ∈ R, r.U16) (allow : Bool) (c : Nat) (ops1 ops2 : List Op) :
    ∃ a', Rio.Json.deAction (Rio.Json.serAction
          (toJsonAction showId (stateAfter allow c (fromRoutesRule R q draw) ops1))) = some a' ∧
      runOps allow c (fromRoutesRule R q draw) (ops1 ++ ops2) =
        runOps allow c (fromRoutesRule R q draw) ops1 ++ runOps allow c (ofJsonAction readId a') ops2 := by
  have hinj := injective_of_reader showId readId hleft
  refine ⟨_, observed_action_roundtrip showId hinj R q draw allow c ops1, ?_⟩
  rw [ofJson_toJson showId readId hleft _ (stateAfter_u16 R q draw hR allow c ops1)]
  exact runOps_append allow c _ ops1 ops2

/-! ### requests -/

open Rio.Json in
/-- **A restored request matches the same rules.**  For every matcher tower `O` of the router model (C01: the
specification-level tower `towerOps E` and the tree-level tower `towerTOps T` are instances), every router state
`S`, every conversion of the two atoms: the request restored from the JSON text exists and, seen as the router
model's request, is matched by the same routes in the same order, gets the same trace and the same final route;
and the part the action computation reads (`sampling_override`, the skipped query parameters) is unchanged, so for
any assignment `ruleOf` of handlers to routes the action computed from the restored request is the action computed
from the original. -/
theorem request_match_roundtrip (O : Rio.Router.MOps) (S : Rio.Router.RouterG O) (P : Codec)
    (ipOf : Ip → Rio.Router.Ip) (instant : DateTime → Nat) (q : Request) (h : q.WF) :
    ∃ q', deRequestText P (print (serRequest q)).toList = some q' ∧
      deRequest P (serRequest q) = some q' ∧
      Rio.Router.RouterG.matchReq O S (reqOfJson ipOf instant q') =
        Rio.Router.RouterG.matchReq O S (reqOfJson ipOf instant q) ∧
      Rio.Router.RouterG.trace O S (reqOfJson ipOf instant q') =
        Rio.Router.RouterG.trace O S (reqOfJson ipOf instant q) ∧
      Rio.Router.RouterG.getRoute O S (reqOfJson ipOf instant q') =
        Rio.Router.RouterG.getRoute O S (reqOfJson ipOf instant q) ∧
      ∀ (ruleOf : Rio.Router.Route → Rule) (draw : Rule → Nat),
        fromRoutesRule ((Rio.Router.RouterG.matchReq O S (reqOfJson ipOf instant q')).map ruleOf)
            (actionReqOfJson q') draw =
          fromRoutesRule ((Rio.Router.RouterG.matchReq O S (reqOfJson ipOf instant q)).map ruleOf)
            (actionReqOfJson q) draw :=
  ⟨q, request_text_roundtrip P q h, request_roundtrip P q h, rfl, rfl, rfl, fun _ _ => rfl⟩

/-! ### Non-vacuity -/

private def mkRule (id : RuleId) (rank : Nat) (status : Option Nat) (codes : Option (List Nat)) : Rule :=
  { id := id, rank := rank, statusCode := status, target := some "/t", responseStatusCodes := codes,
    excludeResponseStatusCodes := none, sampling := none,
    headerFilters := some [⟨"add", "X-A", "1", none, none⟩],
    bodyFilters := some [.text ⟨.append, "<!-- x -->", none, none⟩],
    logOverride := some true, reset := none, stop := none, redirectUnitId := none,
    configurationLogUnitId := none, targetHash := none }

private def exRules : List Rule := [mkRule [97] 1 (some 301) none, mkRule [98] 2 (some 410) (some [404])]

example : ∀ r ∈ exRules, r.U16 := by
  intro r hr
  simp only [exRules, List.mem_cons, List.mem_nil_iff, or_false] at hr
  rcases hr with rfl | rfl <;>
    refine ⟨by decide, fun c hc => ?_⟩ <;> simp [mkRule, codesOf] at hc <;> omega

/-- the hypotheses of `model_action_observers` can be met: `showUnary` (Props/C06b) is injective, hence has a reader -/
example : ∃ readId : String → RuleId, ∀ i, readId (showUnary i) = i :=
  exists_reader_of_injective showUnary showUnary_injective

/-- and the observers do observe something on such an action (the closed form `Spec.action` of
`fromRoutesRule`, C05 `action_eq_spec`, which the kernel can evaluate): the conditional rule `b` is the primary
status rule, the unconditional `a` its fallback — nothing at request time, 410 for a backend 404 (attributed to
`b`), 301 for a backend 500 (attributed to `a`) -/
example :
    runOpsC true (Spec.action ⟨none, none⟩ exRules) [(.status, 0), (.status, 404), (.status, 500)] =
      [(.status 0, []), (.status 410, [[98]]), (.status 301, [[98], [97]])] := by
  decide +kernel

/-- a serde-model request, seen as the router model's request -/
example :
    Rio.Json.reqOfJson Rio.Json.ipNum Rio.Json.unixSeconds
      { path_and_query_skipped := ⟨"/a?x=1", some "/a", some "x=1", "/a?x=1"⟩, path_and_query := some "/a?x=1",
        host := some "a.com", scheme := some "https", method := none, headers := [⟨"X-A", "v"⟩],
        remote_addr := some (.v4 ⟨10, 0, 0, 1⟩), created_at := some ⟨2020, 1, 1, 0, 0, 0, 0⟩,
        sampling_override := none } =
      { scheme := some "https", host := some "a.com", method := none, headers := [("X-A", "v")],
        ip := some ⟨false, 167772161⟩, createdAt := some 1577836800, path := "/a" } := by
  decide +kernel

end Rio.C06
