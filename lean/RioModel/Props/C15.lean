/-
C15 — HTML filters edit the targeted element as specified on well-formed documents.

Property theorems only; helper lemmas in Proofs/FilterDom.lean; the filter model (Model/Filter.lean),
the DOM and the reference edit (Model/FilterDom.lean) are W6's.

Parameters of the theorems: the tokenizer `tk` (only used by `append_child` / `prepend_child` when a
selector is configured), the selector oracle `ev` (scraper), and `vt`, the tokens of a verbatim
piece (text, comment, declaration, an inserted value).  The reference edit takes its selector
decision from the oracle applied to the serialised target (`decOf ev`); `editD_selMatches` shows it
is W6's `edit` when the decision is the element-name stand-in.
-/
import RioModel.Proofs.FilterDom
import RioModel.Model.FilterHtml
import RioModel.Proofs.FilterDomTok
import RioModel.Proofs.FilterDomLaws
import RioModel.Proofs.FilterDomRec
set_option linter.unusedSimpArgs false
set_option linter.unusedVariables false

namespace Rio.C15
open Rio.Filter Rio.Consts

variable (tk : Tokenize) (ev : Bytes → Bytes → Bool) (vt : Bytes → List Tok)

/-! ### token level: append_child / prepend_child -/

/-- **append_child inserts the value immediately before the target's end tag** (as the last child),
for every document in the domain `AnyDomAPList` (Proofs/FilterDom.lean: every element named like the
first path element has, as children along the rest of the path, exactly one element of the next name,
normal and not void; the target is a normal or raw-text element; nothing else carries a path name).
With a selector the value is inserted iff the oracle rejects the serialised target. -/
theorem append_tokens_spec (hvt : VtLossless vt) (p1 : Bytes) (ps : List Bytes) (sel : Option Bytes)
    (value : Bytes) (doc : List Node)
    (h : AnyDomAPList tk .append sel vt (p1 :: ps) p1 ps doc) :
    ∃ v, Visitor.new filterActionAppend (p1 :: ps) sel value = some v ∧
      runToks tk ev v (tokensOfList vt doc) =
        serializeList (editD (decOf ev) doc (.html filterActionAppend (p1 :: ps) sel value)) := by
  refine ⟨vis .append sel value [] p1 ps false, by simp [Visitor.new, vis], ?_⟩
  rw [runToks_AP tk ev .append sel value vt (Or.inl rfl) hvt (valueMarks value) p1 ps (by simp)
    (fun a ha => by simp [ha]) doc h]
  simp [editD, opOf, selN]

/-- **prepend_child inserts the value immediately after the target's start tag.** -/
theorem prepend_tokens_spec (hvt : VtLossless vt) (p1 : Bytes) (ps : List Bytes) (sel : Option Bytes)
    (value : Bytes) (doc : List Node)
    (h : AnyDomAPList tk .prepend sel vt (p1 :: ps) p1 ps doc) :
    ∃ v, Visitor.new filterActionPrepend (p1 :: ps) sel value = some v ∧
      runToks tk ev v (tokensOfList vt doc) =
        serializeList (editD (decOf ev) doc (.html filterActionPrepend (p1 :: ps) sel value)) := by
  have hne : filterActionPrepend ≠ filterActionAppend := by
    simp [filterActionPrepend, filterActionAppend]
  refine ⟨vis .prepend sel value [] p1 ps false, by simp [Visitor.new, vis, hne], ?_⟩
  rw [runToks_AP tk ev .prepend sel value vt (Or.inr rfl) hvt (valueMarks value) p1 ps (by simp)
    (fun a ha => by simp [ha]) doc h]
  simp [editD, opOf, selN, hne]

/-! ### token level: replace -/

/-- **replace (one-element path) substitutes every occurrence of the target, start tag to end tag**,
including void (`<br>`) and self-closing (`<x/>`) ones, anywhere in the document outside other
targets and raw text; with a selector, iff the oracle accepts the serialised target. -/
theorem replace_tokens_spec_single (hvt : VtLossless vt) (p1 : Bytes) (sel : Option Bytes)
    (value : Bytes) (doc : List Node)
    (h : AnyDomGList vt [p1] p1 (fun _ _ knd cs => TargetR vt [p1] p1 knd cs) doc) :
    ∃ v, Visitor.new filterActionReplace [p1] sel value = some v ∧
      runToks tk ev v (tokensOfList vt doc) =
        serializeList (editD (decOf ev) doc (.html filterActionReplace [p1] sel value)) := by
  have h1 : filterActionReplace ≠ filterActionAppend := by simp [filterActionReplace, filterActionAppend]
  have h2 : filterActionReplace ≠ filterActionPrepend := by simp [filterActionReplace, filterActionPrepend]
  refine ⟨vis .replace sel value [] p1 [] false, by simp [Visitor.new, vis, h1, h2], ?_⟩
  rw [runToks_R1 tk ev sel value vt hvt (valueMarks value) p1 doc h]
  simp [editD, selN, h1, h2]

/-- **replace (longer path) substitutes every sibling occurrence of the target** below the unique
chain of path elements (`OneHitL` / `ChildDomR`: each path element but the last occurs once, as a
child of the previous one; the last any number ≥ 1 of times as children of the last but one,
normal, raw-text, void or self-closing). -/
theorem replace_tokens_spec (hvt : VtLossless vt) (p1 a : Bytes) (rest : List Bytes) (sel : Option Bytes)
    (value : Bytes) (doc : List Node) (hnd : (p1 :: a :: rest).Nodup)
    (h : OneHitL vt (p1 :: a :: rest) p1
      (fun _ _ knd cs => ChildDomR vt (p1 :: a :: rest) (a :: rest) p1 knd cs) doc) :
    ∃ v, Visitor.new filterActionReplace (p1 :: a :: rest) sel value = some v ∧
      runToks tk ev v (tokensOfList vt doc) =
        serializeList (editD (decOf ev) doc (.html filterActionReplace (p1 :: a :: rest) sel value)) := by
  have h1 : filterActionReplace ≠ filterActionAppend := by simp [filterActionReplace, filterActionAppend]
  have h2 : filterActionReplace ≠ filterActionPrepend := by simp [filterActionReplace, filterActionPrepend]
  refine ⟨vis .replace sel value [] p1 (a :: rest) false, by simp [Visitor.new, vis, h1, h2], ?_⟩
  rw [runToks_Rn tk ev sel value vt hvt (valueMarks value) p1 a rest hnd doc h]
  simp [editD, selN, h1, h2]

/-! ### several filters compose in order; the chain model -/

/-- **One filter in its domain (`InDomain`, the four cases above), on the chain model**: when the
stream tokenizer of `filter` (`tk.stream []` = `Tokenizer::new_fragment(data, "")`, /repo since fe7eac6) sees the
serialised document as `tokensOfList vt doc`, leaves nothing and no token is cut short by the end of the data
(`TokAgree`), the chain built by `FilterBodyAction::new` and fed the document as one chunk emits the serialisation of
the reference edit. -/
theorem filter_spec (lower : String → String) (hvt : VtLossless vt) (doc : List Node) (f : BodyFilter)
    (hdom : InDomain tk vt doc f) (hag : TokAgree tk vt doc) :
    (Chain.new noCodec lower [f] [] : Chain Unit Unit).run tk ev noCodec [serializeList doc] =
      serializeList (editD (decOf ev) doc f) := by
  obtain ⟨vs, hvs, hch⟩ := chained_of_steps tk ev vt hvt [f] doc
    ⟨hdom, hag, fun h => absurd rfl h, trivial⟩
  rw [chain_new_html lower [f] vs hvs]
  simpa [editAllD] using chain_run_chained tk ev vs _ _ hch

/-- **Several filters compose in order**: if every filter is in its domain on the document it sees
(the result of the reference edits before it), the chain emits the serialisation of `editAll`
(`StepsOK`; intermediate documents non-empty, because the chain stops at an empty intermediate result). -/
theorem filters_compose (lower : String → String) (hvt : VtLossless vt) (doc : List Node)
    (fs : List BodyFilter) (h : StepsOK tk ev vt doc fs) :
    (Chain.new noCodec lower fs [] : Chain Unit Unit).run tk ev noCodec [serializeList doc] =
      serializeList (editAllD (decOf ev) doc fs) := by
  obtain ⟨vs, hvs, hch⟩ := chained_of_steps tk ev vt hvt fs doc h
  rw [chain_new_html lower fs vs hvs]
  exact chain_run_chained tk ev vs _ _ hch

/-- **The hypotheses are decidable**: `stepsOKB` (Proofs/FilterDom.lean) evaluates a sufficient condition for
`StepsOK` — domain of every filter on the document it sees, `TokAgree` of every intermediate document — with
the verbatim pieces tokenised by the tokenizer itself (`vtOf tk`).  Where it answers `true`, the chain
model emits the serialisation of the reference edits.  The driver evaluates it on every generated case
(tag `thm-applies`), and concrete instances are obtained by kernel evaluation (example below). -/
theorem filters_compose_checked (lower : String → String) (doc : List Node) (fs : List BodyFilter)
    (h : stepsOKB tk ev (vtOf tk) doc fs = true) :
    (Chain.new noCodec lower fs [] : Chain Unit Unit).run tk ev noCodec [serializeList doc] =
      serializeList (editAllD (decOf ev) doc fs) :=
  filters_compose tk ev (vtOf tk) lower (vtOf_lossless tk) doc fs (stepsOKB_sound tk ev (vtOf tk) fs doc h)


/-! ### byte level -/

/-- **tokens(x ++ y) = tokens(x) ++ tokens(y)** for the tokenizer instance of the filters (the C16 model), for every
`y`, whenever the tokens of `x` are all produced before the end of `x` is reached, consume `x` entirely and leave the
tokenizer outside a raw-text context (`Closed`, decidable by `closedB`).  Derived from W5's simulation lemma for
`next` (prefix stability + restart). -/
theorem tokenize_append {x y : Bytes} {ts ts' : List Tok} {r : Bytes} (hc : Closed x ts)
    (hy : htmlTokenize? y = some (ts', r)) : htmlTokenize? (x ++ y) = some (ts ++ ts', r) :=
  htmlTokenize?_append hc hy

/-- **a text followed by a tag** is one text token followed by the tokens of the rest: the only look-ahead of the
tokenizer (`<` + letter, `/`, `!` or `?`).  A text (`textOKB`) may hold `<` when the byte after it, inside the text, opens
nothing (`a < b`, `1<2`); its last byte is not `<`. -/
theorem tokenize_text_then_tag {tx y : Bytes} {c : Nat} {rest : Bytes} {ts' : List Tok} {r : Bytes}
    (hne : tx ≠ []) (h60 : textOKB tx = true) (hy0 : y = 60 :: c :: rest) (hop : isOpener c = true)
    (hy : htmlTokenize? y = some (ts', r)) :
    htmlTokenize? (tx ++ y) = some (⟨.text, tx, []⟩ :: ts', r) :=
  htmlTokenize?_text hne h60 hy0 hop hy

/-- **the same two laws for the stream tokenizer `filter` runs since fe7eac6** (`new_fragment(data, "")`, with the
`cut` flag and the raw-text context `filter` reads around every `next()`): `StreamTo d ts r` = the tokens of `d` are
`ts`, `r` is left, and NO token is one that `filter` would hold back as cut short by the end of the data (`isCut`). -/
theorem stream_append {x y : Bytes} {ts ts' : List Tok} {r : Bytes} (hc : Closed x ts)
    (hy : StreamTo y ts' r) : StreamTo (x ++ y) (ts ++ ts') r :=
  streamTo_append hc hy

theorem stream_text_then_tag {tx y : Bytes} {c : Nat} {rest : Bytes} {ts' : List Tok} {r : Bytes}
    (hne : tx ≠ []) (h60 : textOKB tx = true) (hy0 : y = 60 :: c :: rest) (hop : isOpener c = true)
    (hy : StreamTo y ts' r) : StreamTo (tx ++ y) (⟨.text, tx, []⟩ :: ts') r :=
  streamTo_text hne h60 hy0 hop hy

/-- a text at the very end of the data IS ended by the end of the data (`cut`), but `filter` does not hold a plain
text back: it still counts as not cut -/
theorem stream_text_at_end {tx : Bytes} (hne : tx ≠ []) (h60 : textOKB tx = true) :
    StreamTo tx [⟨.text, tx, []⟩] [] :=
  streamTo_text_eof hne h60

/-- **`tokenize (serialize d) = tokensOf d`, compositional form** (any document): it suffices that every unit — each
tag on its own, each raw-text element as a whole, each text together with the tag that follows it — is tokenised as
expected in isolation (`unitsOKB`, a local decidable check; `vt` = the expected tokens of the verbatim pieces). -/
theorem tokenize_serialize_units (vt : Bytes → List Tok) (doc : List Node)
    (h : unitsOKB (mergeUnits (piecesOfList vt doc)) = true) :
    htmlTokenize (serializeList doc) = (tokensOfList vt doc, []) :=
  Rio.Filter.tokenize_serialize_units vt doc h

/-- a vocabulary of 68 start tags (13 element names x 5 attribute texts incl. a quoted `>`, an unquoted
value, single quotes, a valueless attribute, plus three upper / mixed-case spellings), 4 self-closing tags and
14 end tags -/
def exVocab : Vocab :=
  { starts := [([104, 116, 109, 108], [104, 116, 109, 108], []),
      ([104, 116, 109, 108], [104, 116, 109, 108], [32, 99, 108, 97, 115, 115, 61, 34, 112, 97, 103, 101, 34]),
      ([104, 116, 109, 108], [104, 116, 109, 108], [32, 105, 100, 61, 109, 97, 105, 110]),
      ([104, 116, 109, 108], [104, 116, 109, 108], [32, 116, 105, 116, 108, 101, 61, 34, 97, 32, 62, 32, 98, 34]),
      ([104, 116, 109, 108], [104, 116, 109, 108], [32, 100, 97, 116, 97, 45, 120, 61, 39, 49, 39, 32, 104, 105, 100, 100, 101, 110]),
      ([104, 101, 97, 100], [104, 101, 97, 100], []),
      ([104, 101, 97, 100], [104, 101, 97, 100], [32, 99, 108, 97, 115, 115, 61, 34, 112, 97, 103, 101, 34]),
      ([104, 101, 97, 100], [104, 101, 97, 100], [32, 105, 100, 61, 109, 97, 105, 110]),
      ([104, 101, 97, 100], [104, 101, 97, 100], [32, 116, 105, 116, 108, 101, 61, 34, 97, 32, 62, 32, 98, 34]),
      ([104, 101, 97, 100], [104, 101, 97, 100], [32, 100, 97, 116, 97, 45, 120, 61, 39, 49, 39, 32, 104, 105, 100, 100, 101, 110]),
      ([98, 111, 100, 121], [98, 111, 100, 121], []),
      ([98, 111, 100, 121], [98, 111, 100, 121], [32, 99, 108, 97, 115, 115, 61, 34, 112, 97, 103, 101, 34]),
      ([98, 111, 100, 121], [98, 111, 100, 121], [32, 105, 100, 61, 109, 97, 105, 110]),
      ([98, 111, 100, 121], [98, 111, 100, 121], [32, 116, 105, 116, 108, 101, 61, 34, 97, 32, 62, 32, 98, 34]),
      ([98, 111, 100, 121], [98, 111, 100, 121], [32, 100, 97, 116, 97, 45, 120, 61, 39, 49, 39, 32, 104, 105, 100, 100, 101, 110]),
      ([100, 105, 118], [100, 105, 118], []),
      ([100, 105, 118], [100, 105, 118], [32, 99, 108, 97, 115, 115, 61, 34, 112, 97, 103, 101, 34]),
      ([100, 105, 118], [100, 105, 118], [32, 105, 100, 61, 109, 97, 105, 110]),
      ([100, 105, 118], [100, 105, 118], [32, 116, 105, 116, 108, 101, 61, 34, 97, 32, 62, 32, 98, 34]),
      ([100, 105, 118], [100, 105, 118], [32, 100, 97, 116, 97, 45, 120, 61, 39, 49, 39, 32, 104, 105, 100, 100, 101, 110]),
      ([112], [112], []),
      ([112], [112], [32, 99, 108, 97, 115, 115, 61, 34, 112, 97, 103, 101, 34]),
      ([112], [112], [32, 105, 100, 61, 109, 97, 105, 110]),
      ([112], [112], [32, 116, 105, 116, 108, 101, 61, 34, 97, 32, 62, 32, 98, 34]),
      ([112], [112], [32, 100, 97, 116, 97, 45, 120, 61, 39, 49, 39, 32, 104, 105, 100, 100, 101, 110]),
      ([115, 112, 97, 110], [115, 112, 97, 110], []),
      ([115, 112, 97, 110], [115, 112, 97, 110], [32, 99, 108, 97, 115, 115, 61, 34, 112, 97, 103, 101, 34]),
      ([115, 112, 97, 110], [115, 112, 97, 110], [32, 105, 100, 61, 109, 97, 105, 110]),
      ([115, 112, 97, 110], [115, 112, 97, 110], [32, 116, 105, 116, 108, 101, 61, 34, 97, 32, 62, 32, 98, 34]),
      ([115, 112, 97, 110], [115, 112, 97, 110], [32, 100, 97, 116, 97, 45, 120, 61, 39, 49, 39, 32, 104, 105, 100, 100, 101, 110]),
      ([97], [97], []),
      ([97], [97], [32, 99, 108, 97, 115, 115, 61, 34, 112, 97, 103, 101, 34]),
      ([97], [97], [32, 105, 100, 61, 109, 97, 105, 110]),
      ([97], [97], [32, 116, 105, 116, 108, 101, 61, 34, 97, 32, 62, 32, 98, 34]),
      ([97], [97], [32, 100, 97, 116, 97, 45, 120, 61, 39, 49, 39, 32, 104, 105, 100, 100, 101, 110]),
      ([117, 108], [117, 108], []),
      ([117, 108], [117, 108], [32, 99, 108, 97, 115, 115, 61, 34, 112, 97, 103, 101, 34]),
      ([117, 108], [117, 108], [32, 105, 100, 61, 109, 97, 105, 110]),
      ([117, 108], [117, 108], [32, 116, 105, 116, 108, 101, 61, 34, 97, 32, 62, 32, 98, 34]),
      ([117, 108], [117, 108], [32, 100, 97, 116, 97, 45, 120, 61, 39, 49, 39, 32, 104, 105, 100, 100, 101, 110]),
      ([108, 105], [108, 105], []),
      ([108, 105], [108, 105], [32, 99, 108, 97, 115, 115, 61, 34, 112, 97, 103, 101, 34]),
      ([108, 105], [108, 105], [32, 105, 100, 61, 109, 97, 105, 110]),
      ([108, 105], [108, 105], [32, 116, 105, 116, 108, 101, 61, 34, 97, 32, 62, 32, 98, 34]),
      ([108, 105], [108, 105], [32, 100, 97, 116, 97, 45, 120, 61, 39, 49, 39, 32, 104, 105, 100, 100, 101, 110]),
      ([109, 97, 105, 110], [109, 97, 105, 110], []),
      ([109, 97, 105, 110], [109, 97, 105, 110], [32, 99, 108, 97, 115, 115, 61, 34, 112, 97, 103, 101, 34]),
      ([109, 97, 105, 110], [109, 97, 105, 110], [32, 105, 100, 61, 109, 97, 105, 110]),
      ([109, 97, 105, 110], [109, 97, 105, 110], [32, 116, 105, 116, 108, 101, 61, 34, 97, 32, 62, 32, 98, 34]),
      ([109, 97, 105, 110], [109, 97, 105, 110], [32, 100, 97, 116, 97, 45, 120, 61, 39, 49, 39, 32, 104, 105, 100, 100, 101, 110]),
      ([104, 49], [104, 49], []),
      ([104, 49], [104, 49], [32, 99, 108, 97, 115, 115, 61, 34, 112, 97, 103, 101, 34]),
      ([104, 49], [104, 49], [32, 105, 100, 61, 109, 97, 105, 110]),
      ([104, 49], [104, 49], [32, 116, 105, 116, 108, 101, 61, 34, 97, 32, 62, 32, 98, 34]),
      ([104, 49], [104, 49], [32, 100, 97, 116, 97, 45, 120, 61, 39, 49, 39, 32, 104, 105, 100, 100, 101, 110]),
      ([98, 114], [98, 114], []),
      ([98, 114], [98, 114], [32, 99, 108, 97, 115, 115, 61, 34, 112, 97, 103, 101, 34]),
      ([98, 114], [98, 114], [32, 105, 100, 61, 109, 97, 105, 110]),
      ([98, 114], [98, 114], [32, 116, 105, 116, 108, 101, 61, 34, 97, 32, 62, 32, 98, 34]),
      ([98, 114], [98, 114], [32, 100, 97, 116, 97, 45, 120, 61, 39, 49, 39, 32, 104, 105, 100, 100, 101, 110]),
      ([105, 109, 103], [105, 109, 103], []),
      ([105, 109, 103], [105, 109, 103], [32, 99, 108, 97, 115, 115, 61, 34, 112, 97, 103, 101, 34]),
      ([105, 109, 103], [105, 109, 103], [32, 105, 100, 61, 109, 97, 105, 110]),
      ([105, 109, 103], [105, 109, 103], [32, 116, 105, 116, 108, 101, 61, 34, 97, 32, 62, 32, 98, 34]),
      ([105, 109, 103], [105, 109, 103], [32, 100, 97, 116, 97, 45, 120, 61, 39, 49, 39, 32, 104, 105, 100, 100, 101, 110]),
      ([100, 105, 118], [68, 73, 86], []),
      ([98, 111, 100, 121], [66, 111, 100, 121], [32, 99, 108, 97, 115, 115, 61, 34, 112, 97, 103, 101, 34]),
      ([112], [80], [])],
    selfs := [([98, 114], [98, 114], []),
      ([98, 114], [98, 114], [32]),
      ([105, 109, 103], [105, 109, 103], [32, 99, 108, 97, 115, 115, 61, 34, 112, 97, 103, 101, 34, 32]),
      ([120, 45, 109, 97, 114, 107], [120, 45, 109, 97, 114, 107], [])],
    ends := [([104, 116, 109, 108], [104, 116, 109, 108]),
      ([104, 101, 97, 100], [104, 101, 97, 100]),
      ([98, 111, 100, 121], [98, 111, 100, 121]),
      ([100, 105, 118], [100, 105, 118]),
      ([112], [112]),
      ([115, 112, 97, 110], [115, 112, 97, 110]),
      ([97], [97]),
      ([117, 108], [117, 108]),
      ([108, 105], [108, 105]),
      ([109, 97, 105, 110], [109, 97, 105, 110]),
      ([104, 49], [104, 49]),
      ([100, 105, 118], [68, 73, 86]),
      ([98, 111, 100, 121], [66, 111, 100, 121]),
      ([112], [80])] }

/-- every tag of the vocabulary is tokenised as expected on its own (kernel evaluation of the C16 tokenizer model) -/
theorem exVocab_ok : exVocab.ok = true := by decide +kernel

/-- **`tokenize (serialize d) = tokensOf d` for ALL documents over the vocabulary** (`simpleL`: elements of kind
normal / void / self-closing whose tags are in the vocabulary, nested to any depth; text nodes non-empty and free of
`<`, no two adjacent; the document does not end with a text): whatever the shape and the size of the tree. -/
theorem tokenize_serialize (doc : List Node) (hs : simpleL exVocab doc = true) (hl : lastIsVerb doc = false) :
    htmlTokenize (serializeList doc) = (tokensOfList textToks doc, []) :=
  tokenize_serialize_simple exVocab exVocab_ok doc hs hl

/-- **End to end on that class**: for every such document (valid UTF-8) and every filter in its domain, the chain
model with the C16 tokenizer — `FilterBodyAction::new`, one `filter` call, `end` — emits the serialisation of the
reference edit.  No hypothesis about the tokenizer is left. -/
theorem end_to_end_simple (ev : Bytes → Bytes → Bool) (lower : String → String) (doc : List Node) (f : BodyFilter)
    (hs : simpleL exVocab doc = true) (hl : lastIsVerb doc = false)
    (hu : utf8Split (serializeList doc) = some (serializeList doc, []))
    (hdom : InDomain htmlTokenize textToks doc f) :
    (Chain.new noCodec lower [f] [] : Chain Unit Unit).run htmlTokenize ev noCodec [serializeList doc] =
      serializeList (editD (decOf ev) doc f) :=
  filter_spec htmlTokenize ev textToks lower textToks_lossless doc f hdom
    (tokAgree_simple exVocab exVocab_ok doc hs hl hu)

/-- non-vacuity of the universal statement: `<div class="page">` nested `n` times around `<p>hi</p>`, for every `n` -/
def nest : Nat → Node
  | 0 => .el [112] [112] [] .normal [.verb [104, 105] []]
  | n + 1 => .el [100, 105, 118] [100, 105, 118] [32, 99, 108, 97, 115, 115, 61, 34, 112, 97, 103, 101, 34] .normal [nest n]

theorem nest_simple : ∀ n, simpleN exVocab (nest n) = true
  | 0 => by decide
  | n + 1 => by
    have ih := nest_simple n
    have h1 : exVocab.starts.contains (([100, 105, 118] : Bytes), ([100, 105, 118] : Bytes),
        ([32, 99, 108, 97, 115, 115, 61, 34, 112, 97, 103, 101, 34] : Bytes)) = true := by decide
    have h2 : exVocab.ends.contains (([100, 105, 118] : Bytes), ([100, 105, 118] : Bytes)) = true := by decide
    simp only [nest, simpleN, simpleL, h1, h2, ih, Bool.and_self]

example (n : Nat) : htmlTokenize (serializeList [nest n]) = (tokensOfList textToks [nest n], []) :=
  tokenize_serialize [nest n] (by simp [simpleL, nest_simple]) (by cases n <;> rfl)


/-! ### byte level, universal: the `Simple` grammar with arbitrary tag names and attribute texts -/

/-- **`tokenize (serialize d) = tokensOf d` for every `Simple` document** (`SimpleL simpleLaws`,
Proofs/FilterDomUniv.lean + FilterDomLaws.lean): any nesting and size;
* element names: a letter followed by any ASCII bytes other than white space, `/`, `>` (what `read_tag_name` delimits: `-`,
  `:`, `_`, `.`, digits … are name bytes), any case (the node name is the lower-cased display name);
* attribute text: any sequence of (white space, key, nothing | `=`unquoted | `="…"` | `='…'`) + optional trailing white
  space, keys free of white space `/ = >`, unquoted values free of white space and `>`, not starting with a quote nor
  ending with `/`; for `/>` the last attribute is quoted or white space precedes the solidus;
* ordinary elements (normal, void, self-closing) have a name outside the raw-text table; raw-text elements (script, style,
  title, textarea, …, not plaintext) hold content in which every `<` is followed by a byte other than `<` and `!`, and every
  `</` by the end of the content or a byte other than the first letter of the element name (`rawOK2`: tag-like text such as
  `<p>`, `a<b`, `</p>` is inside; `<<`, `<!`, a final `<`, `</s…` in a script are not);
* comments `<!--…-->` whose body may hold `>` and `!` but no `-->` / `--!>`, does not start with `>`, `->`, `!>` and does not
  end with `--!` (`commentOK2`); doctype declarations (`<!` + any case variant of DOCTYPE + text free of `>` + `>`);
  processing instructions / bogus comments `<?…>` free of `>`;
* text nodes non-empty, no two adjacent — also as the LAST node of the document —, in which every `<` is followed, inside
  the text, by a byte that opens nothing (not a letter, `/`, `!`, `?`): `a < b`, `1<2` are texts.
Proved from W5's closed forms of the tokenizer's readers (Proofs/HtmlClosed*.lean) by induction over the document with
`tokenize_append` and `tokenize_text_then_tag`; no vocabulary, no evaluation. -/
theorem tokenize_serialize_universal (doc : List Node) (hs : SimpleL simpleLaws doc) :
    htmlTokenize (serializeList doc) = (tokensOfList vtU doc, []) :=
  tokenize_serialize_of_laws simpleLaws doc hs

/-- **The stream tokenizer of `filter` on every `Simple` document** (what `HtmlFilterBodyAction::filter` iterates over
since fe7eac6, fresh stage = empty context): the same tokens, nothing left, and no token is held back as cut short by
the end of the document — so one `filter` call processes every token.  Same proof, from the stream forms of the
composition laws (`stream_append`, `stream_text_then_tag`, `stream_text_at_end`). -/
theorem stream_serialize_universal (doc : List Node) (hs : SimpleL simpleLaws doc) :
    toksOf (htmlTokenize.stream [] (serializeList doc)).1 = tokensOfList vtU doc ∧
    (htmlTokenize.stream [] (serializeList doc)).2.1 = [] ∧
    ∀ x ∈ (htmlTokenize.stream [] (serializeList doc)).1, isCut x = false :=
  streamTo_stream (stream_serialize_of_laws simpleLaws doc hs)

/-- **End to end, universal**: for every `Simple` document (valid UTF-8) and every filter in its domain, the chain model
with the C16 tokenizer — `FilterBodyAction::new`, one `filter` call, `end` — emits the serialisation of the reference
edit.  No hypothesis about the tokenizer, no vocabulary restriction.  (`NoHeld`: see `noHeld_of_top_texts` below.) -/
theorem end_to_end_universal (ev : Bytes → Bytes → Bool) (lower : String → String) (doc : List Node) (f : BodyFilter)
    (hs : SimpleL simpleLaws doc)
    (hu : utf8Split (serializeList doc) = some (serializeList doc, []))
    (hh : NoHeld doc)
    (hdom : InDomain htmlTokenize vtU doc f) :
    (Chain.new noCodec lower [f] [] : Chain Unit Unit).run htmlTokenize ev noCodec [serializeList doc] =
      serializeList (editD (decOf ev) doc f) :=
  filter_spec htmlTokenize ev vtU lower vtU_lossless doc f hdom (tokAgree_of_laws simpleLaws doc hs hu hh)

/-- `NoHeld doc` (the last token of the document is not a text holding `<`, which `filter` would keep back until `end`;
decidable) holds whenever no TOP-LEVEL text node holds `<` — in particular for every document whose last node is an
element, a comment or a declaration, and for every document whose texts are free of `<`. -/
theorem noHeld_of_top_texts (doc : List Node) (h : ∀ n ∈ doc, NoLtText n) : NoHeld doc :=
  noHeld_of_topTexts doc h

/-- … and for several filters, when every intermediate document is again `Simple` (`StepsSimple`). -/
theorem compose_universal (ev : Bytes → Bytes → Bool) (lower : String → String) (doc : List Node)
    (fs : List BodyFilter) (h : StepsSimple simpleLaws ev doc fs) :
    (Chain.new noCodec lower fs [] : Chain Unit Unit).run htmlTokenize ev noCodec [serializeList doc] =
      serializeList (editAllD (decOf ev) doc fs) :=
  filters_compose htmlTokenize ev vtU lower vtU_lossless doc fs (stepsOK_of_simple simpleLaws ev fs doc h)

/-- **The `Simple` grammar has a decidable, sound recogniser** (`simpleLB`, Proofs/FilterDomRec.lean: the attribute text is
parsed greedily — white space, key, `=` + quoted / unquoted value or nothing, repeated). -/
theorem simple_recogniser_sound (doc : List Node) (h : simpleLB doc = true) : SimpleL simpleLaws doc :=
  simpleLB_sound doc h

/-- **The universal composition theorem with decidable hypotheses**: where the recogniser `stepsSimpleB` answers `true`
(every document a filter sees is `Simple`, valid UTF-8 and not empty, every filter in its domain), the chain model with the
C16 tokenizer emits the serialisation of the reference edits.  No tokenizer hypothesis; the driver evaluates the
recogniser on every generated case (tag `thm-universal-applies`). -/
theorem compose_universal_checked (ev : Bytes → Bytes → Bool) (lower : String → String) (doc : List Node)
    (fs : List BodyFilter) (h : stepsSimpleB ev doc fs = true) :
    (Chain.new noCodec lower fs [] : Chain Unit Unit).run htmlTokenize ev noCodec [serializeList doc] =
      serializeList (editAllD (decOf ev) doc fs) :=
  compose_universal ev lower doc fs (stepsSimpleB_sound ev fs doc h)

/-! ### the Content-Type gate (`FilterBodyAction::new` reads the response headers) -/

/-- **With response headers**: when the gate is open — no `Content-Type` header, or one whose lower-cased value contains
`text/html` (the last header of that name wins) — and there is no `Content-Encoding` header, the chain is the one built
without headers, so every theorem above about `Chain.new … []` holds for these headers. -/
theorem content_type_gate_open {D E : Type} (codec : Codec D E) (lower : String → String) (fs : List BodyFilter)
    (headers : List (String × String))
    (hct : htmlAllowed (headerValue lower filterHeaderContentType headers) = true)
    (hce : headerValue lower filterHeaderContentEncoding headers = none) :
    (Chain.new codec lower fs headers : Chain D E) = Chain.new codec lower fs [] :=
  chain_new_gate_open codec lower fs headers hct hce

/-- **When the gate is closed** (a `Content-Type` whose lower-cased value does not contain `text/html`) html filters build
no stage: the body passes unchanged, for every chunking, whatever the `Content-Encoding`. -/
theorem content_type_gate_closed {D E : Type} (codec : Codec D E) (lower : String → String) (fs : List BodyFilter)
    (headers : List (String × String)) (hfs : ∀ f ∈ fs, ∃ a p s v, f = BodyFilter.html a p s v)
    (hct : htmlAllowed (headerValue lower filterHeaderContentType headers) = false) (chunks : List Bytes) :
    (Chain.new codec lower fs headers : Chain D E).run tk ev codec chunks = chunks.flatten :=
  chain_gate_closed tk ev codec lower fs headers hfs hct chunks

/-- the universal composition theorem with headers -/
theorem compose_universal_headers (ev : Bytes → Bytes → Bool) (lower : String → String) (doc : List Node)
    (fs : List BodyFilter) (headers : List (String × String))
    (hct : htmlAllowed (headerValue lower filterHeaderContentType headers) = true)
    (hce : headerValue lower filterHeaderContentEncoding headers = none)
    (h : StepsSimple simpleLaws ev doc fs) :
    (Chain.new noCodec lower fs headers : Chain Unit Unit).run htmlTokenize ev noCodec [serializeList doc] =
      serializeList (editAllD (decOf ev) doc fs) := by
  rw [content_type_gate_open noCodec lower fs headers hct hce]
  exact compose_universal ev lower doc fs h

/-- non-vacuity: a doctype declaration, an upper-case `HTML` element with a quoted `>` in an attribute value, an
unquoted and a bare attribute, a raw-text element (`title` holding `a &amp; b`), a comment, a `p` with text, a
self-closing `br` with white space before the solidus, text before the end tag, and a newline as the very last node — is
`Simple`. -/
def exSimple : List Node :=
  [Node.verb [60, 33, 68, 79, 67, 84, 89, 80, 69, 32, 104, 116, 109, 108, 62] [],
   Node.el [104, 116, 109, 108] [72, 84, 77, 76] [32, 108, 97, 110, 103, 61, 34, 97, 62, 98, 34, 32, 120, 61, 49, 32, 104, 105, 100, 100, 101, 110] .normal
     [Node.el [116, 105, 116, 108, 101] [116, 105, 116, 108, 101] [] .raw [Node.verb [97, 32, 38, 97, 109, 112, 59, 32, 98] []],
      Node.verb [60, 33, 45, 45, 32, 99, 32, 45, 45, 62] [],
      Node.el [112] [112] [] .normal [Node.verb [104, 105] []],
      Node.el [98, 114] [98, 114] [32] .selfClosing [],
      Node.verb [116, 97, 105, 108] []],
   Node.verb [10] []]

theorem exSimple_simple : SimpleL simpleLaws exSimple :=
  simple_recogniser_sound exSimple (by decide +kernel)

/-- non-vacuity of the wider side conditions (W5's `HtmlClosed4`): an `<?xml …?>` processing instruction, a custom element
`<x-mark data:k=v>` (`-` and `:` in names), a comment whose body holds `>` and `!` (`<!-- a > b ! <p> -->`), a `script`
whose text holds tag-like text (`if (a<b) x="</p>";`), a `style` with `a>b{}` — is `Simple`. -/
def exSimple2 : List Node :=
  [Node.verb [60, 63, 120, 109, 108, 32, 118, 101, 114, 115, 105, 111, 110, 61, 34, 49, 46, 48, 34, 63, 62] [],
   Node.el [120, 45, 109, 97, 114, 107] [88, 45, 77, 97, 114, 107] [32, 100, 97, 116, 97, 58, 107, 61, 118] .normal
     [Node.verb [60, 33, 45, 45, 32, 97, 32, 62, 32, 98, 32, 33, 32, 60, 112, 62, 32, 45, 45, 62] [],
      Node.el [115, 99, 114, 105, 112, 116] [115, 99, 114, 105, 112, 116] [] .raw [Node.verb [105, 102, 32, 40, 97, 60, 98, 41, 32, 120, 61, 34, 60, 47, 112, 62, 34, 59] []],
      Node.el [115, 116, 121, 108, 101] [83, 84, 89, 76, 69] [32, 109, 101, 100, 105, 97, 61, 34, 97, 108, 108, 34] .raw [Node.verb [97, 62, 98, 123, 125] []],
      Node.verb [101, 110, 100] []]]

theorem exSimple2_simple : SimpleL simpleLaws exSimple2 :=
  simple_recogniser_sound exSimple2 (by decide +kernel)

example : htmlTokenize (serializeList exSimple) = (tokensOfList vtU exSimple, []) :=
  tokenize_serialize_universal exSimple exSimple_simple

/-! ### the excluded points are real (kernel-checked on the chain model with the tokenizer of C16) -/

/-- `<a><b></b><b></b><b></b></a>` -/
def docRepeated : List Node :=
  [.el [97] [97] [] .normal [.el [98] [98] [] .normal [], .el [98] [98] [] .normal [], .el [98] [98] [] .normal []]]

/-- the full statement for append_child without the uniqueness of the target among its siblings -/
def AppendRepeatedFull : Prop :=
  ∀ (doc : List Node) (path : List Bytes) (value : Bytes),
    (Chain.new noCodec (fun s => s) [.html filterActionAppend path none value] [] : Chain Unit Unit).run
        htmlTokenize evalStandIn noCodec [serializeList doc] =
      serializeList (edit doc (.html filterActionAppend path none value))

/-- DESIGN §6-O2: append_child on repeated sibling targets processes only every other one:
path `[a, b]`, value `V` on `<a><b></b><b></b><b></b></a>` gives `<a><b>V</b><b></b><b>V</b></a>`. -/
theorem append_repeated_targets_fails : ¬ AppendRepeatedFull := by
  intro h
  have := h docRepeated [[97], [98]] [86]
  revert this
  decide +kernel

/-- the same at token level (any tokenizer, any oracle) -/
theorem append_repeated_targets_fails_tokens :
    runToks { plain := fun _ => ([], []), stream := fun _ _ => ([], [], []) } (fun _ _ => false)
        (vis .append none [86] [] [97] [[98]] false)
        (tokensOfList textToks docRepeated) ≠
      serializeList (editD (decOf fun _ _ => false) docRepeated (.html filterActionAppend [[97], [98]] none [86])) := by
  decide

/-- W6's observation O7: append_child whose LAST path element does not occur inserts the value before
the end tag of the last element that was entered: path `[a, c]` on `<a><b></b></a>` gives
`<a><b></b>V</a>` although the reference edit (and the property) leave the document alone. -/
theorem append_absent_last_fails :
    (Chain.new noCodec (fun s => s) [.html filterActionAppend [[97], [99]] none [86]] [] : Chain Unit Unit).run
        htmlTokenize evalStandIn noCodec [serializeList [.el [97] [97] [] .normal [.el [98] [98] [] .normal []]]] =
      [60, 97, 62, 60, 98, 62, 60, 47, 98, 62, 86, 60, 47, 97, 62] ∧
    serializeList (edit [.el [97] [97] [] .normal [.el [98] [98] [] .normal []]]
        (.html filterActionAppend [[97], [99]] none [86])) =
      [60, 97, 62, 60, 98, 62, 60, 47, 98, 62, 60, 47, 97, 62] := by
  decide +kernel

/-- a path element matched as a DESCENDANT instead of a child (`<a><x><b></b></x></a>`, path `[a, b]`):
the filter edits it, the reference (child semantics) does not — outside the domain. -/
theorem descendant_not_child_fails :
    (Chain.new noCodec (fun s => s) [.html filterActionAppend [[97], [98]] none [86]] [] : Chain Unit Unit).run
        htmlTokenize evalStandIn noCodec
        [serializeList [.el [97] [97] [] .normal [.el [120] [120] [] .normal [.el [98] [98] [] .normal []]]]] ≠
      serializeList (edit [.el [97] [97] [] .normal [.el [120] [120] [] .normal [.el [98] [98] [] .normal []]]]
        (.html filterActionAppend [[97], [98]] none [86])) := by
  decide +kernel

/-! ### everything outside the targets is unchanged -/

/-- **Tokens that carry none of the names the machine is waiting for are copied verbatim**, in any
state: to the output, or into the element that is being buffered. -/
theorem outside_untouched (P : List Bytes) (toks : List Tok) (hn : ∀ t ∈ toks, NeutralTok P t)
    (s : HtmlSt) (out : Bytes) (hs : StNames P s) :
    toks.foldl (stepTok tk ev) (s, out) = push s out (rawsOf toks) :=
  fold_neutral tk ev toks hn s out hs

/-- … in particular a filter whose path names do not occur in the document leaves it as it is. -/
theorem absent_path_noop (v : Visitor) (doc : List Node) (hvt : VtLossless vt)
    (hfree : FreeL vt (v.before ++ v.cur :: v.after) doc) (hb : v.before = []) :
    runToks tk ev v (tokensOfList vt doc) = serializeList doc := by
  unfold runToks
  have hs : StNames (v.before ++ v.cur :: v.after) (HtmlSt.new v) := by
    refine ⟨?_, ?_, ?_⟩
    · intro n hn
      simp [HtmlSt.new, Visitor.first, hb] at hn
      subst hn; simp
    · intro n hn; simp [HtmlSt.new] at hn
    · intro l hl; simp [HtmlSt.new] at hl
  rw [fold_neutral tk ev _ hfree _ _ hs]
  simp [push, HtmlSt.new, endHtml, rawsOf_tokensOfList vt hvt]

/-- The reference edit with the element-name stand-in as decision is W6's `edit` / `editAll`
(what the driver and the harness compute). -/
theorem reference_is_edit (doc : List Node) (fs : List BodyFilter) :
    editAllD selMatches doc fs = editAll doc fs :=
  editAllD_selMatches doc fs

/-! ### non-vacuity: an end-to-end instance with the tokenizer model of C16, by kernel evaluation -/

/-- a doctype declaration; `HTML` (upper case) with `lang="a>b"`; `head` with a void `meta charset=utf-8` and a raw-text
`title` holding `a &lt; b`; `body class='x'` with a comment holding `<main>`, a `main` with `p`, a self-closing `br`, a
mixed-case `P id="2"`, and a raw-text `style` holding `p > a {} /* <main> */`; a trailing newline
(a `script` element would do as well for the theorem, but the kernel does not reduce the script sub-automaton of
the tokenizer model) -/
def exDoc : List Node :=
  [Node.verb [60, 33, 68, 79, 67, 84, 89, 80, 69, 32, 104, 116, 109, 108, 62] [],
   Node.el [104, 116, 109, 108] [72, 84, 77, 76] [32, 108, 97, 110, 103, 61, 34, 97, 62, 98, 34] .normal [Node.el [104, 101, 97, 100] [104, 101, 97, 100] [] .normal [Node.el [109, 101, 116, 97] [109, 101, 116, 97] [32, 99, 104, 97, 114, 115, 101, 116, 61, 117, 116, 102, 45, 56] .void [], Node.el [116, 105, 116, 108, 101] [116, 105, 116, 108, 101] [] .raw [Node.verb [97, 32, 38, 108, 116, 59, 32, 98] []]], Node.el [98, 111, 100, 121] [98, 111, 100, 121] [32, 99, 108, 97, 115, 115, 61, 39, 120, 39] .normal [Node.verb [60, 33, 45, 45, 32, 60, 109, 97, 105, 110, 62, 32, 45, 45, 62] [], Node.el [109, 97, 105, 110] [109, 97, 105, 110] [] .normal [Node.el [112] [112] [] .normal [Node.verb [111, 110, 101] []], Node.el [98, 114] [98, 114] [] .selfClosing [], Node.el [112] [80] [32, 105, 100, 61, 34, 50, 34] .normal [Node.verb [116, 119, 111] []]], Node.el [115, 116, 121, 108, 101] [115, 116, 121, 108, 101] [] .raw [Node.verb [112, 32, 62, 32, 97, 32, 123, 125, 32, 47, 42, 32, 60, 109, 97, 105, 110, 62, 32, 42, 47] []]]],
   Node.verb [10] []]

/-- replace `html > body > main > p` (two siblings) by `<li>x</li>`; then append_child `<hr>` to `main` unless it
contains a `table`; then prepend_child `<base href=/>` to `head` -/
def exFilters : List BodyFilter :=
  [BodyFilter.html filterActionReplace [[104, 116, 109, 108], [98, 111, 100, 121], [109, 97, 105, 110], [112]] none [60, 108, 105, 62, 120, 60, 47, 108, 105, 62],
   BodyFilter.html filterActionAppend [[109, 97, 105, 110]] (some [116, 97, 98, 108, 101]) [60, 104, 114, 62],
   BodyFilter.html filterActionPrepend [[104, 101, 97, 100]] none [60, 98, 97, 115, 101, 32, 104, 114, 101, 102, 61, 47, 62]]

theorem exDoc_checked :
    stepsOKB htmlTokenize evalStandIn (vtOf htmlTokenize) exDoc exFilters = true := by decide +kernel

/-- the chain model (tokenizer of C16, element-name selector oracle) on the serialised document gives
`…<head><base href=/><meta …>…<main><li>x</li><br/><li>x</li><hr></main>…`, by the theorem. -/
example :
    (Chain.new noCodec (fun s => s) exFilters [] : Chain Unit Unit).run htmlTokenize evalStandIn noCodec
        [serializeList exDoc] =
      [60, 33, 68, 79, 67, 84, 89, 80, 69, 32, 104, 116, 109, 108, 62, 60, 72, 84, 77, 76, 32, 108, 97, 110, 103, 61, 34, 97, 62, 98, 34, 62, 60, 104, 101, 97, 100, 62, 60, 98, 97, 115, 101, 32, 104, 114, 101, 102, 61, 47, 62, 60, 109, 101, 116, 97, 32, 99, 104, 97, 114, 115, 101, 116, 61, 117, 116, 102, 45, 56, 62, 60, 116, 105, 116, 108, 101, 62, 97, 32, 38, 108, 116, 59, 32, 98, 60, 47, 116, 105, 116, 108, 101, 62, 60, 47, 104, 101, 97, 100, 62, 60, 98, 111, 100, 121, 32, 99, 108, 97, 115, 115, 61, 39, 120, 39, 62, 60, 33, 45, 45, 32, 60, 109, 97, 105, 110, 62, 32, 45, 45, 62, 60, 109, 97, 105, 110, 62, 60, 108, 105, 62, 120, 60, 47, 108, 105, 62, 60, 98, 114, 47, 62, 60, 108, 105, 62, 120, 60, 47, 108, 105, 62, 60, 104, 114, 62, 60, 47, 109, 97, 105, 110, 62, 60, 115, 116, 121, 108, 101, 62, 112, 32, 62, 32, 97, 32, 123, 125, 32, 47, 42, 32, 60, 109, 97, 105, 110, 62, 32, 42, 47, 60, 47, 115, 116, 121, 108, 101, 62, 60, 47, 98, 111, 100, 121, 62, 60, 47, 72, 84, 77, 76, 62, 10] := by
  rw [filters_compose_checked htmlTokenize evalStandIn (fun s => s) exDoc exFilters exDoc_checked]
  decide +kernel

end Rio.C15
