/-
C15 — HTML filters edit the targeted element as specified on well-formed documents.

Property theorems only; helper lemmas in Proofs/FilterDom.lean; the filter model (Model/Filter.lean),
the DOM and the reference edit (Model/FilterDom.lean) are W6's.

Parameters of the theorems: the tokenizer `tk` (only used by `append_child` / `prepend_child` when a
selector is configured), the selector oracle `ev` (scraper), and `vt`, the tokens of a verbatim
piece (text, comment, declaration, an inserted value).  The reference edit takes its selector
decision from the oracle applied to the serialised target (`decOf ev`); `editD_selMatches` shows it
is W6's `edit` when the decision is the element-name stand-in.
-/
import RioModel.Proofs.FilterDom
set_option linter.unusedSimpArgs false
set_option linter.unusedVariables false

namespace Rio.C15
open Rio.Filter Rio.Consts

variable (tk : Tokenize) (ev : Bytes → Bytes → Bool) (vt : Bytes → List Tok)

/-! ### token level: append_child / prepend_child -/

/-- **append_child inserts the value immediately before the target's end tag** (as the last child),
for every document in the domain `AnyDomAPList` (Proofs/FilterDom.lean: every element named like the
first path element has, as children along the rest of the path, exactly one element of the next name,
normal and not void; the target is a normal or raw-text element; nothing else carries a path name).
With a selector the value is inserted iff the oracle rejects the serialised target. -/
theorem append_tokens_spec (hvt : VtLossless vt) (p1 : Bytes) (ps : List Bytes) (sel : Option Bytes)
    (value : Bytes) (doc : List Node)
    (h : AnyDomAPList tk .append sel vt (p1 :: ps) p1 ps doc) :
    ∃ v, Visitor.new filterActionAppend (p1 :: ps) sel value = some v ∧
      runToks tk ev v (tokensOfList vt doc) =
        serializeList (editD (decOf ev) doc (.html filterActionAppend (p1 :: ps) sel value)) := by
  refine ⟨vis .append sel value [] p1 ps false, by simp [Visitor.new, vis], ?_⟩
  rw [runToks_AP tk ev .append sel value vt (Or.inl rfl) hvt (valueMarks value) p1 ps (by simp)
    (fun a ha => by simp [ha]) doc h]
  simp [editD, opOf, selN]

/-- **prepend_child inserts the value immediately after the target's start tag.** -/
theorem prepend_tokens_spec (hvt : VtLossless vt) (p1 : Bytes) (ps : List Bytes) (sel : Option Bytes)
    (value : Bytes) (doc : List Node)
    (h : AnyDomAPList tk .prepend sel vt (p1 :: ps) p1 ps doc) :
    ∃ v, Visitor.new filterActionPrepend (p1 :: ps) sel value = some v ∧
      runToks tk ev v (tokensOfList vt doc) =
        serializeList (editD (decOf ev) doc (.html filterActionPrepend (p1 :: ps) sel value)) := by
  have hne : filterActionPrepend ≠ filterActionAppend := by
    simp [filterActionPrepend, filterActionAppend]
  refine ⟨vis .prepend sel value [] p1 ps false, by simp [Visitor.new, vis, hne], ?_⟩
  rw [runToks_AP tk ev .prepend sel value vt (Or.inr rfl) hvt (valueMarks value) p1 ps (by simp)
    (fun a ha => by simp [ha]) doc h]
  simp [editD, opOf, selN, hne]

/-! ### everything outside the targets is unchanged -/

/-- **Tokens that carry none of the names the machine is waiting for are copied verbatim**, in any
state: to the output, or into the element that is being buffered. -/
theorem outside_untouched (P : List Bytes) (toks : List Tok) (hn : ∀ t ∈ toks, NeutralTok P t)
    (s : HtmlSt) (out : Bytes) (hs : StNames P s) :
    toks.foldl (stepTok tk ev) (s, out) = push s out (rawsOf toks) :=
  fold_neutral tk ev toks hn s out hs

/-- … in particular a filter whose path names do not occur in the document leaves it as it is. -/
theorem absent_path_noop (v : Visitor) (doc : List Node) (hvt : VtLossless vt)
    (hfree : FreeL vt (v.before ++ v.cur :: v.after) doc) (hb : v.before = []) :
    runToks tk ev v (tokensOfList vt doc) = serializeList doc := by
  unfold runToks
  have hs : StNames (v.before ++ v.cur :: v.after) (HtmlSt.new v) := by
    refine ⟨?_, ?_, ?_⟩
    · intro n hn
      simp [HtmlSt.new, Visitor.first, hb] at hn
      subst hn; simp
    · intro n hn; simp [HtmlSt.new] at hn
    · intro l hl; simp [HtmlSt.new] at hl
  rw [fold_neutral tk ev _ hfree _ _ hs]
  simp [push, HtmlSt.new, endHtml, rawsOf_tokensOfList vt hvt]

/-- The reference edit with the element-name stand-in as decision is W6's `edit` / `editAll`
(what the driver and the harness compute). -/
theorem reference_is_edit (doc : List Node) (fs : List BodyFilter) :
    editAllD selMatches doc fs = editAll doc fs :=
  editAllD_selMatches doc fs

end Rio.C15
