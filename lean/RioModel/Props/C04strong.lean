/-
C04, STRONG form (valid UTF-8 bodies, uncompressed chains): what each stage of the chain does to the WHOLE stream it
receives, stage by stage, with token-level certificates — answering review A (C04-2: `Edit` / `IsSpan` are too permissive).

  * a replace stage:  its output is the one-pass rendering `RScript` of the tokens of its input (the tokenizer run on the
    whole input of the stage) in which NON-OVERLAPPING ELEMENT SPANS of the target — a start tag named by the LAST element
    of the filter's path, the tokens up to the first closer of that name (or the single void / self-closing tag) — are
    replaced by the value, every other token kept in place; nothing is inserted; arbitrary bytes cannot be deleted;
  * an insert stage (append_child / prepend_child): `Edit [value] []` of its input — insertions of whole copies of the
    value only (tight w.r.t. loss / duplication / reordering of input bytes) — and the number of copies is bounded by the
    number of tag tokens of the input that are named on the filter's path (`insert_count`, Proofs/FilterCount.lean);
  * a text stage: exactly `input ++ value` / `value ++ input` / `value` (replace_text: the value exactly once);
  * the chain: relational composition in order (`PipeSpec`): stage k works on the OUTPUT of stage k-1, so a replace stage
    can swallow values inserted by EARLIER stages only as part of an element span of its own input.

`conservative_strong_final`: for the chain `FilterBodyAction::new` builds, every valid UTF-8 body, EVERY schedule of chunks
(by C03's full chunk invariance the schedule is irrelevant), on the tokenizer model, no hypothesis left.

For invalid UTF-8 bodies (the chain fails and passes through) only the weak relation of Props/C04.lean is proved
(`conservative_final`: `Edit`, bytes conserved through the error paths).
-/
import RioModel.Props.C03tok
import RioModel.Proofs.FilterStrong
import RioModel.Proofs.FilterCount
set_option linter.unusedSimpArgs false
set_option linter.unusedVariables false

namespace Rio.C04
open Rio.Filter

/-! ### small facts about `Edit` the review asked for -/

/-- with nothing to insert and nothing to substitute, `Edit` is equality -/
theorem Edit_nil_nil {a b : Bytes} (h : Edit [] [] a b) : a = b := by
  induction h with
  | refl => rfl
  | ins hv => simp at hv
  | rep hv => simp at hv

/-- insert-only edits keep the input as a subsequence, in order -/
theorem Edit_ins_sublist {I : List Bytes} {a b : Bytes} (h : Edit I [] a b) : a.Sublist b := by
  induction h with
  | refl => exact List.Sublist.refl _
  | @ins p q v _ _ ih =>
    refine ih.trans ?_
    have : (p ++ q).Sublist (p ++ (v ++ q)) :=
      List.Sublist.append (List.Sublist.refl p) (List.sublist_append_right v q)
    rw [List.append_assoc]
    exact this
  | rep hv => simp at hv

/-- the relation has teeth: reordering is not an insert-only edit -/
theorem Edit_no_reorder : ¬ Edit [[9]] [] [1, 2] [2, 1] := by
  intro h
  have := Edit_ins_sublist h
  have hl := this.length_le
  have := this.eq_of_length (by simp)
  simp at this

/-! ### the specification of one stage on a whole stream -/

/-- what a stage makes of the whole stream `a` it receives (`b` = everything it emits, `end()` included) -/
def StageSpec (tk : Tokenize) : Stage Unit Unit → Bytes → Bytes → Prop
  | .text s, a, b => b = stageTotal s a
  | .html s, a, b =>
    match s.visitor.kind with
    | .replace => ∃ tgt o', (pathOf s.visitor).getLast? = some tgt ∧
        RScript tgt s.visitor.content (view tk [] a).all o' ∧ b = o' ++ (view tk [] a).rem
    | _ => Edit [s.visitor.content] [] a b ∧
        b.length ≤ a.length + s.visitor.content.length * ((view tk [] a).all.filter (onPath (pathOf s.visitor))).length
  | _, a, b => a = b

/-- the chain: stage k works on the output of stage k-1; every intermediate stream is complete valid UTF-8 -/
def PipeSpec (tk : Tokenize) : List (Stage Unit Unit) → Bytes → Bytes → Prop
  | [], a, b => a = b
  | st :: rest, a, c => ∃ b, StageSpec tk st a b ∧ V b ∧ PipeSpec tk rest b c

/-- the same with the stages' own closed forms `stOne` (= `filter(whole stream)` then `end()`) -/
def PipeOne (tk : Tokenize) (ev : Bytes → Bytes → Bool) : List (Stage Unit Unit) → Bytes → Bytes → Prop
  | [], a, b => a = b
  | st :: rest, a, c => ∃ b, stOne tk ev st a = some b ∧ V b ∧ PipeOne tk ev rest b c

/-- a stage as `FilterBodyAction::new` builds it -/
def StageFresh : Stage Unit Unit → Prop
  | .html s => ∃ v : Visitor, s = HtmlSt.new v ∧ v.before = [] ∧ v.isBuffering = false
  | _ => True

section
variable {tk : Tokenize} (hl : LosslessAll tk) (hv : TokValidAll tk) (hr : RestartLaw tk) (ev : Bytes → Bytes → Bool)
include hl hv hr

omit hv hr in
/-- the length bound of an insert stage: at most one copy of the value per tag token of the input named on the path -/
theorem stage_one_len (v : Visitor) (hb : v.before = []) (a b : Bytes) (ha : V a)
    (h : stOne tk ev (.html (HtmlSt.new v) : Stage Unit Unit) a = some b) :
    b.length ≤ a.length + v.content.length * ((view tk [] a).all.filter (onPath (pathOf v))).length := by
  have hsp : utf8Split ((HtmlSt.new v).last ++ a) = some (a, []) := by
    simpa [HtmlSt.new] using utf8Split_of_V ha
  simp only [stOne] at h
  rw [total_formula tk ev (HtmlSt.new v) a a [] hsp] at h
  injection h with h
  have hP : PInv (pathOf v) (HtmlSt.new v) := by
    refine ⟨rfl, ?_, ?_⟩
    · intro x hx
      simp only [HtmlSt.new, Visitor.first, hb, List.reverse_nil] at hx
      injection hx with hx
      subst hx
      exact cur_mem_path v
    · intro x hx; simp [HtmlSt.new] at hx
  have hlen := fold_len hl.plain ev (view tk [] a).all (HtmlSt.new v) [] hP
  have hrem := congrArg List.length (view_all_rem tk hl.stream [] a)
  have hc : (HtmlSt.new v).ctx = [] := rfl
  rw [hc] at h
  rw [← h]
  simp only [List.length_append, List.length_nil] at hrem ⊢
  have h0 : (ledger (HtmlSt.new v) []).length = 0 := by simp [ledger, HtmlSt.new]
  have hcv : (HtmlSt.new v).visitor.content = v.content := rfl
  rw [h0, hcv] at hlen
  omega

omit hv hr in
/-- **One fresh stage on a whole valid stream meets its specification.** -/
theorem stage_one_spec (st : Stage Unit Unit) (hf : StageFresh st) (a b : Bytes) (ha : V a)
    (h : stOne tk ev st a = some b) : StageSpec tk st a b := by
  cases st with
  | text s =>
    simp only [stOne] at h
    injection h with h
    exact h.symm
  | html s =>
    obtain ⟨v, rfl, hb, hnb⟩ := hf
    simp only [stOne] at h
    have hsp : utf8Split ((HtmlSt.new v).last ++ a) = some (a, []) := by
      simpa [HtmlSt.new] using utf8Split_of_V ha
    cases hk : v.kind with
    | replace =>
      simp only [StageSpec, HtmlSt.new, hk]
      rw [total_formula tk ev (HtmlSt.new v) a a [] hsp] at h
      injection h with h
      have hne : pathOf v ≠ [] := by unfold pathOf; simp
      obtain ⟨tgt, htgt⟩ : ∃ tgt, (pathOf v).getLast? = some tgt :=
        ⟨(pathOf v).getLast hne, List.getLast?_eq_some_getLast hne⟩
      refine ⟨tgt, _, htgt, fold_replace_strong tk ev v hk hb hnb htgt (view tk [] a).all, ?_⟩
      simpa [HtmlSt.new] using h.symm
    | append =>
      simp only [StageSpec, HtmlSt.new, hk]
      unfold htmlTotal at h
      cases hfh : filterHtml tk ev (HtmlSt.new v) a with
      | none => simp [hfh] at h
      | some r =>
        obtain ⟨s', o⟩ := r
        simp only [hfh, Option.map_some] at h
        injection h with h
        obtain ⟨_, _, e⟩ := filterHtml_spec hl ev (HtmlSt.new v) s' a o
          (fun hk' => by simp [HtmlSt.new, hk] at hk') (fun hk' => by simp [HtmlSt.new, hk] at hk') hfh
        refine ⟨by simpa [visIns, visRep, HtmlSt.new, hk, endHtml_eq, flat, ← h] using e, ?_⟩
        exact stage_one_len hl ev v hb a b ha (by simp only [stOne]; unfold htmlTotal; rw [hfh]; simp [h])
    | prepend =>
      simp only [StageSpec, HtmlSt.new, hk]
      unfold htmlTotal at h
      cases hfh : filterHtml tk ev (HtmlSt.new v) a with
      | none => simp [hfh] at h
      | some r =>
        obtain ⟨s', o⟩ := r
        simp only [hfh, Option.map_some] at h
        injection h with h
        obtain ⟨_, _, e⟩ := filterHtml_spec hl ev (HtmlSt.new v) s' a o
          (fun hk' => by simp [HtmlSt.new, hk] at hk') (fun hk' => by simp [HtmlSt.new, hk] at hk') hfh
        refine ⟨by simpa [visIns, visRep, HtmlSt.new, hk, endHtml_eq, flat, ← h] using e, ?_⟩
        exact stage_one_len hl ev v hb a b ha (by simp only [stOne]; unfold htmlTotal; rw [hfh]; simp [h])
  | decode d => simp [stOne] at h
  | encode e => simp [stOne] at h

/-- **Closed form of a chain on a valid stream**: the run on the single chunk is the composition, in order, of what each
stage makes of the whole stream it receives. -/
theorem run_pipe : ∀ (items : List (Stage Unit Unit)) (a : Bytes), Down items →
    (∀ st ∈ items, StageInit tk st) → V a →
    ∃ out, runG tk ev noCodec items [a] none = some out ∧ V out ∧ PipeOne tk ev items a out
  | [], a, _, _, ha => ⟨a, by simp [runG_nil], ha, rfl⟩
  | st :: rest, a, hd, hi, ha => by
    obtain ⟨st1, os, st2, nd, e1, e2, vb⟩ := stTotal_ok hl hv ev noCodec st [a] none (hd st (by simp)) (by simpa using ha)
    have hplain : isPlain st = true := by
      have := hd st (by simp)
      cases st <;> simp_all [DStage, isPlain]
    have htot : stTotal tk ev noCodec st [a] none = some (os.flatten ++ nd) := by simp [stTotal, e1, e2]
    have hone := stage_sci tk ev noCodec hl.stream hr st hplain (hi st (by simp)) [a] none _ htot
    simp only [List.flatten_cons, List.flatten_nil, List.append_nil, Option.getD_none] at hone
    have hd' : Down rest := fun s h => hd s (by simp [h])
    have hi' : ∀ s ∈ rest, StageInit tk s := fun s h => hi s (by simp [h])
    obtain ⟨out, r1, r2, r3⟩ := run_pipe rest (os.flatten ++ nd) hd' hi' vb
    -- the run of the rest on the stage's actual pieces equals its run on the stage's whole output
    obtain ⟨out', q1, _⟩ := runG_ok hl hv ev noCodec rest (nonEmpty os) (optB nd) hd'
      (by rw [nonEmpty_flatten, optB_getD]; exact vb)
    have hplain' : AllPlain rest := by
      intro s hs
      have := hd' s hs
      cases s <;> simp_all [DStage, isPlain]
    have heq : out' = out := runG_stream tk ev noCodec hl.stream hr rest (nonEmpty os) (optB nd) [os.flatten ++ nd] none
      out' out hplain' hi' (by rw [nonEmpty_flatten, optB_getD]; simp) q1 r1
    refine ⟨out, ?_, r2, ⟨_, hone, vb, r3⟩⟩
    rw [runG_cons, e1]
    simp only [e2]
    rw [q1, heq]

omit hv hr in
/-- the closed forms meet the specifications -/
theorem pipeOne_spec : ∀ (items : List (Stage Unit Unit)) (a c : Bytes), (∀ st ∈ items, StageFresh st) → V a →
    PipeOne tk ev items a c → PipeSpec tk items a c
  | [], _, _, _, _, h => h
  | st :: rest, a, c, hf, ha, ⟨b, h1, h2, h3⟩ =>
    ⟨b, stage_one_spec hl ev st (hf st (by simp)) a b ha h1, h2,
      pipeOne_spec rest b c (fun s h => hf s (by simp [h])) h2 h3⟩

end

/-- the stages `FilterBodyAction::new` builds are fresh -/
theorem stage_new_fresh (f : BodyFilter) (ct : Option String) (st : Stage Unit Unit) (h : Stage.new f ct = some st) :
    StageFresh st := by
  cases f with
  | html action path sel value =>
    simp only [Stage.new] at h
    split at h
    · simp only [Option.map_eq_some_iff] at h
      obtain ⟨v, hv, rfl⟩ := h
      refine ⟨v, rfl, ?_, ?_⟩
      all_goals
        unfold Visitor.new at hv
        cases path with
        | nil => simp at hv
        | cons p ps =>
          simp only at hv
          repeat' split at hv
          all_goals first | (injection hv with hv; subst hv; rfl) | simp at hv
    · simp at h
  | text a c =>
    simp only [Stage.new] at h
    injection h with h; subst h
    trivial

/-- **C04, strong form** (abstract tokenizer laws).  For the chain `FilterBodyAction::new` builds from any html and text
filters with valid UTF-8 values (no `Content-Encoding`), every valid UTF-8 body and EVERY schedule of chunks: the
concatenated output is related to the body by the composition, in order, of the stage specifications `StageSpec` —
replace stages substitute non-overlapping element spans of their target in the token stream of THEIR input, insert stages
insert whole copies of their value, text stages append / prepend / substitute exactly once. -/
theorem conservative_strong {tk : Tokenize} (hl : LosslessAll tk) (hv : TokValidAll tk) (hr : RestartLaw tk)
    (hnil : (tk.stream [] []).1 = []) (ev : Bytes → Bytes → Bool) (lower : String → String)
    (fs : List BodyFilter) (headers : List (String × String))
    (henc : headerValue lower Rio.Consts.filterHeaderContentEncoding headers = none)
    (hval : ∀ f ∈ fs, V (filterValue f)) (cs : List Bytes) (hbody : Rio.C03.ValidBody cs.flatten) :
    PipeSpec tk (Chain.new noCodec lower fs headers).items cs.flatten
      ((Chain.new noCodec lower fs headers).run tk ev noCodec cs) := by
  rw [Rio.C03.chunk_invariant hl hv hr hnil ev lower fs headers henc hval cs hbody]
  have hvb : V cs.flatten := Rio.C03.V_of_validBody hbody
  rw [new_plain noCodec lower fs headers henc]
  generalize headerValue lower Rio.Consts.filterHeaderContentType headers = ct
  have hmem : ∀ st ∈ (fs.filterMap fun f => (Stage.new f ct : Option (Stage Unit Unit))),
      ∃ f ∈ fs, Stage.new f ct = some st := by
    intro st hst
    simpa only [List.mem_filterMap] using hst
  obtain ⟨out, r1, _, r3⟩ := run_pipe hl hv hr ev _ cs.flatten
    (fun st hst => by obtain ⟨f, hf, hn⟩ := hmem st hst; exact stage_new_down f ct st (hval f hf) hn)
    (fun st hst => by obtain ⟨f, hf, hn⟩ := hmem st hst; exact Rio.C03.stage_new_init tk hnil f ct st hn) hvb
  rw [run_of_runG tk ev noCodec [cs.flatten] _ out r1]
  exact pipeOne_spec hl ev _ _ _
    (fun st hst => by obtain ⟨f, hf, hn⟩ := hmem st hst; exact stage_new_fresh f ct st hn) hvb r3

/-- **C04, strong form, on the tokenizer model — no hypothesis left** besides "body and values are valid UTF-8". -/
theorem conservative_strong_final (ev : Bytes → Bytes → Bool) (lower : String → String)
    (fs : List BodyFilter) (headers : List (String × String))
    (henc : headerValue lower Rio.Consts.filterHeaderContentEncoding headers = none)
    (hval : ∀ f ∈ fs, V (filterValue f)) (cs : List Bytes) (hbody : Rio.C03.ValidBody cs.flatten) :
    PipeSpec htmlTokenize (Chain.new noCodec lower fs headers).items cs.flatten
      ((Chain.new noCodec lower fs headers).run htmlTokenize ev noCodec cs) :=
  conservative_strong htmlTokenize_losslessAll tokenizer_tokValid htmlTokenize_restartLaw htmlStream_nil_nil
    ev lower fs headers henc hval cs hbody

/-- **Closed form of the chain** (abstract laws): every schedule of a valid body gives the composition, in order, of what
each stage makes of the whole stream it receives (`stOne` = `filter(whole stream)` followed by `end()`). -/
theorem run_closed_form {tk : Tokenize} (hl : LosslessAll tk) (hv : TokValidAll tk) (hr : RestartLaw tk)
    (hnil : (tk.stream [] []).1 = []) (ev : Bytes → Bytes → Bool) (lower : String → String)
    (fs : List BodyFilter) (headers : List (String × String))
    (henc : headerValue lower Rio.Consts.filterHeaderContentEncoding headers = none)
    (hval : ∀ f ∈ fs, V (filterValue f)) (cs : List Bytes) (hbody : Rio.C03.ValidBody cs.flatten) :
    PipeOne tk ev (Chain.new noCodec lower fs headers).items cs.flatten
      ((Chain.new noCodec lower fs headers).run tk ev noCodec cs) := by
  rw [Rio.C03.chunk_invariant hl hv hr hnil ev lower fs headers henc hval cs hbody]
  have hvb : V cs.flatten := Rio.C03.V_of_validBody hbody
  rw [new_plain noCodec lower fs headers henc]
  generalize headerValue lower Rio.Consts.filterHeaderContentType headers = ct
  have hmem : ∀ st ∈ (fs.filterMap fun f => (Stage.new f ct : Option (Stage Unit Unit))),
      ∃ f ∈ fs, Stage.new f ct = some st := by
    intro st hst
    simpa only [List.mem_filterMap] using hst
  obtain ⟨out, r1, _, r3⟩ := run_pipe hl hv hr ev _ cs.flatten
    (fun st hst => by obtain ⟨f, hf, hn⟩ := hmem st hst; exact stage_new_down f ct st (hval f hf) hn)
    (fun st hst => by obtain ⟨f, hf, hn⟩ := hmem st hst; exact Rio.C03.stage_new_init tk hnil f ct st hn) hvb
  rw [run_of_runG tk ev noCodec [cs.flatten] _ out r1]
  exact r3

/-! ### readable corollaries: one html filter -/

/-- the number of copies an insert stage adds: at most one per tag token of its input named on the filter's path -/
theorem insert_count {c a b : Bytes} {N : Nat} (hc : c ≠ []) (h : Edit [c] [] a b)
    (hlen : b.length ≤ a.length + c.length * N) : ∃ k, k ≤ N ∧ InsN c k a b :=
  count_of_len hc h hlen

theorem chain_of_one_html (lower : String → String) (headers : List (String × String)) (action : String)
    (p : Bytes) (ps : List Bytes) (sel : Option Bytes) (value : Bytes) (k : VKind)
    (henc : headerValue lower Rio.Consts.filterHeaderContentEncoding headers = none)
    (hct : htmlAllowed (headerValue lower Rio.Consts.filterHeaderContentType headers) = true)
    (hk : Visitor.new action (p :: ps) sel value = some { kind := k, cur := p, after := ps, sel := sel, content := value }) :
    (Chain.new noCodec lower [.html action (p :: ps) sel value] headers).items =
      [(.html (HtmlSt.new { kind := k, cur := p, after := ps, sel := sel, content := value }) : Stage Unit Unit)] := by
  rw [new_plain noCodec lower _ headers henc]
  simp [Stage.new, hct, hk]

/-- **One `replace` filter, on the tokenizer model.**  For every valid UTF-8 body and every schedule of chunks, with
`T ++ rem` the tokenization of the body (`T` = its tokens, `rem` = an unfinished tail): the output is `o' ++ rem` where `o'`
renders `T` left to right, replacing some NON-OVERLAPPING ELEMENT SPANS of the target `tgt` = last element of the path (a
`<tgt …>` start tag, the tokens up to the first end / self-closing tag named `tgt`; or a single void / self-closing `tgt`
tag) by the value and keeping every other token in place.  Nothing else: no other byte of the body is removed, nothing
is inserted. -/
theorem replace_one_final (ev : Bytes → Bytes → Bool) (lower : String → String) (headers : List (String × String))
    (p : Bytes) (ps : List Bytes) (sel : Option Bytes) (value : Bytes)
    (henc : headerValue lower Rio.Consts.filterHeaderContentEncoding headers = none)
    (hct : htmlAllowed (headerValue lower Rio.Consts.filterHeaderContentType headers) = true)
    (hval : V value) (cs : List Bytes) (hbody : Rio.C03.ValidBody cs.flatten) :
    ∃ tgt o', (p :: ps).getLast? = some tgt ∧
      RScript tgt value (view htmlTokenize [] cs.flatten).all o' ∧
      (Chain.new noCodec lower [.html Rio.Consts.filterActionReplace (p :: ps) sel value] headers).run htmlTokenize ev noCodec cs =
        o' ++ (view htmlTokenize [] cs.flatten).rem := by
  have h := conservative_strong_final ev lower [.html Rio.Consts.filterActionReplace (p :: ps) sel value] headers henc
    (by intro f hf; simp at hf; subst hf; exact hval) cs hbody
  rw [chain_of_one_html lower headers _ p ps sel value .replace henc hct (by simp [Visitor.new, Rio.Consts.filterActionReplace, Rio.Consts.filterActionAppend, Rio.Consts.filterActionPrepend])] at h
  obtain ⟨b, h1, _, h3⟩ := h
  simp only [PipeSpec] at h3
  subst h3
  simp only [StageSpec, HtmlSt.new] at h1
  obtain ⟨tgt, o', e1, e2, e3⟩ := h1
  exact ⟨tgt, o', by simpa [pathOf] using e1, e2, e3⟩

/-- **One `append_child` / `prepend_child` filter, on the tokenizer model.**  The output is the body with `k` whole copies
of the value inserted (`InsN`: nothing lost, duplicated or reordered), and `k` is at most the number of tag tokens of the
body whose name is on the filter's path. -/
theorem insert_one_final (ev : Bytes → Bytes → Bool) (lower : String → String) (headers : List (String × String))
    (action : String) (hact : action = Rio.Consts.filterActionAppend ∨ action = Rio.Consts.filterActionPrepend)
    (p : Bytes) (ps : List Bytes) (sel : Option Bytes) (value : Bytes) (hne : value ≠ [])
    (henc : headerValue lower Rio.Consts.filterHeaderContentEncoding headers = none)
    (hct : htmlAllowed (headerValue lower Rio.Consts.filterHeaderContentType headers) = true)
    (hval : V value) (cs : List Bytes) (hbody : Rio.C03.ValidBody cs.flatten) :
    ∃ k, k ≤ ((view htmlTokenize [] cs.flatten).all.filter (onPath (p :: ps))).length ∧
      InsN value k cs.flatten
        ((Chain.new noCodec lower [.html action (p :: ps) sel value] headers).run htmlTokenize ev noCodec cs) := by
  have h := conservative_strong_final ev lower [.html action (p :: ps) sel value] headers henc
    (by intro f hf; simp at hf; subst hf; exact hval) cs hbody
  rcases hact with rfl | rfl
  · rw [chain_of_one_html lower headers _ p ps sel value .append henc hct (by simp [Visitor.new, Rio.Consts.filterActionReplace, Rio.Consts.filterActionAppend, Rio.Consts.filterActionPrepend])] at h
    obtain ⟨b, h1, _, h3⟩ := h
    simp only [PipeSpec] at h3
    subst h3
    simp only [StageSpec, HtmlSt.new] at h1
    exact insert_count hne h1.1 (by simpa [pathOf] using h1.2)
  · rw [chain_of_one_html lower headers _ p ps sel value .prepend henc hct (by simp [Visitor.new, Rio.Consts.filterActionReplace, Rio.Consts.filterActionAppend, Rio.Consts.filterActionPrepend])] at h
    obtain ⟨b, h1, _, h3⟩ := h
    simp only [PipeSpec] at h3
    subst h3
    simp only [StageSpec, HtmlSt.new] at h1
    exact insert_count hne h1.1 (by simpa [pathOf] using h1.2)

/-- non-vacuity: `<div><p>a</p>x<br><p>b</p></div>` with `replace` on path `div, p` and value `<i>R</i>`: both `p` elements
are element spans and are replaced, every other token is kept (kernel-evaluated on the tokenizer model) -/
theorem replace_example :
    (Chain.new noCodec id [.html "replace" [[100, 105, 118], [112]] none [60, 105, 62, 82, 60, 47, 105, 62]] []).run
        htmlTokenize evalStandIn noCodec
        [[60, 100, 105, 118, 62, 60, 112, 62, 97, 60, 47, 112, 62, 120, 60, 98, 114, 62] ++
          [60, 112, 62, 98, 60, 47, 112, 62, 60, 47, 100, 105, 118, 62]] =
      [60, 100, 105, 118, 62] ++ [60, 105, 62, 82, 60, 47, 105, 62] ++ [120, 60, 98, 114, 62] ++
        [60, 105, 62, 82, 60, 47, 105, 62] ++ [60, 47, 100, 105, 118, 62] := by
  decide +kernel

/-! ### clause "no element path of F starts in b ⇒ the output is b" -/

/-- a fresh html stage whose first path element names no start / self-closing tag of the stream is the identity -/
theorem stOne_untargeted {tk : Tokenize} (hl : LosslessS tk) (ev : Bytes → Bytes → Bool) (v : Visitor) (a : Bytes) (ha : V a)
    (hno : ∀ t ∈ (view tk [] a).all, (t.kind = .startTag ∨ t.kind = .selfClosing) → t.name ≠ v.first) :
    stOne tk ev (.html (HtmlSt.new v) : Stage Unit Unit) a = some a := by
  have hsp : utf8Split ((HtmlSt.new v).last ++ a) = some (a, []) := by
    simpa [HtmlSt.new] using utf8Split_of_V ha
  simp only [stOne]
  rw [total_formula tk ev (HtmlSt.new v) a a [] hsp]
  have hc : (HtmlSt.new v).ctx = [] := rfl
  rw [hc, fold_untargeted tk ev (view tk [] a).all (HtmlSt.new v) [] rfl rfl
    (fun t ht hk => by
      intro e
      simp only [HtmlSt.new] at e
      injection e with e
      exact hno t ht hk e.symm)]
  have := view_all_rem tk hl [] a
  simp only [ledger, HtmlSt.new, flat_nil, List.nil_append, List.append_nil]
  rw [this]

/-- **Identity when nothing is targeted.**  A list of html filters none of whose paths starts at an element of the body
(no start / self-closing tag of the body's token stream carries the first name of a path): for every valid UTF-8 body and
every schedule the output is the body, byte for byte. -/
theorem untargeted_identity {tk : Tokenize} (hl : LosslessAll tk) (hv : TokValidAll tk) (hr : RestartLaw tk)
    (hnil : (tk.stream [] []).1 = []) (ev : Bytes → Bytes → Bool) (lower : String → String)
    (fs : List BodyFilter) (headers : List (String × String))
    (henc : headerValue lower Rio.Consts.filterHeaderContentEncoding headers = none)
    (hval : ∀ f ∈ fs, V (filterValue f)) (cs : List Bytes) (hbody : Rio.C03.ValidBody cs.flatten)
    (hno : ∀ action p ps sel value, BodyFilter.html action (p :: ps) sel value ∈ fs →
      ∀ t ∈ (view tk [] cs.flatten).all, (t.kind = .startTag ∨ t.kind = .selfClosing) → t.name ≠ p)
    (hhtml : ∀ f ∈ fs, ∃ a p s v, f = .html a p s v) :
    (Chain.new noCodec lower fs headers).run tk ev noCodec cs = cs.flatten := by
  have hpipe := run_closed_form hl hv hr hnil ev lower fs headers henc hval cs hbody
  have hvb : V cs.flatten := Rio.C03.V_of_validBody hbody
  rw [new_plain noCodec lower fs headers henc] at hpipe ⊢
  generalize headerValue lower Rio.Consts.filterHeaderContentType headers = ct at hpipe ⊢
  generalize (Chain.run tk ev noCodec
    ({ items := fs.filterMap fun f => (Stage.new f ct : Option (Stage Unit Unit)) } : Chain Unit Unit) cs) = out at hpipe ⊢
  have hid : ∀ st ∈ (fs.filterMap fun f => (Stage.new f ct : Option (Stage Unit Unit))),
      stOne tk ev st cs.flatten = some cs.flatten := by
    intro st hst
    simp only [List.mem_filterMap] at hst
    obtain ⟨f, hf, hn⟩ := hst
    obtain ⟨action, path, sel, value, rfl⟩ := hhtml f hf
    simp only [Stage.new] at hn
    split at hn
    · simp only [Option.map_eq_some_iff] at hn
      obtain ⟨v, hvn, rfl⟩ := hn
      cases path with
      | nil => simp [Visitor.new] at hvn
      | cons p ps =>
        have hfirst : v.first = p := by
          unfold Visitor.new at hvn
          simp only at hvn
          repeat' split at hvn
          all_goals first | (injection hvn with hvn; subst hvn; rfl) | simp at hvn
        exact stOne_untargeted hl.stream ev v cs.flatten hvb (fun t ht hk => by
          rw [hfirst]; exact hno action p ps sel value hf t ht hk)
    · simp at hn
  have key : ∀ (items : List (Stage Unit Unit)) (c : Bytes), (∀ st ∈ items, stOne tk ev st cs.flatten = some cs.flatten) →
      PipeOne tk ev items cs.flatten c → c = cs.flatten := by
    intro items
    induction items with
    | nil => intro c _ h; exact h.symm
    | cons st rest ih =>
      intro c hall ⟨b, h1, _, h3⟩
      rw [hall st (by simp)] at h1
      injection h1 with h1
      subst h1
      exact ih c (fun s hs => hall s (by simp [hs])) h3
  exact key _ out hid hpipe

/-! ### clause "an html filter that cannot be built is skipped" -/

/-- `HtmlBodyVisitor::new` returns `None` for an empty `element_tree` or an unknown action: no stage is built, the filter
contributes nothing (whatever its value) -/
theorem unbuildable_html_skipped (action : String) (path : List Bytes) (sel : Option Bytes) (value : Bytes)
    (ct : Option String)
    (h : path = [] ∨ (action ≠ Rio.Consts.filterActionAppend ∧ action ≠ Rio.Consts.filterActionPrepend ∧
      action ≠ Rio.Consts.filterActionReplace) ∨ htmlAllowed ct = false) :
    (Stage.new (.html action path sel value) ct : Option (Stage Unit Unit)) = none := by
  simp only [Stage.new]
  split
  · rename_i hct
    rcases h with rfl | ⟨h1, h2, h3⟩ | h
    · simp [Visitor.new]
    · cases path with
      | nil => simp [Visitor.new]
      | cons p ps => simp [Visitor.new, h1, h2, h3]
    · rw [h] at hct; cases hct
  · rfl

/-- hence the chain is the chain of the buildable filters only -/
theorem chain_of_buildable (lower : String → String) (fs : List BodyFilter) (headers : List (String × String))
    (henc : headerValue lower Rio.Consts.filterHeaderContentEncoding headers = none) :
    (Chain.new noCodec lower fs headers).items =
      (fs.filter fun f => ((Stage.new f (headerValue lower Rio.Consts.filterHeaderContentType headers) :
        Option (Stage Unit Unit))).isSome).filterMap
        fun f => Stage.new f (headerValue lower Rio.Consts.filterHeaderContentType headers) := by
  rw [new_plain noCodec lower fs headers henc]
  simp only
  induction fs with
  | nil => rfl
  | cons f fs ih =>
    simp only [List.filterMap_cons, List.filter_cons]
    cases hn : (Stage.new f (headerValue lower Rio.Consts.filterHeaderContentType headers) : Option (Stage Unit Unit)) with
    | none => simpa using ih
    | some st => simp [hn, ih]

/-! ### `replace_text` -/

/-- **`replace_text` emits its value exactly once**, whatever the body (arbitrary bytes) and the chunking. -/
theorem replace_text_exact (tk : Tokenize) (ev : Bytes → Bytes → Bool) (lower : String → String)
    (headers : List (String × String)) (c : Bytes)
    (henc : headerValue lower Rio.Consts.filterHeaderContentEncoding headers = none) (cs : List Bytes) :
    (Chain.new noCodec lower [.text .replace c] headers).run tk ev noCodec cs = c := by
  obtain ⟨h1, h2⟩ := Rio.C03.new_text_only lower [.text .replace c] headers henc
    (by intro f hf; simp at hf; subst hf; exact ⟨_, _, rfl⟩)
  rw [Rio.C03.text_closed_form tk ev noCodec _ h1 h2 cs, new_plain noCodec lower _ headers henc]
  simp [Stage.new, textTotal, stageTotal]

/-! ### compressed chains: the error path is NOT safe (known finding O6 `error-inside-compressed-chain`)

All conservativity theorems above are for uncompressed chains.  Inside a compressed chain an internal error after part
of the body has been re-encoded cannot become a pass-through: the output mixes re-encoded bytes with raw compressed
bytes.  Full statement as a definition, kernel-checked counterexample on the model (scripted decoder: first chunk decodes
to `<p>x</p>`, second chunk to the invalid byte 0xFF; identity encoder).  What IS proved for compressed chains is C14
(`Rio.C14.compressed_equiv_final`, no failure) and `passthrough_after_error` (the chunks after the failing one). -/

/-- **Full statement** (compressed chains): a chain that fails internally hands the client the stream it was given -/
def CompressedFailSafe {D E : Type} (tk : Tokenize) (ev : Bytes → Bytes → Bool) (codec : Codec D E) (ch : Chain D E) : Prop :=
  ∀ cs : List Bytes, (ch.feed tk ev codec cs).1.inError = true → ch.run tk ev codec cs = cs.flatten

def o6Dec : ScriptDec := { outs := [[60, 112, 62, 120, 60, 47, 112, 62], [255]], fin := some [] }

/-- decode, `append_child` of `$` into `p`, encode -/
def o6Chain : Chain ScriptDec Unit :=
  { items := [.decode o6Dec, .html (HtmlSt.new { kind := .append, cur := [112], content := [36] }), .encode ()] }

/-- the compressed chunks `[1,2,3]`, `[4,5,6]`: the output is the re-encoded `<p>x$</p>` followed by the RAW second
compressed chunk — neither the pass-through `[1,2,3,4,5,6]` nor a coherent encoded stream -/
theorem o6_outputs :
    o6Chain.run htmlTokenize evalStandIn (scriptCodec o6Dec) [[1, 2, 3], [4, 5, 6]] =
      [60, 112, 62, 120, 36, 60, 47, 112, 62] ++ [4, 5, 6] ∧
    (o6Chain.feed htmlTokenize evalStandIn (scriptCodec o6Dec) [[1, 2, 3], [4, 5, 6]]).1.inError = true := by
  decide +kernel

/-- **The full statement fails for compressed chains** (known finding O6, signature `error-inside-compressed-chain`). -/
theorem compressed_fail_safe_fails :
    ¬ CompressedFailSafe htmlTokenize evalStandIn (scriptCodec o6Dec) o6Chain := by
  intro h
  have h1 := h [[1, 2, 3], [4, 5, 6]] o6_outputs.2
  rw [o6_outputs.1] at h1
  exact absurd h1 (by decide)

end Rio.C04
