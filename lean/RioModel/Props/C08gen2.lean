/-
C08 (insertion into the radix tree) for `Node::insert`, `Leaf::new`, `Leaf::insert` REGENERATED FROM THE SOURCE.

`Rio.Consts.genNodeInsert` / `genNodeInsertLoop` (src/regex_radix_tree/node.rs) and `genLeafNew` / `genLeafInsert`
(src/regex_radix_tree/leaf.rs) are translated on every run by the plugin tr_w23_tree_insert (tools/consts_dev/w23_tree_insert.py while
in development): the node's own prefix size `chars().count() as u32` (chars, with the truncating cast kept as `% 2^32`), the split
with early `return`, the child-selection loop with `self.children[i]` (explicit panic outcome), `remove` + `insert` + `push`, the new
cells built by the translated `LazyRegex::new_node` / `new_leaf` (section tr_w20_lazyregex: `compiled = None`), the scanner
`genCommonPrefixCharSize` (section w4_translate_scan).  Abstract: the item / map types and constructors, `Item::regex`, the recursive
call, `get_prefix_with_char_size` and `common_prefix` (instantiated here by the model's).

The Rust side is `GItem ρ ι V` (Proofs/TreeInsertGen.lean): items whose cells are translated `GenLazyRegex ρ` records; `repI val`
is the field-by-field representation of a model item.  `Item::insert` (item.rs) is translated too (`genItemInsert` over the generated
one-layer view `GenItemView` of the enum).  Theorems: translated = model for each function, for every state and input
(the only hypothesis: the node's own prefix has < 2^32 chars), then for the whole recursion (`gInsert`, translated step iterated
with fuel), and `insert_replaces` / `inv_insert` restated for it: the translated insertion does not panic and stores exactly
the new entry plus every old entry not under (pattern, id).
-/
import RioModel.Props.C08
import RioModel.Proofs.TreeInsertGen
set_option linter.unusedSimpArgs false
set_option linter.unusedVariables false
set_option linter.unusedSectionVars false

namespace Rio.C08
open Rio.Scan Rio.Consts Rio.Regex Rio.Tree Rio.LazyRegexGen Rio.TreeInsertGen

variable {ρ ι V : Type} [DecidableEq ι]

/-- `Leaf::new` translated (map = association list) is the model's `newLeafItem`. -/
theorem gen_leaf_new_eq_model (val : Compiled → ρ) (p : List Char) (id : ι) (v : V) (ic : Bool) :
    (GItem.leaf (genLeafNew ([] : List (ι × V)) upsert p id v ic : List (ι × V) × GenLazyRegex ρ).1
        (genLeafNew ([] : List (ι × V)) upsert p id v ic : List (ι × V) × GenLazyRegex ρ).2 : GItem ρ ι V)
      = repI val (newLeafItem p id v ic) := leafNew_eq val p id v ic

/-- **`Leaf::insert` translated = the model's `leafInsert`** for every leaf (any cell, compiled or not) and every input: same pattern
⇒ the value is replaced under the id; otherwise a node over `common_prefix` with the old leaf and a new one. -/
theorem gen_leaf_insert_eq_model (val : Compiled → ρ) (rx : LazyRegex) (vs : List (ι × V)) (p : List Char) (id : ι) (v : V) :
    genLeafInsert GItem.node GItem.leaf ([] : List (ι × V)) upsert commonPrefix vs (toGen val rx) p id v
      = repI val (leafInsert rx vs p id v) := leafInsert_eq val rx vs p id v

/-- The translated child-selection loop is the model's `selLoop` (and never hits the index panic). -/
theorem gen_node_insert_loop_eq_model (val : Compiled → ρ) (p : List Char) (cs : List (Item ι V)) (mx : Nat) :
    (genNodeInsertLoop GItem.regex p (repL val cs) (List.range (repL val cs).length) (mx, none)).map Prod.snd
      = some (selLoop p (cs.map Item.regex) 0 mx none) := loop_eq0 val p cs mx

/-- **`Node::insert` translated = the model's `Item.insert` on a node**, for every node, child list and input, whenever the recursive
call is answered as the model answers it on the children.  Hypothesis (char count): the node's own prefix has fewer than 2^32 chars. -/
theorem gen_node_insert_eq_model (val : Compiled → ρ) (F : GItem ρ ι V → List Char → ι → V → Option (GItem ρ ι V))
    (rx : LazyRegex) (cs : List (Item ι V)) (p : List Char) (id : ι) (v : V)
    (hlen : rx.original.length < 4294967296)
    (hF : ∀ c ∈ cs, F (repI val c) p id v = some (repI val (c.insert p id v))) :
    genNodeInsert GItem.node GItem.leaf GItem.regex ([] : List (ι × V)) upsert getPrefixWithCharSize F (toGen val rx) (repL val cs) p id v
      = some (repI val ((Item.node rx cs).insert p id v)) := nodeInsert_eq val F rx cs p id v hlen hF

/-- The step equivalence WITHOUT the char-count hypothesis. -/
def GenNodeInsertFull : Prop :=
  ∀ (F : GItem Compiled Nat Nat → List Char → Nat → Nat → Option (GItem Compiled Nat Nat))
    (rx : LazyRegex) (cs : List (Item Nat Nat)) (p : List Char) (k v : Nat),
    (∀ c ∈ cs, F (repI (fun x => x) c) p k v = some (repI (fun x => x) (c.insert p k v))) →
    genNodeInsert GItem.node GItem.leaf GItem.regex ([] : List (Nat × Nat)) upsert getPrefixWithCharSize F
        (toGen (fun x => x) rx) (repL (fun x => x) cs) p k v
      = some (repI (fun x => x) ((Item.node rx cs).insert p k v))

/-- **It is false of the code as it is**: `self.regex.original.chars().count() as u32` truncates.  Witness: a node whose prefix is
2^32 times `a`, no children, inserting `b`: the source computes `max_prefix_size = 0`, does not split and pushes a leaf UNDER the
node; the model (which uses the untruncated char count) splits above it.  (Only reachable with a 4 GiB pattern; `gen_node_insert_eq_model`
is the `_partial` form with the exact hypothesis.) -/
theorem gen_node_insert_full_fails : ¬ GenNodeInsertFull := by
  intro h
  exact nodeInsert_trunc 4294967295 (by decide)
    (h (fun _ _ _ _ => none) (LazyRegex.newNode (List.replicate (4294967295 + 1) 'a') false) [] ['b'] 0 0 (by simp))

/-- the three-way `match` of the translated `Item::insert`, spelled out: `Empty(ic)` builds `Leaf::new(regex, id, item, ic)`, a node /
leaf dispatches to `Node::insert` / `Leaf::insert` with the arguments in order. -/
theorem gen_item_insert_dispatch (n : Nat) (p : List Char) (id : ι) (v : V) :
    (∀ ic, gInsert (n + 1) (GItem.empty ic : GItem ρ ι V) p id v
        = some (.leaf (genLeafNew ([] : List (ι × V)) upsert p id v ic : List (ι × V) × GenLazyRegex ρ).1
                      (genLeafNew ([] : List (ι × V)) upsert p id v ic : List (ι × V) × GenLazyRegex ρ).2)) ∧
    (∀ vs (g : GenLazyRegex ρ), gInsert (n + 1) (GItem.leaf vs g) p id v = some (gLeafInsert vs g p id v)) ∧
    (∀ (g : GenLazyRegex ρ) cs, gInsert (n + 1) (GItem.node g cs) p id v = gNodeInsert (gInsert n) g cs p id v) :=
  ⟨fun _ => rfl, fun _ _ => rfl, fun _ _ => rfl⟩

/-- **The whole recursion.**  `gInsert n` = the translated `Item::insert` (`genItemInsert`) dispatching to the translated `Leaf::new`,
`Leaf::insert`, `Node::insert`, whose recursive call is `gInsert` one level down; recursion depth ≤ `n`.  With enough
fuel it returns (no panic, no fuel exhaustion) the representation of the model's result. -/
theorem gen_insert_eq_model (val : Compiled → ρ) (n : Nat) (t : Item ι V) (p : List Char) (id : ι) (v : V)
    (hs : Small t) (hn : sizeOf t < n) :
    gInsert n (repI val t) p id v = some (repI val (t.insert p id v)) := gInsert_eq val n t p id v hs hn

/-- **`insert_replaces` and `inv_insert` for the translated insertion**: on a tree satisfying the invariant it returns normally, the
result represents a tree that satisfies the invariant and stores the new entry plus every old entry NOT under (p, id). -/
theorem gen_insert_replaces (val : Compiled → ρ) {ic : Bool} (n : Nat) (t : Item ι V) (p : List Char) (id : ι) (v : V)
    (hinv : Inv ic t) (hs : Small t) (hn : sizeOf t < n) :
    ∃ t' : Item ι V, gInsert n (repI val t) p id v = some (repI val t') ∧ Inv ic t' ∧
      t'.contents.Perm (⟨p, id, v⟩ :: t.contents.filter fun e => !decide (e.pat = p ∧ e.id = id)) :=
  ⟨t.insert p id v, gen_insert_eq_model val n t p id v hs hn, inv_insert t p id v hinv, insert_replaces t p id v hinv⟩

/-- `Bounded` (every node prefix and leaf pattern shorter than 2^32 chars) is preserved by inserting such a pattern, and implies
`Small`: the char-count hypothesis is about the INPUT patterns only. -/
theorem bounded_insert_preserved (t : Item ι V) (p : List Char) (id : ι) (v : V) (h : Bounded t) (hp : p.length < 4294967296) :
    Bounded (t.insert p id v) ∧ Small (t.insert p id v) :=
  ⟨bounded_insert t p id v h hp, bounded_small _ (bounded_insert t p id v h hp)⟩

/-- **Every tree reachable from `Empty` by inserting patterns shorter than 2^32 chars**: the translated insertion (of ANY pattern)
returns normally the representation of the model's result. -/
theorem gen_insert_eq_model_reachable (val : Compiled → ρ) (ic : Bool) (ops : List (List Char × ι × V))
    (hops : ∀ o ∈ ops, o.1.length < 4294967296) (n : Nat) (p : List Char) (id : ι) (v : V)
    (hn : sizeOf (insertAll (Item.empty ic) ops) < n) :
    gInsert n (repI val (insertAll (Item.empty ic) ops)) p id v
      = some (repI val ((insertAll (Item.empty ic) ops).insert p id v)) :=
  gen_insert_eq_model val n _ p id v (bounded_small _ (bounded_insertAll _ ops (Bounded.empty ic) hops)) hn

/-- The new prefix node of a split is built by `new_node`: nothing compiled is carried along (seed r8d-2). -/
theorem gen_node_insert_split_fresh (F : GItem ρ ι V → List Char → ι → V → Option (GItem ρ ι V))
    (g : GenLazyRegex ρ) (cs : List (GItem ρ ι V)) (p : List Char) (id : ι) (v : V)
    (h : genCommonPrefixCharSize p g.original < g.original.length % 4294967296) :
    ∃ g' l, genNodeInsert GItem.node GItem.leaf GItem.regex ([] : List (ι × V)) upsert getPrefixWithCharSize F g cs p id v
        = some (.node g' [l, .node g cs]) ∧ g'.compiled = none ∧ g'.ignoreCase = g.ignoreCase := by
  refine ⟨genLazyRegexNewNode (getPrefixWithCharSize g.original (genCommonPrefixCharSize p g.original)) g.ignoreCase,
    .leaf (genLeafNew ([] : List (ι × V)) upsert p id v g.ignoreCase : List (ι × V) × GenLazyRegex ρ).1
      (genLeafNew ([] : List (ι × V)) upsert p id v g.ignoreCase : List (ι × V) × GenLazyRegex ρ).2, ?_, rfl, rfl⟩
  unfold genNodeInsert
  simp only [h, decide_true, if_true]

/-! ### Non-vacuity -/

/-- a tree satisfying `Small`: a node over two leaves -/
example : Small (Item.node (LazyRegex.newNode "/a".toList false)
    [newLeafItem "/ab".toList (1 : Nat) (10 : Nat) false, newLeafItem "/ac".toList 2 20 false]) :=
  Small.node _ _ (by simp [LazyRegex.newNode]) (by
    intro c hc
    simp only [List.mem_cons, List.not_mem_nil, or_false] at hc
    rcases hc with rfl | rfl <;> exact Small.leaf _ _)

/-- a reachable tree: three insertions from `Empty` (hypothesis of `gen_insert_eq_model_reachable`) -/
example : ∀ o ∈ [("/ab".toList, (1 : Nat), (10 : Nat)), ("/ac".toList, 2, 20), ("/ab".toList, 1, 11)], o.1.length < 4294967296 := by
  intro o ho
  simp only [List.mem_cons, List.not_mem_nil, or_false] at ho
  rcases ho with rfl | rfl | rfl <;> simp

/-- the fuel hypothesis is satisfiable for every tree -/
example (t : Item ι V) : ∃ n, sizeOf t < n := ⟨_, Nat.lt_succ_self _⟩

/-- the translated `Leaf::insert` on concrete inputs: same pattern replaces under the id -/
example : (gLeafInsert [((1 : Nat), (10 : Nat))] (genLazyRegexNewLeaf "/ab".toList false : GenLazyRegex Unit) "/ab".toList 1 11
    : GItem Unit Nat Nat) = .leaf [(1, 11)] (genLazyRegexNewLeaf "/ab".toList false) := by
  simp [gLeafInsert, genLeafInsert, genLazyRegexNewLeaf, upsert]

/-- the translated `Node::insert` on the empty child list with a pattern below the node: pushes a fresh leaf -/
example : gNodeInsert (fun _ _ _ _ => none) (genLazyRegexNewNode [] false : GenLazyRegex Unit) ([] : List (GItem Unit Nat Nat))
    "/ab".toList 1 11 = some (.node (genLazyRegexNewNode [] false) [.leaf [(1, 11)] (genLazyRegexNewLeaf "/ab".toList false)]) := by
  simp [gNodeInsert, genNodeInsert, genNodeInsertLoop, genLazyRegexNewNode, genLeafNew, upsert]

end Rio.C08
