/-
C06 — an action survives JSON serialisation unchanged (agent → proxy hand-off), and so does a
request.

Property theorems only (helper lemmas live in Proofs/Json.lean and Proofs/JsonAction.lean).
`serX` / `deX` are the derived `Serialize` / `Deserialize` impls of the Rust types on the level of
JSON values (ordered key/value lists with duplicates, see Model/Json.lean); `print` is
`serde_json::to_string`.  The only hypothesis on an action is `Action.WF`: its two
`LinkedHashSet`s are duplicate-free – an invariant of the Rust type (`deAction_wf`,
`linked_hash_set_nodup`), not an assumption about the library's logic.  For a request the
hypothesis `Request.WF` says that `created_at` denotes an instant chrono can represent (calendar and
clock fields in range) – again an invariant of the Rust type (`deRequest_wf`).  `IpAddr` and
`DateTime<Utc>` are concrete values with hand-written models of their `Display` / `Serialize` output and
of readers that accept exactly the canonical texts (Model/JsonAtoms.lean; `ip_print_parse`,
`datetime_print_parse` are laws of these models — that std / chrono print and read like them is held by
the differential check only); the real parsers' behaviour on non-canonical spellings is an oracle
`P : Codec` of which nothing is assumed.

Levels.  Proved here: the serde-model VALUE is restored exactly, through the JSON value and through the
JSON text.  The `*_behaviour` theorems below are the congruence corollaries for an arbitrary function of
the serde-model type.  Behaviour under the MODELLED observers (C05) and the MODELLED router (C01) is in
Props/C06obs.lean; behaviour of the real code on the real restored action is checked by the
implementation-side oracle of harness c06, not proved.
-/
import RioModel.Proofs.JsonAction
import RioModel.Proofs.JsonSchema
import RioModel.Proofs.JsonText
import RioModel.Proofs.JsonAtoms
set_option linter.unusedSimpArgs false

namespace Rio.C06
open Rio.Json

/-! ### The round trip -/

/-- **C06 headline**: deserialising the serialisation of an action yields exactly that action. -/
theorem action_roundtrip (a : Action) (h : a.WF) : deAction (serAction a) = some a :=
  Rio.Json.action_roundtrip a h

/-- Congruence corollary of `action_roundtrip` (no further content): the restored action exists and any
Lean function `obs` of the SERDE-MODEL action takes the same value on it as on the original;
re-serialising it gives the same JSON text.  `obs` ranges over functions of `Rio.Json.Action`; the
modelled observers of the library (status code for a response code, header / body filter selection,
logging decision, applied rule ids) live on the action model of C05 — they are brought onto this type,
and the statement "the restored action behaves like the original" is made for THEM, in
Props/C06obs.lean (`action_observers_roundtrip`, `model_action_observers`, `observed_action_handover`). -/
theorem action_behaviour {β : Type} (obs : Action → β) (a : Action) (h : a.WF) :
    ∃ a', deAction (serAction a) = some a' ∧ obs a' = obs a ∧
      print (serAction a') = print (serAction a) :=
  ⟨a, action_roundtrip a h, rfl, rfl⟩

/-- Re-serialising gives the same JSON (value and text). -/
theorem action_reserialize (a : Action) (h : a.WF) :
    (deAction (serAction a)).map (fun a' => print (serAction a')) = some (print (serAction a)) := by
  rw [action_roundtrip a h]; rfl

/-- Serialisation loses nothing: two well-formed actions with the same JSON are equal. -/
theorem serAction_injective (a b : Action) (ha : a.WF) (hb : b.WF)
    (h : serAction a = serAction b) : a = b := by
  have h1 := action_roundtrip a ha
  rw [h, action_roundtrip b hb] at h1
  exact (Option.some.inj h1).symm

/-! ### The untagged `BodyFilter` union (`Text` is tried before `HTML`) -/

/-- The JSON of an HTML filter is rejected by the `Text` variant (no `content` key) … -/
theorem deText_serHtml (h : HtmlBodyFilter) : deTextBodyFilter (serHtmlBodyFilter h) = none :=
  Rio.Json.deText_serHtml h

/-- … and accepted, unchanged, by the `HTML` variant. -/
theorem deHtml_serHtml (h : HtmlBodyFilter) : deHtmlBodyFilter (serHtmlBodyFilter h) = some h :=
  htmlBodyFilter_roundtrip h

/-- The JSON of a text filter is accepted, unchanged, by the `Text` variant … -/
theorem deText_serText (t : TextBodyFilter) : deTextBodyFilter (serTextBodyFilter t) = some t :=
  textBodyFilter_roundtrip t

/-- … and would be rejected by the `HTML` variant: the variant order is immaterial for
serialised values. -/
theorem deHtml_serText (t : TextBodyFilter) : deHtmlBodyFilter (serTextBodyFilter t) = none :=
  Rio.Json.deHtml_serText t

/-- Hence a body filter keeps its variant and its fields, at any nesting the recursion limit of
serde_json allows (inside an action the filter sits under 3 containers). -/
theorem bodyFilter_roundtrip (base : Nat) (hb : base + 2 ≤ recursionLimit) (f : BodyFilter) :
    deBodyFilter base (serBodyFilter f) = some f :=
  Rio.Json.bodyFilter_roundtrip base hb f

/-! ### `WF` is the representation invariant of `LinkedHashSet`, not an assumption -/

/-- Any action obtained by deserialisation (what a proxy holds) is well-formed. -/
theorem deAction_wf (j : Json) (a : Action) (h : deAction j = some a) : a.WF :=
  Rio.Json.deAction_wf j a h

/-- Any sequence of `LinkedHashSet::insert` calls starting from the empty set (what the library
does when it builds and merges actions and records applied rules) yields a duplicate-free
list. -/
theorem linked_hash_set_nodup (xs : List String) : (xs.foldl insertBack []).Nodup :=
  foldl_insertBack_is_nodup xs [] (by simp)

/-- So the round trip can be iterated: the restored action round-trips again. -/
theorem action_roundtrip_twice (j : Json) (a : Action) (h : deAction j = some a) :
    deAction (serAction a) = some a :=
  action_roundtrip a (deAction_wf j a h)

/-! ### Defaults for late-added fields, unknown fields, key order -/

/-- An agent that predates `rule_traces`, `rules_applied` and `log_override` (and omits a
`null` `status_code_update`) is still understood: the minimal object denotes the action with
those fields at their defaults. -/
theorem action_minimal_form (hf : List HeaderFilterAction) (bf : List BodyFilterAction)
    (ids : List String) (h : ids.Nodup) :
    deAction (.obj [("header_filters", serVec serHeaderFilterAction hf),
                    ("body_filters", serVec serBodyFilterAction bf),
                    ("rule_ids", serSet ids)])
      = some ⟨none, hf, bf, ids, [], [], none⟩ := by
  have h2 : deVec deHeaderFilterAction (serVec serHeaderFilterAction hf) = some hf :=
    deVec_serVec _ _ _ (fun f _ => headerFilterAction_roundtrip f)
  have h3 : deVec (deBodyFilterAction 2) (serVec serBodyFilterAction bf) = some bf :=
    deVec_serVec _ _ _ (fun f _ => bodyFilterAction_roundtrip 2 (by decide) f)
  have h4 : deSet (serSet ids) = some ids := deSet_serSet _ h
  simp [deAction, reqField, optField, defaultField, find, keyEq, h2, h3, h4]

/-- The field names `Action` reads. -/
def actionKeys : List String :=
  ["status_code_update", "header_filters", "body_filters", "rule_ids", "rule_traces",
   "rules_applied", "log_override"]

/-- `deAction` on an object only depends on the lookups of its seven keys. -/
theorem deAction_congr (kvs kvs' : List (String × Json))
    (h : ∀ k ∈ actionKeys, find kvs k = find kvs' k) :
    deAction (.obj kvs) = deAction (.obj kvs') := by
  simp only [actionKeys, List.mem_cons, List.mem_nil_iff, or_false, forall_eq_or_imp, forall_eq] at h
  obtain ⟨h1, h2, h3, h4, h5, h6, h7⟩ := h
  simp only [deAction, reqField, optField, defaultField, h1, h2, h3, h4, h5, h6, h7]

/-- Unknown fields are ignored wherever they are inserted (a newer agent may add fields). -/
theorem deAction_unknown_field (pre post : List (String × Json)) (k : String) (v : Json)
    (hk : k ∉ actionKeys) :
    deAction (.obj (pre ++ (k, v) :: post)) = deAction (.obj (pre ++ post)) := by
  apply deAction_congr
  intro k' hk'
  apply find_append_ne
  intro heq
  exact hk (heq ▸ hk')

/-- The order of the keys of the object does not matter (as long as no key of `Action` is
repeated – a repeated key is an error in any order). -/
theorem deAction_key_order (kvs kvs' : List (String × Json)) (hp : kvs.Perm kvs')
    (hu : ∀ k ∈ actionKeys, countKey kvs k ≤ 1) :
    deAction (.obj kvs) = deAction (.obj kvs') :=
  deAction_congr kvs kvs' (fun k hk => find_perm kvs kvs' k hp (hu k hk))

/-! ### Requests -/

/-- `IpAddr::from_str` reads back what `Display` wrote, for every IPv4 and IPv6 address
(IPv4-mapped form, `::` compression of the first longest zero run, lower-case hex). -/
theorem ip_print_parse (x : Ip) : parseIp (showIp x) = some x := parseIp_showIp x

/-- chrono reads back what `Serialize` wrote, for every representable UTC instant (years with
sign and more than four digits, leap seconds, 0 / 3 / 6 / 9 fractional digits). -/
theorem datetime_print_parse (d : DateTime) (h : d.Valid) : parseDt (showDt d) = some d :=
  parseDt_showDt d h

/-- A request restored from its JSON is the same request, whatever the oracle `P` answers … -/
theorem request_roundtrip (P : Codec) (q : Request) (h : q.WF) :
    deRequest P (serRequest q) = some q :=
  Rio.Json.request_roundtrip P q h

/-- Congruence corollary of `request_roundtrip` (no further content): any Lean function `obs` of the
serde-model request takes the same value on the restored request, which re-serialises to the same text.
That a restored request MATCHES THE SAME RULES is stated for the router model of C01 in Props/C06obs.lean
(`request_match_roundtrip`, through the conversion `reqOfJson` of the nine JSON fields to the seven things
matching reads). -/
theorem request_behaviour {β : Type} (P : Codec) (obs : Request → β) (q : Request) (h : q.WF) :
    ∃ q', deRequest P (serRequest q) = some q' ∧ obs q' = obs q ∧
      print (serRequest q') = print (serRequest q) :=
  ⟨q, request_roundtrip P q h, rfl, rfl⟩

/-- Every request obtained by deserialisation is well-formed (so `Request.WF` holds of whatever a
proxy holds, and the round trip can be iterated) – no law of the oracle is needed. -/
theorem deRequest_wf (P : Codec) (j : Json) (q : Request) (h : deRequest P j = some q) : q.WF :=
  Rio.Json.deRequest_wf P j q h

/-! ### The text level: what travels from the agent to the proxy is a string

`render` / `print` model `serde_json::to_string`, `parseText` models the reader of
`serde_json::from_str` (Model/JsonText.lean: white space, escapes incl. surrogate pairs, number
classification, separators), `deActionText = parseText >=> deAction`. -/

/-- The reader inverts the printer on every value the printer can be asked to print faithfully
(no floats, integers within `i64 ∪ u64`). -/
theorem reader_inverts_printer (j : Json) (hp : Printable j) : parseText (render j) = some j :=
  parseText_render j hp

/-- The printer is injective: different values never print alike (escaping and separators are
unambiguous). -/
theorem printer_injective (j j' : Json) (hp : Printable j) (hp' : Printable j')
    (h : render j = render j') : j = j' :=
  render_injective j j' hp hp' h

/-- **C06 on the text level**: `from_str(to_string(a)) = a`. -/
theorem action_text_roundtrip (a : Action) (h : a.WF) :
    deActionText (print (serAction a)).toList = some a := by
  simp only [print, String.toList_ofList, deActionText,
    parseText_render _ (printable_serAction a), Option.bind_some]
  exact action_roundtrip a h

/-- Two well-formed actions with the same JSON text are the same action. -/
theorem action_text_injective (a b : Action) (ha : a.WF) (hb : b.WF)
    (h : print (serAction a) = print (serAction b)) : a = b := by
  have h1 := action_text_roundtrip a ha
  rw [h, action_text_roundtrip b hb] at h1
  exact (Option.some.inj h1).symm

/-- Requests on the text level. -/
theorem request_text_roundtrip (P : Codec) (q : Request) (h : q.WF) :
    deRequestText P (print (serRequest q)).toList = some q := by
  simp only [print, String.toList_ofList, deRequestText,
    parseText_render _ (printable_serRequest q), Option.bind_some]
  exact request_roundtrip P q h

/-! ### Tie to the source by regeneration (tools/consts.d/w4_serde.py) -/

/-- The serde schema extracted from /repo/src on this run – fields in declaration order with
their key, Rust type and `#[serde(..)]` attributes, type-level attributes (`untagged`), variant
order of the union, renames of `TextAction` – is literally the schema the model was transcribed
from.  Any change to one of the derives breaks this theorem (and the build of this module). -/
theorem schema_tie :
    Rio.Consts.serdeActionAttrs = [] ∧
    Rio.Consts.serdeAction.map (·.2.1) =
      ["Option<StatusCodeUpdate>", "Vec<HeaderFilterAction>", "Vec<BodyFilterAction>",
       "LinkedHashSet<String>", "Vec<RuleTrace>", "LinkedHashSet<String>", "Option<LogOverride>"] ∧
    Rio.Consts.serdeAction.map (·.2.2) = ["", "", "", "", "default", "default", ""] ∧
    Rio.Consts.serdeBodyFilterAttrs = ["untagged"] ∧
    Rio.Consts.serdeBodyFilter.map (·.1) = ["Text", "HTML"] :=
  ⟨schema_Action.1, by rw [schema_Action.2]; rfl, by rw [schema_Action.2]; rfl, schema_BodyFilter.1,
    by rw [schema_BodyFilter.2]; rfl⟩

/-- The keys the model's serialisers emit are the extracted keys in the extracted order, for
every type on the path. -/
theorem ser_keys_tie (a : Action) (q : Request) :
    objKeys (serAction a) = schemaKeys Rio.Consts.serdeAction ∧
    objKeys (serRequest q) = schemaKeys Rio.Consts.serdeRequest ∧
    (∀ s, objKeys (serStatusCodeUpdate s) = schemaKeys Rio.Consts.serdeStatusCodeUpdate) ∧
    (∀ l, objKeys (serLogOverride l) = schemaKeys Rio.Consts.serdeLogOverride) ∧
    (∀ t, objKeys (serRuleTrace t) = schemaKeys Rio.Consts.serdeRuleTrace) ∧
    (∀ f, objKeys (serHeaderFilterAction f) = schemaKeys Rio.Consts.serdeHeaderFilterAction) ∧
    (∀ f, objKeys (serBodyFilterAction f) = schemaKeys Rio.Consts.serdeBodyFilterAction) ∧
    (∀ f, objKeys (serHeaderFilter f) = schemaKeys Rio.Consts.serdeHeaderFilter) ∧
    (∀ f, objKeys (serHtmlBodyFilter f) = schemaKeys Rio.Consts.serdeHtmlBodyFilter) ∧
    (∀ f, objKeys (serTextBodyFilter f) = schemaKeys Rio.Consts.serdeTextBodyFilter) ∧
    (∀ p, objKeys (serPathAndQuery p) = schemaKeys Rio.Consts.serdePathAndQuery) ∧
    (∀ h, objKeys (serHeader h) = schemaKeys Rio.Consts.serdeHeader) ∧
    [TextAction.append, .prepend, .replace].map TextAction.name = schemaKeys Rio.Consts.serdeTextAction :=
  ⟨serAction_keys a, serRequest_keys q, serStatusCodeUpdate_keys, serLogOverride_keys,
   serRuleTrace_keys, serHeaderFilterAction_keys, serBodyFilterAction_keys, serHeaderFilter_keys,
   serHtmlBodyFilter_keys, serTextBodyFilter_keys, serPathAndQuery_keys, serHeader_keys,
   textAction_names⟩

/-! ### Non-vacuity: a concrete action with every kind of content, and a concrete request -/

def exAction : Action where
  status_code_update := some ⟨302, [404, 410], true, 301, some "r2", some "r1", some "u1", some "status_code"⟩
  header_filters := [⟨⟨"override", "Location", "/t?a=\"1\"", some "u1", none⟩, [404], false, some "r2"⟩]
  body_filters :=
    [⟨.text ⟨.append, "tail\n", none, some "h"⟩, [], false, some "r1"⟩,
     ⟨.html ⟨"append_child", "<b>v</b>", some "<i>in</i>", ["html", "body"], some "div.c", some "u2", none⟩,
      [200], true, some "r2"⟩]
  rule_ids := ["r1", "r2"]
  rule_traces := [⟨"r1", [], false⟩, ⟨"r2", [404, 410], true⟩]
  rules_applied := ["r2"]
  log_override := some ⟨false, some "r2", [500], false, some true, some "r1", none⟩

example : exAction.WF := by simp [exAction, Action.WF]

example : deAction (serAction exAction) = some exAction :=
  action_roundtrip exAction (by simp [exAction, Action.WF])

/-- the hypothesis is needed: a list with a repeated id is not the image of any set, and the
round trip (faithfully to `LinkedHashSet::insert`) reorders it. -/
example : deSet (serSet ["a", "b", "a"]) = some ["b", "a"] := by
  simp [deSet, serSet, mapOpt, deString, insertBack, List.erase]

/-- an oracle that knows nothing: the theorems do not depend on it -/
def exCodec : Codec where
  parseIp := fun _ => none
  parseDt := fun _ => none

def exRequest : Request where
  path_and_query_skipped := ⟨"/x?a=1", some "/x?a=1", some "utm_source=b", "/x?a=1&utm_source=b"⟩
  path_and_query := some "/x?a=1&utm_source=b"
  host := some "example.org"
  scheme := none
  method := some "GET"
  headers := [⟨"X-A", "1"⟩, ⟨"x-a", "é"⟩]
  remote_addr := some (.v6 ⟨[0x2001, 0xdb8, 0, 0, 1, 0, 0, 1], rfl⟩)
  created_at := some ⟨2016, 12, 31, 23, 59, 60, 500000000⟩
  sampling_override := some false

example : exRequest.WF := by decide

example : deRequest exCodec (serRequest exRequest) = some exRequest :=
  request_roundtrip exCodec exRequest (by decide)

/-- the validity hypothesis is a real restriction: the 30th of February is not an instant (chrono
cannot hold it, and its text is refused by both readers) -/
example : ¬ (⟨2024, 2, 30, 0, 0, 0, 0⟩ : DateTime).Valid := by decide

end Rio.C06
