/-
C19 (second part) — the project-level analyses are functions of the live rule *set*:
extensionality in the router, project ≡ stand-alone, independence of the rule order.

Property theorems only (model: Model/LoopAnalysis.lean, lemmas: Proofs/LoopAnalysis.lean).
The four analyses (test-examples, unit-ids, explain, impact) are modelled over

* an abstract router view `View` (config, `routes()` in an arbitrary order, `match_request`, `trace_request`),
* an abstract per-example pipeline `Pipe` (request building, and one evaluation function of
  (matched routes, request, example) per status-code convention),
* an abstract router algebra `Alg` with representation laws `AlgLaws` (what C02 proves of the real matcher
  tower), instantiated below with W2's tower (`towerAlg`, laws from `Rio.C02.repr_*`,
  `rrepr_match_perm`, `rrepr_trace_perm`) extended by the handlers of the routes (`withPayload`), and with a
  plain list router (non-vacuity).

Hypotheses, and where they come from:
* `PermInv P`: every evaluation is invariant under permutation of a match vector with distinct ids –
  C11: `from_routes_rule` sorts the routes with the total order of `Rule::cmp` first
  (`permInv_of_sorted` discharges it for every pipeline that factors through the sorted list);
* `View.WF`: live ids and matched ids are pairwise distinct – C01 / C02 (`AlgLaws.wf`);
* `ValidChangeSet`: the ids of the change-set are consistent with the live rules (same as C02).

Compared "up to the canonical order of the outputs":
* `HashMap` outputs (`UnitIdsOutput.rules`, `first_ten_failures`, `first_ten_errors`) as finite maps:
  `lookup id` agrees for every id (and the association lists are permutations of each other);
* `first_ten_failures` / `first_ten_errors`: since 9993ef8 `create_result` visits the rules in id order, so
  the truncation (`len() <= 10` tested before each push) is a function of the rule set and the whole
  `TestExamplesOutput` is compared with `=` (hypothesis `IdOrder`: the id comparison is a total order); the
  statements about the code BEFORE the repair (`testExamplesUnordered`: HashMap order, `first_ten_*`
  order-independent only when at most ten rules contribute) are kept for the record (`*_unordered`);
* `match_traces` through a canonical projection `canon` of the traces (for the tower: the set of route
  ids listed by `get_routes_from_traces`): the forest itself depends on the history (buckets emptied by
  `batch_remove` survive) and on the `count` fields.
Everything else (example, unit trace, backend status, response, log decision, redirect chain, error
messages, the order of `impacts`) is compared with `=`.
-/
import RioModel.Proofs.LoopAnalysis
import RioModel.Props.C02
import RioModel.Props.C11
set_option linter.unusedSimpArgs false
set_option linter.unusedSectionVars false
set_option linter.unusedVariables false

namespace Rio.C19
open Rio.Analysis Rio.Loop

section
variable {St Rule Req Cfg Tr C Ex Id UId UT Core U M Dom : Type}
variable [DecidableEq Id] [DecidableEq U] [DecidableEq M]
variable {P : Pipe Rule Req Cfg Ex Id UId UT Core U M Dom} {canon : Tr → C}

/-! ### 1. Extensionality: the analyses only see the set of live rules and the sets of matched rules -/

/-- The redirect chain (`RedirectionLoop::from_example`) of every example. -/
theorem loop_extensional {S S' : View Rule Req Cfg Tr} (hI : PermInv P) (hE : Equiv canon S S')
    (hW : View.WF P S) (maxHops : Nat) (dom : Dom) (e : Ex) :
    loop P S maxHops dom e = loop P S' maxHops dom e :=
  loop_ext hI hE hW maxHops dom e

/-- explain: same answer (error message or record), `match_traces` through `canon`. -/
theorem explain_extensional {S S' : View Rule Req Cfg Tr} (hI : PermInv P) (hE : Equiv canon S S')
    (hW : View.WF P S) (maxHops : Nat) (dom : Dom) (e : Ex) :
    (explain P S maxHops dom e).map (ExplainOut.project canon) =
      (explain P S' maxHops dom e).map (ExplainOut.project canon) :=
  explain_ext hI hE hW maxHops dom e

/-- impact (the loop of `compute_impacts`): the same list of impacts, in example order;
`T`, `T'` are the views of the trace-unique routers. -/
theorem impact_extensional {S S' T T' : View Rule Req Cfg Tr} (hI : PermInv P) (hE : Equiv canon S S')
    (hW : View.WF P S) (hT : ∀ q, canon (T.trace q) = canon (T'.trace q)) (examples : Option (List Ex))
    (withLoop : Bool) (maxHops : Nat) (dom : Dom) :
    (computeImpacts P S T examples withLoop maxHops dom).map (Impact.project canon) =
      (computeImpacts P S' T' examples withLoop maxHops dom).map (Impact.project canon) :=
  computeImpacts_ext hI hE hW hT examples withLoop maxHops dom

/-- unit-ids: the same finite map rule id ↦ examples with their computed unit ids. -/
theorem unit_ids_extensional {S S' : View Rule Req Cfg Tr} (hI : PermInv P) (hE : Equiv canon S S')
    (hW : View.WF P S) :
    (unitIds P S).Perm (unitIds P S') ∧ ((unitIds P S).map (·.1)).Nodup ∧
      ∀ id, lookupA id (unitIds P S) = lookupA id (unitIds P S') :=
  ⟨unitIds_perm hI hE hW, unitIds_keys_nodup hW,
   fun id => lookupA_perm id _ _ (unitIds_perm hI hE hW) (unitIds_keys_nodup hW)⟩

/-- **test-examples (as repaired: rules in id order)**: the whole output – the three counters and both
`first_ten_*` maps with their truncation – is EQUAL for equivalent routers. -/
theorem test_examples_extensional {S S' : View Rule Req Cfg Tr} (hO : IdOrder P) (hI : PermInv P)
    (hE : Equiv canon S S') (hW : View.WF P S) (maxHops : Nat) (dom : Dom) :
    testExamples P S maxHops dom = testExamples P S' maxHops dom :=
  testExamples_ext hO hI hE hW maxHops dom

/-- For the record, the code BEFORE 9993ef8 (rules in HashMap order): the three counters always; the two
`first_ten_*` maps only when at most ten rules contribute to them. -/
theorem test_examples_unordered_extensional {S S' : View Rule Req Cfg Tr} (hI : PermInv P)
    (hE : Equiv canon S S') (hW : View.WF P S) (maxHops : Nat) (dom : Dom) :
    (testExamplesUnordered P S maxHops dom).exampleCount = (testExamplesUnordered P S' maxHops dom).exampleCount ∧
    (testExamplesUnordered P S maxHops dom).failureCount = (testExamplesUnordered P S' maxHops dom).failureCount ∧
    (testExamplesUnordered P S maxHops dom).errorCount = (testExamplesUnordered P S' maxHops dom).errorCount ∧
    (FailuresBounded P S maxHops dom → ∀ id,
      lookupE id (testExamplesUnordered P S maxHops dom).firstTenFailures =
        lookupE id (testExamplesUnordered P S' maxHops dom).firstTenFailures) ∧
    (ErrorsBounded P S maxHops dom → ∀ id,
      lookupE id (testExamplesUnordered P S maxHops dom).firstTenErrors =
        lookupE id (testExamplesUnordered P S' maxHops dom).firstTenErrors) := by
  obtain ⟨h1, h2, h3⟩ := testExamplesUnordered_counts_ext hI hE hW maxHops dom
  exact ⟨h1, h2, h3, fun hb id => testExamplesUnordered_failures_ext hI hE hW maxHops dom hb id,
    fun hb id => testExamplesUnordered_errors_ext hI hE hW maxHops dom hb id⟩

/-- What the untruncated `first_ten_failures` holds for a rule id: the failed examples of the live rule
with that id, in example order (closed form; `none` when it has none). -/
theorem first_ten_failures_closed_form {S : View Rule Req Cfg Tr} (maxHops : Nat) (dom : Dom)
    (hb : FailuresBounded P S maxHops dom) (id : Id) :
    lookupE id (testExamplesUnordered P S maxHops dom).firstTenFailures =
      extendE none (itemsFor id ((events P S maxHops dom).map (failureOf P))) :=
  failures_lookup maxHops dom hb id

/-- **`analysis_extensional`**: all four analyses at once. -/
theorem analysis_extensional {S S' : View Rule Req Cfg Tr} (hO : IdOrder P) (hI : PermInv P)
    (hE : Equiv canon S S') (hW : View.WF P S) (maxHops : Nat) (dom : Dom) :
    -- test-examples (whole output)
    testExamples P S maxHops dom = testExamples P S' maxHops dom ∧
    -- unit-ids
    (∀ id, lookupA id (unitIds P S) = lookupA id (unitIds P S')) ∧
    -- explain
    (∀ e, (explain P S maxHops dom e).map (ExplainOut.project canon) =
        (explain P S' maxHops dom e).map (ExplainOut.project canon)) ∧
    -- impact, for any examples and the same trace-unique router
    (∀ (T : View Rule Req Cfg Tr) examples withLoop,
      (computeImpacts P S T examples withLoop maxHops dom).map (Impact.project canon) =
        (computeImpacts P S' T examples withLoop maxHops dom).map (Impact.project canon)) :=
  ⟨testExamples_ext hO hI hE hW maxHops dom,
   (unit_ids_extensional hI hE hW).2.2,
   fun e => explain_ext hI hE hW maxHops dom e,
   fun T examples withLoop => computeImpacts_ext hI hE hW (fun _ => rfl) examples withLoop maxHops dom⟩

/-! ### 1b. What the analyses report for an example IS what the pipeline computes for its request

The clause "the response they report for an example (status, headers, body, log decision) is the one the
live pipeline produces for that request" over the abstract `Pipe`: every reported value is `P.eval…` applied
to `router.match_request(request)` for the request `Request::from_example(router.config, example)` – the
analyses add nothing and drop nothing.  (The request is NOT rebuilt: only `trace_request` rebuilds it.  That
`P.evalExplain` etc. ARE the live pipeline – C05 / C13 / C04 composed – is outside this model: `Pipe` is
abstract; the harness oracle `pipeline-agreement` checks it on the implementation.) -/

/-- explain: the reported core (unit trace, backend status, response, log decision) is the pipeline's value on
the matched routes of the example's request; the chain is `RedirectionLoop::from_example`; an unbuildable
request is the only error. -/
theorem explain_reports_pipeline (S : View Rule Req Cfg Tr) (maxHops : Nat) (dom : Dom) (e : Ex) :
    (∀ msg, P.fromExample S.config e = .error msg →
      explain P S maxHops dom e = .error ("Invalid example: " ++ msg)) ∧
    (∀ q, P.fromExample S.config e = .ok q →
      explain P S maxHops dom e =
        .ok ⟨e, P.evalExplain (S.matchReq q) q e, S.trace q, some (loop P S maxHops dom e)⟩) := by
  constructor <;> intro x hx <;> simp [explain, hx]

/-- impact: one record per example, in example order; each is the pipeline's value on the router WITH the
analysed rule (`S`) and the trace of the trace-unique router (`T`). -/
theorem impact_reports_pipeline (S T : View Rule Req Cfg Tr) (exs : List Ex) (withLoop : Bool) (maxHops : Nat)
    (dom : Dom) :
    (computeImpacts P S T (some exs) withLoop maxHops dom).length = exs.length ∧
    ∀ i (hi : i < exs.length),
      (computeImpacts P S T (some exs) withLoop maxHops dom)[i]? = some
        (match P.fromExample S.config exs[i] with
         | .error msg => .err exs[i] ("Cannot create query from example: " ++ msg)
         | .ok q => .ok exs[i] (P.evalExplain (S.matchReq q) q exs[i]) (T.trace q)
                      (if withLoop then some (loop P S maxHops dom exs[i]) else none)) := by
  refine ⟨by simp [computeImpacts], ?_⟩
  intro i hi
  simp only [computeImpacts, List.getElem?_map, List.getElem?_eq_getElem hi, Option.map_some]
  cases P.fromExample S.config exs[i] <;> rfl

/-- unit-ids: what is written back into an example is the unit ids the pipeline applied (unit-ids convention)
on the matched routes of its request; an example whose request cannot be built is returned unchanged. -/
theorem unit_ids_reports_pipeline (S : View Rule Req Cfg Tr) (e : Ex) :
    (∀ msg, P.fromExample S.config e = .error msg → unitExample P S e = e) ∧
    (∀ q, P.fromExample S.config e = .ok q →
      unitExample P S e = P.setExpected e (P.utUnitIds (P.evalUnit (S.matchReq q) q e))) := by
  constructor <;> intro x hx <;> simp [unitExample, hx]

/-- test-examples: the verdict on an example is a function of the unit trace the pipeline produced
(test-examples convention) on the matched routes of its request, and a reported failure carries exactly that
trace's rule ids, unit ids and `diff(expected)`. -/
theorem test_example_reports_pipeline (S : View Rule Req Cfg Tr) (maxHops : Nat) (dom : Dom) (r : Rule) (e : Ex)
    (f : FailedEx Ex Id UId U M) (h : outcome P S maxHops dom r e = .failed f) :
    ∃ exp q, P.expected e = some exp ∧ P.fromExample S.config e = .ok q ∧ f.ex = e ∧
      f.ruleIdsApplied = P.utRuleIds (P.evalTest (S.matchReq q) q e) ∧
      f.unitIdsApplied = P.utUnitIds (P.evalTest (S.matchReq q) q e) ∧
      f.unitIdsNotAppliedAnymore = P.utDiff (P.evalTest (S.matchReq q) q e) exp ∧
      (f.redirectionLoop = none ∨ f.redirectionLoop = some (loop P S maxHops dom e)) := by
  unfold outcome outcomeWith at h
  cases hexp : P.expected e with
  | none => simp [hexp] at h
  | some exp =>
    cases hq : P.fromExample S.config e with
    | error msg => simp [hexp, hq] at h
    | ok q =>
      simp only [hexp, hq] at h
      refine ⟨exp, q, rfl, rfl, ?_⟩
      split at h
      · cases h; exact ⟨rfl, rfl, rfl, rfl, Or.inl rfl⟩
      · split at h
        · cases h; exact ⟨rfl, rfl, rfl, rfl, Or.inr rfl⟩
        · cases h

/-! ### 2. Project ≡ stand-alone

`base` is the existing router of the project (it represents the rule list `B`), `D` the change-set,
`rules` the rule list the stand-alone entry point is given: the rules of `apply(B, D)` in any order. -/

variable {A : Alg St Rule Req Cfg Tr Id} (W : AlgLaws A P.ruleId canon)
include W

/-- the two routers of test-examples / explain have equivalent views -/
theorem project_router_equiv (base : St) (c : Cfg) (B : List Rule) (D : ChangeSet Rule Id)
    (rules : List Rule) (hb : W.Repr base c B) (hv : ValidChangeSet P.ruleId D B)
    (hn : NodupIds P.ruleId rules) (hr : ∀ x, x ∈ rules ↔ x ∈ D.live P.ruleId B) :
    Equiv canon (A.view (A.projectRouter D base)) (A.view (A.build c rules)) ∧
      View.WF P (A.view (A.projectRouter D base)) := by
  obtain ⟨L, hL, hmem⟩ := repr_projectRouter W base c B D hb hv
  have hs := repr_build W c rules hn
  exact ⟨W.equiv hL hs (fun x => by rw [hmem x, ← hr x]; simp), W.wf hL⟩

/-- the two routers of unit-ids (`update_existing_router` is applied even to an empty change-set) -/
theorem update_router_equiv (base : St) (c : Cfg) (B : List Rule) (D : ChangeSet Rule Id)
    (rules : List Rule) (hb : W.Repr base c B) (hv : ValidChangeSet P.ruleId D B)
    (hn : NodupIds P.ruleId rules) (hr : ∀ x, x ∈ rules ↔ x ∈ D.live P.ruleId B) :
    Equiv canon (A.view (A.update D base)) (A.view (A.build c rules)) ∧
      View.WF P (A.view (A.update D base)) := by
  have hL := W.repr_changeSet base c B D hb hv
  have hs := repr_build W c rules hn
  exact ⟨W.equiv hL hs (fun x => by rw [← hr x]; simp), W.wf hL⟩

/-- **test-examples: `from_project` ≡ `create_result_without_project`** – the whole `TestExamplesOutput`. -/
theorem test_examples_project_equals_standalone (hO : IdOrder P) (hI : PermInv P) (base : St) (c : Cfg)
    (B : List Rule) (D : ChangeSet Rule Id) (rules : List Rule) (hb : W.Repr base c B)
    (hv : ValidChangeSet P.ruleId D B) (hn : NodupIds P.ruleId rules)
    (hr : ∀ x, x ∈ rules ↔ x ∈ D.live P.ruleId B) (maxHops : Nat) (dom : Dom) :
    testExamplesProject A P D maxHops dom base = testExamplesStandalone A P c rules maxHops dom := by
  obtain ⟨hE, hW⟩ := project_router_equiv W base c B D rules hb hv hn hr
  exact testExamples_ext hO hI hE hW maxHops dom

/-- **unit-ids: `create_result_from_project` ≡ `create_result_without_project`.** -/
theorem unit_ids_project_equals_standalone (hI : PermInv P) (base : St) (c : Cfg) (B : List Rule)
    (D : ChangeSet Rule Id) (rules : List Rule) (hb : W.Repr base c B)
    (hv : ValidChangeSet P.ruleId D B) (hn : NodupIds P.ruleId rules)
    (hr : ∀ x, x ∈ rules ↔ x ∈ D.live P.ruleId B) :
    (unitIdsProject A P D base).Perm (unitIdsStandalone A P c rules) ∧
      ∀ id, lookupA id (unitIdsProject A P D base) = lookupA id (unitIdsStandalone A P c rules) := by
  obtain ⟨hE, hW⟩ := update_router_equiv W base c B D rules hb hv hn hr
  have := unit_ids_extensional hI hE hW
  exact ⟨this.1, this.2.2⟩

/-- **explain: `create_result_from_project` ≡ `create_result_without_project`.** -/
theorem explain_project_equals_standalone (hI : PermInv P) (base : St) (c : Cfg) (B : List Rule)
    (D : ChangeSet Rule Id) (rules : List Rule) (hb : W.Repr base c B)
    (hv : ValidChangeSet P.ruleId D B) (hn : NodupIds P.ruleId rules)
    (hr : ∀ x, x ∈ rules ↔ x ∈ D.live P.ruleId B) (maxHops : Nat) (dom : Dom) (e : Ex) :
    (explainProject A P D maxHops dom e base).map (ExplainOut.project canon) =
      (explainStandalone A P c rules maxHops dom e).map (ExplainOut.project canon) := by
  obtain ⟨hE, hW⟩ := project_router_equiv W base c B D rules hb hv hn hr
  exact explain_ext hI hE hW maxHops dom e

/-- the optional insertion of the analysed rule keeps two routers equivalent, provided its id is
not live in either (the entry points remove / skip its previous version first) -/
theorem impactOn_ext (hI : PermInv P) (S S' : St) (c : Cfg) (L L' : List Rule) (I : ImpactSpec Rule Dom)
    (h : W.Repr S c L) (h' : W.Repr S' c L') (hm : ∀ x, x ∈ L ↔ x ∈ L')
    (hf : P.ruleId I.rule ∉ L.map P.ruleId) (hf' : P.ruleId I.rule ∉ L'.map P.ruleId) (T : St) :
    (impactOn A P S T I).map (Impact.project canon) = (impactOn A P S' T I).map (Impact.project canon) := by
  unfold impactOn
  by_cases hins : (I.action == "add" || I.action == "update") = true
  · simp only [hins, if_true]
    have hr := W.repr_insert S c L I.rule h hf
    have hr' := W.repr_insert S' c L' I.rule h' hf'
    have hm' : ∀ x, x ∈ I.rule :: L ↔ x ∈ I.rule :: L' := by
      intro x; simp only [List.mem_cons, hm x]
    exact computeImpacts_ext hI (W.equiv hr hr' hm') (W.wf hr) (fun _ => rfl) _ _ _ _
  · simp only [hins, Bool.false_eq_true, if_false]
    exact computeImpacts_ext hI (W.equiv h h' hm) (W.wf h) (fun _ => rfl) _ _ _ _

/-- **impact: `from_impact_project` ≡ `create_result`.** -/
theorem impact_project_equals_standalone (hI : PermInv P) (base : St) (c : Cfg) (B : List Rule)
    (D : ChangeSet Rule Id) (rules : List Rule) (hb : W.Repr base c B)
    (hv : ValidChangeSet P.ruleId D B) (hn : NodupIds P.ruleId rules)
    (hr : ∀ x, x ∈ rules ↔ x ∈ D.live P.ruleId B) (I : ImpactSpec Rule Dom) :
    (impactProject A P D I base).map (Impact.project canon) =
      (impactStandalone A P c rules I).map (Impact.project canon) := by
  unfold impactProject impactStandalone
  rw [W.config base c B hb]
  have h1 := W.repr_remove _ c _ (P.ruleId I.rule) (W.repr_changeSet base c B D hb hv)
  have hnf : NodupIds P.ruleId (rules.filter fun r => decide (P.ruleId r ≠ P.ruleId I.rule)) :=
    NodupIds.filter hn _
  have h2 := repr_build W c _ hnf
  have hnot : ∀ (L : List Rule), P.ruleId I.rule ∉
      (L.filter fun r => decide (P.ruleId r ≠ P.ruleId I.rule)).map P.ruleId := by
    intro L hmem
    obtain ⟨r, hr', heq⟩ := List.mem_map.mp hmem
    have := (List.mem_filter.mp hr').2
    simp only [decide_eq_true_eq] at this
    exact this heq
  apply impactOn_ext W hI _ _ c _ _ I h1 h2
  · intro x
    simp only [List.mem_reverse, List.mem_filter, hr x]
  · exact hnot _
  · intro hmem
    apply hnot rules
    simpa using hmem

/-! ### 3. Independence of the order of the rule list -/

/-- two routers filled from permuted rule lists have equivalent views -/
theorem build_perm_equiv (c : Cfg) (rules rules' : List Rule) (hn : NodupIds P.ruleId rules)
    (hp : rules.Perm rules') :
    Equiv canon (A.view (A.build c rules)) (A.view (A.build c rules')) ∧
      View.WF P (A.view (A.build c rules)) := by
  have h := repr_build W c rules hn
  have h' := repr_build W c rules' (NodupIds.perm hn hp)
  exact ⟨W.equiv h h' (fun x => by simp [hp.mem_iff]), W.wf h⟩

/-- **Rule-order independence** of the four stand-alone analyses. -/
theorem rule_order_independent (hO : IdOrder P) (hI : PermInv P) (c : Cfg) (rules rules' : List Rule)
    (hn : NodupIds P.ruleId rules) (hp : rules.Perm rules') (maxHops : Nat) (dom : Dom) :
    testExamplesStandalone A P c rules maxHops dom = testExamplesStandalone A P c rules' maxHops dom ∧
    (∀ id, lookupA id (unitIdsStandalone A P c rules) = lookupA id (unitIdsStandalone A P c rules')) ∧
    (∀ e, (explainStandalone A P c rules maxHops dom e).map (ExplainOut.project canon) =
        (explainStandalone A P c rules' maxHops dom e).map (ExplainOut.project canon)) ∧
    (∀ I : ImpactSpec Rule Dom, (impactStandalone A P c rules I).map (Impact.project canon) =
        (impactStandalone A P c rules' I).map (Impact.project canon)) := by
  obtain ⟨hE, hW⟩ := build_perm_equiv W c rules rules' hn hp
  refine ⟨testExamples_ext hO hI hE hW maxHops dom, (unit_ids_extensional hI hE hW).2.2,
    fun e => explain_ext hI hE hW maxHops dom e, ?_⟩
  intro I
  unfold impactStandalone
  have hnf := NodupIds.filter hn (fun r => decide (P.ruleId r ≠ P.ruleId I.rule))
  have hpf := hp.filter (fun r => decide (P.ruleId r ≠ P.ruleId I.rule))
  have h := repr_build W c _ hnf
  have h' := repr_build W c _ (NodupIds.perm hnf hpf)
  have hnot : ∀ (L : List Rule), P.ruleId I.rule ∉
      ((L.filter fun r => decide (P.ruleId r ≠ P.ruleId I.rule)).reverse).map P.ruleId := by
    intro L hmem
    obtain ⟨r, hr', heq⟩ := List.mem_map.mp hmem
    have := (List.mem_filter.mp (List.mem_reverse.mp hr')).2
    simp only [decide_eq_true_eq] at this
    exact this heq
  exact impactOn_ext W hI _ _ c _ _ I h h'
    (fun x => by simp only [List.mem_reverse]; exact hpf.mem_iff) (hnot _) (hnot _) _

end

/-! ### 4. The hypotheses are met

#### 4a. `PermInv` from C11: whatever is computed from the *sorted* match vector -/

section
variable {Req Cfg Ex UId UT Core U M Dom : Type}

/-- `Action::from_routes_rule` starts with `routes.sort()`; the action, the unit-trace side effects of
the fold and everything the analyses derive from them are functions of the sorted list.  For every
pipeline of that shape the invariance hypothesis holds – this is C11 (`sort_perm_invariant`: the sorted
order is a function of the set of matched rules). -/
theorem permInv_of_sorted (P : Pipe Rio.Action.Rule Req Cfg Ex Rio.Action.RuleId UId UT Core U M Dom)
    (hid : P.ruleId = fun r => r.id)
    (gT : List Rio.Action.Rule → Req → Ex → UT) (hT : ∀ R q e, P.evalTest R q e = gT (Rio.Action.sortRules R) q e)
    (gU : List Rio.Action.Rule → Req → Ex → UT) (hU : ∀ R q e, P.evalUnit R q e = gU (Rio.Action.sortRules R) q e)
    (gE : List Rio.Action.Rule → Req → Ex → Core)
    (hE : ∀ R q e, P.evalExplain R q e = gE (Rio.Action.sortRules R) q e)
    (gH : List Rio.Action.Rule → Req → Ex → Nat × Option U)
    (hH : ∀ R q e, P.evalHop R q e = gH (Rio.Action.sortRules R) q e) : PermInv P := by
  have key : ∀ (R R' : List Rio.Action.Rule), R.Perm R' → NodupIds P.ruleId R →
      Rio.Action.sortRules R = Rio.Action.sortRules R' := by
    intro R R' hp hn
    apply Rio.C11.sort_perm_invariant Rio.C11.sortRules_lawful hp
    unfold NodupIds at hn
    rw [hid] at hn
    exact hn
  exact ⟨fun R R' q e hp hn => by rw [hT, hT, key R R' hp hn],
         fun R R' q e hp hn => by rw [hU, hU, key R R' hp hn],
         fun R R' q e hp hn => by rw [hE, hE, key R R' hp hn],
         fun R R' q e hp hn => by rw [hH, hH, key R R' hp hn]⟩

end

/-! #### 4b. `AlgLaws` from C02: W2's matcher tower, then with the handlers of the routes -/

section
open Rio.Router
variable (E : Env)

/-- W2's router model as an algebra: `Cfg = Unit` (the config is the environment `E` of the model);
`rebuild` is `Request::rebuild_with_config`, which `trace_request` applies before tracing. -/
def towerAlg (rebuild : Req → Req) : Alg (Router E) Route Req Unit (List Trace) String where
  empty _ := Router.empty E
  insert r S := S.insert E r
  remove id S := (S.remove E id).1
  applyChangeSet a u d S := S.applyChangeSet E a u d
  view S := ⟨(), S.routes.map Prod.snd, fun q => S.matchReq E q, fun q => S.trace E (rebuild q)⟩

/-- canonical projection of `match_traces`: the set of route ids `get_routes_from_traces` lists -/
def traceIds (t : List Trace) : String → Bool := idSet (fun r : Route => r.id) (routesOfList t)

theorem freshAll_iff (rs L : List Route) :
    Rio.Analysis.FreshAll (fun r : Route => r.id) rs L ↔ Rio.Router.FreshAll rs L := by
  induction rs generalizing L with
  | nil => simp [Rio.Analysis.FreshAll, Rio.Router.FreshAll]
  | cons r t ih => simp [Rio.Analysis.FreshAll, Rio.Router.FreshAll, ih]

theorem live_eq (a u : List Route) (d : List String) (L : List Route) :
    Rio.Analysis.liveChangeSet (fun r : Route => r.id) a u d L = Rio.Router.liveChangeSet a u d L := rfl

/-- **The representation laws hold of the matcher tower** (C02's `repr_*`, C01's exactness, C17's trace
agreement): `Repr S () L` is `RRepr E S L`. -/
def towerLaws' (rebuild : Req → Req) :
    AlgLaws (towerAlg E rebuild) (fun r : Route => r.id) traceIds where
  Repr S _ L := RRepr E S L
  repr_empty _ := Rio.C02.repr_empty E
  repr_insert S _ L r h hf := Rio.C02.repr_insert E S L r h hf
  repr_remove S _ L id h := by
    have := Rio.C02.repr_remove E S L id h
    have heq : L.filter (fun r => r.id != id) = L.filter (fun r => decide (r.id ≠ id)) := by
      apply List.filter_congr; intro x _
      by_cases hx : x.id = id <;> simp [hx]
    rw [heq] at this
    exact this
  repr_changeSet S _ L D h hv := by
    have := Rio.C02.repr_change_set E S L D.added D.updated D.deleted h
      ((freshAll_iff _ _).mp hv)
    exact this
  nodup S _ L h := h.ids
  config S _ L h := rfl
  routes S _ L h := h.perm
  match_nodup S _ L h q := (rrepr_nodup_match E S L h q).2
  match_sub S _ L h q x hx := Rio.C02.only_live_match E S L h q x hx
  match_perm S S' _ L L' h h' hm q := rrepr_match_perm E S S' L L' h h' hm q
  trace_canon S S' _ L L' h h' hm q := by
    have h1 := rrepr_trace_perm E S L h (rebuild q)
    have h2 := rrepr_trace_perm E S' L' h' (rebuild q)
    have hp := h1.trans ((rrepr_match_perm E S S' L L' h h' hm (rebuild q)).trans h2.symm)
    funext id
    show idSet _ (routesOfList (S.trace E (rebuild q))) id = idSet _ (routesOfList (S'.trace E (rebuild q))) id
    simp only [idSet]
    rw [Bool.eq_iff_iff]
    simp only [List.contains_iff_mem, List.mem_map]
    constructor
    · rintro ⟨r, hr, rfl⟩; exact ⟨r, hp.mem_iff.mp hr, rfl⟩
    · rintro ⟨r, hr, rfl⟩; exact ⟨r, hp.mem_iff.mpr hr, rfl⟩

/-- the same laws for any function that is (propositionally) the route id -/
theorem towerLaws_of_rid (rebuild : Req → Req) (rid : Route → String) (hrid : rid = fun r => r.id) :
    ∃ W : AlgLaws (towerAlg E rebuild) rid traceIds, ∀ S L, RRepr E S L → W.Repr S () L := by
  subst hrid
  exact ⟨towerLaws' E rebuild, fun S L h => h⟩

/-- `Router<Rule>` = the matcher tower plus the handler (`Rule`: actions, examples, …) of every
route; `Pl` is the type of handlers.  The laws carry over (`withPayloadLaws`), so sections 2 and 3
apply to change-sets that modify the *actions* of a rule while its triggers stay the same. -/
def routerLaws (Pl : Type) (rebuild : Req → Req) :
    AlgLaws (withPayload (Pl := Pl) (towerAlg E rebuild) (fun r : Route => r.id))
      (fun rp : Route × Pl => rp.1.id) traceIds :=
  withPayloadLaws (towerLaws' E rebuild)

/-- **`project_equals_standalone` for the real router shape** (tower + handlers), all four analyses:
for every pipeline `P` over rules = (route, handler) with `ruleId = route id` that satisfies `PermInv`,
every base list `B` with distinct ids, every consistent change-set `D`, and the rule list `rules` of
`apply(B, D)` in any order. -/
theorem project_equals_standalone {Pl Ex UId UT Core U M Dom : Type} [DecidableEq U] [DecidableEq M]
    (rebuild : Req → Req)
    (P : Pipe (Route × Pl) Req Unit Ex String UId UT Core U M Dom)
    (hid : P.ruleId = fun rp => rp.1.id) (hO : IdOrder P) (hI : PermInv P)
    (B : List (Route × Pl)) (hB : NodupIds P.ruleId B) (D : ChangeSet (Route × Pl) String)
    (hv : ValidChangeSet P.ruleId D B.reverse) (rules : List (Route × Pl))
    (hn : NodupIds P.ruleId rules) (hr : ∀ x, x ∈ rules ↔ x ∈ D.live P.ruleId B.reverse)
    (maxHops : Nat) (dom : Dom) :
    let A := withPayload (Pl := Pl) (towerAlg E rebuild) (fun r : Route => r.id)
    let base := A.build () B
    -- test-examples (whole output)
    testExamplesProject A P D maxHops dom base = testExamplesStandalone A P () rules maxHops dom ∧
    -- unit-ids
    (∀ id, lookupA id (unitIdsProject A P D base) = lookupA id (unitIdsStandalone A P () rules)) ∧
    -- explain
    (∀ e, (explainProject A P D maxHops dom e base).map (ExplainOut.project traceIds) =
        (explainStandalone A P () rules maxHops dom e).map (ExplainOut.project traceIds)) ∧
    -- impact
    (∀ I : ImpactSpec (Route × Pl) Dom, (impactProject A P D I base).map (Impact.project traceIds) =
        (impactStandalone A P () rules I).map (Impact.project traceIds)) := by
  intro A base
  have W : AlgLaws A P.ruleId traceIds := hid ▸ routerLaws E Pl rebuild
  have hb : W.Repr base () B.reverse := repr_build W () B hB
  have t := test_examples_project_equals_standalone W hO hI base () B.reverse D rules hb hv hn hr maxHops dom
  exact ⟨t,
    (unit_ids_project_equals_standalone W hI base () B.reverse D rules hb hv hn hr).2,
    fun e => explain_project_equals_standalone W hI base () B.reverse D rules hb hv hn hr maxHops dom e,
    fun I => impact_project_equals_standalone W hI base () B.reverse D rules hb hv hn hr I⟩

/-- The same after ANY valid history of the base router, not only a fresh build: by C02 (`repr_run`,
the invariant behind `run_equiv`) the router reached by a valid history of inserts, removals, batch
removals, change-sets and cache calls represents its live list, so the project analyses computed on it
agree with the stand-alone ones on `apply(live, D)`.  Stated for the tower without handlers (W2's
histories are over routes). -/
theorem project_equals_standalone_after_history {Ex UId UT Core U M Dom : Type}
    [DecidableEq U] [DecidableEq M] (rebuild : Req → Req)
    (P : Pipe Route Req Unit Ex String UId UT Core U M Dom) (hid : P.ruleId = fun r => r.id)
    (hO : IdOrder P) (hI : PermInv P) (h : List Op) (hvh : ValidHistory h [])
    (D : ChangeSet Route String) (hv : ValidChangeSet P.ruleId D (liveOps h []))
    (rules : List Route) (hn : NodupIds P.ruleId rules)
    (hr : ∀ x, x ∈ rules ↔ x ∈ D.live P.ruleId (liveOps h [])) (maxHops : Nat) (dom : Dom) :
    let A := towerAlg E rebuild
    let base := runOps E h (Router.empty E)
    testExamplesProject A P D maxHops dom base = testExamplesStandalone A P () rules maxHops dom ∧
    (∀ id, lookupA id (unitIdsProject A P D base) = lookupA id (unitIdsStandalone A P () rules)) ∧
    (∀ e, (explainProject A P D maxHops dom e base).map (ExplainOut.project traceIds) =
        (explainStandalone A P () rules maxHops dom e).map (ExplainOut.project traceIds)) ∧
    (∀ I : ImpactSpec Route Dom, (impactProject A P D I base).map (Impact.project traceIds) =
        (impactStandalone A P () rules I).map (Impact.project traceIds)) := by
  intro A base
  obtain ⟨W, hWr⟩ := towerLaws_of_rid E rebuild P.ruleId hid
  have hb : W.Repr base () (liveOps h []) :=
    hWr _ _ (Rio.C02.repr_run E h (Router.empty E) [] (Rio.C02.repr_empty E) hvh)
  have t := test_examples_project_equals_standalone W hO hI base () _ D rules hb hv hn hr maxHops dom
  exact ⟨t,
    (unit_ids_project_equals_standalone W hI base () _ D rules hb hv hn hr).2,
    fun e => explain_project_equals_standalone W hI base () _ D rules hb hv hn hr maxHops dom e,
    fun I => impact_project_equals_standalone W hI base () _ D rules hb hv hn hr I⟩

end

/-! ### Non-vacuity -/

section
/-- a tiny concrete world: rules = (id, path it answers, redirect target, examples); requests, urls
and examples are paths (numbers; `0` is the url no request can be built from) -/
structure XRule where
  id : Nat
  path : Nat
  target : Option Nat
  examples : Option (List Nat)
deriving DecidableEq, Repr

def xPipe : Pipe XRule Nat Unit Nat Nat Nat (List Nat) (List Nat × Option Nat) Nat Nat Unit where
  ruleId r := r.id
  idLe a b := decide (a ≤ b)
  examples r := r.examples
  fromExample _ e := if e = 0 then .error "empty url" else .ok e
  expected _ := some []
  mustMatch _ := true
  setExpected e _ := e
  url e := e
  method _ := none
  withUrlMethod _ u _ := u
  get := 0
  evalTest R _ _ := [1, 2, 3].filter fun i => R.any (·.id == i)
  evalUnit R _ _ := [1, 2, 3].filter fun i => R.any (·.id == i)
  evalExplain R _ _ := ([1, 2, 3].filter fun i => R.any (·.id == i), none)
  evalHop R _ _ :=
    (if R.any (·.target.isSome) then 301 else 200,
     [10, 20, 30].find? fun t => R.any (·.target == some t))
  ext _ _ := false
  utRuleIds ut := ut
  utUnitIds ut := ut
  utDiff ut exp := exp.filter (fun x => !ut.contains x)

/-- every evaluation of the tiny pipeline only asks which rules are *in* the match vector -/
example : PermInv xPipe :=
  ⟨fun R R' q e hp _ => by simp only [xPipe, hp.any_eq],
   fun R R' q e hp _ => by simp only [xPipe, hp.any_eq],
   fun R R' q e hp _ => by simp only [xPipe, hp.any_eq],
   fun R R' q e hp _ => by simp only [xPipe, hp.any_eq]⟩

example : IdOrder xPipe :=
  ⟨fun a b => by simp [xPipe]; omega, fun a b c h1 h2 => by simp [xPipe] at *; omega,
   fun a b h1 h2 => by simp [xPipe] at *; omega⟩

def xAlg := listAlg (Req := Nat) (Cfg := Unit) (fun r : XRule => r.id) (fun _ r q => r.path == q)

def xLaws : AlgLaws xAlg xPipe.ruleId (idSet (fun r : XRule => r.id)) := listLaws _ _

def xA : XRule := ⟨1, 10, some 20, some [10, 0]⟩
def xB : XRule := ⟨2, 20, some 10, some [20]⟩
def xB' : XRule := ⟨2, 20, some 30, some [20]⟩
def xC : XRule := ⟨3, 30, none, none⟩

/-- a project with a base router and a change-set with an update, an addition and a deletion: the
hypotheses of section 2 hold … -/
example :
    let D : ChangeSet XRule Nat := ⟨[xC], [xB'], [1]⟩
    xLaws.Repr (xAlg.build () [xA, xB]) () [xB, xA] ∧ ValidChangeSet xPipe.ruleId D [xB, xA] ∧
      D.live xPipe.ruleId [xB, xA] = [xC, xB'] := by
  intro D
  refine ⟨⟨rfl, by unfold NodupIds; decide⟩, ?_, by decide⟩
  simp [ValidChangeSet, FreshAll, D, xPipe, xA, xB, xB', xC]

/-- … and the analyses are not trivial on it: in the base project `10 → 20 → 10` is a redirect loop,
so both examples with a buildable request fail (test-examples reports the loop), and the example
`0` is an error. -/
example :
    let out := testExamples xPipe (xAlg.view (xAlg.build () [xA, xB])) 5 ()
    out.exampleCount = 2 ∧ out.failureCount = 2 ∧ out.errorCount = 1 := by
  decide

end

end Rio.C19
