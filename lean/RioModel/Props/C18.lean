/-
C18 — the C interface keeps ownership and memory contracts.

Property theorems only (model: Model/Ffi.lean, lemmas: Proofs/Ffi.lean).  The model is an abstract allocator
(id ↦ kind, size, live; faults are recorded, not hidden) plus the code of every `extern "C"` entry point in
terms of allocations, deallocations (with the size the code passes) and borrows; `pre` is the caller protocol
("each handle is released once, by its matching function; `close` consumes the filter; `body_filter_filter`
consumes its buffer").  All theorems hold for every assignment `sz` of sizes to the boxed object types and for
every value the library computes inside the objects (string lengths, produced bytes, NULL or not).

This is a proof about the bookkeeping model.  That the Rust code does what the model says is validated on every
run by harness c18: an auditing global allocator reports the real layouts, and the model has to predict, call by
call, which allocations every handle owns and their sizes.
-/
import RioModel.Proofs.Ffi
set_option linter.unusedSimpArgs false
set_option linter.unusedSectionVars false

namespace Rio.C18
open Rio.Ffi

variable (sz : Kind → Nat)

/-- everything owned by released slots aside, only trusted-proxies handles own anything -/
theorem owned_of_allReleased : ∀ (slots : List Slot),
    (∀ sl ∈ slots, sl.released = true ∨ (∃ o i, sl.h = .tproxies o i) ∨ sl.h = .alias) →
      ∀ x ∈ ownedSlots sz slots, documentedLeak x = true := by
  intro slots
  induction slots with
  | nil => intro _ x hx; simp [ownedSlots] at hx
  | cons sl rest ih =>
    intro hall x hx
    simp only [ownedSlots, List.mem_append] at hx
    rcases hx with hx | hx
    · rcases hall sl (List.mem_cons_self) with hr | ⟨o, i, hh⟩ | hal
      · simp [hr] at hx
      · split at hx
        · simp at hx
        · rw [hh] at hx
          simp only [owns, List.mem_cons, List.not_mem_nil, or_false] at hx
          rcases hx with hx | hx <;> subst hx <;> simp [documentedLeak]
      · rw [hal] at hx
        split at hx <;> simp [owns] at hx
    · exact ih (fun s hs => hall s (List.mem_cons_of_mem _ hs)) x hx

/-- **protocol_safe.**  If the caller follows the protocol, then after the whole call sequence
* the allocator has seen no fault at all: no double free, no release of an unknown pointer, no deallocation whose
  size differs from the allocation's, no use after free, no handle of the wrong type;
* the live allocations are exactly (as a multiset, with the sizes they will be released with) what the caller's
  unreleased handles own — nothing else is live, and nothing owned is dead;
* once every handle that has a release function is released, whatever is still live is the documented leak: the
  trusted-proxies pair, which the C API cannot release. -/
theorem protocol_safe (calls : List Call) (h : FollowsProtocol sz calls) :
    (run sz {} calls).heap.faults = [] ∧
    List.Perm (run sz {} calls).heap.liveList (ownedSlots sz (run sz {} calls).slots) ∧
    (AllReleased (run sz {} calls) → ∀ x ∈ (run sz {} calls).heap.liveList, documentedLeak x = true) := by
  have inv := run_inv sz calls {} (init_inv sz) h
  refine ⟨inv.noFault, inv.owned, ?_⟩
  intro hall x hx
  exact owned_of_allReleased sz _ hall x (inv.owned.subset hx)

/-- The individual readings of "no fault". -/
theorem no_double_free (calls : List Call) (h : FollowsProtocol sz calls) (id : Nat) :
    Fault.doubleFree id ∉ (run sz {} calls).heap.faults := by
  rw [(protocol_safe sz calls h).1]; simp

theorem no_use_after_free (calls : List Call) (h : FollowsProtocol sz calls) (id : Nat) :
    Fault.useAfterFree id ∉ (run sz {} calls).heap.faults := by
  rw [(protocol_safe sz calls h).1]; simp

theorem dealloc_size_eq_alloc_size (calls : List Call) (h : FollowsProtocol sz calls) (id a d : Nat) :
    Fault.sizeMismatch id a d ∉ (run sz {} calls).heap.faults := by
  rw [(protocol_safe sz calls h).1]; simp

/-- **buffer_roundtrip.**  `Buffer::from_vec` of a Vec with ANY capacity ≥ length, then `into_vec` and drop
(`redirectionio_api_buffer_drop`): the bytes come back unchanged (also through `into_vec`), no fault (in particular the block is released
with the size it has: D15 is closed), and the heap holds what it held before. -/
theorem buffer_roundtrip (h : Heap) (bytes : List Nat) (cap : Nat) :
    (fromVec (vecNew h bytes cap).1 (vecNew h bytes cap).2).2.bytes = bytes ∧
      (intoVec (fromVec (vecNew h bytes cap).1 (vecNew h bytes cap).2).2).bytes = bytes ∧
      (vecDrop (fromVec (vecNew h bytes cap).1 (vecNew h bytes cap).2).1
        (intoVec (fromVec (vecNew h bytes cap).1 (vecNew h bytes cap).2).2)).faults = h.faults ∧
      List.Perm (vecDrop (fromVec (vecNew h bytes cap).1 (vecNew h bytes cap).2).1
        (intoVec (fromVec (vecNew h bytes cap).1 (vecNew h bytes cap).2).2)).liveList h.liveList := by
  obtain ⟨hf, hl, hb, hw⟩ := make_buffer (fun _ => 0) h bytes cap
  generalize fromVec (vecNew h bytes cap).1 (vecNew h bytes cap).2 = r at hf hl hb hw ⊢
  obtain ⟨h1, b⟩ := r
  simp only at hf hl hb hw ⊢
  have hown : ∀ x ∈ owns (fun _ => 0) (.buffer b), x ∈ h1.liveList :=
    fun x hx => hl.symm.subset (List.mem_append_right _ hx)
  obtain ⟨hf2, hl2⟩ := drop_buffer (fun _ => 0) hw hown
  refine ⟨hb, ?_, by rw [hf2, hf], ?_⟩
  · obtain ⟨id, bs⟩ := b
    simp only at hb
    subst hb
    cases id with
    | none => exact (show bs = [] from hw) ▸ (by simp [intoVec])
    | some id =>
      have hne : bs ≠ [] := hw
      simp [intoVec, hne]
  · -- h1.live ~ h.live ++ owns b  and  h1.live ~ owns b ++ (after drop).live
    have e : List.Perm (owns (fun _ => 0) (.buffer b) ++ (vecDrop h1 (intoVec b)).liveList)
        (owns (fun _ => 0) (.buffer b) ++ h.liveList) :=
      (hl2.symm.trans hl).trans List.perm_append_comm
    exact (List.perm_append_left_iff _).1 e

/-- **duplicate_equal.**  Duplicating a buffer the caller holds yields equal bytes, no fault (D10 is closed: no
panic, the copy is a real copy), and the heap gains exactly the copy: the original stays live and the two can be
released independently. -/
theorem duplicate_equal (h : Heap) (b : Buffer) (hw : WfHandle (.buffer b))
    (hown : ∀ x ∈ owns sz (.buffer b), x ∈ h.liveList) :
    (duplicate h b).2.bytes = b.bytes ∧ (duplicate h b).1.faults = h.faults ∧
      List.Perm (duplicate h b).1.liveList (h.liveList ++ owns sz (.buffer (duplicate h b).2)) := by
  obtain ⟨hf, hl, hb, _⟩ := duplicate_spec sz hw hown
  exact ⟨hb, hf, hl⟩

/-- `toHeaderMap` is the reversed list of nodes. -/
theorem toHeaderMap_eq (hs : List HeaderBytes) :
    toHeaderMap hs = (hs.map fun h => (cstrOf h.1, cstrOf h.2)).reverse := by
  unfold toHeaderMap
  have : ∀ (l : List HeaderBytes) (acc : List CNode),
      l.foldl (fun cur h => (cstrOf h.1, cstrOf h.2) :: cur) acc =
        (l.map fun h => (cstrOf h.1, cstrOf h.2)).reverse ++ acc := by
    intro l
    induction l with
    | nil => intro acc; simp
    | cons x xs ih => intro acc; simp [ih]
  simp [this hs []]

/-- **headers_roundtrip.**  Handing a header list to C and reading it back gives the headers without interior
NUL, in REVERSED order … -/
theorem headers_roundtrip (hs : List HeaderBytes) :
    fromHeaderMap (toHeaderMap hs) = (hs.filter nulFree).reverse := by
  rw [toHeaderMap_eq]
  unfold fromHeaderMap
  rw [List.filterMap_reverse]
  congr 1
  induction hs with
  | nil => simp
  | cons x xs ih =>
    obtain ⟨n, v⟩ := x
    rw [List.map_cons, List.filterMap_cons, List.filter_cons, ih]
    by_cases h1 : 0 ∈ n <;> by_cases h2 : 0 ∈ v <;> simp [nulFree, cstrOf, h1, h2]

/-- **headers_roundtrip_multiset.**  … hence, for headers without interior NUL (every header that came out of an
HTTP parser), the same multiset. -/
theorem headers_roundtrip_multiset (hs : List HeaderBytes) (h : ∀ x ∈ hs, nulFree x = true) :
    List.Perm (fromHeaderMap (toHeaderMap hs)) hs := by
  rw [headers_roundtrip]
  have : hs.filter nulFree = hs := List.filter_eq_self.2 h
  rw [this]
  exact List.reverse_perm hs

/-! ### Non-vacuity: the protocol hypothesis is what rules the faults out, and D15 was one -/

section Examples
def sz8 : Kind → Nat := fun _ => 8

/-- a caller that follows the protocol over every object type -/
def goodCalls : List Call :=
  [.objNew .action true, .filterNew 0 true, .bufNew [1, 2, 3] 10, .filterFeed 1 2 [4, 5], .filterClose 1 [6],
   .headers 0 [(some 1, some 2), (some 3, none), (none, some 0)], .objSer .action 0 5, .tpNew, .tpUse 7, .strFree 6, .hlistFree 5, .bufDrop 4, .bufDrop 3,
   .objDrop .action 0]

example : FollowsProtocol sz8 goodCalls := by decide
example : (run sz8 {} goodCalls).heap.faults = [] := by decide
/-- after everything releasable is released only the trusted-proxies pair is live -/
example : (run sz8 {} goodCalls).heap.liveList = [(14, 8, .tconfig), (15, 8, .tproxies)] := by decide

/-- dropping an action twice: double free -/
example : (run sz8 {} [.objNew .action true, .objDrop .action 0, .objDrop .action 0]).heap.faults = [.doubleFree 0] := by
  decide
example : ¬ FollowsProtocol sz8 [.objNew .action true, .objDrop .action 0, .objDrop .action 0] := by decide

/-- using a filter after `close` consumed it: use after free (and a second release) -/
example : (run sz8 {} [.objNew .action true, .filterNew 0 true, .filterClose 1 [], .filterClose 1 []]).heap.faults =
    [.useAfterFree 1, .doubleFree 1] := by decide

/-- releasing the buffer that `body_filter_filter` consumed: double free -/
example : (run sz8 {} [.objNew .action true, .filterNew 0 true, .bufNew [1] 1, .filterFeed 1 2 [], .bufDrop 2]).heap.faults =
    [.doubleFree 2] := by decide

/-- … but with a NULL filter the buffer is NOT consumed (the function duplicates): both must be released -/
example : FollowsProtocol sz8 [.objNew .action false, .filterNew 0 false, .bufNew [1] 1, .filterFeed 1 2 [], .bufDrop 2, .bufDrop 3] := by
  decide

/-- `header_filter_filter(NULL action, list)` gives the caller's own list back: treating it as a returned list and freeing
it is outside the protocol and a fault (the caller would free its own input) -/
example : (run sz8 {} [.objNew .action false, .headers 0 [], .hlistFree 1]).heap.faults = [.badHandle 1] := by decide
example : ¬ FollowsProtocol sz8 [.objNew .action false, .headers 0 [], .hlistFree 1] := by decide

/-- D15, before the repair: `from_vec` forgot a Vec of capacity 10 holding 3 bytes, `into_vec` rebuilt it with
capacity 3 — the deallocation size differs from the allocation size. -/
example :
    (vecDrop (fromVecOld (vecNew {} [1, 2, 3] 10).1 (vecNew {} [1, 2, 3] 10).2).1
      (intoVec (fromVecOld (vecNew {} [1, 2, 3] 10).1 (vecNew {} [1, 2, 3] 10).2).2)).faults =
      [.sizeMismatch 0 10 3] := by decide

/-- the repaired `from_vec` on the same Vec: no fault -/
example :
    (vecDrop (fromVec (vecNew {} [1, 2, 3] 10).1 (vecNew {} [1, 2, 3] 10).2).1
      (intoVec (fromVec (vecNew {} [1, 2, 3] 10).1 (vecNew {} [1, 2, 3] 10).2).2)).faults = [] := by decide

example : fromHeaderMap (toHeaderMap [([65], [1]), ([66, 0], [2]), ([67], [3])]) = [([67], [3]), ([65], [1])] := by decide
end Examples

end Rio.C18
