/-
C11, router level — the action does not depend on the insertion order of the rules, on rebuilding the
router, nor on the history that produced the router state.

Composition of W2's router theorems (`Rio.C01.match_exact`, `match_exact_any_order`; the
representation relation `RRepr` of C02) with `Rio.C11.action_perm_invariant`.
The router model's `Route` and the action model's `Rule` are different records; the theorems take
the projection `ruleOf : Route → Rule` (`route.handler()` as the action code sees it) as a
parameter, constrained only by `HandlerOf ruleOf` (different route ids ⇒ different rule ids), see
Proofs/ActionBridge.lean.  `rq` / `draw` are the action-side request inputs and sampling draws.
-/
import RioModel.Props.C11
import RioModel.Props.C01
import RioModel.Props.C02
import RioModel.Proofs.ActionBridge
set_option linter.unusedSimpArgs false

namespace Rio.C11
open Rio.Action

/-- `action_perm_invariant` under the weakest hypothesis: no two different matched rules share both
rank and id (implied by distinct ids, and by distinct ranks). -/
theorem action_perm_invariant_key (q : Req) (draw : Rule → Nat) {R R' : List Rule}
    (h : R.Perm R') (hk : KeyInj R) : fromRoutesRule R q draw = fromRoutesRule R' q draw := by
  unfold fromRoutesRule
  have : sortRules R = sortRules R' :=
    sorted_perm_unique_key (sortRules_sorted R) (sortRules_sorted R')
      ((sortRules_perm R).trans (h.trans (sortRules_perm R').symm)) (hk.perm (sortRules_perm R).symm)
  rw [this]

/-- The action computed from what a router state returns (`Action::from_routes_rule(router.match_request(q), …)`). -/
def liveAction (E : Rio.Router.Env) (ruleOf : Rio.Router.Route → Rule) (S : Rio.Router.Router E)
    (q : Rio.Router.Req) (rq : Req) (draw : Rule → Nat) : Action :=
  fromRoutesRule ((S.matchReq E q).map ruleOf) rq draw

/-- Any two router states that represent the same set of live rules give the same action for every
request — whatever histories (insertions in any order, removals, change-sets, rebuilds) led to them. -/
theorem router_state_invariant (E : Rio.Router.Env) {ruleOf : Rio.Router.Route → Rule}
    (hb : HandlerOf ruleOf) (S S' : Rio.Router.Router E) (L L' : List Rio.Router.Route)
    (h : Rio.Router.RRepr E S L) (h' : Rio.Router.RRepr E S' L') (hm : ∀ x, x ∈ L ↔ x ∈ L')
    (q : Rio.Router.Req) (rq : Req) (draw : Rule → Nat) :
    liveAction E ruleOf S q rq draw = liveAction E ruleOf S' q rq draw := by
  unfold liveAction
  apply action_perm_invariant rq draw
  · exact (Rio.Router.rrepr_match_perm E S S' L L' h h' hm q).map ruleOf
  · exact hb.nodupIds _ (Rio.Router.rrepr_nodup_match E S L h q).2

/-- **`router_order_invariant`**: building the router from the same rules in another order yields the
same action for every request. -/
theorem router_order_invariant (E : Rio.Router.Env) {ruleOf : Rio.Router.Route → Rule}
    (hb : HandlerOf ruleOf) (R R' : List Rio.Router.Route) (hp : R'.Perm R)
    (hR : Rio.Router.NodupIds R) (q : Rio.Router.Req) (rq : Req) (draw : Rule → Nat) :
    liveAction E ruleOf (Rio.Router.Router.build E R') q rq draw =
      liveAction E ruleOf (Rio.Router.Router.build E R) q rq draw := by
  have hR' : Rio.Router.NodupIds R' := (hp.map _).nodup_iff.2 hR
  apply router_state_invariant E hb _ _ R'.reverse R.reverse
    (Rio.Router.rrepr_build E R' hR') (Rio.Router.rrepr_build E R hR)
  intro x
  simp only [List.mem_reverse]
  exact hp.mem_iff

/-- … and the action is that of the rules satisfying the flat predicate `sat` (C01), in any order. -/
theorem router_action_is_sat_action (E : Rio.Router.Env) {ruleOf : Rio.Router.Route → Rule}
    (hb : HandlerOf ruleOf) (R : List Rio.Router.Route) (hR : Rio.Router.NodupIds R)
    (q : Rio.Router.Req) (rq : Req) (draw : Rule → Nat) :
    liveAction E ruleOf (Rio.Router.Router.build E R) q rq draw =
      fromRoutesRule ((R.filter (fun r => Rio.Router.sat E R r q)).map ruleOf) rq draw := by
  unfold liveAction
  apply action_perm_invariant rq draw
  · exact (Rio.C01.match_perm_filter E R hR q).map ruleOf
  · exact hb.nodupIds _ (Rio.C01.match_exact E R hR q).1

/-- The incrementally updated router (any valid history, C02) gives the action of a router rebuilt
from scratch from the live rules. -/
theorem incremental_action_eq_rebuilt (E : Rio.Router.Env) {ruleOf : Rio.Router.Route → Rule}
    (hb : HandlerOf ruleOf) (h : List Rio.Router.Op) (hv : Rio.Router.ValidHistory h [])
    (q : Rio.Router.Req) (rq : Req) (draw : Rule → Nat) :
    liveAction E ruleOf (Rio.Router.runOps E h (Rio.Router.Router.empty E)) q rq draw =
      liveAction E ruleOf (Rio.Router.Router.build E (Rio.Router.liveOps h [])) q rq draw := by
  have hr := Rio.C02.repr_run E h _ [] (Rio.C02.repr_empty E) hv
  have hb' := Rio.Router.rrepr_build E (Rio.Router.liveOps h []) hr.ids
  apply router_state_invariant E hb _ _ _ _ hr hb'
  intro x
  simp

/-! ### Non-vacuity -/

/-- effects per route id: `r1` carries 301, `r2` carries 302 (conflicting), same rank -/
private def exEffects (id : String) : Rule :=
  { id := [], rank := 0, statusCode := if id == "r1" then some 301 else some 302, target := none,
    responseStatusCodes := none, excludeResponseStatusCodes := none, sampling := none,
    headerFilters := none, bodyFilters := none, logOverride := none, reset := none, stop := none,
    redirectUnitId := none, configurationLogUnitId := none, targetHash := none }

private def exHost : Rio.Router.Route :=
  { id := "r1", priority := 0, scheme := none, host := some (.static "a.com"), ips := none,
    methods := none, excludeMethods := none, headers := [], datetime := none, time := none,
    weekdays := none, path := .static "/a" }

private def exOther : Rio.Router.Route := { exHost with id := "r2", priority := -1, methods := some ["GET"] }

private def exReq : Rio.Router.Req :=
  { scheme := none, host := some "a.com", method := none, headers := [], ip := none, createdAt := none,
    path := "/a" }

/-- The canonical projection satisfies the bridge hypothesis; two host-bound rules with CONFLICTING
status codes both match the request; both insertion orders give the same, non-empty action — the
status of the rule applied last in (rank desc, id desc) order, i.e. of `r1` (rank 0 < rank 1). -/
example :
    let ruleOf := handlerOfRoute exEffects
    HandlerOf ruleOf ∧
    liveAction Rio.C01.exEnv ruleOf (Rio.Router.Router.build Rio.C01.exEnv [exOther, exHost]) exReq
        ⟨none, none⟩ (fun _ => 1) =
      liveAction Rio.C01.exEnv ruleOf (Rio.Router.Router.build Rio.C01.exEnv [exHost, exOther]) exReq
        ⟨none, none⟩ (fun _ => 1) ∧
    ((Rio.Router.Router.build Rio.C01.exEnv [exHost, exOther]).matchReq Rio.C01.exEnv exReq).length = 2 := by
  intro ruleOf
  refine ⟨handlerOfRoute_ok _, ?_, by decide⟩
  exact router_order_invariant _ (handlerOfRoute_ok _) _ _ (List.Perm.swap _ _ _)
    (by simp [Rio.Router.NodupIds, exHost, exOther]) _ _ _

end Rio.C11
