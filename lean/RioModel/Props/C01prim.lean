/-
C01 (primitives, package W1d) — the client-IP and date / time triggers of rule matching, concretely.

The router model (Model/RouterBase.lean, builder W2) abstracts the ip / date primitives to numbers:
`Ip` / `Cidr` (family, value, prefix length), `DRange` over whole seconds, week days as numbers; how those
numbers relate to `cidr::AnyIpCidr`, `chrono` and the texts of a rule was "differential only".  Here they
are modelled concretely (Model/Cidr.lean, Model/TimeWindow.lean: crate semantics incl. `Any`, address
families, `AnyIpCidr::new`, the parsers of the canonical texts, nanosecond instants, `NaiveTime` windows,
`Weekday` and its `Ord`), tied to the real `RouteIp` / `RouteDateTime` / `RouteTime` / `RouteWeekday` by the
`prim` cases of `./check C08`, and connected to the router model by adapters:

* `match_ip_adapter`, `match_datetime_adapter`, `match_time_adapter`, `match_weekday_adapter` – W2's numeric
  primitives compute exactly the concrete ones;
* `match_exact_prim` – `match_exact` restated for rules and requests given by the concrete primitives
  (`PrimRoute`, `PrimReq`): the rules reported are exactly those for which `satPrim` holds, where the ip and
  date triggers are `RouteIp.matchIp`, `matchDateTime`, `matchTime`, `RouteWeekday.matchDateTime` of the models.

Also the facts asked for about the primitives themselves (`contains_iff_prefix`, `contains_mono`, `not_in_range`,
family mismatch, window closed forms, boundary instants, midnight wrap, open bounds, `weekday_key_injective`).
-/
import RioModel.Props.C01
import RioModel.Proofs.Cidr
import RioModel.Proofs.TimeWindow
set_option linter.unusedSimpArgs false
set_option linter.unusedVariables false

namespace Rio.C01
open Rio.Router Rio.Cidr Rio.TimeWindow

/-! ### The client-IP primitives -/

/-- **contains_iff_prefix.**  A network contains an address of its family iff both have the same top `len` bits
(equivalently: every bit from position `w - len` upwards agrees). -/
theorem contains_iff_prefix (base len a : Nat) :
    ((AnyIpCidr.v4 base len).contains (.v4 a) = true ↔ ∀ i, 32 - len ≤ i → base.testBit i = a.testBit i) ∧
    ((AnyIpCidr.v6 base len).contains (.v6 a) = true ↔ ∀ i, 128 - len ≤ i → base.testBit i = a.testBit i) := by
  constructor
  · simp only [AnyIpCidr.contains, prefixMatch, beq_iff_eq]; exact netPart_eq_iff_bits 32 base a len
  · simp only [AnyIpCidr.contains, prefixMatch, beq_iff_eq]; exact netPart_eq_iff_bits 128 base a len

/-- For a well-formed network (zero host part, as `AnyIpCidr::new` guarantees) containment is the interval
`[base, base + 2^(w-len))`. -/
theorem contains_iff_range {base len : Nat} (h : (AnyIpCidr.v4 base len).WF) (a : Nat) :
    (AnyIpCidr.v4 base len).contains (.v4 a) = true ↔ base ≤ a ∧ a < base + 2 ^ (32 - len) := by
  simp only [AnyIpCidr.contains]; exact prefixMatch_iff_range h.2.2

/-- **contains_mono.**  A shorter prefix of the same base contains more: if the `/len` network contains `a`, so does
the `/len'` network around the same base for every `len' ≤ len` (for both families). -/
theorem contains_mono {base len len' a : Nat} (hl : len' ≤ len) :
    ((AnyIpCidr.v4 base len).contains (.v4 a) = true →
      (AnyIpCidr.v4 (netBase 32 base len') len').contains (.v4 a) = true) ∧
    ((AnyIpCidr.v6 base len).contains (.v6 a) = true →
      (AnyIpCidr.v6 (netBase 128 base len') len').contains (.v6 a) = true) := by
  constructor <;> intro h
  · simp only [AnyIpCidr.contains] at *
    have := prefixMatch_mono hl h
    unfold prefixMatch at *; rwa [netPart_netBase]
  · simp only [AnyIpCidr.contains] at *
    have := prefixMatch_mono hl h
    unfold prefixMatch at *; rwa [netPart_netBase]

/-- … and that wider network is well-formed. -/
theorem netBase_wf {base len' : Nat} (hb : base < 2 ^ 32) (hl : len' ≤ 32) :
    (AnyIpCidr.v4 (netBase 32 base len') len').WF :=
  ⟨hl, Nat.lt_of_le_of_lt (Nat.div_mul_le_self _ _) hb, hostPart_netBase _ _ _⟩

/-- **not_in_range = !in_range.** -/
theorem not_in_range (c : AnyIpCidr) (a : IpAddr) :
    (RouteIp.notInRange c).matchIp a = !(RouteIp.inRange c).matchIp a := rfl

/-- **Family mismatch.**  A V4 network contains no V6 address – not even the IPv4-mapped form `::ffff:a.b.c.d` of one
of its own addresses – and a V6 network contains no V4 address; `Any` contains everything.  So a `NotInRange` rule
on a V4 network accepts every V6 client. -/
theorem family_mismatch (base len n : Nat) :
    (AnyIpCidr.v4 base len).contains (.v6 n) = false ∧
    (AnyIpCidr.v4 base len).contains (.v6 (0xffff * 2 ^ 32 + base)) = false ∧
    (AnyIpCidr.v6 base len).contains (.v4 n) = false ∧
    AnyIpCidr.any.contains (.v4 n) = true ∧ AnyIpCidr.any.contains (.v6 n) = true ∧
    (RouteIp.notInRange (.v4 base len)).matchIp (.v6 n) = true := ⟨rfl, rfl, rfl, rfl, rfl, rfl⟩

/-- `AnyIpCidr::new` only builds well-formed networks (length ≤ width, zero host part). -/
theorem new_wf {addr : IpAddr} {len : Nat} {c : AnyIpCidr} (ha : addr.WF)
    (h : AnyIpCidr.new? addr len = some c) : c.WF := new?_wf ha h

set_option maxRecDepth 100000 in
/-- The parser on canonical texts, incl. what `Rule::route_ips` drops (host bits set, length too long). -/
example :
    parseAnyCidr "10.0.0.0/8" = some (.v4 (10 * 2 ^ 24) 8) ∧ parseAnyCidr "10.1.0.0/8" = none ∧
    parseAnyCidr "10.0.0.0/33" = none ∧ parseAnyCidr "any" = some .any ∧
    parseAnyCidr "192.168.1.7" = some (.v4 3232235783 32) ∧
    parseAnyCidr "2001:db8::/32" = some (.v6 (0x20010db8 * 2 ^ 96) 32) ∧
    routeIps (some [⟨false, "10.1.0.0/8"⟩]) = none := by decide +kernel

/-! ### Date / time windows -/

/-- **Window membership, closed form** (`RouteDateTime` and `RouteTime` share it): start inclusive, end exclusive,
a missing bound is open. -/
theorem window_closed_form (w : Window) (t : Nat) :
    w.matches t = true ↔ (∀ s, w.start = some s → s ≤ t) ∧ (∀ e, w.stop = some e → t < e) :=
  matches_iff w t

/-- **Boundary instants** of a window `[s, e)` with `s < e`: `s` is in, `e - 1` is in, `e` is out, `s - 1` is out. -/
theorem window_boundaries {s e : Nat} (h : s < e) :
    (⟨some s, some e⟩ : Window).matches s = true ∧ (⟨some s, some e⟩ : Window).matches (e - 1) = true ∧
    (⟨some s, some e⟩ : Window).matches e = false ∧ (0 < s → (⟨some s, some e⟩ : Window).matches (s - 1) = false) := by
  refine ⟨?_, ?_, ?_, ?_⟩
  · simp [Window.matches, h]
  · simp [Window.matches]; omega
  · simp [Window.matches]
  · intro hs; simp [Window.matches]; omega

/-- **Open bounds**: no bound = always; only an end = everything before it; only a start = everything from it on;
and a bound whose text does not parse is open (`from_range` logs and goes on). -/
theorem window_open_bounds (t b : Nat) :
    (⟨none, none⟩ : Window).matches t = true ∧
    ((⟨none, some b⟩ : Window).matches t = true ↔ t < b) ∧
    ((⟨some b, none⟩ : Window).matches t = true ↔ b ≤ t) := by
  simp [Window.matches]

theorem window_unparsable_bound_is_open (s : String) (stop : Option String) (h : parseDateTime s = none) :
    (dateTimeFromRange (some s) stop).start = none := by
  simp [dateTimeFromRange, h]

/-- **Midnight wrap**: `RouteTime` does not wrap – a time-of-day window whose end is not after its start (22:00–02:00)
matches no instant at all. -/
theorem time_window_wrap_empty {s e : Nat} (h : e ≤ s) (t : Nat) :
    matchTime ⟨some s, some e⟩ t = false :=
  matches_empty_of_le rfl rfl h _

/-- Time-of-day windows and week days are periodic; the week day advances by one per day. -/
theorem time_periodic (w : Window) (t : Nat) :
    matchTime w (t + nsPerDay) = matchTime w t ∧ weekdayNum (t + nsPerDay) = (weekdayNum t + 1) % 7 ∧
    weekdayNum (t + 7 * nsPerDay) = weekdayNum t :=
  ⟨matchTime_add_day w t, weekdayNum_add_day t, weekdayNum_add_week t⟩

/-- With whole-second bounds (the canonical texts) the sub-second part of the request instant never matters. -/
theorem window_floor {w : Window} (h : w.WholeSec) (t : Nat) :
    w.matches t = w.toSec.matches (t / nsPerSec) := matches_floor h t

/-- **weekday_key_injective.**  `RouteWeekday` is a `BTreeSet` key (inside `DateTimeCondition`); its order –
`Iterator::cmp` on `num_days_from_monday` – says `Equal` exactly for equal vectors, so two different week-day lists
never share a group; the order is a strict total order (asymmetric, transitive). -/
theorem weekday_key_injective (a b : RouteWeekday) : a.cmp b = .eq ↔ a = b := weekday_cmp_eq_iff a b

theorem weekday_order (a b c : RouteWeekday) :
    (a.cmp b = .lt ↔ b.cmp a = .gt) ∧ (a.cmp b = .lt → b.cmp c = .lt → a.cmp c = .lt) :=
  ⟨cmpNums_swap _ _, cmpNums_lt_trans⟩

set_option maxRecDepth 100000 in
example :
    parseDateTime "2024-02-29T12:34:56Z" = some (1709210096 * nsPerSec) ∧
    parseDateTime "2024-03-01T00:00:00.5+01:00" = some (1709247600 * nsPerSec + 500000000) ∧
    parseDateTime "2024-02-30T00:00:00Z" = none ∧
    (parseDateTime "2024-02-29T12:34:56Z").map TimeWindow.weekdayOf = some Weekday.thu ∧
    parseNaiveTime "22:00:00" = some (79200 * nsPerSec) ∧
    matchTime (timeFromRange (some "22:00:00") (some "02:00:00")) (1709247600 * nsPerSec) = false ∧
    (RouteWeekday.fromWeekdays ["Mon", "tuesday", "xyz"]) = some ⟨[.mon, .tue]⟩ ∧
    RouteWeekday.fromWeekdays ["xyz"] = none := by decide +kernel

/-! ### Adapters to the router model -/

/-- `std::net::IpAddr` as the router model's `Ip`. -/
def toIp (a : IpAddr) : Ip := ⟨a.isV6, a.val⟩

/-- `AnyIpCidr` as router-model networks (`Any` = the two `/0` networks). -/
def ofCidr : AnyIpCidr → List Router.Cidr
  | .any => [⟨false, 0, 0⟩, ⟨true, 0, 0⟩]
  | .v4 b l => [⟨false, b, l⟩]
  | .v6 b l => [⟨true, b, l⟩]

/-- `RouteIp` as router-model entries (`NotInRange(Any)` accepts nothing: no entry). -/
def ofRouteIp : Cidr.RouteIp → List Router.RouteIp
  | .inRange c => (ofCidr c).map .inRange
  | .notInRange .any => []
  | .notInRange (.v4 b l) => [.notInRange ⟨false, b, l⟩]
  | .notInRange (.v6 b l) => [.notInRange ⟨true, b, l⟩]

theorem router_contains_v4 (b l a : Nat) :
    Router.Cidr.contains ⟨false, b, l⟩ ⟨false, a⟩ = prefixMatch 32 b a l := by
  simp only [Router.Cidr.contains, prefixMatch, netPart, beq_self_eq_true, Bool.true_and, Bool.false_eq_true,
    if_false]
  rw [Bool.eq_iff_iff]; simp only [beq_iff_eq]; exact eq_comm

theorem router_contains_v6 (b l a : Nat) :
    Router.Cidr.contains ⟨true, b, l⟩ ⟨true, a⟩ = prefixMatch 128 b a l := by
  simp only [Router.Cidr.contains, prefixMatch, netPart, beq_self_eq_true, Bool.true_and, if_true]
  rw [Bool.eq_iff_iff]; simp only [beq_iff_eq]; exact eq_comm

/-- **match_ip_adapter.**  The router model's numeric containment test computes `RouteIp::match_ip`. -/
theorem match_ip_adapter (k : Cidr.RouteIp) (a : IpAddr) (ha : a.WF) :
    (ofRouteIp k).any (fun x => x.matchIp (toIp a)) = k.matchIp a := by
  have h32 : ∀ n, n < 2 ^ 32 → Router.Cidr.contains ⟨false, 0, 0⟩ ⟨false, n⟩ = true := by
    intro n hn
    simp only [Router.Cidr.contains, beq_self_eq_true, Bool.true_and, Bool.false_eq_true, if_false, beq_iff_eq]
    rw [Nat.div_eq_of_lt hn]
  have h128 : ∀ n, n < 2 ^ 128 → Router.Cidr.contains ⟨true, 0, 0⟩ ⟨true, n⟩ = true := by
    intro n hn
    simp only [Router.Cidr.contains, beq_self_eq_true, Bool.true_and, if_true, beq_iff_eq]
    rw [Nat.div_eq_of_lt hn]
  cases a with
  | v4 n =>
    have hn : n < 2 ^ 32 := ha
    cases k with
    | inRange c =>
      cases c with
      | any => simp [ofRouteIp, ofCidr, toIp, IpAddr.isV6, IpAddr.val, Router.RouteIp.matchIp, Cidr.RouteIp.matchIp,
          AnyIpCidr.contains, h32 n hn]
      | v4 b l => simp [ofRouteIp, ofCidr, toIp, IpAddr.isV6, IpAddr.val, Router.RouteIp.matchIp,
          Cidr.RouteIp.matchIp, AnyIpCidr.contains, router_contains_v4]
      | v6 b l => simp [ofRouteIp, ofCidr, toIp, IpAddr.isV6, IpAddr.val, Router.RouteIp.matchIp,
          Cidr.RouteIp.matchIp, AnyIpCidr.contains, Router.Cidr.contains]
    | notInRange c =>
      cases c with
      | any => simp [ofRouteIp, Cidr.RouteIp.matchIp, AnyIpCidr.contains]
      | v4 b l => simp [ofRouteIp, toIp, IpAddr.isV6, IpAddr.val, Router.RouteIp.matchIp, Cidr.RouteIp.matchIp,
          AnyIpCidr.contains, router_contains_v4]
      | v6 b l => simp [ofRouteIp, toIp, IpAddr.isV6, IpAddr.val, Router.RouteIp.matchIp, Cidr.RouteIp.matchIp,
          AnyIpCidr.contains, Router.Cidr.contains]
  | v6 n =>
    have hn : n < 2 ^ 128 := ha
    cases k with
    | inRange c =>
      cases c with
      | any => simp [ofRouteIp, ofCidr, toIp, IpAddr.isV6, IpAddr.val, Router.RouteIp.matchIp, Cidr.RouteIp.matchIp,
          AnyIpCidr.contains, h128 n hn]
      | v4 b l => simp [ofRouteIp, ofCidr, toIp, IpAddr.isV6, IpAddr.val, Router.RouteIp.matchIp,
          Cidr.RouteIp.matchIp, AnyIpCidr.contains, Router.Cidr.contains]
      | v6 b l => simp [ofRouteIp, ofCidr, toIp, IpAddr.isV6, IpAddr.val, Router.RouteIp.matchIp,
          Cidr.RouteIp.matchIp, AnyIpCidr.contains, router_contains_v6]
    | notInRange c =>
      cases c with
      | any => simp [ofRouteIp, Cidr.RouteIp.matchIp, AnyIpCidr.contains]
      | v4 b l => simp [ofRouteIp, toIp, IpAddr.isV6, IpAddr.val, Router.RouteIp.matchIp, Cidr.RouteIp.matchIp,
          AnyIpCidr.contains, Router.Cidr.contains]
      | v6 b l => simp [ofRouteIp, toIp, IpAddr.isV6, IpAddr.val, Router.RouteIp.matchIp, Cidr.RouteIp.matchIp,
          AnyIpCidr.contains, router_contains_v6]

/-- A window (ns, whole-second bounds) as the router model's `DRange` (seconds). -/
def ofWindow (w : Window) : DRange := ⟨w.start.map (· / nsPerSec), w.stop.map (· / nsPerSec)⟩

theorem drange_eq_window (w : Window) (t : Nat) : (ofWindow w).matchInstant t = w.toSec.matches t := by
  obtain ⟨start, stop⟩ := w
  cases start <;> cases stop <;> rfl

/-- **match_datetime_adapter.** -/
theorem match_datetime_adapter {w : Window} (h : w.WholeSec) (t : Nat) :
    (ofWindow w).matchInstant (t / nsPerSec) = matchDateTime w t := by
  rw [drange_eq_window, matchDateTime, matches_floor h]

/-- **match_time_adapter.** -/
theorem match_time_adapter {w : Window} (h : w.WholeSec) (t : Nat) :
    (ofWindow w).matchInstant (Router.timeOfDay (t / nsPerSec)) = matchTime w t := by
  rw [drange_eq_window, matchTime, matches_floor h, timeOfDay_div]; rfl

theorem num_ofNum {n : Nat} (h : n < 7) : (Weekday.ofNum n).num = n := by
  unfold Weekday.ofNum
  have : n % 7 = n := Nat.mod_eq_of_lt h
  rw [this]
  match n, h with
  | 0, _ => rfl | 1, _ => rfl | 2, _ => rfl | 3, _ => rfl | 4, _ => rfl | 5, _ => rfl | 6, _ => rfl

/-- **match_weekday_adapter.** -/
theorem match_weekday_adapter (r : RouteWeekday) (t : Nat) :
    (r.days.map Weekday.num).contains (Router.weekdayOf (t / nsPerSec)) = r.matchDateTime t := by
  have hw : Router.weekdayOf (t / nsPerSec) = weekdayNum t := by
    rw [weekdayNum_div]; rfl
  rw [hw, RouteWeekday.matchDateTime, TimeWindow.weekdayOf, Bool.eq_iff_iff]
  simp only [List.contains_iff_mem, List.mem_map]
  constructor
  · rintro ⟨d, hd, hn⟩
    have : d = Weekday.ofNum (weekdayNum t) := by rw [← hn, ofNum_num]
    rw [← this]; exact hd
  · intro h
    exact ⟨_, h, num_ofNum (weekdayNum_lt t)⟩

theorem any_congr_mem {α : Type} {l : List α} {f g : α → Bool} (h : ∀ a ∈ l, f a = g a) : l.any f = l.any g := by
  induction l with
  | nil => rfl
  | cons a l ih => simp only [List.any_cons]; rw [h a (by simp), ih fun b hb => h b (by simp [hb])]

/-! ### `match_exact` for rules and requests given by the concrete primitives -/

/-- A rule whose ip / date triggers are the concrete primitives (the other fields are those of `base`). -/
structure PrimRoute where
  base : Route
  ips : Option (List Cidr.RouteIp)
  datetime : Option (List Window)
  time : Option (List Window)
  weekdays : Option RouteWeekday

/-- A request whose client address and instant are concrete (`IpAddr`, ns since the epoch). -/
structure PrimReq where
  base : Req
  ip : Option IpAddr
  instant : Option Nat

def PrimRoute.toRoute (r : PrimRoute) : Route :=
  { r.base with
    ips := r.ips.map fun ks => ks.flatMap ofRouteIp
    datetime := r.datetime.map fun ws => ws.map ofWindow
    time := r.time.map fun ws => ws.map ofWindow
    weekdays := r.weekdays.map fun wd => wd.days.map Weekday.num }

def PrimReq.toReq (q : PrimReq) : Req :=
  { q.base with ip := q.ip.map toIp, createdAt := q.instant.map (· / nsPerSec) }

/-- Well-formedness: addresses are values of their type, window bounds whole seconds (the canonical texts). -/
def PrimRoute.WF (r : PrimRoute) : Prop :=
  (∀ ws, r.datetime = some ws → ∀ w ∈ ws, w.WholeSec) ∧ (∀ ws, r.time = some ws → ∀ w ∈ ws, w.WholeSec)

def PrimReq.WF (q : PrimReq) : Prop := ∀ a, q.ip = some a → a.WF

/-- The client-IP trigger, concretely: some listed `RouteIp` accepts the address (`RouteIp::match_ip`). -/
def ipPrim (r : PrimRoute) (q : PrimReq) : Bool :=
  match r.ips with
  | none => true
  | some ks =>
    match q.ip with
    | none => false
    | some a => ks.any fun k => k.matchIp a

/-- The date / time-of-day / week-day triggers, concretely. -/
def datePrim (r : PrimRoute) (q : PrimReq) : Bool :=
  (match r.datetime with
   | none => true
   | some ws =>
     match q.instant with
     | none => false
     | some t => ws.any fun w => matchDateTime w t) &&
  (match r.time with
   | none => true
   | some ws =>
     match q.instant with
     | none => false
     | some t => ws.any fun w => matchTime w t) &&
  (match r.weekdays with
   | none => true
   | some wd =>
     match q.instant with
     | none => false
     | some t => wd.matchDateTime t)

theorem ipOk_prim (r : PrimRoute) (q : PrimReq) (hq : q.WF) : ipOk r.toRoute q.toReq = ipPrim r q := by
  unfold ipOk ipPrim PrimRoute.toRoute PrimReq.toReq
  cases hi : r.ips with
  | none => simp
  | some ks =>
    cases ha : q.ip with
    | none => simp
    | some a =>
      simp only [Option.map_some, List.any_flatMap]
      congr 1
      funext k
      exact match_ip_adapter k a (hq a ha)

theorem dateOk_prim (r : PrimRoute) (q : PrimReq) (hr : r.WF) : dateOk r.toRoute q.toReq = datePrim r q := by
  unfold dateOk datePrim PrimRoute.toRoute PrimReq.toReq
  congr 1
  · congr 1
    · cases hd : r.datetime with
      | none => simp
      | some ws =>
        cases ht : q.instant with
        | none => simp
        | some t =>
          simp only [Option.map_some, List.any_map]
          apply any_congr_mem
          intro w hw
          exact match_datetime_adapter (hr.1 ws hd w hw) t
    · cases hd : r.time with
      | none => simp
      | some ws =>
        cases ht : q.instant with
        | none => simp
        | some t =>
          simp only [Option.map_some, List.any_map]
          apply any_congr_mem
          intro w hw
          exact match_time_adapter (hr.2 ws hd w hw) t
  · cases hd : r.weekdays with
    | none => simp
    | some wd =>
      cases ht : q.instant with
      | none => simp
      | some t =>
        simp only [Option.map_some]
        exact match_weekday_adapter wd t

/-- All seven triggers with the concrete ip / date primitives. -/
def triggersPrim (E : Env) (r : PrimRoute) (q : PrimReq) : Bool :=
  schemeOk r.base q.base && hostOk E r.base q.base && ipPrim r q && methodOk r.base q.base &&
    headersOk E r.base q.base && datePrim r q && pathOk E r.base q.base

theorem triggersOk_prim (E : Env) (r : PrimRoute) (q : PrimReq) (hr : r.WF) (hq : q.WF) :
    triggersOk E r.toRoute q.toReq = triggersPrim E r q := by
  unfold triggersOk triggersPrim
  rw [ipOk_prim r q hq, dateOk_prim r q hr]
  rfl

/-- `sat` with the concrete primitives. -/
def satPrim (E : Env) (R : List PrimRoute) (r : PrimRoute) (q : PrimReq) : Bool :=
  triggersPrim E r q &&
    (hostBound r.base || E.alwaysAnyHost ||
      !(R.any fun r' => hostBound r'.base && schemeKey r'.base == schemeKey r.base && triggersPrim E r' q))

theorem sat_prim (E : Env) (R : List PrimRoute) (r : PrimRoute) (q : PrimReq)
    (hR : ∀ r' ∈ R, r'.WF) (hr : r.WF) (hq : q.WF) :
    sat E (R.map PrimRoute.toRoute) r.toRoute q.toReq = satPrim E R r q := by
  unfold sat satPrim
  rw [triggersOk_prim E r q hr hq, List.any_map]
  congr 2
  congr 1
  apply any_congr_mem
  intro r' hr'
  simp only [Function.comp]
  rw [triggersOk_prim E r' q (hR r' hr') hq]
  rfl

/-- **match_exact_prim.**  `match_exact` for rules and requests given by the concrete primitives: for every list of
rules with distinct ids, every rule is reported at most once, and a rule is reported iff it is in the list and
`satPrim` holds – where the client-IP trigger is `RouteIp::match_ip` on `cidr::AnyIpCidr` (incl. `Any`, the address
families) and the date triggers are `RouteDateTime` / `RouteTime` / `RouteWeekday::match_datetime` on nanosecond
instants. -/
theorem match_exact_prim (E : Env) (R : List PrimRoute) (hR : NodupIds (R.map PrimRoute.toRoute))
    (hW : ∀ r ∈ R, r.WF) (q : PrimReq) (hq : q.WF) :
    (((Router.build E (R.map PrimRoute.toRoute)).matchReq E q.toReq).map (·.id)).Nodup ∧
    ∀ r' : Route, r' ∈ (Router.build E (R.map PrimRoute.toRoute)).matchReq E q.toReq ↔
      ∃ r ∈ R, r.toRoute = r' ∧ satPrim E R r q = true := by
  obtain ⟨h1, h2⟩ := match_exact E (R.map PrimRoute.toRoute) hR q.toReq
  refine ⟨h1, fun r' => ?_⟩
  rw [h2 r', List.mem_map]
  constructor
  · rintro ⟨⟨r, hr, rfl⟩, hs⟩
    exact ⟨r, hr, rfl, by rw [← sat_prim E R r q hW (hW r hr) hq]; exact hs⟩
  · rintro ⟨r, hr, rfl, hs⟩
    exact ⟨⟨r, hr, rfl⟩, by rw [sat_prim E R r q hW (hW r hr) hq]; exact hs⟩

end Rio.C01
