/-
C05, the unit trace — `action::UnitTrace` and every place the library feeds it.

Model: Model/UnitTrace.lean (`UnitTrace` with its methods; the fold, the four observers, the five
header actions and the text-filter chain with an `Option UnitTrace` threaded through exactly where the
code passes `Option<&mut UnitTrace>`).  Tied to the code by harness c05 / drv_c05: every case also runs
`from_routes_rule` and the observer sequence with a real `UnitTrace` and compares its serialised
content before and after `squash_with_target_unit_traces`, `diff` and `rule_ids_contains` with the
model (and checks on the implementation that no returned value changes: oracle `trace-interference`).

What is proved
* non-interference: nothing any observer returns, and no action state, depends on the trace argument;
* the trace is write-only: the trace after = the trace before with a list of writes applied that is
  computed from the action alone; closed forms of these writes over the contributing rules;
* `rule_ids_applied` in closed form, attribution of every applied unit id to a matched rule;
* `squash` (override vs add under one target) and `diff` (set difference).

How this instantiates W4's abstract `UT` (Model/LoopAnalysis.lean, Props/C19b.lean): `UT := UnitTrace`,
`utRuleIds t = t.ruleIdsApplied`, `utUnitIds t = t.unitIdsApplied`, `utDiff = UnitTrace.diff`;
`evalUnit` / `evalTest` are `proxyPipeline false` / `proxyPipeline true` below, up to the body stage:
the api pipelines feed an HTML probe body through HTML filters, whose trace writes live inside W6's
chain model and are NOT modelled here (the body stage of this file is the text-filter chain).
-/
import RioModel.Proofs.UnitTrace
import RioModel.Props.C05
set_option linter.unusedSimpArgs false

namespace Rio.C05
open Rio.Action Rio.Action.Spec

/-! ### Non-interference -/

/-- `from_routes_rule` computes the same action with and without a trace. -/
theorem fold_non_interference (R : List Rule) (q : Req) (draw : Rule → Nat) (t : Option UnitTrace) :
    (fromRoutesRuleT R q draw t).1 = fromRoutesRule R q draw :=
  foldRoutesT_fst q draw Action.empty t (sortRules R)

/-- Each observer returns the same value and leaves the same action, whatever trace it is given. -/
theorem observer_non_interference (lower : String → String) (showId : RuleId → String) (a : Action)
    (hs : List Rio.Header.Header) (allow add : Bool) (c fb : Nat) (t : Option UnitTrace) :
    (a.getStatusCodeT c t).1 = a.getStatusCode c ∧
    (a.getFinalT c fb t).1 = a.getFinalStatusCodeWithFallback c fb ∧
    (a.filterHeadersFullT lower showId hs c add t).1 = a.filterHeadersFull lower showId hs c add ∧
    (a.shouldLogRequestT allow c t).1 = a.shouldLogRequest allow c :=
  ⟨getStatusCodeT_fst a c t, getFinalT_fst a c fb t, filterHeadersFullT_fst lower showId a hs c add t,
   shouldLogRequestT_fst a allow c t⟩

/-- The five header actions and the header pipeline: same headers as the untraced pipeline of C13. -/
theorem header_pipeline_non_interference (lower : String → String) (fs : List HeaderFilter)
    (hs : List Rio.Header.Header) (t : Option UnitTrace) :
    (filterHeadersT lower fs hs t).1 = Rio.Header.filterHeaders lower (fs.map toHeaderOp) hs :=
  filterHeadersT_fst lower fs hs t

/-- The text-filter chain: same body. -/
theorem text_chain_non_interference (fs : List BodyFilter) (body : String) (t : Option UnitTrace) :
    (ProbeT.runChain (ProbeT.chainOf fs) body t).1 = Probe.runChain (Probe.chainOf fs) body :=
  ProbeT.runChain_fst fs body t

/-- **Non-interference of a whole pipeline**: for every sequence of observer calls, every returned
value, the applied-rule ids after each call and the final action are the same with any trace as with
`None`; and with `None` no trace appears. -/
theorem trace_non_interference (env : EnvT) (c : Nat) (a : Action) (t : Option UnitTrace) (ops : List Op) :
    (runOpsT env c a t ops).1 = (runOpsT env c a none ops).1 ∧
    (runOpsT env c a t ops).2.1 = (runOpsT env c a none ops).2.1 ∧
    (runOpsT env c a none ops).2.2 = none :=
  ⟨(runOpsT_fst env c a t ops).1, (runOpsT_fst env c a t ops).2, runOpsT_none env c a ops⟩

/-- … and the applied-rule ids it reports are those of the untraced observers of C05. -/
theorem traced_applied_ids (env : EnvT) (c : Nat) (a : Action) (t : Option UnitTrace) (ops : List Op) :
    (runOpsT env c a t ops).1.map (·.2) = (runOps env.allowLogConfig c a ops).map (·.2) := by
  induction ops generalizing a t with
  | nil => rfl
  | cons op rest ih =>
    simp only [runOpsT, runOps, List.map_cons, runOpT_action]
    rw [ih]

/-! ### The trace is write-only -/

/-- The trace after the fold = the trace before + the `configuration::reset` / `configuration::stop`
writes of the effective reset rules reached and of the effective stop rule (`foldOps`). -/
theorem fold_trace (R : List Rule) (q : Req) (draw : Rule → Nat) (t : UnitTrace) :
    (fromRoutesRuleT R q draw (some t)).2 = some (t.applyAll (foldOps q draw (sortRules R))) :=
  foldRoutesT_snd q draw Action.empty t (sortRules R)

/-- The trace after any observer sequence = the trace before + a list of writes that depends on the
action, the response code and the arguments only — never on the trace. -/
theorem trace_is_write_only (env : EnvT) (c : Nat) (a : Action) (t : UnitTrace) (ops : List Op) :
    (runOpsT env c a (some t) ops).2.2 = some (t.applyAll (seqOps env c a ops)) :=
  runOpsT_snd env c a t ops

/-! ### The writes, over the contributing rules -/

/-- `get_status_code`: the rule the status is attributed to (`statusAt`), and — whenever some rule is
applied, primary or fallback — the redirect unit of the PRIMARY status rule under target `status_code`. -/
theorem status_writes (q : Req) (C : List Rule) (s : List RuleId) (c : Nat) :
    statusOps (withApplied (Spec.action q C) s) c =
      match primaryFallback carriesStatus C with
      | none => []
      | some (p, _) =>
        match (statusAt C c).2 with
        | none => []
        | some id =>
          .ruleId id :: (match p.redirectUnitId with | some u => [.addWithTarget "status_code" u] | none => []) := by
  unfold statusOps
  simp only [withApplied, Spec.action]
  cases h : primaryFallback carriesStatus C with
  | none => rfl
  | some pf =>
    obtain ⟨p, fb⟩ := pf
    have hst : (statusUpdateOf p fb).getStatusCode c = statusAt C c := by
      unfold statusAt
      simp only [h, statusUpdate_table]
      rfl
    simp only [Option.map_some, hst]
    cases (statusAt C c).2 with
    | none => rfl
    | some id =>
      simp only [statusUpdateOf]
      cases p.redirectUnitId <;> rfl

/-- `should_log_request`: the log unit under `configuration::log` iff the PRIMARY log rule admits the
code (`handled`); the unit is the fallback rule's when there is a fallback (the quirk of `merge`). -/
theorem log_writes (q : Req) (C : List Rule) (s : List RuleId) (c : Nat) :
    logOps (withApplied (Spec.action q C) s) c =
      match primaryFallback carriesLog C with
      | none => []
      | some (p, fb) =>
        if admits p c then
          configUnitOps (match fb with | some f => f.configurationLogUnitId | none => p.configurationLogUnitId)
            "configuration::log"
        else [] := by
  unfold logOps
  simp only [withApplied, Spec.action]
  cases h : primaryFallback carriesLog C with
  | none => rfl
  | some pf =>
    obtain ⟨p, fb⟩ := pf
    simp only [Option.map_some, logOverrideOf]
    have : (Rio.Consts.logGetLogOverride (p.logOverride.getD false) (codesOf p) (exclOf p)
        (fb.map fun q => q.logOverride.getD false) (some p.id) (fb.map (·.id)) c).2.2 = admits p c := by
      unfold Rio.Consts.logGetLogOverride admits
      simp only [any_eq_contains]
      cases hc : codesOf p with
      | nil => simp
      | cons x xs => cases exclOf p <;> cases (x :: xs).contains c <;> simp
    rw [this]
    cases fb <;> rfl

/-- `filter_headers`: the writes of the header actions over the filters selected for the code
(`headerFiltersAt`: those of the contributing rules admitting it, in order), run on the headers as they
evolve; then the applied-rule ids, in `LinkedHashSet` order. -/
theorem header_writes (lower : String → String) (q : Req) (C : List Rule) (d : List RuleId)
    (hs : List Rio.Header.Header) (c : Nat) :
    filterHeadersOps lower (withApplied (Spec.action q C) (dedupLast d)) hs c =
      headerOps lower (headerFiltersAt q C c) hs ++
        (dedupLast (d ++ insertedBy q C c .headers)).map TOp.ruleId := by
  unfold filterHeadersOps
  rw [filterHeaders_spec, foldl_lhsInsert_dedupLast]
  rfl

/-- **`rule_ids_applied` in closed form**: after the fold and any observer sequence on a fresh trace,
it is the `LinkedHashSet` (keep the last occurrence) of the rule ids written, in order. -/
theorem rule_ids_applied_closed_form (ops : List TOp) :
    (UnitTrace.empty.applyAll ops).ruleIdsApplied = dedupLast (ops.filterMap TOp.rule?) := by
  rw [applyAll_ruleIds]
  exact foldl_lhsInsert_nil _

/-- In the proxy order the rule ids recorded by `filter_headers` are exactly
`get_applied_rule_ids()` at that moment (C05 `observations_eq_spec` gives its closed form). -/
theorem header_rule_ids (lower : String → String) (a : Action) (hs : List Rio.Header.Header) (c : Nat) :
    (filterHeadersOps lower a hs c).filterMap TOp.rule? = (a.filterHeaders c true).action.rulesApplied := by
  unfold filterHeadersOps
  rw [List.filterMap_append]
  have h1 : ∀ l : List RuleId, (l.map TOp.ruleId).filterMap TOp.rule? = l := by
    intro l; induction l <;> simp_all [TOp.rule?]
  have h2 : (headerOps lower (a.filterHeaders c true).filters hs).filterMap TOp.rule? = [] := by
    rw [List.filterMap_eq_nil_iff]
    intro op hop
    unfold headerOps at hop
    have key : ∀ (l : List (HeaderFilter × Rio.Header.Act)) hs, ∀ op ∈ pipelineOps lower l hs, op.rule? = none := by
      intro l
      induction l with
      | nil => intro hs op h; cases h
      | cons fa rest ih =>
        intro hs op h
        simp only [pipelineOps, List.mem_append] at h
        rcases h with h | h
        · have hu : ∀ add v, ∀ op ∈ headerUnitOps add fa.1 v, op.rule? = none := by
            intro add v op h
            unfold headerUnitOps at h
            cases hid : fa.1.id with
            | none => simp [hid] at h
            | some id =>
              simp only [hid, List.mem_cons] at h
              rcases h with rfl | h
              · rfl
              · cases hth : fa.1.targetHash with
                | none => simp [hth] at h
                | some th =>
                  simp only [hth, List.mem_singleton] at h
                  subst h
                  cases add <;> rfl
          cases hact : fa.2 with
          | add n v => rw [hact] at h; exact hu _ _ op h
          | remove n => rw [hact] at h; exact hu _ _ op h
          | replace n v =>
            rw [hact] at h
            simp only [actOps, List.mem_flatMap] at h
            obtain ⟨_, _, h⟩ := h
            exact hu _ _ op h
          | override n v => rw [hact] at h; exact hu _ _ op h
          | default n v =>
            rw [hact] at h
            simp only [actOps] at h
            split at h
            · exact hu _ _ op h
            · cases h
        · exact ih _ op h
    exact key _ hs op hop
  rw [h1, h2, List.nil_append]

/-! ### Attribution of unit ids -/

/-- Where an applied unit id can come from, for response code `c`: `S` = the matched rules sorted,
`C` = the contributing rules. -/
inductive UnitSource (q : Req) (draw : Rule → Nat) (S : List Rule) (c : Nat) (u : String) : Prop
  /-- `configuration_reset_unit_id` of an effective `reset` or `stop` rule (contributing or not: a reset
  rule that was itself discarded by a later reset still reports its unit) -/
  | config (r : Rule) : r ∈ S → effective q draw r = true → (isReset r = true ∨ isStop r = true) →
      r.configurationResetUnitId = some u → UnitSource q draw S c u
  /-- `redirect_unit_id` of a contributing rule carrying a status code -/
  | status (r : Rule) : r ∈ contributing q draw S → carriesStatus r = true → r.redirectUnitId = some u →
      UnitSource q draw S c u
  /-- `id` of a header filter (incl. the `Location` filter, whose id is the redirect unit) of a contributing
  rule whose condition admits `c` -/
  | header (r : Rule) (f : HeaderFilterAction) : r ∈ contributing q draw S → admits r c = true →
      f ∈ ruleHeaderFilters q r → f.filter.id = some u → UnitSource q draw S c u
  /-- `id` of a text body filter of a contributing rule whose condition admits `c` -/
  | body (r : Rule) (tf : TextBodyFilter) : r ∈ contributing q draw S → admits r c = true →
      (∃ f ∈ ruleBodyFilters r, f.filter = .text tf) → tf.id = some u → UnitSource q draw S c u
  /-- `configuration_log_unit_id` of a contributing rule carrying a log override -/
  | log (r : Rule) : r ∈ contributing q draw S → carriesLog r = true → r.configurationLogUnitId = some u →
      UnitSource q draw S c u

theorem foldOps_units (q : Req) (draw : Rule → Nat) (S : List Rule) (op : TOp) (u : String)
    (hop : op ∈ foldOps q draw S) (hu : op.unit? = some u) :
    ∃ r ∈ S, effective q draw r = true ∧ (isReset r = true ∨ isStop r = true) ∧
      r.configurationResetUnitId = some u := by
  induction S with
  | nil => cases hop
  | cons r rest ih =>
    unfold foldOps at hop
    have hcfg : ∀ target, op ∈ configUnitOps r.configurationResetUnitId target →
        r.configurationResetUnitId = some u := by
      intro target h
      unfold configUnitOps at h
      cases hcu : r.configurationResetUnitId with
      | none => simp [hcu] at h
      | some x =>
        simp only [hcu, List.mem_singleton] at h
        subst h
        simp only [TOp.unit?, Option.some.injEq] at hu
        rw [hu]
    cases he : effective q draw r
    · simp only [he, Bool.false_eq_true, if_false] at hop
      obtain ⟨x, hx, h⟩ := ih hop
      exact ⟨x, List.mem_cons_of_mem _ hx, h⟩
    · simp only [he, if_true, List.mem_append] at hop
      rcases hop with h | h
      · cases hr : isReset r
        · simp [hr] at h
        · simp only [hr, if_true] at h
          exact ⟨r, by simp, he, .inl hr, hcfg _ h⟩
      · cases hs : isStop r
        · simp only [hs, Bool.false_eq_true, if_false] at h
          obtain ⟨x, hx, h'⟩ := ih h
          exact ⟨x, List.mem_cons_of_mem _ hx, h'⟩
        · simp only [hs, if_true] at h
          exact ⟨r, by simp, he, .inr hs, hcfg _ h⟩

/-- The unit ids one observer call can write, on the action the specification describes. -/
theorem opOps_units (env : EnvT) (q : Req) (draw : Rule → Nat) (S : List Rule) (c : Nat) (d : List RuleId)
    (op : Op) (w : TOp) (u : String)
    (hw : w ∈ opOps env c (withApplied (Spec.action q (contributing q draw S)) (dedupLast d)) op)
    (hu : w.unit? = some u) : UnitSource q draw S c u := by
  have hstatus : ∀ (s : List RuleId) (c' : Nat) (w : TOp), w.unit? = some u →
      w ∈ statusOps (withApplied (Spec.action q (contributing q draw S)) s) c' → UnitSource q draw S c u := by
    intro s c' w hu hw
    rw [status_writes] at hw
    cases hpf : primaryFallback carriesStatus (contributing q draw S) with
    | none => simp [hpf] at hw
    | some pf =>
      obtain ⟨p, fb⟩ := pf
      have hm := primaryFallback_mem carriesStatus _ p fb hpf
      simp only [hpf] at hw
      cases hid : (statusAt (contributing q draw S) c').2 with
      | none => simp [hid] at hw
      | some id =>
        simp only [hid, List.mem_cons] at hw
        rcases hw with rfl | hw
        · cases hu
        · cases hru : p.redirectUnitId with
          | none => simp [hru] at hw
          | some x =>
            simp only [hru, List.mem_singleton] at hw
            subst hw
            simp only [TOp.unit?, Option.some.injEq] at hu
            exact .status p hm.1.1 hm.1.2 (by rw [hru, hu])
  cases op with
  | status => exact hstatus _ c w hu hw
  | final fb =>
    simp only [opOps, List.mem_append] at hw
    rcases hw with h | h
    · exact hstatus _ c w hu h
    · split at h
      · rw [getStatusCode_spec] at h
        exact hstatus _ fb w hu h
      · cases h
  | log =>
    simp only [opOps] at hw
    rw [log_writes] at hw
    cases hpf : primaryFallback carriesLog (contributing q draw S) with
    | none => simp [hpf] at hw
    | some pf =>
      obtain ⟨p, fb⟩ := pf
      have hm := primaryFallback_mem carriesLog _ p fb hpf
      simp only [hpf] at hw
      split at hw
      · unfold configUnitOps at hw
        cases fb with
        | none =>
          cases hlu : p.configurationLogUnitId with
          | none => simp [hlu] at hw
          | some x =>
            simp only [hlu, List.mem_singleton] at hw
            subst hw
            simp only [TOp.unit?, Option.some.injEq] at hu
            exact .log p hm.1.1 hm.1.2 (by rw [hlu, hu])
        | some f =>
          have hf := hm.2 f rfl
          cases hlu : f.configurationLogUnitId with
          | none => simp [hlu] at hw
          | some x =>
            simp only [hlu, List.mem_singleton] at hw
            subst hw
            simp only [TOp.unit?, Option.some.injEq] at hu
            exact .log f hf.1 hf.2.1 (by rw [hlu, hu])
      · cases hw
  | headers =>
    simp only [opOps] at hw
    rw [header_writes] at hw
    rcases List.mem_append.mp hw with h | h
    · obtain ⟨f, hf, hid⟩ := headerOps_units env.lower _ _ w u h hu
      simp only [headerFiltersAt, List.mem_flatMap, List.mem_filter, List.mem_map] at hf
      obtain ⟨r, ⟨hr, ha⟩, fa, hfa, rfl⟩ := hf
      exact .header r fa hr ha hfa hid
    · obtain ⟨id, _, rfl⟩ := List.mem_map.mp h
      cases hu
  | body =>
    simp only [opOps] at hw
    split at hw
    · cases hw
    · rw [createFilterBody_spec] at hw
      obtain ⟨tf, htf, hid⟩ := ProbeT.chainOps_units _ _ w u hw hu
      simp only [bodyFiltersAt, List.mem_flatMap, List.mem_filter, List.mem_map] at htf
      obtain ⟨r, ⟨hr, ha⟩, fa, hfa, hfe⟩ := htf
      exact .body r tf hr ha ⟨fa, hfa, hfe⟩ hid

theorem seqOps_units (env : EnvT) (q : Req) (draw : Rule → Nat) (S : List Rule) (c : Nat) (ops : List Op)
    (d : List RuleId) (w : TOp) (u : String)
    (hw : w ∈ seqOps env c (withApplied (Spec.action q (contributing q draw S)) (dedupLast d)) ops)
    (hu : w.unit? = some u) : UnitSource q draw S c u := by
  induction ops generalizing d with
  | nil => cases hw
  | cons op rest ih =>
    simp only [seqOps, List.mem_append] at hw
    rcases hw with h | h
    · exact opOps_units env q draw S c d op w u h hu
    · rw [runOp_spec] at h
      exact ih _ h

/-- **Attribution of unit ids.**  Run `from_routes_rule` and then ANY sequence of observers for response
code `c` with a fresh trace, then `squash_with_target_unit_traces`: every id in `unit_ids_applied` is a
unit of a matched rule — the configuration unit of an effective reset / stop rule, or the redirect /
header-filter / text-body-filter / log unit of a CONTRIBUTING rule, for filters one whose
response-status condition admits `c`. -/
theorem unit_ids_attributed (env : EnvT) (R : List Rule) (q : Req) (draw : Rule → Nat) (c : Nat)
    (ops : List Op) (t : UnitTrace) (u : String)
    (ht : (runOpsT env c (fromRoutesRuleT R q draw (some UnitTrace.empty)).1
            (fromRoutesRuleT R q draw (some UnitTrace.empty)).2 ops).2.2 = some t)
    (hu : u ∈ t.squash.unitIdsApplied) : UnitSource q draw (sortRules R) c u := by
  rw [fold_trace, fold_non_interference, trace_is_write_only, ← applyAll_append] at ht
  simp only [Option.some.injEq] at ht
  subst ht
  obtain ⟨w, hw, hwu⟩ := squash_units _ u hu
  rcases List.mem_append.mp hw with h | h
  · obtain ⟨r, hr, he, hrs, hcu⟩ := foldOps_units q draw _ w u h hwu
    exact .config r hr he hrs hcu
  · have e : fromRoutesRule R q draw =
        withApplied (Spec.action q (contributing q draw (sortRules R))) (dedupLast []) :=
      action_eq_spec R q draw
    rw [e] at h
    exact seqOps_units env q draw _ c ops [] w u h hwu

/-- The unit ids a rule can contribute: its reset/stop, redirect and log units, the ids of its header filters
(the `Location` filter carries the redirect unit) and of its text body filters. -/
def unitsOfRule (q : Req) (r : Rule) : List String :=
  r.configurationResetUnitId.toList ++ r.redirectUnitId.toList ++ r.configurationLogUnitId.toList ++
    (ruleHeaderFilters q r).filterMap (·.filter.id) ++
    (ruleBodyFilters r).filterMap fun f => match f.filter with | .text tf => tf.id | .html _ => none

/-- Every `UnitSource` is a unit id OF A MATCHED RULE: some `r ∈ R` has `u` among its own unit ids. -/
theorem unit_source_matched (R : List Rule) (q : Req) (draw : Rule → Nat) (c : Nat) (u : String)
    (h : UnitSource q draw (sortRules R) c u) : ∃ r ∈ R, u ∈ unitsOfRule q r := by
  unfold unitsOfRule
  cases h with
  | config r hr _ _ hcu =>
    exact ⟨r, (sortRules_perm R).subset hr, by simp [hcu]⟩
  | status r hr _ hru =>
    exact ⟨r, (contributing_mem R q draw r hr).1, by simp [hru]⟩
  | header r f hr _ hf hid =>
    refine ⟨r, (contributing_mem R q draw r hr).1, ?_⟩
    simp only [List.mem_append, List.mem_filterMap]
    exact .inl (.inr ⟨f, hf, hid⟩)
  | body r tf hr _ hf hid =>
    refine ⟨r, (contributing_mem R q draw r hr).1, ?_⟩
    obtain ⟨f, hf, hfe⟩ := hf
    simp only [List.mem_append, List.mem_filterMap]
    exact .inr ⟨f, hf, by simp [hfe, hid]⟩
  | log r hr _ hlu =>
    exact ⟨r, (contributing_mem R q draw r hr).1, by simp [hlu]⟩

/-! ### `squash` and `diff` -/

/-- `squash_with_target_unit_traces`: afterwards a unit id is applied iff it was applied before or is
still registered under some target; the applied set is sorted; the registry is empty. -/
theorem squash_spec (t : UnitTrace) :
    (∀ u, u ∈ t.squash.unitIdsApplied ↔ u ∈ t.unitIdsApplied ∨ ∃ e ∈ t.withTarget, u ∈ e.2) ∧
    t.squash.unitIdsApplied.Pairwise (fun a b => decide (a ≤ b) = true) ∧
    t.squash.withTarget = [] := by
  refine ⟨mem_squash t, ?_, rfl⟩
  unfold UnitTrace.squash UnitTrace.sortStrings
  apply List.pairwise_mergeSort
  · intro a b c h1 h2
    simp only [decide_eq_true_eq] at *
    exact String.le_trans h1 h2
  · intro a b
    simp only [Bool.or_eq_true, decide_eq_true_eq]
    exact String.le_total a b

/-- **override vs add under the same target.**  `override_unit_id_with_target(th, u)` forgets every
unit registered under `th` before it; `add_unit_id_with_target(th, u)` keeps them.  So of two header
filters with the same target hash, a later `override`/`replace`/`remove` unit supersedes an earlier
unit, a later `add`/`default` unit joins it. -/
theorem override_vs_add (t : UnitTrace) (th u : String) :
    (∀ e ∈ (t.overrideUnitIdWithTarget th u).withTarget, e.1 = th → e.2 = [u]) ∧
    (∀ e ∈ t.withTarget, e.1 = th → ∀ x ∈ e.2,
      ∃ e' ∈ (t.addUnitIdWithTarget th u).withTarget, e'.1 = th ∧ x ∈ e'.2) ∧
    (∃ e' ∈ (t.addUnitIdWithTarget th u).withTarget, e'.1 = th ∧ u ∈ e'.2) := by
  refine ⟨?_, ?_, ?_⟩
  · intro e he hth
    simp only [UnitTrace.overrideUnitIdWithTarget, UnitTrace.wtOverride, UnitTrace.wtAdd] at he
    have hnone : (t.withTarget.filter (fun e => !(e.1 == th))).any (fun e => e.1 == th) = false := by
      simp only [List.any_eq_false, List.mem_filter, Bool.not_eq_true', beq_eq_false_iff_ne, and_imp]
      intro x _ hx
      simpa using hx
    simp only [hnone, Bool.false_eq_true, if_false, List.mem_append, List.mem_filter, List.mem_singleton] at he
    rcases he with ⟨_, h⟩ | h
    · simp [hth] at h
    · rw [h]
  · intro e he hth x hx
    simp only [UnitTrace.addUnitIdWithTarget, UnitTrace.wtAdd]
    have hany : t.withTarget.any (fun e => e.1 == th) = true := by
      simp only [List.any_eq_true, beq_iff_eq]
      exact ⟨e, he, hth⟩
    simp only [hany, if_true, List.mem_map]
    refine ⟨(e.1, sInsert e.2 u), ⟨e, he, by simp [hth]⟩, hth, (mem_sInsert _ _ _).mpr (.inl hx)⟩
  · simp only [UnitTrace.addUnitIdWithTarget, UnitTrace.wtAdd]
    cases hany : t.withTarget.any (fun e => e.1 == th)
    · simp only [Bool.false_eq_true, if_false, List.mem_append, List.mem_singleton]
      exact ⟨(th, [u]), .inr rfl, rfl, by simp⟩
    · simp only [if_true, List.mem_map]
      simp only [List.any_eq_true, beq_iff_eq] at hany
      obtain ⟨e, he, hth⟩ := hany
      exact ⟨(e.1, sInsert e.2 u), ⟨e, he, by simp [hth]⟩, hth, (mem_sInsert _ _ _).mpr (.inr rfl)⟩

/-- Kernel-checked instance (the registry `squash` reads, by `squash_spec`): `add a; override b` under one
target leaves only `b` there; `override a; add b` leaves both; a unit under another target is untouched;
`unit_ids_seen` keeps everything. -/
theorem override_vs_add_example :
    (UnitTrace.empty.applyAll [.addWithTarget "h" "a", .addWithTarget "k" "z", .overrideWithTarget "h" "b"]).withTarget
      = [("k", ["z"]), ("h", ["b"])] ∧
    (UnitTrace.empty.applyAll [.overrideWithTarget "h" "a", .addWithTarget "h" "b"]).withTarget = [("h", ["a", "b"])] ∧
    (UnitTrace.empty.applyAll [.addWithTarget "h" "a", .addWithTarget "k" "z", .overrideWithTarget "h" "b"]).unitIdsSeen
      = ["a", "z", "b"] := by
  decide

/-- **`diff` is set difference**: exactly the ids of `other` that are not applied, each once. -/
theorem diff_spec (t : UnitTrace) (other : List String) :
    (∀ u, u ∈ t.diff other ↔ u ∈ other ∧ u ∉ t.unitIdsApplied) ∧ (t.diff other).Nodup :=
  ⟨mem_diff t other, nodup_diff t other⟩

/-- `rule_ids_contains` is membership in `get_rule_ids_applied`. -/
theorem rule_ids_contains_spec (t : UnitTrace) (id : RuleId) :
    t.ruleIdsContains id = true ↔ id ∈ t.ruleIdsApplied := by
  simp [UnitTrace.ruleIdsContains]

/-! ### The proxy-order pipelines of the project-level analyses (W4's `evalUnit` / `evalTest`) -/

/-- `unit_ids.rs` (`withLog = false`) / `test_examples.rs` (`withLog = true`), `create_result`:
fold with a fresh trace, `get_status_code(0)`, if that is 0 `get_status_code(backend)`, then
`filter_headers([], backend', false)`, the body chain, optionally `should_log_request(true, final)`,
then `squash`.  (`backend` = `example.response_status_code.unwrap_or(200)`; body stage = text chain.) -/
def proxyPipeline (withLog : Bool) (env : EnvT) (R : List Rule) (q : Req) (draw : Rule → Nat) (backend : Nat) :
    Option UnitTrace :=
  let f := fromRoutesRuleT R q draw (some UnitTrace.empty)
  let s0 := f.1.getStatusCodeT 0 f.2
  let st : (Nat × Nat) × Action × Option UnitTrace :=
    if s0.1.1 != 0 then ((s0.1.1, s0.1.1), s0.1.2, s0.2)
    else
      let s1 := s0.1.2.getStatusCodeT backend s0.2
      ((s1.1.1, backend), s1.1.2, s1.2)
  let h := st.2.1.filterHeadersFullT env.lower env.showId [] st.1.2 false st.2.2
  let b := runOpT { env with headers := [] } st.1.2 h.1.2 h.2 .body
  let l := if withLog then (b.1.2.shouldLogRequestT true st.1.1 b.2).2 else b.2
  l.map UnitTrace.squash

/-- The pipelines are functions of the SET of matched rules (distinct ids): what W4's
`permInv_of_sorted` asks of `evalUnit` / `evalTest`. -/
theorem proxyPipeline_perm_invariant (withLog : Bool) (env : EnvT) (q : Req) (draw : Rule → Nat) (backend : Nat)
    {R R' : List Rule} (h : R.Perm R') (hn : NodupIds R) :
    proxyPipeline withLog env R q draw backend = proxyPipeline withLog env R' q draw backend := by
  unfold proxyPipeline fromRoutesRuleT
  have : sortRules R = sortRules R' :=
    sorted_perm_unique (sortRules_sorted R) (sortRules_sorted R')
      ((sortRules_perm R).trans (h.trans (sortRules_perm R').symm)) (hn.perm (sortRules_perm R).symm)
  rw [this]

/-! ### Non-vacuity -/

private def mkU (id : RuleId) (rank : Nat) (status : Option Nat) (codes : Option (List Nat)) (reset : Bool)
    (ru cu : Option String) (hf : Option (List HeaderFilter)) : Rule :=
  { id := id, rank := rank, statusCode := status, target := none, responseStatusCodes := codes,
    excludeResponseStatusCodes := none, sampling := none, headerFilters := hf, bodyFilters := none,
    logOverride := none, reset := some reset, stop := none, redirectUnitId := ru,
    configurationLogUnitId := none, targetHash := none, configurationResetUnitId := cu }

/-- Two rules, already sorted: `b` (rank 2, reset with unit `cu-b`, header `add` unit `h1` under target
`t`) and `a` (rank 1, 302 on 404 with unit `ru-a`, header `override` unit `h2` under the same target).
For code 404, proxy order status → headers: the registry `squash` reads holds the reset unit, the
redirect unit and `h2` — `h1` was superseded by the override under the same target (but stays in
`unit_ids_seen`); for code 200 rule `a` is not admitted: `h1` survives, `ru-a` / `h2` never appear. -/
example :
    let S := [mkU [98] 2 none none true none (some "cu-b")
                (some [⟨"add", "X-A", "1", some "h1", some "t"⟩]),
              mkU [97] 1 (some 302) (some [404]) false (some "ru-a") none
                (some [⟨"override", "X-A", "2", some "h2", some "t"⟩])]
    let env : EnvT := ⟨id, fun _ => "", [], "", true⟩
    let run (c : Nat) : Option UnitTrace :=
      (runOpsT env c (foldRoutesT ⟨none, none⟩ (fun _ => 1) Action.empty (some UnitTrace.empty) S).1
        (foldRoutesT ⟨none, none⟩ (fun _ => 1) Action.empty (some UnitTrace.empty) S).2
        [.status, .headers]).2.2
    ((run 404).map fun t => (t.withTarget, t.unitIdsSeen, t.ruleIdsApplied)) =
      some ([("configuration::reset", ["cu-b"]), ("status_code", ["ru-a"]), ("t", ["h2"])],
            ["cu-b", "ru-a", "h1", "h2"], [[98], [97]]) ∧
    ((run 200).map fun t => (t.withTarget, t.unitIdsSeen, t.ruleIdsApplied)) =
      some ([("configuration::reset", ["cu-b"]), ("t", ["h1"])], ["cu-b", "h1"], [[98]]) := by
  intro S env run
  constructor <;> rfl

end Rio.C05
