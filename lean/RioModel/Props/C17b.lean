/-
C17, third clause — the per-step actions listed by the action trace end in the action the live
pipeline computes when ranks are distinct.

`traceActions routes q draw` is the model of `TraceAction::from_trace_rules` (Model/ActionTrace.lean)
given the listing `routes` of `Trace::get_routes_from_traces`; `fromRoutesRule` is
`Action::from_routes_rule` (C05).  Both draw the sampling decision of a rule from the same
`draw : Rule → Nat` (the code draws independently in the two calls: the clause is about what the
steps mean, it is exact when no matched rule is sampled or the request carries an override).

Part 1 is about the action code alone; part 2 composes it with W2's router theorems
(`Rio.C17.trace_perm_match`, the representation relation `RRepr` reached by every valid history)
through the projection `ruleOf : Route → Rule` (a parameter, see Proofs/ActionBridge.lean).
-/
import RioModel.Proofs.ActionTrace
import RioModel.Proofs.ActionBridge
import RioModel.Props.C05
import RioModel.Props.C11b
import RioModel.Props.C17
set_option linter.unusedSimpArgs false

namespace Rio.C17
open Rio.Action Rio.Action.Spec

/-! ### Part 1 — `from_trace_rules` against `from_routes_rule` -/

/-- The loop of `from_trace_rules` and the loop of `from_routes_rule` agree on ANY common rule order:
the action of the last step is the folded action (and `Action::default()` when there is no step). -/
theorem trace_fold_last (q : Req) (draw : Rule → Nat) (S : List Rule) :
    lastAction (traceFold q draw Action.empty S) = foldRoutes q draw Action.empty S := by
  rw [lastAction_eq_lastOr, lastOr_traceFold]

/-- What distinct ranks are needed for, exactly: the trace sorts by rank only (stable), the live
pipeline by rank then id.  Whenever the rank-sorted listing happens to be sorted for `Rule::cmp` too
— i.e. rules of equal rank are listed by descending id — the clause holds (distinct (rank, id) keys). -/
theorem trace_action_last_of_sorted (R : List Rule) (q : Req) (draw : Rule → Nat)
    (hs : (traceSort R).Pairwise (fun a b => ruleLe a b = true)) (hk : KeyInj R) :
    lastAction (traceActions R q draw) = fromRoutesRule R q draw := by
  unfold traceActions fromRoutesRule
  rw [trace_fold_last]
  have : traceSort R = sortRules R :=
    sorted_perm_unique_key hs (sortRules_sorted R)
      ((traceSort_perm R).trans (sortRules_perm R).symm) (hk.perm (traceSort_perm R).symm)
  rw [this]

/-- **`trace_action_last`**: for pairwise distinct ranks, the last step of the action trace shows the
action the live pipeline computes. -/
theorem trace_action_last (R : List Rule) (q : Req) (draw : Rule → Nat) (h : DistinctRanks R) :
    lastAction (traceActions R q draw) = fromRoutesRule R q draw :=
  trace_action_last_of_sorted R q draw (traceSort_ruleLe R h) h.keyInj

/-- With at least one listed rule there is a last step, and it carries that action. -/
theorem trace_action_last_step (R : List Rule) (q : Req) (draw : Rule → Nat) (h : DistinctRanks R)
    (hne : R ≠ []) :
    ∃ t, (traceActions R q draw).getLast? = some t ∧ t.action = fromRoutesRule R q draw := by
  have hl := trace_action_last R q draw h
  unfold lastAction at hl
  cases hg : (traceActions R q draw).getLast? with
  | some t => exact ⟨t, rfl, by simpa [hg] using hl⟩
  | none =>
    exfalso
    have hnil : traceActions R q draw = [] := List.getLast?_eq_none_iff.mp hg
    have hS : traceSort R ≠ [] := fun e => hne (by
      have := (traceSort_perm R).length_eq
      rw [e] at this
      exact List.length_eq_zero_iff.mp this.symm)
    unfold traceActions at hnil
    cases hts : traceSort R with
    | nil => exact hS hts
    | cons r rest =>
      rw [hts, traceFold_cons] at hnil
      split at hnil <;> simp at hnil

/-- "… when ranks are distinct" cannot be dropped. -/
def TraceActionLastAlways : Prop :=
  ∀ (R : List Rule) (q : Req) (draw : Rule → Nat), NodupIds R →
    lastAction (traceActions R q draw) = fromRoutesRule R q draw

private def mk (id : RuleId) (rank : Nat) (status : Option Nat) (reset stop : Bool)
    (sampling : Option Nat) : Rule :=
  { id := id, rank := rank, statusCode := status, target := none, responseStatusCodes := none,
    excludeResponseStatusCodes := none, sampling := sampling, headerFilters := none, bodyFilters := none,
    logOverride := none, reset := some reset, stop := some stop, redirectUnitId := none,
    configurationLogUnitId := none, targetHash := none }

/-- Two matched rules of equal rank listed by ascending id: the trace applies `a` then `b` (302 wins),
the live pipeline `b` then `a` (301 wins).  Kernel-checked. -/
theorem trace_action_last_needs_distinct_ranks : ¬ TraceActionLastAlways := by
  intro h
  have hn : NodupIds [mk [97] 1 (some 301) false false none, mk [98] 1 (some 302) false false none] := by
    unfold NodupIds; decide
  have := h _ ⟨none, none⟩ (fun _ => 1) hn
  unfold traceActions fromRoutesRule traceSort at this
  rw [List.mergeSort_of_pairwise (by decide)] at this
  have hsort : sortRules [mk [97] 1 (some 301) false false none, mk [98] 1 (some 302) false false none]
      = [mk [98] 1 (some 302) false false none, mk [97] 1 (some 301) false false none] :=
    sorted_perm_unique (sortRules_sorted _) (by decide)
      ((sortRules_perm _).trans (List.Perm.swap _ _ _)) (hn.perm (sortRules_perm _).symm)
  rw [hsort] at this
  have := congrArg (fun a => a.statusCodeUpdate.map (·.statusCode)) this
  revert this
  decide

/-! ### The step list: one step per rule, cumulative action, `reset` and `stop` -/

/-- **The whole step list in closed form.**  The steps are the rules of the rank-sorted listing up to
and including the first rule that is kept by the sampling decision and marked `stop`; step `k` carries
the specification's action (C05) of the first `k+1` rules. -/
theorem trace_steps_spec (R : List Rule) (q : Req) (draw : Rule → Nat) :
    traceActions R q draw = Spec.traceSteps q draw (traceSort R) :=
  traceFold_eq_traceSteps q draw (traceSort R)

/-- One step per rule, in order, ending at the first effective `stop` (a sampled-out rule still gets
its step, and its `stop` flag does not end the list). -/
theorem trace_steps_rules (R : List Rule) (q : Req) (draw : Rule → Nat) :
    (traceActions R q draw).map (·.rule) = throughFirstEffectiveStop q draw (traceSort R) := by
  rw [trace_steps_spec]
  exact mapIdxFrom_map_rule _ _ _

/-- Step `k` shows the action `from_routes_rule`'s loop computes from the first `k+1` sorted rules. -/
theorem trace_step_cumulative (R : List Rule) (q : Req) (draw : Rule → Nat) (k : Nat) (t : TraceAction)
    (ht : (traceActions R q draw)[k]? = some t) :
    t.action = foldRoutes q draw Action.empty ((traceSort R).take (k + 1)) ∧
      (traceSort R)[k]? = some t.rule := by
  have key : ∀ (S : List Rule) (a : Action) (k : Nat) (t : TraceAction),
      (traceFold q draw a S)[k]? = some t →
        t.action = foldRoutes q draw a (S.take (k + 1)) ∧ S[k]? = some t.rule := by
    intro S
    induction S with
    | nil => intro a k t h; simp [traceFold] at h
    | cons r rest ih =>
      intro a k t h
      rw [traceFold_cons] at h
      cases k with
      | zero =>
        simp only [List.take_succ_cons, List.take_zero, foldRoutes_single, List.getElem?_cons_zero]
        cases he : effective q draw r <;> simp only [he, if_true, Bool.false_eq_true, if_false,
          List.getElem?_cons_zero, Option.some.injEq] at h ⊢ <;> subst h <;> exact ⟨rfl, rfl⟩
      | succ k =>
        simp only [List.take_succ_cons, List.getElem?_cons_succ]
        rw [foldRoutes_cons]
        cases he : effective q draw r
        · simp only [he, Bool.false_eq_true, if_false, List.getElem?_cons_succ] at h ⊢
          exact ih a k t h
        · simp only [he, if_true, List.getElem?_cons_succ] at h ⊢
          cases hs : isStop r
          · simp only [hs, Bool.false_eq_true, if_false] at h ⊢
            exact ih _ k t h
          · simp [hs] at h
  exact key (traceSort R) Action.empty k t ht

/-- `reset` in the step list: the step of an effective `reset` rule shows that rule's own action
alone — everything listed before it is discarded. -/
theorem trace_reset_step (R : List Rule) (q : Req) (draw : Rule → Nat) (k : Nat) (t : TraceAction)
    (ht : (traceActions R q draw)[k]? = some t) (he : effective q draw t.rule = true)
    (hr : isReset t.rule = true) :
    t.action = foldRoutes q draw Action.empty [t.rule] := by
  have hrules := trace_steps_rules R q draw
  obtain ⟨hact, hk⟩ := trace_step_cumulative R q draw k t ht
  -- the rules before step k contain no effective stop (otherwise there would be no step k)
  have hsplit : (traceSort R).take (k + 1) = (traceSort R).take k ++ [t.rule] := by
    rw [List.take_add_one, hk]; rfl
  have hshown : (throughFirstEffectiveStop q draw (traceSort R))[k]? = some t.rule := by
    rw [← hrules, List.getElem?_map, ht]; rfl
  have hpre : ∀ (S : List Rule) (k : Nat) (r : Rule), (throughFirstEffectiveStop q draw S)[k]? = some r →
      ∀ x ∈ S.take k, effective q draw x = true → isStop x = false := by
    intro S
    induction S with
    | nil => intro k r h; simp [throughFirstEffectiveStop] at h
    | cons y ys ih =>
      intro k r h x hx hex
      cases k with
      | zero => simp at hx
      | succ k =>
        unfold throughFirstEffectiveStop at h
        by_cases hy : (effective q draw y && isStop y) = true
        · simp [hy] at h
        · simp only [hy, Bool.false_eq_true, if_false, List.getElem?_cons_succ] at h
          simp only [List.take_succ_cons, List.mem_cons] at hx
          rcases hx with rfl | hx
          · simpa [hex] using hy
          · exact ih k r h x hx hex
  rw [hact, hsplit]
  exact Rio.C05.reset_discards q draw Action.empty _ [] t.rule he hr
    (hpre (traceSort R) k t.rule hshown)

/-- A rule skipped by the sampling decision gets a step that repeats the action before it. -/
theorem trace_skipped_step (R : List Rule) (q : Req) (draw : Rule → Nat) (k : Nat) (t : TraceAction)
    (ht : (traceActions R q draw)[k]? = some t) (he : effective q draw t.rule = false) :
    t.action = foldRoutes q draw Action.empty ((traceSort R).take k) := by
  obtain ⟨hact, hk⟩ := trace_step_cumulative R q draw k t ht
  have hsplit : (traceSort R).take (k + 1) = (traceSort R).take k ++ t.rule :: [] := by
    rw [List.take_add_one, hk]; rfl
  rw [hact, hsplit, Rio.C05.skipped_rule_ignored q draw Action.empty _ [] t.rule he]
  simp

/-! ### Part 2 — composed with the router: last explain step = live action -/

/-- The action trace of a router state for a request (`TraceAction::from_trace_rules(router.trace_request(q), q)`). -/
def explainSteps (E : Rio.Router.Env) (ruleOf : Rio.Router.Route → Rule) (S : Rio.Router.Router E)
    (q : Rio.Router.Req) (rq : Req) (draw : Rule → Nat) : List TraceAction :=
  traceActions ((Rio.Router.routesOfList (S.trace E q)).map ruleOf) rq draw

/-- **Last explain step = live action**, in every router state that represents a set of live rules
(every state reachable by a valid history of insertions, removals, batch removals and change-sets),
for every request whose matched rules have pairwise distinct ranks.  Uses W2's `trace_perm_match`
(the listing is a permutation of the match result), `trace_action_last` and the order independence
of the action. -/
theorem explain_last_eq_live (E : Rio.Router.Env) (ruleOf : Rio.Router.Route → Rule)
    (S : Rio.Router.Router E) (L : List Rio.Router.Route) (h : Rio.Router.RRepr E S L)
    (q : Rio.Router.Req) (rq : Req) (draw : Rule → Nat)
    (hd : DistinctRanks ((S.matchReq E q).map ruleOf)) :
    lastAction (explainSteps E ruleOf S q rq draw) = Rio.C11.liveAction E ruleOf S q rq draw := by
  unfold explainSteps Rio.C11.liveAction
  have hp : ((Rio.Router.routesOfList (S.trace E q)).map ruleOf).Perm ((S.matchReq E q).map ruleOf) :=
    (trace_perm_match E S L h q).map ruleOf
  have hd' : DistinctRanks ((Rio.Router.routesOfList (S.trace E q)).map ruleOf) := hd.perm hp.symm
  rw [trace_action_last _ rq draw hd']
  exact Rio.C11.action_perm_invariant_key rq draw hp hd'.keyInj

/-- The same after an arbitrary valid history (C02). -/
theorem explain_last_eq_live_run (E : Rio.Router.Env) (ruleOf : Rio.Router.Route → Rule)
    (hist : List Rio.Router.Op) (hv : Rio.Router.ValidHistory hist [])
    (q : Rio.Router.Req) (rq : Req) (draw : Rule → Nat)
    (hd : DistinctRanks (((Rio.Router.runOps E hist (Rio.Router.Router.empty E)).matchReq E q).map ruleOf)) :
    lastAction (explainSteps E ruleOf (Rio.Router.runOps E hist (Rio.Router.Router.empty E)) q rq draw) =
      Rio.C11.liveAction E ruleOf (Rio.Router.runOps E hist (Rio.Router.Router.empty E)) q rq draw :=
  explain_last_eq_live E ruleOf _ _ (Rio.C02.repr_run E hist _ [] (Rio.C02.repr_empty E) hv) q rq draw hd

/-- The steps of the explain trace are exactly the matched rules (each once), rank-sorted, cut after
the first effective `stop`. -/
theorem explain_steps_are_matches (E : Rio.Router.Env) (ruleOf : Rio.Router.Route → Rule)
    (S : Rio.Router.Router E) (L : List Rio.Router.Route) (h : Rio.Router.RRepr E S L)
    (q : Rio.Router.Req) (rq : Req) (draw : Rule → Nat) (t : TraceAction)
    (ht : t ∈ explainSteps E ruleOf S q rq draw) :
    ∃ r ∈ S.matchReq E q, ruleOf r = t.rule := by
  unfold explainSteps at ht
  have hr : t.rule ∈ (traceActions ((Rio.Router.routesOfList (S.trace E q)).map ruleOf) rq draw).map (·.rule) :=
    List.mem_map.mpr ⟨t, ht, rfl⟩
  rw [trace_steps_rules] at hr
  have hsub : ∀ (l : List Rule) x, x ∈ throughFirstEffectiveStop rq draw l → x ∈ l := by
    intro l
    induction l with
    | nil => intro x hx; exact hx
    | cons y ys ih =>
      intro x hx
      unfold throughFirstEffectiveStop at hx
      split at hx
      · simp only [List.mem_singleton] at hx; simp [hx]
      · rcases List.mem_cons.mp hx with rfl | hx
        · simp
        · exact List.mem_cons_of_mem _ (ih x hx)
  have h1 := (traceSort_perm _).subset (hsub _ _ hr)
  obtain ⟨r, hrm, hrr⟩ := List.mem_map.mp h1
  exact ⟨r, (trace_perm_match E S L h q).subset hrm, hrr⟩

/-! ### Non-vacuity -/

/-- Four listed rules with distinct ranks, given in listing order: `lo` (rank 9, 410), `rs` (rank 5,
301, reset), `sk` (rank 3, stop, sampling 0: skipped), `st` (rank 2, 302, stop), `hi` (rank 1, 418).
Steps: lo, rs, sk, st — `hi` is cut; the `rs` step shows 301 alone, the `sk` step repeats it, the last
step shows 302 = the live action. -/
example :
    let R := [mk [104] 1 (some 418) false false none, mk [115] 3 none false true (some 0),
              mk [108] 9 (some 410) false false none, mk [116] 2 (some 302) false true none,
              mk [114] 5 (some 301) true false none]
    DistinctRanks R ∧
    (traceActions R ⟨none, none⟩ (fun _ => 50)).map
        (fun t => (t.rule.id, t.action.statusCodeUpdate.map (·.statusCode), t.action.ruleIds)) =
      [([108], some 410, [[108]]), ([114], some 301, [[114]]), ([115], some 301, [[114]]),
       ([116], some 302, [[114], [116]])] := by
  intro R
  refine ⟨by unfold DistinctRanks; decide, ?_⟩
  unfold traceActions
  have hs : traceSort R = [mk [108] 9 (some 410) false false none, mk [114] 5 (some 301) true false none,
      mk [115] 3 none false true (some 0), mk [116] 2 (some 302) false true none,
      mk [104] 1 (some 418) false false none] := by
    have h1 : DistinctRanks R := by unfold DistinctRanks; decide
    exact sorted_perm_unique_key (traceSort_ruleLe R h1) (by decide)
      ((traceSort_perm R).trans (by decide)) (h1.keyInj.perm (traceSort_perm R).symm)
  rw [hs]
  decide

end Rio.C17
