/-
C01 — rule matching is exact: no missed rule, no spurious rule, no duplicates; any-host policy.

Property theorems only.  They speak about the model of RioModel/Model/Router*.lean:
`Router.build E R` is a router filled by successive `insert`s (the seven nested matchers of
src/router/request_matcher/*.rs with their bucket maps, `any_*` buckets, per-request condition memo
and `count`s), `Router.matchReq` is `Router::match_request`, and `sat E R r q` is the flat
specification: all seven triggers of `r` accept `q`, plus the any-host clause.  They hold for every
environment `E` (regex engine seen through `hostFind` / `pathFind` / `headerRegex`, lower-casing of
header names, the `always_match_any_host` bit); the two regex trees are represented by their
specification (`TreeSpec`, discharged by C08).  All seven layers are covered by the proofs.
-/
import RioModel.Proofs.RouterTreeTop
import RioModel.Props.C08
import RioModel.Model.RouterTreeParse
set_option linter.unusedSimpArgs false

namespace Rio.C01
open Rio.Router

/-- **C01, main statement.**  For every rule list with distinct ids and every request: each rule is
reported at most once (ids of the result are duplicate-free), and a rule is reported iff it is in
the list and `sat` holds – no missed rule, no spurious rule. -/
theorem match_exact (E : Env) (R : List Route) (hR : NodupIds R) (q : Req) :
    (((Router.build E R).matchReq E q).map (·.id)).Nodup ∧
    ∀ r, r ∈ (Router.build E R).matchReq E q ↔ r ∈ R ∧ sat E R r q = true := by
  have h := rrepr_build E R hR
  refine ⟨(rrepr_nodup_match E _ _ h q).2, ?_⟩
  intro r
  rw [rrepr_mem_match E _ _ h q r, List.mem_reverse,
    sat_congr E R.reverse R r q (fun x => List.mem_reverse)]

/-- The same as one statement about multisets: the result is a permutation of the `sat`-filter of
the rule list (this is what the correspondence harness compares after sorting). -/
theorem match_perm_filter (E : Env) (R : List Route) (hR : NodupIds R) (q : Req) :
    ((Router.build E R).matchReq E q).Perm (R.filter (fun r => sat E R r q)) := by
  have h := rrepr_build E R hR
  have hRn : R.Nodup := (nodupIds_uids hR).2
  rw [List.perm_ext_iff_of_nodup (rrepr_nodup_match E _ _ h q).1 (hRn.filter _)]
  intro r
  rw [(match_exact E R hR q).2 r, List.mem_filter]

/-- **Insertion order is irrelevant**: building from any permutation of `R` reports the same
rules. -/
theorem match_exact_any_order (E : Env) (R R' : List Route) (hp : R'.Perm R) (hR : NodupIds R)
    (q : Req) :
    (((Router.build E R').matchReq E q).map (·.id)).Nodup ∧
    ∀ r, r ∈ (Router.build E R').matchReq E q ↔ r ∈ R ∧ sat E R r q = true := by
  have hR' : NodupIds R' := (hp.map _).nodup_iff.2 hR
  refine ⟨(match_exact E R' hR' q).1, ?_⟩
  intro r
  rw [(match_exact E R' hR' q).2 r, hp.mem_iff, sat_congr E R' R r q (fun x => hp.mem_iff)]

/-- **Any-host policy, `always_match_any_host = true`**: host-less rules are always candidates –
a rule is reported iff its seven triggers accept the request. -/
theorem always_any_host (E : Env) (hE : E.alwaysAnyHost = true) (R : List Route) (r : Route) (q : Req) :
    sat E R r q = triggersOk E r q := by
  unfold sat; simp [hE]

/-- **Any-host policy, `always_match_any_host = false`**: a host-bound rule needs its triggers
only; a host-less rule is reported iff its triggers accept the request and no host-bound rule of
the same scheme scope (any-scheme rules and rules of one specific scheme are scoped separately)
has all its triggers accepted. -/
theorem fallback_any_host (E : Env) (hE : E.alwaysAnyHost = false) (R : List Route) (r : Route)
    (q : Req) :
    sat E R r q = true ↔
      triggersOk E r q = true ∧
        (hostBound r = true ∨
          ¬ ∃ r' ∈ R, hostBound r' = true ∧ schemeKey r' = schemeKey r ∧ triggersOk E r' q = true) := by
  unfold sat
  have hany : (R.any (fun r' => hostBound r' && schemeKey r' == schemeKey r && triggersOk E r' q)) = true ↔
      ∃ r' ∈ R, hostBound r' = true ∧ schemeKey r' = schemeKey r ∧ triggersOk E r' q = true := by
    simp only [List.any_eq_true, Bool.and_eq_true, beq_iff_eq, and_assoc]
  cases hc : R.any (fun r' => hostBound r' && schemeKey r' == schemeKey r && triggersOk E r' q)
  · have : ¬ ∃ r' ∈ R, hostBound r' = true ∧ schemeKey r' = schemeKey r ∧ triggersOk E r' q = true := by
      rw [← hany, hc]; simp
    simp [hE, this]
  · have : ∃ r' ∈ R, hostBound r' = true ∧ schemeKey r' = schemeKey r ∧ triggersOk E r' q = true := by
      rw [← hany, hc]
    simp only [hE, Bool.or_false, Bool.not_true, Bool.and_eq_true, this, not_true_eq_false, or_false]

/-- **The per-request memo of the header and date-time layers is exact** (`execute_conditions`):
starting from a memo that only holds true evaluation results, a group is accepted iff all its
conditions hold, and the memo stays sound – the early `continue 'group` never skips a matching
group. -/
theorem memo_exact {C : Type} [DecidableEq C] (eval : C → Bool) (cs : List C)
    (memo : List (C × Bool)) (h : MemoSound eval memo) :
    (evalGroup eval cs memo).1 = cs.all eval ∧ MemoSound eval (evalGroup eval cs memo).2 :=
  evalGroup_spec eval cs memo h

/-! ### The same statements with the two regex trees modelled as trees (composition with C08)

`towerTOps T` is the tower in which `PathAndQueryMatcher.regex_tree_rule` and
`HostMatcher.regex_tree_rule` are the radix-tree model of Model/Tree.lean (node prefixes, child
selection, lazily compiled regexes, `find` descending only below matching prefixes) instead of
their specification.  `T.render` is `MarkerString.regex`, `T.engine` the regex engine; `T.env` is
the environment they induce, so `sat T.env` is the same flat predicate.  Extra hypothesis (`WF` of
DESIGN §5): the marker patterns of the rules render into a domain `Good` on which the engine is
prefix-sound (`PrefixSound`, property C08); for the engines `engineOf G` that domain is `GoodPat`,
the rule-shaped patterns (`match_exact_tree_rule`). -/

open Rio.Regex Rio.Tree in
/-- **C01 over the real trees.** -/
theorem match_exact_tree (T : TEnv) (Good : List Char → Prop) (hPS : PrefixSound T.engine Good)
    (R : List Route) (hR : NodupIds R) (hW : ∀ r ∈ R, TreeGood T Good r) (q : Req) :
    ((RouterG.matchReq (towerTOps T) (RouterG.build (towerTOps T) R) q).map (·.id)).Nodup ∧
    ∀ r, r ∈ RouterG.matchReq (towerTOps T) (RouterG.build (towerTOps T) R) q ↔
      r ∈ R ∧ sat T.env R r q = true := by
  have hT := towerTSpec T Good hPS
  have h := g_build T.env _ hT R hR hW
  refine ⟨(g_nodup_match T.env _ hT _ _ h q).2, ?_⟩
  intro r
  rw [g_mem_match T.env _ hT _ _ h q r, List.mem_reverse,
    sat_congr T.env R.reverse R r q (fun x => List.mem_reverse)]

open Rio.Regex Rio.Tree in
/-- The router over the real trees and the specification-level router answer alike (as multisets). -/
theorem match_tree_eq_spec (T : TEnv) (Good : List Char → Prop) (hPS : PrefixSound T.engine Good)
    (R : List Route) (hR : NodupIds R) (hW : ∀ r ∈ R, TreeGood T Good r) (q : Req) :
    (RouterG.matchReq (towerTOps T) (RouterG.build (towerTOps T) R) q).Perm
      ((Router.build T.env R).matchReq T.env q) := by
  have h1 := match_exact_tree T Good hPS R hR hW q
  have h2 := match_exact T.env R hR q
  rw [List.perm_ext_iff_of_nodup (nodup_of_map_nodup _ _ h1.1) (nodup_of_map_nodup _ _ h2.1)]
  intro r; rw [h1.2 r, h2.2 r]

open Rio.Regex Rio.Tree in
/-- For the engine induced by any meaning `G` of marker regexes, on rule-shaped patterns
(`GoodPat`: escaped literals interleaved with groups on whose extent the tree's scanner and the
regex syntax agree; non-empty). -/
theorem match_exact_tree_rule (T : TEnv) (G : List Char → Option Re) (hE : T.engine = engineOf G)
    (R : List Route) (hR : NodupIds R) (hW : ∀ r ∈ R, TreeGood T GoodPat r) (q : Req) :
    ((RouterG.matchReq (towerTOps T) (RouterG.build (towerTOps T) R) q).map (·.id)).Nodup ∧
    ∀ r, r ∈ RouterG.matchReq (towerTOps T) (RouterG.build (towerTOps T) R) q ↔
      r ∈ R ∧ sat T.env R r q = true :=
  match_exact_tree T GoodPat (hE ▸ Rio.C08.prefix_sound G) R hR hW q

/-! ### Non-vacuity: a concrete rule list satisfying the hypothesis, and a concrete match -/

def exEnv : Env where
  alwaysAnyHost := false
  hostFind := fun _ _ => true
  pathFind := fun _ _ => true
  headerRegex := fun _ _ => true
  lower := id

def exR1 : Route :=
  { id := "r1", priority := 0, scheme := none, host := some (.static "a.com"), ips := none,
    methods := some ["GET", "GET"], excludeMethods := none, headers := [], datetime := none,
    time := none, weekdays := none, path := .static "/a" }

def exR2 : Route :=
  { id := "r2", priority := -1, scheme := none, host := none, ips := none,
    methods := none, excludeMethods := none, headers := [⟨"X-A", .isDefined⟩], datetime := none,
    time := none, weekdays := some [2], path := .dyn [.lit '/', .plus .lower] }

def exQ : Req :=
  { scheme := some "https", host := some "a.com", method := none, headers := [("X-A", "v")],
    ip := none, createdAt := some 1577836800, path := "/a" }

example : NodupIds [exR1, exR2] := by simp [NodupIds, exR1, exR2]

/-- the host-bound rule matches; the host-less one is suppressed by the fallback policy -/
example : ((Router.build exEnv [exR1, exR2]).matchReq exEnv exQ).map (·.id) = ["r1"] := by
  decide

/-! Non-vacuity of the tree-level statements: W1's executable engine `stdEngine`, the rendering of
the generator's pattern language, a rule with an upper-case literal and a marker in path and host,
under `ignore_path_and_query_case`. -/

def exT : TEnv := tenvOf ⟨false, false, true, false⟩

def exR3 : Route :=
  { id := "r3", priority := 0, scheme := none,
    host := some (.dyn [.plus .lower, .lit '.', .lit 'c', .lit 'o', .lit 'm']), ips := none,
    methods := none, excludeMethods := none, headers := [], datetime := none,
    time := none, weekdays := none, path := .dyn [.lit '/', .lit 'A', .lit '/', .plus .digit] }

def exQ3 : Req :=
  { scheme := none, host := some "abc.com", method := none, headers := [], ip := none,
    createdAt := none, path := "/a/12" }

open Rio.Regex in
example : TreeGood exT GoodPat exR3 := by
  refine ⟨?_, ?_⟩
  · intro p hp
    have : p = [.lit '/', .lit 'A', .lit '/', .plus .digit] := by
      simp [dynOf, exR3] at hp; exact hp.symm
    subst this
    exact ⟨(goodPatB_iff _).1 (by decide +kernel), by decide +kernel⟩
  · intro p hp
    have : p = [.plus .lower, .lit '.', .lit 'c', .lit 'o', .lit 'm'] := by
      simp [exR3] at hp; exact hp.symm
    subst this
    exact ⟨(goodPatB_iff _).1 (by decide +kernel), by decide +kernel⟩

set_option maxRecDepth 100000 in
example : (RouterG.matchReq (towerTOps exT) (RouterG.build (towerTOps exT) [exR3]) exQ3).map (·.id)
    = ["r3"] := by decide +kernel

/-! ### The nine header kinds as quantified statements (reviewer's C01-2)

`HCond.eval` is shared by the layered model and by `sat`; what a kind MEANS is stated here over the raw header list
of the request: `HeaderOf E q name x` – the request carries a header whose name equals `name` after lower-casing both,
with value `x` (a name may occur several times: every occurrence counts).  Positive kinds are ∃-statements, the two
negated kinds are ∀-statements – hence TRUE when the header is absent (`negated_kinds_hold_when_absent`). -/

/-- the request has a header named `name` (names compared lower-cased) with value `x` -/
def HeaderOf (E : Env) (q : Req) (name x : String) : Prop :=
  ∃ n, (n, x) ∈ q.headers ∧ E.lower n = E.lower name

theorem mem_headerValues (E : Env) (q : Req) (name x : String) :
    x ∈ q.headerValues E name ↔ HeaderOf E q name x := by
  simp only [Req.headerValues, List.mem_map, List.mem_filter, beq_iff_eq, HeaderOf]
  constructor
  · rintro ⟨⟨n, x'⟩, ⟨hm, hn⟩, rfl⟩; exact ⟨n, hm, hn⟩
  · rintro ⟨n, hm, hn⟩; exact ⟨(n, x), ⟨hm, hn⟩, rfl⟩

theorem headerExists_iff (E : Env) (q : Req) (name : String) :
    q.headerExists E name = true ↔ ∃ x, HeaderOf E q name x := by
  simp only [Req.headerExists, List.any_eq_true, beq_iff_eq, HeaderOf]
  constructor
  · rintro ⟨⟨n, x⟩, hm, hn⟩; exact ⟨x, n, hm, hn⟩
  · rintro ⟨x, n, hm, hn⟩; exact ⟨(n, x), hm, hn⟩

theorem lcIsPrefix_iff (n h : List Char) : lcIsPrefix n h = true ↔ ∃ t, h = n ++ t := by
  induction n generalizing h with
  | nil => simp [lcIsPrefix]
  | cons a as ih =>
    cases h with
    | nil => simp [lcIsPrefix]
    | cons b bs =>
      simp only [lcIsPrefix, Bool.and_eq_true, beq_iff_eq, ih, List.cons_append, List.cons.injEq]
      constructor
      · rintro ⟨rfl, t, rfl⟩; exact ⟨t, rfl, rfl⟩
      · rintro ⟨t, rfl, rfl⟩; exact ⟨rfl, t, rfl⟩

theorem lcIsInfix_iff (n h : List Char) : lcIsInfix n h = true ↔ ∃ a b, h = a ++ n ++ b := by
  induction h with
  | nil =>
    simp only [lcIsInfix, List.isEmpty_iff]
    constructor
    · rintro rfl; exact ⟨[], [], rfl⟩
    · rintro ⟨a, b, h⟩
      have := congrArg List.length h
      simp at this
      exact List.eq_nil_of_length_eq_zero (by omega)
  | cons c cs ih =>
    simp only [lcIsInfix, Bool.or_eq_true, lcIsPrefix_iff, ih]
    constructor
    · rintro (⟨t, ht⟩ | ⟨a, b, hab⟩)
      · exact ⟨[], t, by simpa using ht⟩
      · exact ⟨c :: a, b, by simp [hab]⟩
    · rintro ⟨a, b, hab⟩
      cases a with
      | nil => exact Or.inl ⟨b, by simpa using hab⟩
      | cons a0 a' =>
        simp only [List.cons_append, List.cons.injEq] at hab
        exact Or.inr ⟨a', b, hab.2⟩

/-- `str::starts_with`, `str::ends_with`, `str::contains` on the characters of the two strings. -/
theorem strStartsWith_iff (x v : String) : strStartsWith x v = true ↔ ∃ t, x.toList = v.toList ++ t :=
  lcIsPrefix_iff _ _

theorem strEndsWith_iff (x v : String) : strEndsWith x v = true ↔ ∃ t, x.toList = t ++ v.toList := by
  simp only [strEndsWith, lcIsPrefix_iff]
  constructor
  · rintro ⟨t, ht⟩
    refine ⟨t.reverse, ?_⟩
    have := congrArg List.reverse ht
    simpa using this
  · rintro ⟨t, ht⟩
    exact ⟨t.reverse, by rw [ht]; simp⟩

theorem strContains_iff (x v : String) : strContains x v = true ↔ ∃ a b, x.toList = a ++ v.toList ++ b :=
  lcIsInfix_iff _ _

/-- **The nine kinds.**  For every request (any header list, names in any case, a name occurring any number of times)
and every condition `⟨name, kind⟩`: the header test of the model is the quantified statement on the right. -/
theorem header_kinds_spec (E : Env) (q : Req) (name : String) :
    ((HCond.mk name .isDefined).eval E q = true ↔ ∃ x, HeaderOf E q name x) ∧
    ((HCond.mk name .isNotDefined).eval E q = true ↔ ¬ ∃ x, HeaderOf E q name x) ∧
    (∀ v, (HCond.mk name (.isEquals v)).eval E q = true ↔ ∃ x, HeaderOf E q name x ∧ x = v) ∧
    (∀ v, (HCond.mk name (.isNotEqualTo v)).eval E q = true ↔ ∀ x, HeaderOf E q name x → x ≠ v) ∧
    (∀ v, (HCond.mk name (.contains v)).eval E q = true ↔
      ∃ x, HeaderOf E q name x ∧ ∃ a b, x.toList = a ++ v.toList ++ b) ∧
    (∀ v, (HCond.mk name (.doesNotContain v)).eval E q = true ↔
      ∀ x, HeaderOf E q name x → ¬ ∃ a b, x.toList = a ++ v.toList ++ b) ∧
    (∀ v, (HCond.mk name (.endsWith v)).eval E q = true ↔
      ∃ x, HeaderOf E q name x ∧ ∃ a, x.toList = a ++ v.toList) ∧
    (∀ v, (HCond.mk name (.startsWith v)).eval E q = true ↔
      ∃ x, HeaderOf E q name x ∧ ∃ b, x.toList = v.toList ++ b) ∧
    (∀ p, (HCond.mk name (.matchRegex p)).eval E q = true ↔ ∃ x, HeaderOf E q name x ∧ E.headerRegex p x = true) := by
  refine ⟨?_, ?_, ?_, ?_, ?_, ?_, ?_, ?_, ?_⟩
  · simp only [HCond.eval]; exact headerExists_iff E q name
  · simp only [HCond.eval, Bool.not_eq_true', ← headerExists_iff]
    cases q.headerExists E name <;> simp
  · intro v; simp only [HCond.eval, List.any_eq_true, mem_headerValues, beq_iff_eq]
  · intro v; simp only [HCond.eval, List.all_eq_true, mem_headerValues, bne_iff_ne, ne_eq]
  · intro v; simp only [HCond.eval, List.any_eq_true, mem_headerValues, strContains_iff]
  · intro v
    simp only [HCond.eval, List.all_eq_true, mem_headerValues, Bool.not_eq_true', ← strContains_iff]
    constructor
    · intro h x hx; rw [h x hx]; simp
    · intro h x hx; have := h x hx; simpa using this
  · intro v; simp only [HCond.eval, List.any_eq_true, mem_headerValues, strEndsWith_iff]
  · intro v; simp only [HCond.eval, List.any_eq_true, mem_headerValues, strStartsWith_iff]
  · intro p; simp only [HCond.eval, List.any_eq_true, mem_headerValues]

/-- The two negated kinds hold when the request does not carry the header at all; the seven others do not. -/
theorem negated_kinds_hold_when_absent (E : Env) (q : Req) (name v : String)
    (habs : ¬ ∃ x, HeaderOf E q name x) :
    (HCond.mk name (.isNotEqualTo v)).eval E q = true ∧ (HCond.mk name (.doesNotContain v)).eval E q = true ∧
    (HCond.mk name .isNotDefined).eval E q = true ∧
    (HCond.mk name .isDefined).eval E q = false ∧ (HCond.mk name (.isEquals v)).eval E q = false ∧
    (HCond.mk name (.contains v)).eval E q = false ∧ (HCond.mk name (.endsWith v)).eval E q = false ∧
    (HCond.mk name (.startsWith v)).eval E q = false ∧
    (∀ p, (HCond.mk name (.matchRegex p)).eval E q = false) := by
  obtain ⟨h1, h2, h3, h4, h5, h6, h7, h8, h9⟩ := header_kinds_spec E q name
  have hno : ∀ x, ¬ HeaderOf E q name x := fun x hx => habs ⟨x, hx⟩
  refine ⟨(h4 v).2 (fun x hx => absurd hx (hno x)), (h6 v).2 (fun x hx => absurd hx (hno x)), h2.2 habs,
    ?_, ?_, ?_, ?_, ?_, ?_⟩
  · rw [Bool.eq_false_iff]; intro h; exact habs (h1.1 h)
  · rw [Bool.eq_false_iff]; intro h; obtain ⟨x, hx, _⟩ := (h3 v).1 h; exact hno x hx
  · rw [Bool.eq_false_iff]; intro h; obtain ⟨x, hx, _⟩ := (h5 v).1 h; exact hno x hx
  · rw [Bool.eq_false_iff]; intro h; obtain ⟨x, hx, _⟩ := (h7 v).1 h; exact hno x hx
  · rw [Bool.eq_false_iff]; intro h; obtain ⟨x, hx, _⟩ := (h8 v).1 h; exact hno x hx
  · intro p; rw [Bool.eq_false_iff]; intro h; obtain ⟨x, hx, _⟩ := (h9 p).1 h; exact hno x hx

/-- The header trigger of a route: EVERY header condition of the rule holds, each read with the rule's header name
lower-cased (`HeaderMatcher::insert`) – so, for an idempotent `lower`, the name as written in the rule and the names
as sent by the client are compared case-insensitively, whatever `ignore_header_case` says (that flag is about values). -/
theorem headersOk_spec (E : Env) (r : Route) (q : Req) :
    headersOk E r q = true ↔ ∀ h ∈ r.headers, (HCond.mk (E.lower h.name) h.kind).eval E q = true := by
  simp [headersOk, RouteHeader.toCond]

theorem headerOf_lower_name (E : Env) (hidem : ∀ s, E.lower (E.lower s) = E.lower s) (q : Req) (name x : String) :
    HeaderOf E q (E.lower name) x ↔ HeaderOf E q name x := by
  simp [HeaderOf, hidem]

/-! ### The case flags (reviewer's C01-3)

`sat` has no case flag: the flags act when rule and request are READ (`Rule::host/path_and_query(ignore_case)`,
`Request::from_config`), i.e. in `mkRoute` / `mkReq`.  For static hosts and paths the effect is stated here; with
`match_exact` (whose `sat` contains `hostOk` / `pathOk`) it is a statement about the answers of the router.  For
marker hosts / paths the flag is the tree's `ignore_case` (C08 / C09); for header values see `Rio.C01.header_value_kinds`. -/

/-- A rule host without markers (`toks.all isLit`): under `ignore_host_case` the host trigger accepts exactly the
request hosts that are equal to it up to (ASCII) case – `A.com` is triggered by `a.COM`. -/
theorem host_case_insensitive (E : Env) (cfg : Cfg) (d : RuleDesc) (qd : ReqDesc) (h h' : String)
    (hflag : cfg.ignoreHostCase = true) (hd : d.host = some h) (hq : qd.host = some h')
    (hlit : (tokenize d.markers h.toList).all Tok.isLit = true) (hne : h.toLower ≠ "") :
    hostOk E (mkRoute cfg d) (mkReq cfg qd) = true ↔ h'.toLower = h.toLower := by
  simp only [hostOk, mkRoute, mkReq, hd, hq, Option.map_some, sodOf, hlit, if_true, hflag]
  simp [hne]

/-- Without the flag the texts must be equal as written. -/
theorem host_case_sensitive (E : Env) (cfg : Cfg) (d : RuleDesc) (qd : ReqDesc) (h h' : String)
    (hflag : cfg.ignoreHostCase = false) (hd : d.host = some h) (hq : qd.host = some h')
    (hlit : (tokenize d.markers h.toList).all Tok.isLit = true) (hne : h ≠ "") :
    hostOk E (mkRoute cfg d) (mkReq cfg qd) = true ↔ h' = h := by
  simp only [hostOk, mkRoute, mkReq, hd, hq, Option.map_some, sodOf, hlit, if_true, hflag]
  simp [hne]

/-- A rule path without markers: under `ignore_path_and_query_case` the path trigger accepts exactly the request
paths equal to it up to (ASCII) case; without the flag, equal as written. -/
theorem path_case_insensitive (E : Env) (cfg : Cfg) (d : RuleDesc) (qd : ReqDesc)
    (hflag : cfg.ignorePathCase = true) (hlit : (tokenize d.markers d.path.toList).all Tok.isLit = true) :
    pathOk E (mkRoute cfg d) (mkReq cfg qd) = true ↔ d.path.toLower = qd.path.toLower := by
  simp [pathOk, mkRoute, mkReq, sodOf, hlit, hflag]

theorem path_case_sensitive (E : Env) (cfg : Cfg) (d : RuleDesc) (qd : ReqDesc)
    (hflag : cfg.ignorePathCase = false) (hlit : (tokenize d.markers d.path.toList).all Tok.isLit = true) :
    pathOk E (mkRoute cfg d) (mkReq cfg qd) = true ↔ d.path = qd.path := by
  simp [pathOk, mkRoute, mkReq, sodOf, hlit, hflag]

end Rio.C01
