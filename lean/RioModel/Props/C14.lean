/-
C14 — filtering a compressed body equals filtering its decompressed form.

The codecs (flate2, brotli) are outside the model: `Codec` is an abstract pair of state machines (write+flush+drain,
finish) and `CodecLaws` are the two streaming laws (Proofs/FilterCodec.lean).  What is proved is the glue of
`FilterBodyAction`: decode stage first, encode stage last, the `break` of `do_filter` on empty data, the feeding order
of `do_end`.  The statement inherits C03: the inner chain must behave on the decoder's outputs as on the whole body
(`ChunkInvariantOn`), which is unconditional for text filters (`compressed_equiv_text`) and, since the D4 repair fe7eac6,
holds for html filters wherever the decoder flushes (`compressed_equiv_html` under the restart law of the stream
tokenizer; `compressed_equiv_final` in Props/C14tok.lean on the tokenizer model, no hypothesis left).
-/
import RioModel.Proofs.FilterCodec
import RioModel.Proofs.FilterPipe
set_option linter.unusedSimpArgs false
set_option linter.unusedVariables false

namespace Rio.C14
open Rio.Filter Rio.Consts

variable {D E : Type}

/-- C03 at the decoder's flush points: fed the decoder's outputs `ps` (the empty ones are skipped by the `break` of
`do_filter`) and with `do_end` started with the decoder's final output `pe`, the inner stages do not fail and produce
what they produce for the whole body in one chunk. -/
def ChunkInvariantOn (tk : Tokenize) (ev : Bytes → Bytes → Bool) (codec : Codec D E) (inner : List (Stage D E))
    (ps : List Bytes) (pe b : Bytes) : Prop :=
  innerOut tk ev codec inner ps pe = some (({ items := inner } : Chain D E).run tk ev codec [b])

/-- **Compressed ≡ decompressed.**  Under the codec laws, for a stream `z` that decodes to `b` and every partition
`cs` of `z`: the decoder hands the inner stages a partition `ps`, `pe` of `b`, and if the inner chain is
chunk-invariant on it, the concatenated output of `decode :: inner ++ [encode]` is a complete valid stream whose
decoding is the output of the inner chain on `b`. -/
theorem compressed_equiv (tk : Tokenize) (ev : Bytes → Bytes → Bool) (codec : Codec D E) {d0 : D} {e0 : E}
    {decode : Bytes → Option Bytes} (laws : CodecLaws codec d0 e0 decode)
    (inner : List (Stage D E)) (z b : Bytes) (hz : decode z = some b) (cs : List Bytes) (hcs : cs.flatten = z) :
    ∃ ps pe, decRun codec d0 cs = some (ps, pe) ∧ ps.flatten ++ pe = b ∧
      (ChunkInvariantOn tk ev codec inner ps pe b →
        decode (({ items := .decode d0 :: inner ++ [.encode e0] } : Chain D E).run tk ev codec cs) =
          some (({ items := inner } : Chain D E).run tk ev codec [b])) := by
  obtain ⟨ps, pe, h1, h2⟩ := laws.dec z b hz cs hcs
  exact ⟨ps, pe, h1, h2, fun hinv => full_run_spec tk ev codec laws inner cs ps pe _ h1 hinv⟩

/-- the general form: whatever the inner stages produce on the decoder's outputs is what the output decodes to -/
theorem compressed_glue (tk : Tokenize) (ev : Bytes → Bytes → Bool) (codec : Codec D E) {d0 : D} {e0 : E}
    {decode : Bytes → Option Bytes} (laws : CodecLaws codec d0 e0 decode)
    (inner : List (Stage D E)) (cs ps : List Bytes) (pe out : Bytes)
    (hdec : decRun codec d0 cs = some (ps, pe)) (hin : innerOut tk ev codec inner ps pe = some out) :
    decode (({ items := .decode d0 :: inner ++ [.encode e0] } : Chain D E).run tk ev codec cs) = some out :=
  full_run_spec tk ev codec laws inner cs ps pe out hdec hin

/-! ### text filters: the hypothesis holds unconditionally -/

theorem innerFeed_text (tk : Tokenize) (ev : Bytes → Bytes → Bool) (codec : Codec D E) :
    ∀ (ps : List Bytes) (inner : List (Stage D E)), AllText inner →
      ∃ inner' qs, innerFeed tk ev codec inner ps = some (inner', qs) ∧ AllText inner' ∧
        ∀ b, textTotal inner (ps.flatten ++ b) = qs ++ textTotal inner' b
  | [], inner, h => ⟨inner, [], rfl, h, fun b => by simp⟩
  | p :: ps, inner, h => by
    simp only [innerFeed]
    by_cases hemp : p.isEmpty = true
    · have hp : p = [] := by simpa using hemp
      subst hp
      simp only [List.isEmpty_nil, if_true]
      obtain ⟨inner', qs, h1, h2, h3⟩ := innerFeed_text tk ev codec ps inner h
      exact ⟨inner', qs, h1, h2, fun b => by simpa using h3 b⟩
    · simp only [hemp, Bool.false_eq_true, if_false]
      obtain ⟨items', out, f1, f2, f3⟩ := doFilter_text tk ev codec inner p h
      rw [f1]
      obtain ⟨inner', qs, h1, h2, h3⟩ := innerFeed_text tk ev codec ps items' f2
      simp only [h1, Option.map_some]
      refine ⟨inner', out ++ qs, rfl, h2, fun b => ?_⟩
      simp only [List.flatten_cons, List.append_assoc]
      rw [f3, h3]

theorem innerOut_text (tk : Tokenize) (ev : Bytes → Bytes → Bool) (codec : Codec D E)
    (inner : List (Stage D E)) (h : AllText inner) (ps : List Bytes) (pe : Bytes) :
    innerOut tk ev codec inner ps pe = some (textTotal inner (ps.flatten ++ pe)) := by
  obtain ⟨inner', qs, h1, h2, h3⟩ := innerFeed_text tk ev codec ps inner h
  obtain ⟨items', r, e1, e2⟩ := doEnd_text tk ev codec inner' (if pe.isEmpty then none else some pe) h2
  simp only [innerOut, h1, e1]
  rw [h3, ← e2, optGetD]

/-- **Compressed ≡ decompressed for text filters**, no hypothesis on the chunking or on the bytes. -/
theorem compressed_equiv_text (tk : Tokenize) (ev : Bytes → Bytes → Bool) (codec : Codec D E) {d0 : D} {e0 : E}
    {decode : Bytes → Option Bytes} (laws : CodecLaws codec d0 e0 decode)
    (inner : List (Stage D E)) (hall : AllText inner)
    (z b : Bytes) (hz : decode z = some b) (cs : List Bytes) (hcs : cs.flatten = z) :
    decode (({ items := .decode d0 :: inner ++ [.encode e0] } : Chain D E).run tk ev codec cs) =
      some (({ items := inner } : Chain D E).run tk ev codec [b]) := by
  obtain ⟨ps, pe, h1, h2, h3⟩ := compressed_equiv tk ev codec laws inner z b hz cs hcs
  apply h3
  unfold ChunkInvariantOn
  rw [innerOut_text tk ev codec inner hall ps pe, run_text tk ev codec _ hall rfl [b], h2]
  simp

/-! ### html filters: the hypothesis follows from C03's safe-cut hypothesis at the decoder's flush points -/

theorem innerFeed_eq_feedG (tk : Tokenize) (ev : Bytes → Bytes → Bool) (codec : Codec D E) :
    ∀ (ps : List Bytes) (inner : List (Stage D E)),
      innerFeed tk ev codec inner ps = feedG tk ev codec inner (nonEmpty ps)
  | [], inner => rfl
  | p :: ps, inner => by
    simp only [innerFeed, nonEmpty, List.filter]
    by_cases hemp : p.isEmpty = true
    · simp only [hemp, if_true, Bool.not_true]
      exact innerFeed_eq_feedG tk ev codec ps inner
    · simp only [hemp, Bool.false_eq_true, if_false, Bool.not_false, feedG]
      cases doFilter tk ev codec inner p with
      | mk items1 r =>
        cases r with
        | none => rfl
        | some q =>
          simp only
          rw [innerFeed_eq_feedG tk ev codec ps items1]
          rfl

/-- what the inner stages hand to the encoder is their pipeline run on the decoder's non-empty outputs -/
theorem innerOut_eq_runG (tk : Tokenize) (ev : Bytes → Bytes → Bool) (codec : Codec D E)
    (inner : List (Stage D E)) (ps : List Bytes) (pe : Bytes) :
    innerOut tk ev codec inner ps pe = runG tk ev codec inner (nonEmpty ps) (optB pe) := by
  unfold innerOut runG
  rw [innerFeed_eq_feedG]
  rfl

/-- **Compressed ≡ decompressed for html (and text) filters, every flush point.**  Under the codec laws and the restart
law of the stream tokenizer (`RestartLaw`, every cut is safe since fe7eac6): for fresh inner stages (`StageInit`: as
`FilterBodyAction::new` builds them), if no inner call fails — neither when the chain is fed the decoder's outputs nor
when it is fed `b` as one chunk — the output of the compressed chain decodes to the plain result.  No hypothesis on where
the decoder flushes. -/
theorem compressed_equiv_html (tk : Tokenize) (ev : Bytes → Bytes → Bool) (codec : Codec D E) {d0 : D} {e0 : E}
    {decode : Bytes → Option Bytes} (laws : CodecLaws codec d0 e0 decode) (hl : LosslessS tk) (hr : RestartLaw tk)
    (inner : List (Stage D E)) (hp : AllPlain inner) (hinit : ∀ st ∈ inner, StageInit tk st)
    (z b : Bytes) (hz : decode z = some b)
    (cs : List Bytes) (hcs : cs.flatten = z)
    (hok : ∀ ps pe, decRun codec d0 cs = some (ps, pe) → runG tk ev codec inner (nonEmpty ps) (optB pe) ≠ none)
    (hok1 : runG tk ev codec inner [b] none ≠ none) :
    decode (({ items := .decode d0 :: inner ++ [.encode e0] } : Chain D E).run tk ev codec cs) =
      some (({ items := inner } : Chain D E).run tk ev codec [b]) := by
  obtain ⟨ps, pe, h1, h2, h3⟩ := compressed_equiv tk ev codec laws inner z b hz cs hcs
  apply h3
  unfold ChunkInvariantOn
  have s2 := hok ps pe h1
  rw [innerOut_eq_runG]
  cases hr' : runG tk ev codec inner (nonEmpty ps) (optB pe) with
  | none => exact absurd hr' s2
  | some out =>
    cases hr1 : runG tk ev codec inner [b] none with
    | none => exact absurd hr1 hok1
    | some out1 =>
      rw [run_of_runG tk ev codec [b] inner out1 hr1]
      congr 1
      apply runG_stream tk ev codec hl hr inner (nonEmpty ps) (optB pe) [b] none out out1 hp hinit _ hr' hr1
      rw [nonEmpty_flatten, optB_getD]; simpa using h2

/-! ### the shape of the chain `FilterBodyAction::new` builds -/

/-- A supported `Content-Encoding` (lower-cased value br / gzip / deflate) and a non-empty list of stages: decode stage
first, encode stage last, the stages of the filters in between. -/
theorem supported_chain_shape (codec : Codec D E) (lower : String → String) (fs : List BodyFilter)
    (headers : List (String × String)) (enc : String)
    (henc : headerValue lower filterHeaderContentEncoding headers = some enc)
    (hsup : filterSupportedEncodings.contains enc = true)
    (hne : (fs.filterMap fun f => (Stage.new f (headerValue lower filterHeaderContentType headers) : Option (Stage D E))) ≠ []) :
    (Chain.new codec lower fs headers).items =
      .decode (codec.create enc).1 ::
        (fs.filterMap fun f => Stage.new f (headerValue lower filterHeaderContentType headers)) ++
        [.encode (codec.create enc).2] ∧
    (Chain.new codec lower fs headers).inError = false := by
  have : (fs.filterMap fun f => (Stage.new f (headerValue lower filterHeaderContentType headers) : Option (Stage D E))).isEmpty = false := by
    cases h : (fs.filterMap fun f => (Stage.new f (headerValue lower filterHeaderContentType headers) : Option (Stage D E))) with
    | nil => exact absurd h hne
    | cons a l => rfl
  simp only [Chain.new, this, henc, hsup]
  simp

/-- Clause "unsupported encodings disable filtering": any other `Content-Encoding` value gives the empty chain
(and the empty chain passes every chunk through: `Rio.C04.passthrough_empty`). -/
theorem unsupported_passthrough (codec : Codec D E) (lower : String → String) (fs : List BodyFilter)
    (headers : List (String × String)) (enc : String)
    (henc : headerValue lower filterHeaderContentEncoding headers = some enc)
    (hno : filterSupportedEncodings.contains enc = false) :
    (Chain.new codec lower fs headers).items = [] := by
  simp only [Chain.new, henc, hno]
  split <;> simp_all

/-- the supported encodings are exactly br, gzip, deflate (regenerated from src/filter/encoding/mod.rs) -/
theorem supported_iff (enc : String) :
    filterSupportedEncodings.contains enc = true ↔ enc = "br" ∨ enc = "gzip" ∨ enc = "deflate" := by
  simp [filterSupportedEncodings]

/-- No filter stage, no codec stage: with an empty list of stages the body is not even decoded. -/
theorem empty_chain_no_codec (codec : Codec D E) (lower : String → String) (fs : List BodyFilter)
    (headers : List (String × String))
    (hemp : (fs.filterMap fun f => (Stage.new f (headerValue lower filterHeaderContentType headers) : Option (Stage D E))) = []) :
    (Chain.new codec lower fs headers).items = [] := by
  simp [Chain.new, hemp]

/-! ### non-vacuity: a codec satisfying the laws -/

/-- the identity "codec": a stream is its own decoding, nothing is buffered -/
def idCodec : Codec Unit Unit where
  create _ := ((), ())
  decWrite _ b := some ((), b)
  decFinish _ := some []
  encWrite _ b := some ((), b)
  encFinish _ := some []

theorem writes_id (xs : List Bytes) : writes (fun (_ : Unit) (b : Bytes) => some ((), b)) () xs = some ((), xs) := by
  induction xs with
  | nil => rfl
  | cons x xs ih => simp [writes, ih]

theorem idCodec_laws : CodecLaws idCodec () () (fun z => some z) := by
  constructor
  · intro z b hz zs hzs
    injection hz with hz
    subst hz
    refine ⟨zs, [], ?_, by simp [hzs]⟩
    simp [decRun, idCodec, writes_id]
  · intro ws
    refine ⟨ws, [], ?_, by simp⟩
    simp [encRun, idCodec, writes_id]

/-- `compressed_equiv_text` instantiated: the hypotheses are satisfiable and the conclusion is about a real run. -/
example (cs : List Bytes) :
    (({ items := .decode () :: [.text { action := .prepend, content := [80] }, .text { action := .append, content := [65] }] ++ [.encode ()] } : Chain Unit Unit).run
        { plain := fun d => ([], d), stream := fun c d => ([], d, c) } (fun _ _ => false) idCodec cs) =
      (({ items := [.text { action := .prepend, content := [80] }, .text { action := .append, content := [65] }] } : Chain Unit Unit).run
        { plain := fun d => ([], d), stream := fun c d => ([], d, c) } (fun _ _ => false) idCodec [cs.flatten]) := by
  have := compressed_equiv_text { plain := fun d => ([], d), stream := fun c d => ([], d, c) } (fun _ _ => false) idCodec idCodec_laws
    [.text { action := .prepend, content := [80] }, .text { action := .append, content := [65] }]
    (by intro st h; simp at h; rcases h with rfl | rfl <;> exact ⟨_, rfl⟩)
    cs.flatten cs.flatten rfl cs rfl
  injection this

end Rio.C14
