/-
C07 — the two hand-written text parsers of the library: `Addr::from_str` (src/http/addr.rs) and the address collection of
`Log::from_proxy` (src/api/log.rs: `X-Forwarded-For`, `Forwarded`).

Neither file contains an index, slice, unwrap or arithmetic site (the static inventory lists none for them): they are built from
`trim_matches`, `split`, `splitn`, `trim`, `to_lowercase` and the two std parsers, all total.  So "no input makes a site panic" is
true for the empty set of sites; what a model can add, and what these theorems state for EVERY input string, every behaviour of the
std parsers (`Std` is a parameter) and every lower-casing function, is the exact result:

* `addr_parse_total`      the result is always one of three closed forms, decided by the two std parsers on the trimmed text;
* `addr_parse_pad`        padding with `\0 \n \r \t space` on either side never changes the result;
* `log_forwarded_total`   every address `from_proxy` reports was accepted by a std parser on some text (no invented address),
                          and an `X-Forwarded-For` value with n commas yields at most n + 1 addresses;
* `xff_spec`, `forwarded_pair_spec`, `forwarded_elements`   closed forms for the well-formed shapes.

The correspondence (harness c07, families `addr_parse` and `log_ips`) compares the real `str::parse::<Addr>()` and the `ips` of the
real `Log::from_proxy` with this model, the std parsers being supplied as the table of answers the real std gave.
-/
import RioModel.Proofs.LogParse
set_option linter.unusedSimpArgs false

namespace Rio.C07
open Rio.AddrParse Rio.LogParse

/-- **`Addr::from_str` is total and has exactly three outcomes**, decided by the std parsers on the trimmed text:
`IpAddr` first (no port), then `SocketAddr` (its ip and port), else `Err`. -/
theorem addr_parse_total (S : Std) (s : List Char) :
    (∃ ip, S.parseIp (trimChars inTrimSet s) = some ip ∧ parseAddr S s = .ok ip none) ∨
    (∃ ip p, S.parseIp (trimChars inTrimSet s) = none ∧ S.parseSock (trimChars inTrimSet s) = some (ip, p) ∧
      parseAddr S s = .ok ip (some p)) ∨
    (S.parseIp (trimChars inTrimSet s) = none ∧ S.parseSock (trimChars inTrimSet s) = none ∧ parseAddr S s = .err) := by
  unfold parseAddr
  cases h1 : S.parseIp (trimChars inTrimSet s) with
  | some ip => exact Or.inl ⟨ip, rfl, by simp [h1]⟩
  | none =>
    cases h2 : S.parseSock (trimChars inTrimSet s) with
    | some q => obtain ⟨ip, p⟩ := q; exact Or.inr (Or.inl ⟨ip, p, rfl, rfl, by simp [h1, h2]⟩)
    | none => exact Or.inr (Or.inr ⟨rfl, rfl, by simp [h1, h2]⟩)

/-- Padding with the trimmed characters, on either side, never changes the result. -/
theorem addr_parse_pad (S : Std) (a b s : List Char) (ha : ∀ c ∈ a, inTrimSet c = true) (hb : ∀ c ∈ b, inTrimSet c = true) :
    parseAddr S (a ++ s ++ b) = parseAddr S s := by
  unfold parseAddr
  rw [trimChars_pad ha hb]

/-- an address that was reported was accepted by a std parser -/
theorem addr_parse_sound (S : Std) (s : List Char) (ip : String) (h : (parseAddr S s).ip? = some ip) :
    ∃ t, S.parseIp t = some ip ∨ ∃ p, S.parseSock t = some (ip, p) := by
  rcases addr_parse_total S s with ⟨i, h1, h2⟩ | ⟨i, p, _, h1, h2⟩ | ⟨_, _, h2⟩
  · rw [h2] at h; simp [Res.ip?] at h; exact ⟨_, Or.inl (h ▸ h1)⟩
  · rw [h2] at h; simp [Res.ip?] at h; exact ⟨_, Or.inr ⟨p, h ▸ h1⟩⟩
  · rw [h2] at h; simp [Res.ip?] at h

/-- `X-Forwarded-For: p1,p2,…` (pieces without comma): each piece is parsed on its own, failures are skipped, order is kept. -/
theorem xff_spec (S : Std) (pieces : List (List Char)) (hne : pieces ≠ []) (h : ∀ p ∈ pieces, ',' ∉ p) :
    xff S (joinSep ',' pieces) = pieces.filterMap fun p => (parseAddr S p).ip? := by
  unfold xff
  rw [splitOn_join ',' pieces hne h]

/-- One element `name=value` of a `Forwarded` header (after trimming; `=` not in the name): it contributes iff the trimmed,
lower-cased name is `for`, and then the value without surrounding white space and double quotes is parsed as an `Addr`. -/
theorem forwarded_pair_spec (S : Std) (lower : List Char → List Char) (pair name val : List Char)
    (ht : trim pair = name ++ '=' :: val) (hn : '=' ∉ name) :
    forwardedPair S lower pair =
      if lower (trim name) = "for".toList then (parseAddr S (stripQuotes (trim val))).ip? else none := by
  unfold forwardedPair
  rw [ht, splitFirst_append '=' name hn val]

/-- an element without `=` contributes nothing -/
theorem forwarded_pair_no_eq (S : Std) (lower : List Char → List Char) (pair : List Char) (h : '=' ∉ trim pair) :
    forwardedPair S lower pair = none := by
  unfold forwardedPair
  rw [splitFirst_none '=' _ h]

/-- `Forwarded: e1, e2, …` (elements without `,` and `;`): the elements are examined one by one, in order. -/
theorem forwarded_elements (S : Std) (lower : List Char → List Char) (els : List (List Char)) (hne : els ≠ [])
    (h : ∀ e ∈ els, ',' ∉ e ∧ ';' ∉ e) :
    forwardedFor S lower (joinSep ',' els) = els.filterMap (forwardedPair S lower) := by
  unfold forwardedFor
  have hsemi : ';' ∉ joinSep ',' els := by
    clear hne
    induction els with
    | nil => simp [joinSep]
    | cons e rest ih =>
      cases rest with
      | nil => simpa [joinSep] using (h e (by simp)).2
      | cons q r =>
        simp only [joinSep, List.mem_append, List.mem_cons, not_or]
        exact ⟨(h e (by simp)).2, by decide, ih (fun x hx => h x (by simp [hx]))⟩
  rw [splitOn_single ';' _ hsemi]
  simp only [List.flatMap_cons, List.flatMap_nil, List.append_nil]
  rw [splitOn_join ',' els hne (fun e he => (h e he).1)]

/-- **`Log::from_proxy` reports only addresses a std parser accepted** (for the client ip, an `X-Forwarded-For` piece or a
`Forwarded` `for=` value), and an `X-Forwarded-For` value with n commas yields at most n + 1 of them. -/
theorem log_forwarded_total (S : Std) (lower : List Char → List Char) (clientIp : List Char)
    (headers : List (List Char × List Char)) :
    (∀ ip ∈ ips S lower clientIp headers, ∃ t, S.parseIp t = some ip ∨ ∃ p, S.parseSock t = some (ip, p)) ∧
    (∀ v, (xff S v).length ≤ countSep ',' v + 1) := by
  constructor
  · intro ip hip
    simp only [ips, List.mem_append, Option.mem_toList, List.mem_flatMap] at hip
    rcases hip with h | ⟨hd, _, h⟩
    · exact addr_parse_sound S clientIp ip (by simpa using h)
    · simp only [headerIps, List.mem_append] at h
      rcases h with h | h
      · split at h
        · simp only [xff, List.mem_filterMap] at h
          obtain ⟨piece, _, hp⟩ := h
          exact addr_parse_sound S piece ip hp
        · simp at h
      · split at h
        · simp only [forwardedFor, List.mem_filterMap] at h
          obtain ⟨pair, _, hp⟩ := h
          unfold forwardedPair at hp
          split at hp
          · simp at hp
          · split at hp
            · exact addr_parse_sound S _ ip hp
            · simp at hp
        · simp at h
  · intro v
    unfold xff
    exact Nat.le_trans (List.length_filterMap_le _ _) (Nat.le_of_eq (splitOn_length ',' v))

/-! ### Non-vacuity: a toy `Std` that knows four texts -/

section Examples
def toyStd : Std where
  parseIp := fun t => if t = "1.2.3.4".toList then some "1.2.3.4" else if t = "::1".toList then some "::1" else none
  parseSock := fun t => if t = "1.2.3.4:80".toList then some ("1.2.3.4", 80) else if t = "[::1]:443".toList then some ("::1", 443) else none

example : parseAddr toyStd " 1.2.3.4\n".toList = .ok "1.2.3.4" none := by decide
example : parseAddr toyStd "\t[::1]:443 ".toList = .ok "::1" (some 443) := by decide
/-- a bracketed IPv6 address WITHOUT port is neither an `IpAddr` nor a `SocketAddr`: `Err` (RFC 7239 writes `for="[::1]"`) -/
example : parseAddr toyStd "[::1]".toList = .err := by decide
example : xff toyStd "1.2.3.4, bad,,::1 ".toList = ["1.2.3.4", "::1"] := by decide
example : forwardedFor toyStd id "for=1.2.3.4;by=x, for=\"[::1]:443\" ,proto=http; for = ::1 ,for=\"[\"".toList =
    ["1.2.3.4", "::1", "::1"] := by decide
example : ips toyStd id "1.2.3.4:80".toList [("x-forwarded-for".toList, "::1".toList), ("forwarded".toList, "for=1.2.3.4".toList),
    ("other".toList, "for=::1".toList)] = ["1.2.3.4", "::1", "1.2.3.4"] := by decide
end Examples

end Rio.C07
