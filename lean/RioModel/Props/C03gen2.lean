/-
C03 / C04 (streaming html step) for `HtmlFilterBodyAction::filter` REGENERATED FROM THE SOURCE.

`Rio.Consts.genHtmlFilter` / `genHtmlFilterLoop` / `genHtmlIsCut` are translated on every run from `filter` and `is_cut`
of src/filter/html_filter_body.rs (plugin w25_htmlstep): the entry read of `last_buffer` / `last_context` (clone, not take),
the early `Err` on invalid UTF-8, the `loop` with its inner `while` over text containing `<`, the three exits that store
held bytes together with `context` (ErrorToken, held text, cut token), the post-loop `extend(pending)`.  The tokenizer
(as a cursor over `Tokenize.stream`), `from_utf8`, the push statement and the tag dispatch are abstract parameters,
instantiated here at the hand model (Proofs/HtmlStepGen.lean).  The translated function equals `Rio.Filter.filterHtml`
for EVERY state, input, tokenizer and selector oracle, including the state returned with an `Err`; `held_bytes` and
`split_lemma` of Props/C03.lean are restated for it, so a source change in the state handling of `filter` breaks a proof.
-/
import RioModel.Props.C03
import RioModel.Proofs.HtmlStepGen
set_option linter.unusedSimpArgs false
set_option linter.unusedVariables false

namespace Rio.C03
open Rio.Consts Rio.Filter Rio.HtmlStepGen

/-- **translated = model**, with the state after an `Err`: the translated `filter` returns (state, result); it is the
hand model's result and, when the model fails (invalid UTF-8), the UNCHANGED state.  `sp` is any division of the
remainder at the ErrorToken between `raw()` and `buffered()`. -/
theorem gen_html_filter_eq_model (tk : Tokenize) (ev : Bytes → Bytes → Bool) (sp : Bytes → Bytes × Bytes)
    (hsp : ∀ r, (sp r).1 ++ (sp r).2 = r) (s : HtmlSt) (input : Bytes) :
    genHtmlFilter gRaw gTag gCut gIsText gPush (gDispatch tk ev) gGetLast gGetCtx gSetLast gSetCtx
        gFromUtf8 (gNewFragment tk sp) s input =
      match filterHtml tk ev s input with
      | none => (s, none)
      | some r => (r.1, some r.2) :=
  genHtmlFilter_eq tk ev sp hsp s input

/-- the same in the shape of the model (`none` = `Err`) -/
theorem gen_html_filter_opt_eq_model (tk : Tokenize) (ev : Bytes → Bytes → Bool) (sp : Bytes → Bytes × Bytes)
    (hsp : ∀ r, (sp r).1 ++ (sp r).2 = r) (s : HtmlSt) (input : Bytes) :
    genFilterHtml tk ev sp s input = filterHtml tk ev s input :=
  genFilterHtml_eq tk ev sp hsp s input

/-- the translated `is_cut` is the model's -/
theorem gen_html_is_cut_eq_model (x : TokX) : genHtmlIsCut x.cut (x.tok.kind == .text) x.ctx = isCut x :=
  genIsCut_eq x

/-- the translated loop from a current token is the closed form of the model from any (state, output) -/
theorem gen_html_loop_eq_model (tk : Tokenize) (ev : Bytes → Bytes → Bool) (rest errRaw errBuf ctxE pending : Bytes)
    (hsp : errRaw ++ errBuf = rest) (xs : List TokX) (x : TokX) (so : HtmlSt × Bytes) :
    genHtmlFilterLoop gRaw gTag gCut gIsText gPush (gDispatch tk ev) gGetLast gSetLast gSetCtx
        errRaw errBuf ctxE pending x x.ctx xs so =
      closed tk ev rest ctxE pending (x :: xs) so :=
  genLoop_eq tk ev rest errRaw errBuf ctxE pending hsp xs x so

/-- **Invalid bytes: the translated code fails before touching any state** (held bytes can still be given back, C04). -/
theorem gen_html_err_state_untouched (tk : Tokenize) (ev : Bytes → Bytes → Bool) (sp : Bytes → Bytes × Bytes)
    (hsp : ∀ r, (sp r).1 ++ (sp r).2 = r) (s : HtmlSt) (input : Bytes) (h : utf8Scan (s.last ++ input) = .invalid) :
    genHtmlFilter gRaw gTag gCut gIsText gPush (gDispatch tk ev) gGetLast gGetCtx gSetLast gSetCtx
        gFromUtf8 (gNewFragment tk sp) s input = (s, none) := by
  rw [gen_html_filter_eq_model tk ev sp hsp]
  simp [filterHtml, utf8Split, h]

/-- `held_bytes` (Props/C03.lean) for the translated `filter` -/
theorem held_bytes_gen {tk : Tokenize} (hl : LosslessS tk) (ev : Bytes → Bytes → Bool) (sp : Bytes → Bytes × Bytes)
    (hsp : ∀ r, (sp r).1 ++ (sp r).2 = r) (s s' : HtmlSt) (x o : Bytes)
    (h : genFilterHtml tk ev sp s x = some (s', o)) :
    ∃ data pending, utf8Split (s.last ++ x) = some (data, pending) ∧
      s'.last = (view tk s.ctx data).tail ++ pending ∧
      rawsOf (view tk s.ctx data).todo ++ (view tk s.ctx data).tail = data ∧
      ((view tk s.ctx data).tail = (tk.stream s.ctx data).2.1 ∨
       (∃ t : Tok, t.kind = .text ∧ hasLt t.raw = true ∧ (view tk s.ctx data).tail = t.raw ++ (tk.stream s.ctx data).2.1) ∨
       (∃ c rest, (cutSplit (tk.stream s.ctx data).1).2 = c :: rest ∧ isCut c = true ∧
          (view tk s.ctx data).tail = c.tok.raw ++ (rawsOf (toksOf rest) ++ (tk.stream s.ctx data).2.1))) := by
  rw [gen_html_filter_opt_eq_model tk ev sp hsp] at h
  exact held_bytes hl ev s s' x o h

/-- `split_lemma` (Props/C03.lean) for the translated `filter` -/
theorem split_lemma_gen (tk : Tokenize) (ev : Bytes → Bytes → Bool) (hr : RestartLaw tk) (sp : Bytes → Bytes × Bytes)
    (hsp : ∀ r, (sp r).1 ++ (sp r).2 = r) (s s1 : HtmlSt) (x r o1 : Bytes)
    (hc : Ctx s.ctx) (h1 : genFilterHtml tk ev sp s x = some (s1, o1)) :
    htmlTotal tk ev s (x ++ r) = (htmlTotal tk ev s1 r).map fun t => o1 ++ t := by
  rw [gen_html_filter_opt_eq_model tk ev sp hsp] at h1
  exact split_lemma tk ev hr s s1 x r o1 hc h1

/-- the translated `match token_type {..}` + final push of the loop body (on_start_tag_token / on_end_tag_token /
VOID_ELEMENTS / tag_name as parameters, instantiated at the model's `onStart` / `onEnd` / `isVoid` / `Tok.name`) is one
`stepTok` of the model, for every state, output and token -/
theorem gen_html_dispatch_eq_model (tk : Tokenize) (ev : Bytes → Bytes → Bool) (so : HtmlSt × Bytes) (x : TokX) :
    genHtmlDispatch gTokIs gRaw gName isVoid gOnStart (gOnEnd tk ev) gPush so x = stepTok tk ev so x.tok :=
  genDispatch_eq tk ev so x

/-- **translated = model, whole function**: the translated `filter` running the translated dispatch in its loop -/
theorem gen_html_filter_full_eq_model (tk : Tokenize) (ev : Bytes → Bytes → Bool) (sp : Bytes → Bytes × Bytes)
    (hsp : ∀ r, (sp r).1 ++ (sp r).2 = r) (s : HtmlSt) (input : Bytes) :
    genHtmlFilter gRaw gTag gCut gIsText gPush
        (genHtmlDispatch gTokIs gRaw gName isVoid gOnStart (gOnEnd tk ev) gPush)
        gGetLast gGetCtx gSetLast gSetCtx gFromUtf8 (gNewFragment tk sp) s input =
      match filterHtml tk ev s input with
      | none => (s, none)
      | some r => (r.1, some r.2) := by
  have h := gDispatchT_eq tk ev
  unfold gDispatchT at h
  rw [show genHtmlDispatch gTokIs gRaw gName isVoid gOnStart (gOnEnd tk ev) gPush = gDispatch tk ev from
    funext fun so => funext fun x => congrFun (congrFun h so) x]
  exact genHtmlFilter_eq tk ev sp hsp s input

/-! non-vacuity: divisions of the remainder exist (all of it in `raw()`, or all of it in `buffered()`), and the translated
step computes on a toy tokenizer (one text token = the data): `a<` is held with its context, invalid bytes leave the state -/
example : ∀ r : Bytes, ((fun r => (r, [])) r : Bytes × Bytes).1 ++ ((fun r => (r, [])) r : Bytes × Bytes).2 = r := by simp
example : ∀ r : Bytes, ((fun r => ([], r)) r : Bytes × Bytes).1 ++ ((fun r => ([], r)) r : Bytes × Bytes).2 = r := by simp

def toyTk : Tokenize where
  plain := fun b => ([], b)
  stream := fun c d => (if d.isEmpty then [] else [⟨⟨.text, d, []⟩, false, c⟩], [], c)

def toySt : HtmlSt := { enter := none, visitor := { kind := .append, cur := [], content := [] }, last := [97], ctx := [116] }

example : (genFilterHtml toyTk (fun _ _ => false) (fun r => (r, [])) toySt [60]).map (fun r => (r.1.last, r.1.ctx, r.2))
    = some ([97, 60], [116], []) := by decide +kernel
example : (genFilterHtml toyTk (fun _ _ => false) (fun r => (r, [])) toySt [98]).map (fun r => (r.1.last, r.1.ctx, r.2))
    = some ([], [116], [97, 98]) := by decide +kernel
example : genHtmlFilter gRaw gTag gCut gIsText gPush (gDispatch toyTk (fun _ _ => false)) gGetLast gGetCtx gSetLast gSetCtx
    gFromUtf8 (gNewFragment toyTk (fun r => (r, []))) toySt [255] = (toySt, none) := by decide +kernel

/-- the whole translated function computes on the toy tokenizer -/
example : (genHtmlFilter gRaw gTag gCut gIsText gPush
      (genHtmlDispatch gTokIs gRaw gName isVoid gOnStart (gOnEnd toyTk (fun _ _ => false)) gPush)
      gGetLast gGetCtx gSetLast gSetCtx gFromUtf8 (gNewFragment toyTk (fun r => ([], r))) toySt [98]).2 = some [97, 98] := by
  decide +kernel

end Rio.C03
