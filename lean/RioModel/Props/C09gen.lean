/-
C09 (URL normalisation) — the request-side normaliser REGENERATED FROM THE SOURCE (W21).

`Rio.Consts.genSanitizeUrl` and `Rio.Consts.genPqsFromConfig` are translated on every run from src/http/query.rs
(`sanitize_url`, `PathAndQueryWithSkipped::from_config`; plugin tools/consts_dev/w21_urlnorm.py → section `tr_w21_urlnorm`):
sanitising, the `match url.parse() { Ok .. Err => return .. }` fallback, the `BTreeMap` collect, the `for (key, value)` loop
with the `query_param` string (name, `=` + value iff the value is non-empty), the split into `skipped_query_params` /
`query_string` by `ignore_marketing_query_params && marketing_query_params.contains(key)`, the `&` separators (pushed iff
the RECEIVING string is non-empty), the `?` (pushed iff the kept query string is non-empty), lower-casing under
`ignore_path_and_query_case`, `skipped_query_params` forwarded iff `pass_marketing_query_params_to_target` and non-empty.

Also translated: the RULE side `Request::build_sorted_query` of src/http/request.rs (`genBuildSortedQuery`: the `BTreeMap` collect,
the loop pushing name, `=` + value iff non-empty, `&`; the final `pop()`; `None` iff nothing is left) —
`gen_sorted_query_eq_param_model` / `gen_sorted_query_eq_model`, `gen_sorted_query_pop_ascii` (the byte `dropLast` removes is
the ASCII `&`), `sorted_query_order_independent_gen`.

PARAMETERS of the translation (abstract functions, exactly the ones the hand model Model/Url.lean hand-models):
`pctEncode` (utf8_percent_encode; the SETS are the regenerated constants), `pqParse` / `pqPath` / `pqQuery`
(http::uri::PathAndQuery), `parseQuery` (form_urlencoded::parse), `btreeCollect` (BTreeMap collect + iteration),
`toLowercase`.  `gen_from_config_eq_param_model` holds for ARBITRARY parameter functions (no hypothesis); the instance at the
executable stand-ins of Model/Url.lean is `gen_from_config_eq_model`.  Nothing in the translated function can panic
(no index / unwrap / arithmetic): no representation hypothesis is needed, states and inputs are unrestricted.
-/
import RioModel.Proofs.UrlGen
import RioModel.Props.C09
set_option linter.unusedSimpArgs false
set_option linter.unusedVariables false

namespace Rio.C09
open Rio.Url Rio.Consts Rio.UrlGen

/-- the translated `from_config` at the stand-ins of Model/Url.lean for its seven abstract parameters, the four
configuration fields read from `cfg`. -/
def genFromConfig (cfg : Cfg) (u : Bytes) : Bytes × Option Bytes × Option Bytes × Bytes :=
  genPqsFromConfig pctEncode pqParse (fun x => pqPath x.1) (fun x => x.2) parseQuery btCollect lowerAscii
    cfg.ignoreCase cfg.ignoreMarketing cfg.passMarketing cfg.marketing u

/-- **translated `from_config` = the hand-written model with its external functions as parameters**, for every
configuration, every URL and ARBITRARY parameter functions (any type `π` of parsed `PathAndQuery` values). -/
theorem gen_from_config_eq_param_model {π : Type} (enc : List Nat → Bytes → Bytes) (parse : Bytes → Option π)
    (path : π → Bytes) (query : π → Option Bytes) (pq : Bytes → List (Bytes × Bytes))
    (bt : List (Bytes × Bytes) → List (Bytes × Bytes)) (lower : Bytes → Bytes) (cfg : Cfg) (u : Bytes) :
    genPqsFromConfig enc parse path query pq bt lower cfg.ignoreCase cfg.ignoreMarketing cfg.passMarketing
        cfg.marketing u =
      toTuple (fromConfigP enc parse path query pq bt lower cfg u) :=
  gen_eq_fromConfigP enc parse path query pq bt lower cfg u

/-- the parametrised model at the stand-ins IS `Rio.Url.fromConfig`. -/
theorem param_model_standins (cfg : Cfg) (u : Bytes) :
    fromConfigP pctEncode pqParse (fun x => pqPath x.1) (fun x => x.2) parseQuery btCollect lowerAscii cfg u =
      fromConfig cfg u :=
  fromConfigP_standins cfg u

/-- **translated `from_config` = `Rio.Url.fromConfig`** (the four fields in declaration order), every configuration,
every URL; no hypothesis. -/
theorem gen_from_config_eq_model (cfg : Cfg) (u : Bytes) :
    genFromConfig cfg u =
      ((fromConfig cfg u).pathAndQuery, (fromConfig cfg u).matching, (fromConfig cfg u).skipped,
        (fromConfig cfg u).original) := by
  unfold genFromConfig
  rw [gen_eq_fromConfigP, fromConfigP_standins]
  rfl

/-- translated `sanitize_url` = `Rio.Url.sanitize`. -/
theorem gen_sanitize_eq_model (u : Bytes) : genSanitizeUrl pctEncode u = sanitize u := rfl

/-- For ARBITRARY parameter functions: the translated code returns the input as `original`, forwards no skipped
parameters unless `pass_marketing_query_params_to_target`, and never an empty `Some("")`. -/
theorem gen_from_config_original_skipped {π : Type} (enc : List Nat → Bytes → Bytes) (parse : Bytes → Option π)
    (path : π → Bytes) (query : π → Option Bytes) (pq : Bytes → List (Bytes × Bytes))
    (bt : List (Bytes × Bytes) → List (Bytes × Bytes)) (lower : Bytes → Bytes) (ic im pm : Bool)
    (mk : List Bytes) (u : Bytes) :
    (genPqsFromConfig enc parse path query pq bt lower ic im pm mk u).2.2.2 = u ∧
    (pm = false → (genPqsFromConfig enc parse path query pq bt lower ic im pm mk u).2.2.1 = none) ∧
    (genPqsFromConfig enc parse path query pq bt lower ic im pm mk u).2.2.1 ≠ some [] := by
  have h := gen_eq_fromConfigP enc parse path query pq bt lower ⟨ic, im, pm, mk, false, false⟩ u
  simp only at h
  rw [h]
  unfold fromConfigP toTuple
  cases parse (enc urlSet u) with
  | none => simp
  | some p =>
    refine ⟨by simp, fun hpm => by simp [hpm], ?_⟩
    exact ite_some_ne_nil _ _

/-- **`order_independent` restated for the translated definition**: permuting the `&`-pieces of the query (distinct
decoded keys) leaves `path_and_query`, `path_and_query_matching` and `skipped_query_params` computed by the TRANSLATED
`from_config` unchanged. -/
theorem order_independent_gen (cfg : Cfg) (P Q Q' : Bytes) (hP : 63 ∉ P)
    (hb : IsBytes (P ++ 63 :: Q)) (hb' : IsBytes (P ++ 63 :: Q'))
    (hperm : (pieces 38 Q).Perm (pieces 38 Q'))
    (hnd : ((parseQuery Q).map Prod.fst).Nodup)
    (hacc : (pqParse (sanitize (P ++ 63 :: Q))).isSome = true) :
    (genFromConfig cfg (P ++ 63 :: Q)).1 = (genFromConfig cfg (P ++ 63 :: Q')).1 ∧
    (genFromConfig cfg (P ++ 63 :: Q)).2.1 = (genFromConfig cfg (P ++ 63 :: Q')).2.1 ∧
    (genFromConfig cfg (P ++ 63 :: Q)).2.2.1 = (genFromConfig cfg (P ++ 63 :: Q')).2.2.1 := by
  rw [gen_from_config_eq_model, gen_from_config_eq_model]
  exact order_independent cfg P Q Q' hP hb hb' hperm hnd hacc

/-- **`marketing_ignored` restated for the translated definition**: same path and same non-marketing pieces ⇒ same
`path_and_query` and same matching key out of the TRANSLATED `from_config`. -/
theorem marketing_ignored_gen (cfg : Cfg) (u u' : Bytes) (hb : IsBytes u) (hb' : IsBytes u')
    (hacc : (pqParse (sanitize u)).isSome = true) (hacc' : (pqParse (sanitize u')).isSome = true)
    (hpath : (splitFirst 63 u).1 = (splitFirst 63 u').1)
    (hkept : keptPieces cfg (queryOf u) = keptPieces cfg (queryOf u')) :
    (genFromConfig cfg u).1 = (genFromConfig cfg u').1 ∧
    (genFromConfig cfg u).2.1 = (genFromConfig cfg u').2.1 := by
  rw [gen_from_config_eq_model, gen_from_config_eq_model]
  have h := marketing_ignored cfg u u' hb hb' hacc hacc' hpath hkept
  refine ⟨h.1, ?_⟩
  have hk := h.2
  unfold reqKey PQS.key at hk
  have hm : ∀ v, ∃ m, (fromConfig cfg v).matching = some m := by
    intro v
    unfold fromConfig
    simp only []
    split <;> simp
  obtain ⟨m, e⟩ := hm u
  obtain ⟨m', e'⟩ := hm u'
  simp only [e, e'] at hk ⊢
  rw [hk]

/-! ### non-vacuity / evaluated instances -/

/-- `/a?b=1&utm_source=x&a=2` under (ignore case off, ignore marketing on, pass on, {utm_source}):
sorted kept parameters `a=2&b=1`, one `?`, one `&`, skipped `utm_source=x`. -/
example :
    genFromConfig ⟨false, true, true, [[117, 116, 109, 95, 115, 111, 117, 114, 99, 101]], false, false⟩
      ([47, 97, 63, 98, 61, 49, 38] ++ [117, 116, 109, 95, 115, 111, 117, 114, 99, 101] ++ [61, 120, 38, 97, 61, 50]) =
      ([47, 97, 63, 97, 61, 50, 38, 98, 61, 49], some [47, 97, 63, 97, 61, 50, 38, 98, 61, 49],
        some ([117, 116, 109, 95, 115, 111, 117, 114, 99, 101] ++ [61, 120]),
        [47, 97, 63, 98, 61, 49, 38] ++ [117, 116, 109, 95, 115, 111, 117, 114, 99, 101] ++ [61, 120, 38, 97, 61, 50]) := by
  decide

/-- the marketing parameter FIRST in sorted order (`a` is the marketing name): the first kept parameter gets no `&`
(the separator looks at the receiving string, not at the position in the map — seed r8e-1). -/
example :
    genFromConfig ⟨false, true, false, [[97]], false, false⟩ [47, 63, 98, 61, 49, 38, 97, 61, 50] =
      ([47, 63, 98, 61, 49], some [47, 63, 98, 61, 49], none, [47, 63, 98, 61, 49, 38, 97, 61, 50]) := by
  decide

/-- the `Err` fallback (back-quote in the path), lower-cased under the flag. -/
example :
    genFromConfig ⟨true, false, false, [], false, false⟩ [47, 96, 65] =
      ([47, 96, 65], some [47, 96, 97], none, [47, 96, 65]) := by
  decide

/-- the hypotheses of `order_independent_gen` are satisfiable, with a real permutation. -/
example :
    (63 ∉ ([47, 97] : Bytes)) ∧ (pieces 38 [98, 61, 49, 38, 97, 61, 50]).Perm (pieces 38 [97, 61, 50, 38, 98, 61, 49]) ∧
    ((parseQuery [98, 61, 49, 38, 97, 61, 50]).map Prod.fst).Nodup ∧
    (pqParse (sanitize ([47, 97] ++ 63 :: [98, 61, 49, 38, 97, 61, 50]))).isSome = true := by
  refine ⟨by decide, ?_, by decide, by decide⟩
  show List.Perm [[98, 61, 49], [97, 61, 50]] [[97, 61, 50], [98, 61, 49]]
  exact List.Perm.swap _ _ _

/-! ### rule side: `Request::build_sorted_query` (src/http/request.rs) translated -/

/-- **translated `build_sorted_query` = the hand-written model with its external functions as parameters**, for
ARBITRARY encoder / `form_urlencoded::parse` / `BTreeMap` collect and every query string. -/
theorem gen_sorted_query_eq_param_model (enc : List Nat → Bytes → Bytes) (pq : Bytes → List (Bytes × Bytes))
    (bt : List (Bytes × Bytes) → List (Bytes × Bytes)) (q : Bytes) :
    genBuildSortedQuery enc pq bt q = buildSortedQueryP enc pq bt q :=
  gen_sorted_eq_P enc pq bt q

/-- **translated `build_sorted_query` = `Rio.Url.buildSortedQuery`** at the stand-ins; no hypothesis. -/
theorem gen_sorted_query_eq_model (q : Bytes) :
    genBuildSortedQuery pctEncode parseQuery btCollect q = buildSortedQuery q := by
  rw [gen_sorted_eq_P, buildSortedQueryP_standins]

/-- `query_string.pop()` is translated as `List.dropLast` (a BYTE; Rust pops a CHAR): for arbitrary parameters the
string the loop builds is empty or ends in the ASCII `&` (38) just pushed, so the popped char is that one byte or nothing,
and the translated function returns that string without it (`None` when nothing is left). -/
theorem gen_sorted_query_pop_ascii (enc : List Nat → Bytes → Bytes) (pq : Bytes → List (Bytes × Bytes))
    (bt : List (Bytes × Bytes) → List (Bytes × Bytes)) (q : Bytes) :
    ∃ s : Bytes, (s = [] ∨ ∃ t, s = t ++ [38]) ∧
      genBuildSortedQuery enc pq bt q = (if s.dropLast.isEmpty then none else some s.dropLast) :=
  ⟨(bt (pq q)).flatMap (sortedParamP enc), flatMap_sortedParamP_last enc _, gen_sorted_eq_P enc pq bt q⟩

/-- **order independence restated for the translated rule side**: two query strings whose decoded parameter lists are
permutations of each other (distinct decoded keys) give the same sorted query out of the TRANSLATED `build_sorted_query`. -/
theorem sorted_query_order_independent_gen (Q Q' : Bytes) (hperm : (parseQuery Q).Perm (parseQuery Q'))
    (hnd : ((parseQuery Q).map Prod.fst).Nodup) :
    genBuildSortedQuery pctEncode parseQuery btCollect Q = genBuildSortedQuery pctEncode parseQuery btCollect Q' := by
  rw [gen_sorted_eq_P, gen_sorted_eq_P]
  unfold buildSortedQueryP
  rw [btCollect_perm hperm hnd]

/-- a repeated key keeps its LAST value (seed r9f-2 kept the first): `k=1&k=2` ↦ `k=2`; sorted: `b=1&a` ↦ `a&b=1`;
only empty pieces ↦ `None`. -/
example : genBuildSortedQuery pctEncode parseQuery btCollect [107, 61, 49, 38, 107, 61, 50] = some [107, 61, 50] := by decide
example : genBuildSortedQuery pctEncode parseQuery btCollect [98, 61, 49, 38, 97] = some [97, 38, 98, 61, 49] := by decide
example : genBuildSortedQuery pctEncode parseQuery btCollect [38, 38] = none := by decide
/-- the hypotheses of `sorted_query_order_independent_gen` are satisfiable with a real permutation. -/
example : (parseQuery [98, 61, 49, 38, 97]).Perm (parseQuery [97, 38, 98, 61, 49]) ∧
    ((parseQuery [98, 61, 49, 38, 97]).map Prod.fst).Nodup := by
  refine ⟨?_, by decide⟩
  show List.Perm [([98], [49]), ([97], [])] [([97], []), ([98], [49])]
  exact List.Perm.swap _ _ _

end Rio.C09
