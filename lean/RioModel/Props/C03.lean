/-
C03 — body filtering is invariant under chunking of the response stream.

Full statement: `ChunkInvariant tk ev ch` — for every way of cutting a valid UTF-8 body into chunks (empty chunks
included), the concatenated output equals the output for the body delivered as one chunk.

It is FALSE of the code for html filters (known finding D4: the tokenizer context is lost at a chunk cut inside a
raw-text zone / comment / declaration / CDATA): `chunk_invariant_fails` is a kernel-checked counterexample with the
concrete tokenizer model (`<textarea><p>` ‖ `</textarea>`, the same input is pinned against the real code).
What is proved: `text_chunk_invariant` (chains of text filters: unconditional, arbitrary bytes), and the `_partial`
theorems of `Proofs/FilterSplit.lean` re-exported below.
-/
import RioModel.Proofs.FilterText
import RioModel.Proofs.FilterTotal
import RioModel.Proofs.FilterPipe
import RioModel.Model.FilterHtml
set_option linter.unusedSimpArgs false
set_option linter.unusedVariables false

namespace Rio.C03
open Rio.Filter

variable {D E : Type}

/-- the body is valid UTF-8 (the quantifier of the property) -/
def ValidBody (b : Bytes) : Prop := utf8Scan b = .ok

/-- **Full statement** of C03 for a chain `ch` (as built by `Chain.new`), tokenizer `tk`, selector oracle `ev`. -/
def ChunkInvariant (tk : Tokenize) (ev : Bytes → Bytes → Bool) (codec : Codec D E) (ch : Chain D E) : Prop :=
  ∀ cs : List Bytes, ValidBody cs.flatten → ch.run tk ev codec cs = ch.run tk ev codec [cs.flatten]

/-! ### the full statement is false for html filters (D4) -/

/-- `<textarea><p></textarea>` -/
def witnessBody : Bytes :=
  [60, 116, 101, 120, 116, 97, 114, 101, 97, 62, 60, 112, 62, 60, 47, 116, 101, 120, 116, 97, 114, 101, 97, 62]

/-- one filter: prepend_child on path [p], no selector, value `$` -/
def witnessChain : Chain Unit Unit :=
  Chain.new noCodec id [.html "prepend_child" [[112]] none [36]] []

/-- the cut: `<textarea><p>` ‖ `</textarea>` -/
def witnessChunks : List Bytes := [witnessBody.take 13, witnessBody.drop 13]

/-- One chunk: the body comes out unchanged (`<p>` is text of the textarea).  Two chunks: `$` is inserted after `<p>`,
which is re-tokenised as a start tag because the raw-text context is not carried across the cut. -/
theorem witness_outputs :
    witnessChain.run htmlTokenize evalStandIn noCodec [witnessBody] = witnessBody ∧
    witnessChain.run htmlTokenize evalStandIn noCodec witnessChunks =
      witnessBody.take 13 ++ [36] ++ witnessBody.drop 13 := by
  decide +kernel

/-- **The full statement fails** for the tokenizer model of the real tokenizer (known finding D4,
signature `cut-in-raw-text-zone`). -/
theorem chunk_invariant_fails : ¬ ChunkInvariant htmlTokenize evalStandIn noCodec witnessChain := by
  intro h
  have h1 := h witnessChunks (by unfold ValidBody; decide +kernel)
  have h2 : witnessChunks.flatten = witnessBody := by decide +kernel
  rw [h2] at h1
  rw [witness_outputs.1, witness_outputs.2] at h1
  exact absurd h1 (by decide +kernel)

/-! ### text filters: unconditional -/

/-- **Chains of text filters are invariant under chunking**: for arbitrary bytes (no UTF-8 hypothesis), every
chunking, including the `break` of `do_filter` on an empty intermediate result and the feeding order of `do_end`.
The output has the closed form `textTotal` (each stage: append = stream ++ content, prepend = content ++ stream,
replace = content). -/
theorem text_chunk_invariant (tk : Tokenize) (ev : Bytes → Bytes → Bool) (codec : Codec D E)
    (ch : Chain D E) (hall : AllText ch.items) (herr : ch.inError = false) (cs : List Bytes) :
    ch.run tk ev codec cs = ch.run tk ev codec [cs.flatten] :=
  text_chunk_invariant' tk ev codec ch hall herr cs

/-- the closed form itself -/
theorem text_closed_form (tk : Tokenize) (ev : Bytes → Bytes → Bool) (codec : Codec D E)
    (ch : Chain D E) (hall : AllText ch.items) (herr : ch.inError = false) (cs : List Bytes) :
    ch.run tk ev codec cs = textTotal ch.items cs.flatten :=
  run_text tk ev codec ch hall herr cs

/-- a chain built from text filters only consists of text stages, whatever the headers' content type -/
theorem new_text_only (lower : String → String) (fs : List BodyFilter) (headers : List (String × String))
    (henc : headerValue lower Rio.Consts.filterHeaderContentEncoding headers = none)
    (htext : ∀ f ∈ fs, ∃ a c, f = .text a c) :
    AllText (Chain.new noCodec lower fs headers).items ∧ (Chain.new noCodec lower fs headers).inError = false := by
  have hitems : (Chain.new noCodec lower fs headers) =
      { items := fs.filterMap fun f => Stage.new f (headerValue lower Rio.Consts.filterHeaderContentType headers) } := by
    simp only [Chain.new, henc]
    split <;> rfl
  rw [hitems]
  refine ⟨?_, rfl⟩
  intro st hst
  simp only [List.mem_filterMap] at hst
  obtain ⟨f, hf, hnew⟩ := hst
  obtain ⟨a, c, rfl⟩ := htext f hf
  simp only [Stage.new] at hnew
  injection hnew with hnew
  exact ⟨_, hnew.symm⟩

/-- C03 for text filters, stated on `FilterBodyAction::new`. -/
theorem text_filters_chunk_invariant (tk : Tokenize) (ev : Bytes → Bytes → Bool) (lower : String → String)
    (fs : List BodyFilter) (headers : List (String × String))
    (henc : headerValue lower Rio.Consts.filterHeaderContentEncoding headers = none)
    (htext : ∀ f ∈ fs, ∃ a c, f = .text a c) (cs : List Bytes) :
    (Chain.new noCodec lower fs headers).run tk ev noCodec cs =
      (Chain.new noCodec lower fs headers).run tk ev noCodec [cs.flatten] := by
  obtain ⟨h1, h2⟩ := new_text_only lower fs headers henc htext
  exact text_chunk_invariant tk ev noCodec _ h1 h2 cs

/-! ### html filters at safe cuts (partial) -/

/-- **Splitting lemma** (one html stage): at a safe cut, the total output — outputs of the `filter` calls followed by
`end()` — on `x ++ r` is the output of `filter(x)` followed by the total of the new state on `r`.
`SafeCutT tk L x r` is a decidable statement about three tokenizations (Proofs/FilterTotal.lean): up to splitting of
text tokens, the tokens of `L ++ x ++ r` are the tokens processed for `L ++ x` (prefix stability) followed by the
tokens of a FRESH tokenizer on `held tail ++ r` (restart), same remainder, held tail at a character boundary. -/
theorem split_lemma (tk : Tokenize) (ev : Bytes → Bytes → Bool) (s s1 : HtmlSt) (x r o1 : Bytes)
    (h1 : filterHtml tk ev s x = some (s1, o1)) (hsafe : SafeCutT tk s.last x r) :
    htmlTotal tk ev s (x ++ r) = (htmlTotal tk ev s1 r).map fun t => o1 ++ t :=
  total_split tk ev s s1 x r o1 h1 hsafe

/-- the strict form: when the token lists agree exactly (`SafeCut`), even the states agree:
`filter(x); filter(y)` = `filter(x ++ y)` -/
theorem split_lemma_strict (tk : Tokenize) (ev : Bytes → Bytes → Bool) (s s1 : HtmlSt) (x y o1 : Bytes)
    (h1 : filterHtml tk ev s x = some (s1, o1)) (hsafe : SafeCut tk s.last x y) :
    filterHtml tk ev s (x ++ y) = (filterHtml tk ev s1 y).map fun r => (r.1, o1 ++ r.2) :=
  filterHtml_merge tk ev s s1 x y o1 h1 hsafe

/-- **Chunk invariance at safe cuts** for a chain that consists of one html filter: for every non-empty schedule all
of whose cuts are safe (`SafeRun`: each cut seen from the state the stage is in when the chunk arrives, with
everything that follows as continuation) and on which no call fails (valid UTF-8 body), the concatenated output is the
output of the single chunk.  No tokenizer law is assumed: what the proof needs from the tokenizer is exactly the
hypothesis, which is executable (`safeRunB`) and is evaluated on the tokenizer model by the driver and on the real
tokenizer by the harness.  That it holds at every cut outside a comment / declaration / CDATA / raw-text zone is a
property of the tokenizer that is differential-tested (every single cut of every generated body), not proved. -/
theorem chunk_invariant_partial (tk : Tokenize) (ev : Bytes → Bytes → Bool) (codec : Codec D E)
    (s : HtmlSt) (cs : List Bytes) (hne : cs ≠ []) (hsafe : SafeRun tk ev s cs)
    (hok : seqRun tk ev s cs ≠ none) :
    ({ items := [.html s] } : Chain D E).run tk ev codec cs =
      ({ items := [.html s] } : Chain D E).run tk ev codec [cs.flatten] := by
  cases hr : seqRun tk ev s cs with
  | none => exact absurd hr hok
  | some r =>
    obtain ⟨s', o⟩ := r
    have ht := seqRun_total tk ev cs s s' o hne hsafe hr
    rw [run_single_html tk ev codec cs s s' o hr]
    unfold htmlTotal at ht
    cases hf : filterHtml tk ev s cs.flatten with
    | none => simp [hf] at ht
    | some rb =>
      obtain ⟨sb, ob⟩ := rb
      simp only [hf, Option.map_some] at ht
      injection ht with ht
      have hs : seqRun tk ev s [cs.flatten] = some (sb, ob) := by simp [seqRun, hf]
      rw [run_single_html tk ev codec [cs.flatten] s sb ob hs, ht]

/-- **Chunk invariance at safe cuts for a chain of any number of html and text filters.**  The chain is a pipeline:
each stage receives the NON-EMPTY outputs of the previous one (the `break` of `do_filter`) and, at end of stream, what
the previous stage emits at end as one piece.  If no call fails and every stage is safe (`SafeG`: `SafeRun` for each
html stage on the pieces it actually receives, nothing for text stages) both in the run on the schedule `cs` and in the
run on the single chunk, the two concatenated outputs are equal.  (`SafeG` is executable: `safeGB`.) -/
theorem chain_chunk_invariant_partial (tk : Tokenize) (ev : Bytes → Bytes → Bool) (codec : Codec D E)
    (items : List (Stage D E)) (hp : AllPlain items) (cs : List Bytes) (hne : cs ≠ [])
    (hsafe : SafeG tk ev codec items cs none) (hsafe1 : SafeG tk ev codec items [cs.flatten] none)
    (hok : runG tk ev codec items cs none ≠ none) (hok1 : runG tk ev codec items [cs.flatten] none ≠ none) :
    ({ items := items } : Chain D E).run tk ev codec cs =
      ({ items := items } : Chain D E).run tk ev codec [cs.flatten] := by
  cases h : runG tk ev codec items cs none with
  | none => exact absurd h hok
  | some out =>
    cases h1 : runG tk ev codec items [cs.flatten] none with
    | none => exact absurd h1 hok1
    | some out1 =>
      rw [run_of_runG tk ev codec cs items out h, run_of_runG tk ev codec [cs.flatten] items out1 h1]
      exact runG_stream tk ev codec items cs none [cs.flatten] none out out1 hp (by simp)
        (Or.inl ⟨by simpa using hne, by simp⟩) hsafe hsafe1 h h1

/-- the Boolean evaluated by the driver implies the hypothesis -/
theorem safeGB_implies (tk : Tokenize) (ev : Bytes → Bytes → Bool) (codec : Codec D E)
    (items : List (Stage D E)) (ps : List Bytes) (fin : Option Bytes)
    (h : safeGB tk ev codec items ps fin = true) : SafeG tk ev codec items ps fin :=
  safeGB_sound tk ev codec items ps fin h

/-- the Boolean evaluated by the driver implies the hypothesis -/
theorem safeRunB_implies (tk : Tokenize) (ev : Bytes → Bytes → Bool) (s : HtmlSt) (cs : List Bytes)
    (h : safeRunB tk ev s cs = true) : SafeRun tk ev s cs :=
  safeRunB_sound tk ev cs s h

/-- `chunk_invariant_partial` is not vacuous on the tokenizer model of the real tokenizer: the schedule
`<di` ‖ `v><p>x y` ‖ ` z</` ‖ `p></div>` (cuts inside a start tag, inside plain text, inside an end tag) is safe, the
filter acts (`$` is prepended in `<p>`), and both runs agree — by the theorem, not by evaluating the two runs. -/
def safeBody : List Bytes :=
  [[60, 100, 105], [118, 62, 60, 112, 62, 120, 32, 121], [32, 122, 60, 47], [112, 62, 60, 47, 100, 105, 118, 62]]

def safeStage : HtmlSt := HtmlSt.new { kind := .prepend, cur := [112], content := [36] }

theorem safe_example :
    ({ items := [.html safeStage] } : Chain Unit Unit).run htmlTokenize evalStandIn noCodec safeBody =
      ({ items := [.html safeStage] } : Chain Unit Unit).run htmlTokenize evalStandIn noCodec [safeBody.flatten] :=
  chunk_invariant_partial htmlTokenize evalStandIn noCodec safeStage safeBody (by decide)
    (safeRunB_sound htmlTokenize evalStandIn safeBody safeStage (by decide +kernel))
    (by
      have : (seqRun htmlTokenize evalStandIn safeStage safeBody).isSome = true := by decide +kernel
      intro h; rw [h] at this; simp at this)

/-- ... and the filter does act on that input -/
theorem safe_example_acts :
    ({ items := [.html safeStage] } : Chain Unit Unit).run htmlTokenize evalStandIn noCodec [safeBody.flatten] =
      [60, 100, 105, 118, 62, 60, 112, 62, 36, 120, 32, 121, 32, 122, 60, 47, 112, 62, 60, 47, 100, 105, 118, 62] := by
  decide +kernel

/-- the D4 witness is (of course) not a safe run -/
theorem witness_not_safe :
    safeRunB htmlTokenize evalStandIn (HtmlSt.new { kind := .prepend, cur := [112], content := [36] }) witnessChunks = false := by
  decide +kernel

/-! ### non-vacuity -/

example (cs : List Bytes) :
    (Chain.new noCodec id [.text .prepend [80], .text .append [65], .text .replace [88]] []).run htmlTokenize evalStandIn noCodec cs =
    (Chain.new noCodec id [.text .prepend [80], .text .append [65], .text .replace [88]] []).run htmlTokenize evalStandIn noCodec [cs.flatten] :=
  text_filters_chunk_invariant _ _ id _ [] rfl (by
    intro f hf; simp at hf; rcases hf with rfl | rfl | rfl <;> exact ⟨_, _, rfl⟩) cs

end Rio.C03
