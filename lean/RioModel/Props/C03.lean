/-
C03 — body filtering is invariant under chunking of the response stream.

Full statement: `ChunkInvariant tk ev ch` — for every way of cutting a valid UTF-8 body into chunks (empty chunks
included), the concatenated output equals the output for the body delivered as one chunk.

It is FALSE of the code for html filters (known finding D4: the tokenizer context is lost at a chunk cut inside a
raw-text zone / comment / declaration / CDATA): `chunk_invariant_fails` is a kernel-checked counterexample with the
concrete tokenizer model (`<textarea><p>` ‖ `</textarea>`, the same input is pinned against the real code).
What is proved: `text_chunk_invariant` (chains of text filters: unconditional, arbitrary bytes), and the `_partial`
theorems of `Proofs/FilterSplit.lean` re-exported below.
-/
import RioModel.Proofs.FilterText
import RioModel.Model.FilterHtml
set_option linter.unusedSimpArgs false
set_option linter.unusedVariables false

namespace Rio.C03
open Rio.Filter

variable {D E : Type}

/-- the body is valid UTF-8 (the quantifier of the property) -/
def ValidBody (b : Bytes) : Prop := utf8Scan b = .ok

/-- **Full statement** of C03 for a chain `ch` (as built by `Chain.new`), tokenizer `tk`, selector oracle `ev`. -/
def ChunkInvariant (tk : Tokenize) (ev : Bytes → Bytes → Bool) (codec : Codec D E) (ch : Chain D E) : Prop :=
  ∀ cs : List Bytes, ValidBody cs.flatten → ch.run tk ev codec cs = ch.run tk ev codec [cs.flatten]

/-! ### the full statement is false for html filters (D4) -/

/-- `<textarea><p></textarea>` -/
def witnessBody : Bytes :=
  [60, 116, 101, 120, 116, 97, 114, 101, 97, 62, 60, 112, 62, 60, 47, 116, 101, 120, 116, 97, 114, 101, 97, 62]

/-- one filter: prepend_child on path [p], no selector, value `$` -/
def witnessChain : Chain Unit Unit :=
  Chain.new noCodec id [.html "prepend_child" [[112]] none [36]] []

/-- the cut: `<textarea><p>` ‖ `</textarea>` -/
def witnessChunks : List Bytes := [witnessBody.take 13, witnessBody.drop 13]

/-- One chunk: the body comes out unchanged (`<p>` is text of the textarea).  Two chunks: `$` is inserted after `<p>`,
which is re-tokenised as a start tag because the raw-text context is not carried across the cut. -/
theorem witness_outputs :
    witnessChain.run htmlTokenize evalStandIn noCodec [witnessBody] = witnessBody ∧
    witnessChain.run htmlTokenize evalStandIn noCodec witnessChunks =
      witnessBody.take 13 ++ [36] ++ witnessBody.drop 13 := by
  decide +kernel

/-- **The full statement fails** for the tokenizer model of the real tokenizer (known finding D4,
signature `cut-in-raw-text-zone`). -/
theorem chunk_invariant_fails : ¬ ChunkInvariant htmlTokenize evalStandIn noCodec witnessChain := by
  intro h
  have h1 := h witnessChunks (by unfold ValidBody; decide +kernel)
  have h2 : witnessChunks.flatten = witnessBody := by decide +kernel
  rw [h2] at h1
  rw [witness_outputs.1, witness_outputs.2] at h1
  exact absurd h1 (by decide +kernel)

/-! ### text filters: unconditional -/

/-- **Chains of text filters are invariant under chunking**: for arbitrary bytes (no UTF-8 hypothesis), every
chunking, including the `break` of `do_filter` on an empty intermediate result and the feeding order of `do_end`.
The output has the closed form `textTotal` (each stage: append = stream ++ content, prepend = content ++ stream,
replace = content). -/
theorem text_chunk_invariant (tk : Tokenize) (ev : Bytes → Bytes → Bool) (codec : Codec D E)
    (ch : Chain D E) (hall : AllText ch.items) (herr : ch.inError = false) (cs : List Bytes) :
    ch.run tk ev codec cs = ch.run tk ev codec [cs.flatten] :=
  text_chunk_invariant' tk ev codec ch hall herr cs

/-- the closed form itself -/
theorem text_closed_form (tk : Tokenize) (ev : Bytes → Bytes → Bool) (codec : Codec D E)
    (ch : Chain D E) (hall : AllText ch.items) (herr : ch.inError = false) (cs : List Bytes) :
    ch.run tk ev codec cs = textTotal ch.items cs.flatten :=
  run_text tk ev codec ch hall herr cs

/-- a chain built from text filters only consists of text stages, whatever the headers' content type -/
theorem new_text_only (lower : String → String) (fs : List BodyFilter) (headers : List (String × String))
    (henc : headerValue lower Rio.Consts.filterHeaderContentEncoding headers = none)
    (htext : ∀ f ∈ fs, ∃ a c, f = .text a c) :
    AllText (Chain.new noCodec lower fs headers).items ∧ (Chain.new noCodec lower fs headers).inError = false := by
  have hitems : (Chain.new noCodec lower fs headers) =
      { items := fs.filterMap fun f => Stage.new f (headerValue lower Rio.Consts.filterHeaderContentType headers) } := by
    simp only [Chain.new, henc]
    split <;> rfl
  rw [hitems]
  refine ⟨?_, rfl⟩
  intro st hst
  simp only [List.mem_filterMap] at hst
  obtain ⟨f, hf, hnew⟩ := hst
  obtain ⟨a, c, rfl⟩ := htext f hf
  simp only [Stage.new] at hnew
  injection hnew with hnew
  exact ⟨_, hnew.symm⟩

/-- C03 for text filters, stated on `FilterBodyAction::new`. -/
theorem text_filters_chunk_invariant (tk : Tokenize) (ev : Bytes → Bytes → Bool) (lower : String → String)
    (fs : List BodyFilter) (headers : List (String × String))
    (henc : headerValue lower Rio.Consts.filterHeaderContentEncoding headers = none)
    (htext : ∀ f ∈ fs, ∃ a c, f = .text a c) (cs : List Bytes) :
    (Chain.new noCodec lower fs headers).run tk ev noCodec cs =
      (Chain.new noCodec lower fs headers).run tk ev noCodec [cs.flatten] := by
  obtain ⟨h1, h2⟩ := new_text_only lower fs headers henc htext
  exact text_chunk_invariant tk ev noCodec _ h1 h2 cs

/-! ### non-vacuity -/

example (cs : List Bytes) :
    (Chain.new noCodec id [.text .prepend [80], .text .append [65], .text .replace [88]] []).run htmlTokenize evalStandIn noCodec cs =
    (Chain.new noCodec id [.text .prepend [80], .text .append [65], .text .replace [88]] []).run htmlTokenize evalStandIn noCodec [cs.flatten] :=
  text_filters_chunk_invariant _ _ id _ [] rfl (by
    intro f hf; simp at hf; rcases hf with rfl | rfl | rfl <;> exact ⟨_, _, rfl⟩) cs

end Rio.C03
